# C06 — quadrant split/join is lossless and symmetrisation is a projector.
#
#   theorems        coq/props/C06.v  (proofs in coq/proofs/Symmetry*.v)
#   model           coq/model/Symmetry.v (hand-written, executable)
#   tie             correspondence: model (Q instance, vm_compute) vs
#                   abel.tools.symmetry on the same generated cases
#   search          the clauses of the property evaluated on the implementation
import itertools
import json
import warnings

import numpy as np

import vlib
from vlib import Hit

LEVEL = 'proof'

AXES = [None, 0, 1, (0, 1), [0, 1], (1, 0), [0], (1,), []]
AXES_PROPERTY = [None, 0, 1, (0, 1), [0, 1]]          # the property's quantifier
MASKS = list(itertools.product([True, False], repeat=4))
METHODS = ['average', 'fourier']


def ax_coq(ax):
    if isinstance(ax, (list, tuple)):
        tup = isinstance(ax, tuple)
        el = ax
    else:
        tup = False
        el = [ax]
    return '{| ax_tuple := %s; ax_elems := %s |}' % (
        vlib.bool_lit(tup),
        vlib.list_lit(['None' if e is None else 'Some %s%%Z' % vlib.z_lit(e) for e in el]))


def mask_coq(u):
    return '{| u0 := %s; u1 := %s; u2 := %s; u3 := %s |}' % tuple(vlib.bool_lit(b) for b in u)


METH_COQ = {'average': 'Average', 'fourier': 'Fourier'}


def run_impl(IM, reorient, ax, mask, meth):
    from abel.tools.symmetry import get_image_quadrants, put_image_quadrants
    with warnings.catch_warnings(), np.errstate(all='ignore'):
        warnings.simplefilter('ignore')
        try:
            Q = get_image_quadrants(IM, reorient=reorient, symmetry_axis=ax,
                                    use_quadrants=mask, symmetrize_method=meth)
        except ValueError:
            return ('ValueError',)
        except Exception as e:      # noqa
            return ('Other', type(e).__name__)
        Q = [np.asarray(q, dtype=float) for q in Q]
        if not all(np.all(np.isfinite(q)) for q in Q):
            return ('NonFinite',)
        if reorient:
            try:
                pn = put_image_quadrants(Q, IM.shape, None)
                pa = put_image_quadrants(Q, IM.shape, ax)
            except Exception as e:  # noqa
                return ('Other', type(e).__name__)
        else:
            pn = pa = np.zeros((0, 0))
        return ('Ok', Q, pn, pa)


def gen_cases(ctx, rng):
    """Correspondence cases.  quick: random sample; thorough: full grid of
    shapes 1..7 x 1..7 (every parity and aspect), 9 axis spellings, 16 masks,
    2 methods + an unknown one, reorient on/off."""
    cases = []
    shapes = [(n, m) for n in range(1, 8) for m in range(1, 8)]
    if ctx.quick:
        for _ in range(2400):
            n, m = shapes[rng.integers(len(shapes))]
            ax = AXES[rng.integers(len(AXES))]
            mask = MASKS[rng.integers(16)] if rng.random() < 0.7 else (True,) * 4
            meth = 'average' if rng.random() < 0.6 else ('fourier' if rng.random() < 0.9 else 'foo')
            reorient = bool(rng.random() < 0.85)
            cases.append((n, m, ax, mask, meth, reorient))
    else:
        for (n, m) in shapes:
            for ax in AXES:
                for mask in MASKS:
                    for meth in ('average', 'fourier'):
                        cases.append((n, m, ax, mask, meth, True))
                    if rng.random() < 0.3:
                        cases.append((n, m, ax, mask, 'average', False))
                    if rng.random() < 0.05:
                        cases.append((n, m, ax, mask, 'foo', True))
    out = []
    for (n, m, ax, mask, meth, reorient) in cases:
        IM = rng.integers(-9, 10, size=(n, m))
        if rng.random() < 0.75:
            IM = IM.astype(float)
        out.append(dict(IM=IM, ax=ax, mask=mask, meth=meth, reorient=reorient))
    return out


def case_coq(c, res):
    if res[0] == 'Ok':
        Q, pn, pa = res[1], res[2], res[3]
        exp = 'EOk %s %s %s' % (' '.join(vlib.img_q(q.tolist()) for q in Q),
                                vlib.img_q(pn.tolist()), vlib.img_q(pa.tolist()))
    else:
        exp = {'ValueError': 'EValueError', 'NonFinite': 'ENonFinite', 'Other': 'EOther'}[res[0]]
    meth = METH_COQ.get(c['meth'], 'OtherMethod')
    return ('{| c_im := %s; c_reorient := %s; c_axis := %s; c_mask := %s; c_meth := %s; c_expect := %s |}'
            % (vlib.img_q(c['IM'].tolist()), vlib.bool_lit(c['reorient']), ax_coq(c['ax']),
               mask_coq(c['mask']), meth, exp))


def correspondence(ctx, rng):
    cases = gen_cases(ctx, rng)
    results = [run_impl(c['IM'], c['reorient'], c['ax'], c['mask'], c['meth']) for c in cases]
    shard = 400
    texts = []
    for k in range(0, len(cases), shard):
        body = vlib.list_lit([case_coq(c, r) for c, r in zip(cases[k:k + shard], results[k:k + shard])])
        texts.append(('C06_%03d' % (k // shard),
                      vlib.HEADER_CASES +
                      'From PA Require Import base.QClose model.Symmetry model.SymmetryQ.\nOpen Scope Q_scope.\n'
                      'Definition cases : list case := %s.\n'
                      'Definition res := map check cases.\n'
                      'Eval vm_compute in (count_true res, false_idx 0 res).\n' % body))
    outs = vlib.coq_eval_many(texts)
    bad = []
    n_ok = 0
    errors = []
    for k, (name, _) in enumerate(texts):
        rc, out = outs[name]
        r = vlib.parse_eval_lists(out)
        if rc != 0 or not r:
            errors.append((name, out[-500:]))
            continue
        import re
        m = re.match(r'\((\d+), (.*)\)$', r[0])
        n_ok += int(m.group(1))
        bad += [k * shard + i for i in vlib.parse_nat_list(m.group(2))]
    dist = {}
    for c, r in zip(cases, results):
        key = '%s/%s/%s' % (c['meth'], 'axis=%r' % (c['ax'],), r[0])
        dist[key] = dist.get(key, 0) + 1
    return cases, results, n_ok, bad, errors, dist


# ---------------------------------------------------------------------------
# the property itself, evaluated on the implementation
# ---------------------------------------------------------------------------

def spec_undefined(ax, mask):
    u0, u1, u2, u3 = mask
    if ax is None:
        return not all(mask)
    s = set(ax) if isinstance(ax, (list, tuple)) else {ax}
    if 0 in s and 1 in s:
        return not any(mask)
    if 0 in s:
        return (not (u0 or u1)) or (not (u2 or u3))
    if 1 in s:
        return (not (u1 or u2)) or (not (u0 or u3))
    return not all(mask)


def spec_mean(IM, ax, mask):
    """Mean of the image and its mirror image(s) over the enabled quadrants;
    central row belongs to the lower quadrants, central column to the
    right-hand ones (where the result is assembled from)."""
    n, m = IM.shape
    u0, u1, u2, u3 = [float(b) for b in mask]
    s = set(ax) if isinstance(ax, (list, tuple)) else {ax}
    S = np.empty((n, m))
    for i in range(n):
        for j in range(m):
            rt, rb = min(i, n - 1 - i), max(i, n - 1 - i)
            cl, cr = min(j, m - 1 - j), max(j, m - 1 - j)
            top = i < n // 2
            right = j >= m // 2
            if 0 in s and 1 in s:
                num = u0 * IM[rt, cr] + u1 * IM[rt, cl] + u2 * IM[rb, cl] + u3 * IM[rb, cr]
                den = u0 + u1 + u2 + u3
            elif 0 in s:
                if top:
                    num, den = u0 * IM[i, cr] + u1 * IM[i, cl], u0 + u1
                else:
                    num, den = u3 * IM[i, cr] + u2 * IM[i, cl], u3 + u2
            elif 1 in s:
                if right:
                    num, den = u0 * IM[rt, j] + u3 * IM[rb, j], u0 + u3
                else:
                    num, den = u1 * IM[rt, j] + u2 * IM[rb, j], u1 + u2
            else:
                num, den = IM[i, j], 1.0
            S[i, j] = num / den
    return S


SNIPPET = '''
import json, warnings, sys
import numpy as np
warnings.simplefilter('ignore')
from abel.tools.symmetry import get_image_quadrants as get, put_image_quadrants as put
IM = np.array(%(IM)s, dtype=float)
ax = %(ax)r; mask = %(mask)r; meth = %(meth)r; clause = %(clause)r
if clause.startswith('dtype:'):
    IMd = IM.astype(clause.split(':')[1])     # (the stored values are exactly representable in that dtype)
def sym(X):
    return put(get(X, symmetry_axis=ax, use_quadrants=mask, symmetrize_method=meth), X.shape, ax)
def close(a, b): return a.shape == b.shape and np.allclose(a, b, rtol=1e-12, atol=1e-12)
ok = True
try:
    if clause == 'put_get_id':
        ok = np.array_equal(put(get(IM), IM.shape), IM)
    elif clause == 'rejects-defined':
        sym(IM); ok = False     # must have raised
    elif clause == 'accepts-undefined':
        ok = bool(np.all(np.isfinite(sym(IM))))
    elif clause == 'mirror':
        S = sym(IM); s = set(ax) if isinstance(ax, (list, tuple)) else {ax}
        ok = (0 not in s or np.array_equal(S, S[:, ::-1])) and (1 not in s or np.array_equal(S, S[::-1]))
    elif clause == 'fix':
        ok = close(sym(IM), IM)
    elif clause == 'idem':
        S = sym(IM); ok = close(sym(S), S)
    elif clause == 'mean':
        expected = np.array(%(expected)s, dtype=float)
        ok = close(sym(IM), expected)
    elif clause.startswith('dtype:'):
        ok = np.allclose(np.asarray(sym(IMd), dtype=float), sym(IM), rtol=1e-5, atol=1e-5 * (1 + np.abs(IM).max()))
except ValueError as e:
    ok = (clause == 'rejects-defined')
    if clause == 'accepts-undefined': ok = False
print('clause', clause, 'holds' if ok else 'FAILS', 'for symmetry_axis=%%r use_quadrants=%%r method=%%r shape=%%r' %% (ax, mask, meth, IM.shape))
sys.exit(0 if ok else 1)
'''


TR_SNIPPET = '''
import json, warnings, sys
import numpy as np
warnings.simplefilter('ignore')
import abel
IM = np.array(%(IM)s, dtype=float)
ax = %(ax)r; mask = %(mask)r; meth = %(meth)r; clause = %(clause)r
try:
    T = abel.Transform(IM, method='hansenlaw', direction='inverse', origin='none', symmetry_axis=ax,
                       use_quadrants=mask, symmetrize_method=meth).transform
    raised = False
except ValueError:
    raised = True
if clause == 'transform-rejects-defined':
    ok = not raised
elif clause == 'transform-accepts-undefined':
    ok = raised
else:
    s = set(ax) if isinstance(ax, (list, tuple)) else {ax}
    ok = (not raised) and (0 not in s or np.allclose(T, T[:, ::-1], rtol=1e-9, atol=1e-9)) \\
        and (1 not in s or np.allclose(T, T[::-1], rtol=1e-9, atol=1e-9))
print('clause', clause, 'holds' if ok else 'FAILS', 'for abel.Transform(symmetry_axis=%%r, use_quadrants=%%r, symmetrize_method=%%r) on shape %%r' %% (ax, mask, meth, IM.shape))
sys.exit(0 if ok else 1)
'''


def search_transform(ctx, rng, budget):
    """The same clauses observed through abel.Transform(..., symmetry_axis=...,
    symmetrize_method=...).transform (the second observation point of the
    property): a request leaving a quadrant undefined is rejected, every other
    request is accepted, and the transform of the symmetrised image is
    mirror-symmetric in the requested sense (hansenlaw acts on each quadrant row
    by row, so it preserves the mirror relations between quadrants)."""
    import abel
    hits, n_eval, distinct = [], 0, set()

    def mkhit(clause, IM, ax, mask, meth, what):
        snip = TR_SNIPPET % dict(IM=json.dumps(np.asarray(IM, dtype=float).tolist()), ax=ax, mask=tuple(mask),
                                 meth=meth, clause=clause)
        return Hit(clause, 'C06:%s:%s:axis=%s' % (clause, meth, axkey(ax)), what, snip,
                   dict(shape=list(IM.shape), symmetry_axis=repr(ax), use_quadrants=list(mask), method=meth))

    shapes = [(5, 5), (6, 7), (7, 6), (8, 8), (9, 5), (4, 9)]
    with np.errstate(all='ignore'):
        for it in range(budget):
            n, m = shapes[it % len(shapes)]
            IM = rng.normal(size=(n, m)) * 10
            for ax in AXES_PROPERTY:
                for meth in METHODS:
                    masks = MASKS if it < len(shapes) else [MASKS[rng.integers(16)], (True,) * 4]
                    for mask in masks:
                        n_eval += 1
                        distinct.add(('Transform', axkey(ax), meth, mask, n % 2, m % 2))
                        undefined = spec_undefined(ax, mask)
                        try:
                            T = abel.Transform(IM, method='hansenlaw', direction='inverse', origin='none',
                                               symmetry_axis=ax, use_quadrants=mask, symmetrize_method=meth).transform
                        except ValueError:
                            if not undefined:
                                hits.append(mkhit('transform-rejects-defined', IM, ax, mask, meth,
                                                  'abel.Transform rejects a request with all output quadrants defined'))
                            continue
                        if undefined:
                            hits.append(mkhit('transform-accepts-undefined', IM, ax, mask, meth,
                                              'abel.Transform does not reject a request leaving a quadrant undefined'
                                              + ('' if np.all(np.isfinite(T)) else ' (non-finite output)')))
                            continue
                        s = set(ax) if isinstance(ax, (list, tuple)) else {ax}
                        if (0 in s and not np.allclose(T, T[:, ::-1], rtol=1e-9, atol=1e-9)) or \
                                (1 in s and not np.allclose(T, T[::-1], rtol=1e-9, atol=1e-9)):
                            hits.append(mkhit('transform-mirror', IM, ax, mask, meth,
                                              'abel.Transform(...).transform is not mirror-symmetric in the requested sense'))
    return hits, n_eval, len(distinct)


def axkey(ax):
    return repr(ax).replace(' ', '')


def search(ctx, rng, budget):
    """Evaluate the clauses of C06 on the implementation."""
    from abel.tools.symmetry import get_image_quadrants as get, put_image_quadrants as put
    hits = []
    n_eval = 0
    distinct = set()

    def close(a, b):
        return a.shape == b.shape and np.allclose(a, b, rtol=1e-12, atol=1e-12)

    def mkhit(clause, IM, ax, mask, meth, what, key=None, expected=None):
        snip = SNIPPET % dict(IM=json.dumps(np.asarray(IM, dtype=float).tolist()), ax=ax, mask=tuple(mask),
                              meth=meth, clause=clause,
                              expected=json.dumps(expected.tolist()) if expected is not None else '[]')
        return Hit(clause, key or 'C06:%s:%s:axis=%s' % (clause, meth, axkey(ax)), what, snip,
                   dict(shape=list(IM.shape), symmetry_axis=repr(ax), use_quadrants=list(mask), method=meth))

    def sym(X, ax, mask, meth):
        return put(get(X, symmetry_axis=ax, use_quadrants=mask, symmetrize_method=meth), X.shape, ax)

    shapes = [(n, m) for n in range(2, 10) for m in range(2, 10)] + [(2, 31), (30, 3), (16, 17), (21, 20)]
    warnings.simplefilter('ignore')
    with np.errstate(all='ignore'):
        for it in range(budget):
            n, m = shapes[it % len(shapes)]
            IM = rng.normal(size=(n, m)) * 10
            # 1. split/join
            n_eval += 1
            distinct.add(('id', n % 2, m % 2))
            if not np.array_equal(put(get(IM), IM.shape), IM):
                hits.append(mkhit('put_get_id', IM, None, (True,) * 4, 'average',
                                  'put(get(IM)) != IM for shape %r' % (IM.shape,)))
            for ax in AXES_PROPERTY:
                for meth in METHODS:
                    masks = MASKS if it < 2 * len(shapes) else [MASKS[rng.integers(16)], (True,) * 4]
                    for mask in masks:
                        n_eval += 1
                        undefined = spec_undefined(ax, mask)
                        distinct.add((axkey(ax), meth, mask, n % 2, m % 2))
                        try:
                            S = sym(IM, ax, mask, meth)
                        except ValueError:
                            if not undefined:
                                hits.append(mkhit('rejects-defined', IM, ax, mask, meth,
                                                  'request with all output quadrants defined is rejected'))
                            continue
                        if undefined:
                            hits.append(mkhit('accepts-undefined', IM, ax, mask, meth,
                                              'request leaving a quadrant undefined is not rejected'
                                              + ('' if np.all(np.isfinite(S)) else ' (non-finite output)')))
                            continue
                        s = set(ax) if isinstance(ax, (list, tuple)) else {ax}
                        if (0 in s and not np.array_equal(S, S[:, ::-1])) or (1 in s and not np.array_equal(S, S[::-1])):
                            hits.append(mkhit('mirror', IM, ax, mask, meth, 'result is not mirror-symmetric'))
                        # mean over the enabled quadrants (average method)
                        if meth == 'average':
                            E = spec_mean(IM, ax, mask)
                            if not close(S, E):
                                hits.append(mkhit('mean', IM, ax, mask, meth,
                                                  'result is not the mean over the enabled quadrants', expected=E))
                        # idempotent
                        S2 = sym(S, ax, mask, meth)
                        if not close(S2, S):
                            hits.append(mkhit('idem', IM, ax, mask, meth, 'applying twice changes the result'))
                        # fixed points
                        X = IM
                        if 0 in s:
                            X = (X + X[:, ::-1]) / 2
                        if 1 in s:
                            X = (X + X[::-1]) / 2
                        SX = sym(X, ax, mask, meth)
                        if not close(SX, X):
                            hits.append(mkhit('fix', X, ax, mask, meth, 'an already symmetric image is changed'))
    # dtype independence: an image stored in a narrower dtype (values exactly
    # representable) is symmetrised to the same values as its float64 copy
    DTYPES = ['int8', 'uint8', 'int16', 'uint16', 'int32', 'int64', 'float32']
    with np.errstate(all='ignore'):
        for it in range(max(2, budget // 12)):
            n, m = shapes[(7 * it + 3) % len(shapes)]
            for dt in DTYPES:
                info = np.iinfo(dt) if not dt.startswith('float') else None
                if info is not None:
                    # values near the extremes of the type: sums of 2 or 4 of them leave its range
                    lo, hi = (info.min // 2, info.max) if info.min < 0 else (info.max // 2, info.max)
                    IMd = rng.integers(lo, hi, size=(n, m), endpoint=True).astype(dt)
                else:
                    IMd = (rng.normal(size=(n, m)) * 10).astype(dt)
                IMf = IMd.astype(float)
                for ax in AXES_PROPERTY:
                    for meth in METHODS:
                        for mask in [(True,) * 4, MASKS[rng.integers(16)]]:
                            if spec_undefined(ax, mask):
                                continue
                            n_eval += 1
                            distinct.add(('dtype', dt, axkey(ax), meth))
                            try:
                                Sd = np.asarray(sym(IMd, ax, mask, meth), dtype=float)
                                Sf = sym(IMf, ax, mask, meth)
                            except ValueError:
                                continue
                            if not np.allclose(Sd, Sf, rtol=1e-5, atol=1e-5 * (1 + np.abs(IMf).max())):
                                hits.append(mkhit('dtype:' + dt, IMf, ax, mask, meth,
                                                  'the %s image is not symmetrised to the values of its float64 copy '
                                                  '(max difference %.3g)' % (dt, np.abs(Sd - Sf).max()),
                                                  key='C06:dtype:%s:%s:axis=%s' % (dt, meth, axkey(ax))))
    return hits, n_eval, len(distinct)


def run(ctx):
    rng = np.random.default_rng(ctx.seed)
    # 1. theorems
    pr = vlib.coq_props('C06', extra_targets=['model/SymmetryQ.vo'], translators=['symmetry_src'])
    ctx.cov.update(obligations=len(pr['theorems']), discharged=pr['discharged'],
                   theorems=pr['theorems'], axioms=pr['axioms'],
                   checker_cmd='make -C /verif/coq props/C06.vo (coqc 8.16.1, full .vo build) + Print Assumptions',
                   trusted_base=vlib.TRUSTED_COMMON + ['axioms reported by Print Assumptions: ' + ', '.join(pr['axioms'])])
    # 2. correspondence
    cases, results, n_ok, bad, errors, dist = correspondence(ctx, rng)
    ctx.cov.update(traces_validated_against_impl=n_ok, correspondence_cases=len(cases),
                   correspondence_disagreements=len(bad), input_distribution=dist)
    # 3. search on the implementation
    broken = (not pr['ok']) or bad or errors
    budget = (70 if ctx.quick else 400) * (4 if broken else 1)
    hits, n_eval, n_distinct = search(ctx, rng, budget)
    h2, e2, d2 = search_transform(ctx, rng, (8 if ctx.quick else 60) * (3 if broken else 1))
    hits += h2
    n_eval += e2
    n_distinct += d2
    ctx.cov.update(evaluations=n_eval + len(cases), distinct_nontrivial=n_distinct,
                   rule='search: random real images over shapes 2..9 x 2..9 (+4 larger), 5 symmetry_axis values of the '
                        'property, both methods, all 16 masks on the first passes then random masks; a case is distinct by '
                        '(axis, method, mask, row parity, column parity); dtype independence (7 narrower dtypes with values near the extremes of the type vs the float64 copy); the rejection and mirror clauses are also observed through abel.Transform (hansenlaw, origin none) on 6 shapes; correspondence cases are counted in evaluations only',
                   samples=[dict(shape=list(c['IM'].shape), symmetry_axis=repr(c['ax']), use_quadrants=list(c['mask']),
                                 method=c['meth'], reorient=c['reorient'], outcome=r[0])
                            for c, r in list(zip(cases, results))[:5]],
                   exhaustive=False)
    new = 0
    seen = set()
    for h in hits:
        if (h.key, h.clause) in seen:
            continue
        seen.add((h.key, h.clause))
        if ctx.report_hit(h):
            new += 1
    if not pr['ok'] and new == 0:
        ctx.report_broken('proof', pr['broken'] or 'props/C06.v', pr['error'] or '')
    if (bad or errors) and new == 0:
        detail = ''
        if bad:
            c = cases[bad[0]]
            detail = 'first disagreeing case: shape=%r symmetry_axis=%r use_quadrants=%r method=%r reorient=%r impl=%s' % (
                c['IM'].shape, c['ax'], c['mask'], c['meth'], c['reorient'], results[bad[0]][0])
        if errors:
            detail += ' coq errors: %r' % (errors[:1],)
        ctx.report_broken('correspondence', 'model/Symmetry.v vs abel/tools/symmetry.py (%d of %d cases disagree)'
                          % (len(bad), len(cases)), detail)
    ctx.assumptions += [
        'theorems are about the R instance of the polymorphic model coq/model/Symmetry.v; the correspondence runs its Q instance',
        'Fourier branch (real_components) modelled as g[j] = (f[j] + f[m-1-j])/2 (DFT shift identity, validated by correspondence, not proved)',
    ]
