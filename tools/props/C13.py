# C13 — origin finders return the true centre of symmetric images and follow shifts.
#
#   theorems        coq/props/C13.v  (proofs in coq/proofs/Origin*.v)
#   model           coq/model/Origin.v (hand-written, executable), OriginQ.v
#   tie             correspondence: model (Q instance, vm_compute) vs
#                   abel.tools.center.find_origin on integer-valued images
#   search          the clauses of the property evaluated on the implementation
#                   (incl. the Gaussian-fit method, whose optimiser is external)
import json
import re
import warnings

import numpy as np

import vlib
from vlib import Hit

LEVEL = 'proof'

METHODS = ['image_center', 'com', 'convolution']
METH_COQ = {'image_center': 'ImageCenter', 'com': 'Com', 'convolution': 'Convolution'}
AXES = [0, 1, (0, 1)]


def ax_flags(axes):
    s = {axes} if isinstance(axes, int) else set(axes)
    return (0 in s, 1 in s)


def symmetric_image(rng, n, m, s0, s1, lo, hi, real=False):
    """random content mirrored about the centre (s0/2, s1/2) of the half-pixel
    grid; zero where the mirror image would fall outside the frame"""
    IM = np.zeros((n, m))
    a0, b0 = max(0, s0 - (n - 1)), min(n - 1, s0)
    a1, b1 = max(0, s1 - (m - 1)), min(m - 1, s1)
    if a0 > b0 or a1 > b1:
        return IM
    if real:
        X = rng.uniform(lo, hi, size=(b0 - a0 + 1, b1 - a1 + 1))
    else:
        X = rng.integers(lo, hi + 1, size=(b0 - a0 + 1, b1 - a1 + 1)).astype(float)
    IM[a0:b0 + 1, a1:b1 + 1] = X + X[::-1, ::-1]
    return IM


# ---------------------------------------------------------------------------
# correspondence
# ---------------------------------------------------------------------------

def run_impl(c):
    from abel.tools.center import find_origin
    kw = {}
    if c.get('round') is not None:
        kw['round_output'] = c['round']
    if c.get('proj'):
        kw['projections'] = True
    with warnings.catch_warnings(), np.errstate(all='ignore'):
        warnings.simplefilter('ignore')
        try:
            o = find_origin(c['IM'], method=c['meth'], axes=c['axes'], **kw)
        except Exception as e:      # noqa
            return ('Raises', type(e).__name__)
    conv = None
    if c.get('proj'):
        o, conv0, conv1 = o
        conv = [None if v is None else [float(x) for x in v] for v in (conv0, conv1)]
    o = [float(v) for v in o]
    if not all(np.isfinite(o)):
        return ('NonFinite',)
    return ('Ok', o[0], o[1], conv)


def gen_cases(ctx, rng):
    cases = []

    def options(c):
        """every documented option value of the modelled methods: round_output (None = not passed / False / True;
        acted upon by com, swallowed by the others), projections=True (convolution)"""
        c['round'] = [None, False, True, True][rng.integers(4)] if c['meth'] == 'com' else \
            [None, None, None, True][rng.integers(4)]
        c['proj'] = bool(c['meth'] == 'convolution' and rng.random() < 0.4)

    shapes = [(n, m) for n in range(1, 10) for m in range(1, 10)]
    nsym = 500 if ctx.quick else 6000
    nasym = 400 if ctx.quick else 4000
    # symmetric images: every centre of the half-pixel grid within one pixel of the middle
    for _ in range(nsym):
        n, m = shapes[rng.integers(len(shapes))]
        s0 = int(np.clip(n - 1 + rng.integers(-2, 3), 0, 2 * n - 2))
        s1 = int(np.clip(m - 1 + rng.integers(-2, 3), 0, 2 * m - 2))
        lo = 0 if rng.random() < 0.7 else -5
        IM = symmetric_image(rng, n, m, s0, s1, lo, 9)
        if rng.random() < 0.3:
            IM = IM.astype(int)
        cases.append(dict(kind='symmetric', IM=IM, meth=['com', 'convolution'][rng.integers(2)],
                          axes=AXES[rng.integers(3)], centre=(s0 / 2, s1 / 2)))
        options(cases[-1])
    for _ in range(nasym):
        n, m = shapes[rng.integers(len(shapes))]
        lo = 0 if rng.random() < 0.6 else -9
        IM = rng.integers(lo, 10, size=(n, m))
        if rng.random() < 0.1:
            IM = IM * 0
        if rng.random() < 0.6:
            IM = IM.astype(float)
        cases.append(dict(kind='asymmetric', IM=IM, meth=METHODS[rng.integers(3)],
                          axes=AXES[rng.integers(3)] if rng.random() < 0.95 else ()))
        options(cases[-1])
    # two point masses in adjacent pixels: centre of mass k + w2/(w1+w2), incl. exact ties (k + 1/2)
    for _ in range(120 if ctx.quick else 1500):
        n, m = shapes[rng.integers(len(shapes))]
        IM = np.zeros((n, m))
        i, j = int(rng.integers(n)), int(rng.integers(m))
        w1, w2 = (1, 1) if rng.random() < 0.4 else (int(rng.integers(1, 9)), int(rng.integers(1, 9)))
        IM[i, j] = w1
        IM[min(i + 1, n - 1), min(j + 1, m - 1)] += w2
        cases.append(dict(kind='two-masses', IM=IM, meth='com', axes=AXES[rng.integers(3)], round=True))
    return cases


def case_coq(c, res):
    if res[0] == 'Ok':
        exp = 'EOk %s %s' % (vlib.q_lit(res[1]), vlib.q_lit(res[2]))
    else:
        exp = 'ENonFinite'
    ax0, ax1 = ax_flags(c['axes'])
    proj = 'None'
    if res[0] == 'Ok' and res[3] is not None:
        def ol(v):
            return 'None' if v is None else '(Some %s)' % vlib.list_lit([vlib.q_lit(x) for x in v])
        proj = '(Some (%s, %s))' % (ol(res[3][0]), ol(res[3][1]))
    return ('{| c_im := %s; c_meth := %s; c_ax0 := %s; c_ax1 := %s; c_round := %s; c_proj := %s; c_expect := %s |}'
            % (vlib.img_q(np.asarray(c['IM']).tolist()), METH_COQ[c['meth']], vlib.bool_lit(ax0),
               vlib.bool_lit(ax1), vlib.bool_lit(bool(c.get('round'))), proj, exp))


def correspondence(ctx, rng):
    cases = gen_cases(ctx, rng)
    results = [run_impl(c) for c in cases]
    # round(nan) / round(inf) raise for the centre of mass of a zero-total image: same class as the nan result
    results = [('NonFinite',) if (r[0] == 'Raises' and c.get('round') and c['meth'] == 'com' and r[1] in ('ValueError', 'OverflowError'))
               else r for c, r in zip(cases, results)]
    raised = [i for i, r in enumerate(results) if r[0] == 'Raises']
    shard = 400
    texts = []
    for k in range(0, len(cases), shard):
        body = vlib.list_lit([case_coq(c, r) for c, r in zip(cases[k:k + shard], results[k:k + shard])])
        texts.append(('C13_%03d' % (k // shard),
                      vlib.HEADER_CASES +
                      'From PA Require Import base.QClose model.Origin model.OriginQ.\nOpen Scope Q_scope.\n'
                      'Definition cases : list case := %s.\n'
                      'Definition res := map check cases.\n'
                      'Eval vm_compute in (count_true res, false_idx 0 res).\n' % body))
    outs = vlib.coq_eval_many(texts)
    bad, errors, n_ok = list(raised), [], 0
    for k, (name, _) in enumerate(texts):
        rc, out = outs[name]
        r = vlib.parse_eval_lists(out)
        if rc != 0 or not r:
            errors.append((name, out[-500:]))
            continue
        m = re.match(r'\((\d+), (.*)\)$', r[0])
        n_ok += int(m.group(1))
        bad += [k * shard + i for i in vlib.parse_nat_list(m.group(2)) if k * shard + i not in raised]
    dist = {}
    for c, r in zip(cases, results):
        key = '%s/%s%s%s/%s' % (c['kind'], c['meth'], '+round' if c.get('round') else '',
                                '+projections' if c.get('proj') else '', r[0])
        dist[key] = dist.get(key, 0) + 1
    return cases, results, n_ok, sorted(set(bad)), errors, dist


# ---------------------------------------------------------------------------
# the property itself, evaluated on the implementation
# ---------------------------------------------------------------------------

SNIPPET = r'''
import json, sys, warnings
import numpy as np
warnings.simplefilter('ignore')
from abel.tools.center import find_origin
P = json.loads(%(payload)r)
clause = P['clause']; meth = P['method']; axes = P['axes']
axes = tuple(axes) if isinstance(axes, list) else axes
IM = np.array(P['IM'], dtype=float)
if P.get('spot'):
    # noiseless separable Gaussian spot (closed form): shape, centre, widths, amplitude, background
    S = P['spot']
    i = np.arange(S['shape'][0])[:, None]; j = np.arange(S['shape'][1])[None, :]
    IM = S['amp'] * np.exp(-(i - S['mu'][0]) ** 2 / 2 / S['sigma'][0] ** 2) * np.exp(-(j - S['mu'][1]) ** 2 / 2 / S['sigma'][1] ** 2) + S['bg']
sel = [a in ({axes} if isinstance(axes, int) else set(axes)) for a in (0, 1)]
centre = [IM.shape[0] // 2, IM.shape[1] // 2]
def err(o, e):
    return max(abs(float(o[a]) - e[a]) for a in (0, 1))
def evaluate():
    o = find_origin(IM, method=meth, axes=axes)
    if clause in ('symmetric', 'gaussian', 'image_center', 'unselected'):
        e = [P['expected'][a] if (sel[a] and clause not in ('image_center', 'unselected')) else centre[a] for a in (0, 1)]
        if clause == 'unselected':
            e = [float(o[a]) if sel[a] else centre[a] for a in (0, 1)]
        d = err(o, e)
        return d <= P['tol'], 'origin %%r expected %%r (tolerance %%g)' %% (tuple(float(v) for v in o), e, P['tol'])
    if clause == 'shift':
        a, b = P['shift']
        IM2 = np.roll(np.roll(IM, a, axis=0), b, axis=1)
        o2 = find_origin(IM2, method=meth, axes=axes)
        e = [float(o[0]) + (a if sel[0] and meth != 'image_center' else 0),
             float(o[1]) + (b if sel[1] and meth != 'image_center' else 0)]
        return err(o2, e) <= P['tol'], 'shift %%r: origin %%r -> %%r' %% ((a, b), tuple(map(float, o)), tuple(map(float, o2)))
    if clause == 'round':
        # integer-valued image: exact centre of mass as a rational, nearest integer (exact ties excluded)
        from fractions import Fraction
        o = find_origin(IM, method=meth, axes=axes, round_output=True)
        A = np.asarray(IM).astype(np.int64)
        tot = int(A.sum()); bad = []
        for a in (0, 1):
            if sel[a]:
                w = int((np.arange(A.shape[a]) * A.sum(axis=1 - a)).sum())
                c = Fraction(w, tot); f = c - (c.numerator // c.denominator)
                if f == Fraction(1, 2):
                    continue
                e = c.numerator // c.denominator + (1 if f > Fraction(1, 2) else 0)
            else:
                e = centre[a]
            if float(o[a]) != e:
                bad.append('axis %%d: %%r, nearest integer to the centre of mass is %%r' %% (a, o[a], e))
        return not bad, '; '.join(bad)
    if clause == 'round-gaussian':
        o = find_origin(IM, method='gaussian', axes=axes, round_output=True)
        e = [round(P['expected'][a]) if sel[a] else centre[a] for a in (0, 1)]
        return [float(v) for v in o] == [float(v) for v in e], 'rounded origin %%r expected %%r' %% (tuple(o), e)
    if clause == 'projections':
        o1 = find_origin(IM, method='convolution', axes=axes)
        o2, c0, c1 = find_origin(IM, method='convolution', axes=axes, projections=True)
        ok = tuple(map(float, o1)) == tuple(map(float, o2))
        for a, cv in ((0, c0), (1, c1)):
            if not sel[a]:
                ok = ok and cv is None
                continue
            p = np.asarray(IM).sum(axis=1 - a)
            want = [sum(p[i] * p[k - i] for i in range(len(p)) if 0 <= k - i < len(p)) for k in range(2 * len(p) - 1)]
            ok = ok and cv is not None and len(cv) == len(want) and np.allclose(cv, want, rtol=1e-12, atol=0)
        return ok, 'origin %%r / %%r' %% (tuple(map(float, o1)), tuple(map(float, o2)))
    if clause == 'center_image':
        # observed through abel.center_image: the origin found by the method is put on (rows//2, cols//2) of the
        # result; IM holds a blob symmetric about a pixel centre.  image_center: no shift at all.
        from abel.tools.center import center_image
        out = center_image(IM, method=meth, odd_size=P['odd_size'], square=P['square'], axes=(0, 1), order=P['order'])
        if meth == 'image_center':
            T = IM[:, :IM.shape[1] - 1] if (P['odd_size'] and IM.shape[1] %% 2 == 0) else IM
            r, c = T.shape
            if P['square'] and r != c:
                if r > c:
                    T = T[(r - c) // 2:(r - c) // 2 + c]
                else:
                    if P['odd_size'] and r %% 2 == 0:
                        T = T[:r - 1]; r -= 1
                    T = T[:, (c - r) // 2:(c - r) // 2 + r]
            return out.shape == T.shape and np.array_equal(out, T), 'shape %%r -> %%r (trimmed input %%r)' %% (IM.shape, out.shape, T.shape)
        tot = out.sum()
        cm = [float((np.arange(out.shape[a]) * out.sum(axis=1 - a)).sum() / tot) for a in (0, 1)]
        d = max(abs(cm[a] - out.shape[a] // 2) for a in (0, 1))
        return d <= P['tol'], 'centre of the blob in the result %%r, image centre %%r' %% (cm, [out.shape[0] // 2, out.shape[1] // 2])
    if clause == 'scale-pow2':
        # multiplying by a power of two scales every float exactly: the reported origin must be bit-identical
        o2 = find_origin(IM * 2.0 ** P['k'], method=meth, axes=axes)
        same = all(float(o2[a]) == float(o[a]) for a in (0, 1))
        e = [P['expected'][a] if sel[a] else centre[a] for a in (0, 1)] if P.get('expected') else [float(v) for v in o]
        d = err(o2, e)
        return same and d <= P['tol'], 'factor 2**%%d: origin %%r -> %%r%%s' %% (
            P['k'], tuple(map(float, o)), tuple(map(float, o2)), '' if not P.get('expected') else ' (spot centre %%r)' %% (P['expected'],))
    if clause == 'scale':
        o2 = find_origin(IM * P['factor'], method=meth, axes=axes)
        return err(o2, [float(v) for v in o]) <= P['tol'], 'factor %%r: origin %%r -> %%r' %% (
            P['factor'], tuple(map(float, o)), tuple(map(float, o2)))
    return False, 'unknown clause'
try:
    ok, msg = evaluate()
except Exception as e:
    ok, msg = False, 'raises %%s: %%s' %% (type(e).__name__, e)
print('clause', clause, 'holds' if ok else 'FAILS', 'method=%%r axes=%%r shape=%%r' %% (meth, axes, IM.shape), msg)
sys.exit(0 if ok else 1)
'''

TOL = {'image_center': 0.0, 'com': 1e-9, 'convolution': 0.0, 'gaussian': 1e-6}


def mkhit(clause, meth, axes, IM, what, tol, **extra):
    payload = dict(clause=clause, method=meth, axes=list(axes) if isinstance(axes, tuple) else axes,
                   IM=np.asarray(IM, dtype=float).tolist(), tol=tol)
    payload.update(extra)
    snip = SNIPPET % dict(payload=json.dumps(payload))
    d = dict(shape=list(np.asarray(IM).shape), method=meth, axes=repr(axes))
    d.update(extra)
    return Hit(clause, 'C13:%s:%s:axes=%s' % (clause, meth, repr(axes).replace(' ', '')), what, snip, d)


def eval_snippet_clause(hit):
    """run the replay program of a prospective hit in-process: True = clause holds"""
    import contextlib
    import io
    g = {'__name__': 'c13_clause'}
    try:
        with contextlib.redirect_stdout(io.StringIO()):
            exec(compile(hit.snippet, '<C13 clause>', 'exec'), g)
    except SystemExit as e:
        return e.code == 0
    except Exception:       # noqa
        return False
    return True


def gaussian_spot(rng, n, m):
    """noiseless Gaussian spot well inside the frame (+ optional background)"""
    mu = (rng.uniform(0.35 * n, 0.65 * n), rng.uniform(0.35 * m, 0.65 * m))
    if max(n, m) >= 400 and rng.random() < 0.6:       # a narrow spot on a large frame
        sg = (rng.uniform(2.5, 8), rng.uniform(2.5, 8))
    else:
        sg = (rng.uniform(0.06 * n, 0.12 * n), rng.uniform(0.06 * m, 0.12 * m))
    amp = rng.uniform(0.5, 100)
    bg = 0.0 if rng.random() < 0.5 else rng.uniform(0, 0.2) * amp
    i = np.arange(n)[:, None]
    j = np.arange(m)[None, :]
    IM = amp * np.exp(-(i - mu[0]) ** 2 / 2 / sg[0] ** 2) * np.exp(-(j - mu[1]) ** 2 / 2 / sg[1] ** 2) + bg
    return IM, mu, bg, dict(shape=[n, m], mu=[float(v) for v in mu], sigma=[float(v) for v in sg], amp=float(amp), bg=float(bg))


def search(ctx, rng, budget):
    from abel.tools.center import find_origin
    hits, n_eval, distinct = [], 0, set()
    warnings.simplefilter('ignore')

    def err(o, e):
        return max(abs(float(o[a]) - e[a]) for a in (0, 1))

    for it in range(budget):
        n, m = (int(v) for v in rng.integers(1, 41, size=2))
        if it % 25 == 0:
            n, m = int(rng.integers(100, 300)), int(rng.integers(100, 300))
        axes = AXES[rng.integers(3)]
        sel = ax_flags(axes)
        centre = [n // 2, m // 2]
        # 1. symmetric images, real content, every centre of the half-pixel grid near the middle
        s0 = int(np.clip(n - 1 + rng.integers(-4, 5), 0, 2 * n - 2))
        s1 = int(np.clip(m - 1 + rng.integers(-4, 5), 0, 2 * m - 2))
        IM = symmetric_image(rng, n, m, s0, s1, 0.1, 10.0, real=True)
        for meth in ('com', 'convolution'):
            n_eval += 1
            distinct.add(('sym', meth, repr(axes), n % 2, m % 2, s0 % 2, s1 % 2))
            e = [s0 / 2 if sel[0] else centre[0], s1 / 2 if sel[1] else centre[1]]
            tol = TOL[meth] * max(n, m)
            try:
                o = find_origin(IM, method=meth, axes=axes)
                good = err(o, e) <= tol
            except Exception:       # noqa
                good, o = False, None
            if not good:
                hits.append(mkhit('symmetric', meth, axes, IM,
                                  'image point-symmetric about %r: %s reports %r' % ((s0 / 2, s1 / 2), meth, o),
                                  tol, expected=[s0 / 2, s1 / 2]))
        # 2. whole-pixel translation with empty margins, 3. positive scaling, 4. image_center, 5. unselected axes
        mg0, mg1 = max(1, n // 4), max(1, m // 4)
        C = np.zeros((n, m))
        if n > 2 * mg0 and m > 2 * mg1:
            blob = rng.integers(1, 20, size=(n - 2 * mg0, m - 2 * mg1)).astype(float)
            if rng.random() < 0.5:
                blob = blob * rng.uniform(0.5, 2.0, size=blob.shape)
            C[mg0:n - mg0, mg1:m - mg1] = blob
        else:
            C[n // 2, m // 2] = 1.0
            mg0, mg1 = min(mg0, n // 2, (n - 1) // 2), min(mg1, m // 2, (m - 1) // 2)
        a, b = int(rng.integers(-mg0, mg0 + 1)), int(rng.integers(-mg1, mg1 + 1))
        integer_valued = bool(np.all(C == np.round(C)))
        fac_any = float(rng.uniform(0.01, 100)) if rng.random() < 0.7 else float(2 ** int(rng.integers(-8, 9)))
        # the convolution method compares floating-point sums: only factors that scale every sum exactly
        # (powers of two; small integers on integer-valued content) keep exact ties tied
        fac_exact = float(rng.integers(2, 50)) if (integer_valued and rng.random() < 0.5) \
            else float(2 ** int(rng.integers(-8, 9)))
        for meth in METHODS:
            tol = TOL[meth] * max(n, m)
            fac = fac_exact if meth == 'convolution' else fac_any
            try:
                o = [float(v) for v in find_origin(C, method=meth, axes=axes)]
                C2 = np.roll(np.roll(C, a, axis=0), b, axis=1)
                o2 = find_origin(C2, method=meth, axes=axes)
                mv = meth != 'image_center'
                e2 = [o[0] + (a if sel[0] and mv else 0), o[1] + (b if sel[1] and mv else 0)]
                good_shift = err(o2, e2) <= tol
                o3 = find_origin(C * fac, method=meth, axes=axes)
                good_scale = err(o3, o) <= tol
                good_unsel = all(sel[k] or float(o[k]) == centre[k] for k in (0, 1))
                good_ic = meth != 'image_center' or (float(o[0]) == centre[0] and float(o[1]) == centre[1])
            except Exception:       # noqa
                good_shift = good_scale = good_unsel = good_ic = False
            n_eval += 4
            distinct.add(('eq', meth, repr(axes), n % 2, m % 2, (a > 0) - (a < 0), (b > 0) - (b < 0)))
            if not good_shift:
                hits.append(mkhit('shift', meth, axes, C, 'translating the content by %r does not move the origin '
                                  'reported by %s by the same amount' % ((a, b), meth), tol, shift=[a, b]))
            if not good_scale:
                hits.append(mkhit('scale', meth, axes, C, 'multiplying the image by %r moves the origin reported by %s'
                                  % (fac, meth), tol, factor=fac))
            if not good_unsel:
                hits.append(mkhit('unselected', meth, axes, C, 'coordinate of an axis that is not requested is not '
                                  'the image centre (%s)' % meth, 0.0, expected=centre))
            if not good_ic:
                hits.append(mkhit('image_center', meth, axes, C, 'image_center does not report (rows//2, cols//2)',
                                  0.0, expected=centre))
            # positive-scale invariance over many decades: exact powers of two scale every float exactly, so the
            # result must be bit-identical (|k| <= 400: squares in the autoconvolution stay normal numbers)
            kpow = int(rng.integers(-400, 401))
            n_eval += 1
            distinct.add(('pow2', meth, repr(axes), int(np.sign(kpow)), abs(kpow) > 100))
            try:
                o4 = find_origin(C * 2.0 ** kpow, method=meth, axes=axes)
                good_pow = all(float(o4[k_]) == float(o[k_]) for k_ in (0, 1))
            except Exception:       # noqa
                good_pow = False
            if not good_pow:
                hits.append(mkhit('scale-pow2', meth, axes, C, 'multiplying the image by 2**%d changes the origin reported by %s'
                                  % (kpow, meth), 0.0, k=kpow))
        # 5b. option values: round_output=True (com) = nearest integer to the exact centre of mass, on
        #     integer-valued images (symmetric about a pixel centre, and arbitrary content); projections=True
        Cint = np.round(C).astype(float)
        s0e, s1e = 2 * int(rng.integers(max(0, (n - 1) // 2 - 2), min(n - 1, (n - 1) // 2 + 2) + 1)), \
            2 * int(rng.integers(max(0, (m - 1) // 2 - 2), min(m - 1, (m - 1) // 2 + 2) + 1))
        Spix = symmetric_image(rng, n, m, s0e, s1e, 1, 9) * float(rng.choice([1.0, 3.0, 7.0]))
        for X, tag in ((Cint, 'content'), (Spix, 'pixel-symmetric')):
            if X.sum() == 0:
                continue
            n_eval += 1
            distinct.add(('round', tag, repr(axes), n % 2, m % 2))
            h = mkhit('round', 'com', axes, X, 'find_origin(method="com", round_output=True) is not the integer nearest to '
                      'the centre of mass (%s image %r)' % (tag, X.shape), 0.0)
            rc_ok = eval_snippet_clause(h)
            if not rc_ok:
                hits.append(h)
        if it % 2 == 0 and n * m <= 900:
            n_eval += 1
            distinct.add(('projections', repr(axes), n % 2, m % 2))
            h = mkhit('projections', 'convolution', axes, Cint, 'find_origin(method="convolution", projections=True) does '
                      'not return the same origin plus the autoconvolved projections', 0.0)
            if not eval_snippet_clause(h):
                hits.append(h)
        # 6. Gaussian fit on noiseless spots (optimiser external: only swept)
        if it % 3 == 0:
            gn, gm = (int(v) for v in rng.integers(12, 80, size=2))
            if it % 60 == 0 or (budget > 1000 and it % 30 == 0):       # a few large frames (>= 400 px)
                gn, gm = (int(v) for v in rng.integers(400, 1100, size=2))
            G, mu, bg, spot = gaussian_spot(rng, gn, gm)
            sel_g = ax_flags(axes)
            n_eval += 3
            distinct.add(('gauss', repr(axes), gn % 2, gm % 2, bg > 0))
            e = [mu[0] if sel_g[0] else gn // 2, mu[1] if sel_g[1] else gm // 2]
            kpow = int(rng.integers(-400, 401))
            try:
                o = [float(v) for v in find_origin(G, method='gaussian', axes=axes)]
                good = err(o, e) <= TOL['gaussian']
                ga, gb = int(rng.integers(-2, 3)), int(rng.integers(-2, 3))
                G2, _, _ = G, None, None
                i = np.arange(gn)[:, None]
                j = np.arange(gm)[None, :]
                o3 = find_origin(G * 3.7, method='gaussian', axes=axes)
                good_scale = err(o3, o) <= TOL['gaussian']
                o5 = find_origin(G * 2.0 ** kpow, method='gaussian', axes=axes)
                good_pow = all(float(o5[k_]) == float(o[k_]) for k_ in (0, 1)) and err(o5, e) <= TOL['gaussian']
            except Exception:       # noqa
                good = good_scale = good_pow = False
            n_eval += 1
            distinct.add(('pow2', 'gaussian', repr(axes), int(np.sign(kpow)), abs(kpow) > 100, gn >= 400))
            if not good_pow:
                hits.append(mkhit('scale-pow2', 'gaussian', axes, [[0.0]], 'multiplying a Gaussian spot %r by 2**%d changes the '
                                  'fitted origin / moves it off the spot centre' % ((gn, gm), kpow), TOL['gaussian'], k=kpow,
                                  expected=list(mu), spot=spot))
            if not good:
                hits.append(mkhit('gaussian', 'gaussian', axes, [[0.0]], 'Gaussian spot centred at %r: gaussian fit reports '
                                  'something else' % (mu,), TOL['gaussian'], expected=list(mu), spot=spot))
            if not good_scale:
                hits.append(mkhit('scale', 'gaussian', axes, [[0.0]], 'multiplying a Gaussian spot by 3.7 moves the fitted origin',
                                  TOL['gaussian'], factor=3.7, spot=spot))
            if all(abs(v - np.floor(v) - 0.5) > 1e-3 for v in mu):
                n_eval += 1
                h = mkhit('round-gaussian', 'gaussian', axes, [[0.0]], 'find_origin(method="gaussian", round_output=True) is not '
                          'the integer nearest to the spot centre %r' % (mu,), 0.0, expected=list(mu), spot=spot)
                if not eval_snippet_clause(h):
                    hits.append(h)
    # 6b. observed through abel.center_image: a blob symmetric about a pixel centre near the middle ends up centred on
    #     (rows//2, cols//2) of the result, for every method, odd_size / square flag, parity and aspect
    for it in range(max(40, budget // 4)):
        n, m = (int(v) for v in rng.integers(16, 40, size=2))
        k0, k1 = n // 2 + int(rng.integers(-1, 2)), m // 2 + int(rng.integers(-1, 2))
        IMc = np.zeros((n, m))
        X = rng.integers(1, 9, size=(5, 5)).astype(float)
        if it % 2:
            g = np.exp(-np.arange(-2, 3) ** 2 / 2.0)
            X = np.outer(g, g) * 50
        IMc[k0 - 2:k0 + 3, k1 - 2:k1 + 3] = X + X[::-1, ::-1]
        odd, sq = bool(rng.random() < 0.6), bool(rng.random() < 0.4)
        meth = ['image_center', 'com', 'convolution', 'gaussian'][rng.integers(4)]
        if meth == 'gaussian' and not it % 2:
            meth = 'com'
        order = int(rng.integers(0, 4))
        n_eval += 1
        distinct.add(('ci', meth, odd, sq, n % 2, m % 2, (n > m) - (n < m), order))
        h = mkhit('center_image', meth, (0, 1), IMc, 'center_image(method=%r, odd_size=%s, square=%s, order=%d) on a %r image with a blob '
                  'symmetric about pixel (%d, %d) does not put it on the image centre' % (meth, odd, sq, order, (n, m), k0, k1),
                  # (gaussian: the fit of a compact, truncated blob is only approximately its symmetry centre)
                  1e-6 if meth != 'gaussian' else 0.05, odd_size=odd, square=sq, order=order)
        if not eval_snippet_clause(h):
            hits.append(h)
    # 7. Gaussian spots over the whole space: frames 10 .. 1100 px, width 0.6 px .. a quarter of the frame,
    #    positions anywhere the spot (+-3 sigma) is inside the frame, other axis 12 / 40 / 300 px, amplitudes over 5
    #    decades, with and without background: a deterministic grid (frame x width x position) with random jitter,
    #    repeated in the thorough tier
    frames = [10, 14, 20, 33, 50, 80, 128, 200, 333, 512, 801, 1100]
    for rep in range(1 if budget <= 1000 else 6):
        for n in frames:
            for fr in [0.6 / n, 1.0 / n, 1.7 / n, 2.6 / n, 4.0 / n, 0.02, 0.05, 0.1, 0.17, 0.25]:
                sg = fr * n * float(rng.uniform(1.0, 1.15))
                if sg < 0.6 or sg > n / 4:
                    continue
                for pos in (0.15, 0.3, 0.5, 0.62, 0.8, 0.9):
                    mu = pos * (n - 1) + float(rng.uniform(-0.5, 0.5))
                    if mu - 3 * sg < 0 or mu + 3 * sg > n - 1:
                        continue
                    m = [12, 40, 300][rng.integers(3)]
                    mu1, sg1 = float(rng.uniform(0.3, 0.7)) * (m - 1), float(rng.uniform(1.5, m / 8))
                    amp = float(10 ** rng.uniform(-2, 3))
                    bg = 0.0 if rng.random() < 0.5 else float(rng.uniform(0, 0.3)) * amp
                    ax = int(rng.integers(2))
                    spot = dict(shape=[n, m] if ax == 0 else [m, n], mu=[mu, mu1] if ax == 0 else [mu1, mu],
                                sigma=[sg, sg1] if ax == 0 else [sg1, sg], amp=amp, bg=bg)
                    i = np.arange(spot['shape'][0])[:, None]
                    j = np.arange(spot['shape'][1])[None, :]
                    G = amp * np.exp(-(i - spot['mu'][0]) ** 2 / 2 / spot['sigma'][0] ** 2) * \
                        np.exp(-(j - spot['mu'][1]) ** 2 / 2 / spot['sigma'][1] ** 2) + bg
                    n_eval += 1
                    distinct.add(('gauss-grid', n, round(fr, 4), pos, ax))
                    try:
                        o = find_origin(G, method='gaussian', axes=ax)
                        good = abs(float(o[ax]) - mu) <= TOL['gaussian'] and float(o[1 - ax]) == spot['shape'][1 - ax] // 2
                    except Exception:       # noqa
                        good = False
                    if not good:
                        hits.append(mkhit('gaussian', 'gaussian', ax, [[0.0]], 'Gaussian spot of width %.3g px at %.3f on a %d px axis '
                                          '(other axis %d px): the gaussian method does not report its centre' % (sg, mu, n, m),
                                          TOL['gaussian'], expected=spot['mu'], spot=spot))
    return hits, n_eval, len(distinct)


def run(ctx):
    rng = np.random.default_rng(ctx.seed)
    pr = vlib.coq_props('C13')
    ctx.cov.update(obligations=len(pr['theorems']), discharged=pr['discharged'],
                   theorems=pr['theorems'], axioms=pr['axioms'],
                   checker_cmd='make -C /verif/coq props/C13.vo (coqc 8.16.1, full .vo build) + Print Assumptions',
                   trusted_base=vlib.TRUSTED_COMMON + ['axioms reported by Print Assumptions: ' + ', '.join(pr['axioms'])])
    cases, results, n_ok, bad, errors, dist = correspondence(ctx, rng)
    ctx.cov.update(traces_validated_against_impl=n_ok, correspondence_cases=len(cases),
                   correspondence_disagreements=len(bad), input_distribution=dist)
    broken = (not pr['ok']) or bad or errors
    budget = (400 if ctx.quick else 4000) * (4 if broken else 1)
    hits, n_eval, n_distinct = search(ctx, rng, budget)
    ctx.cov.update(evaluations=n_eval + len(cases), distinct_nontrivial=n_distinct,
                   rule='search: random shapes 1..40 (every 25th: 100..300), axes 0 / 1 / (0,1): (1) real-valued content '
                        'mirrored about a centre of the half-pixel grid within 2 px of the middle -> com (1e-9*size) and '
                        'convolution (exact); (2) content with empty margins rolled by whole pixels, (3) multiplied by a '
                        'positive factor (convolution: powers of two, or small integers on integer content, so that exact ties stay tied in binary64), (4) image_center, (5) coordinates of axes not requested, for image_center / com / '
                        'convolution; (6) noiseless Gaussian spots for the gaussian method (1e-6 px), frames 12..80 px and a few of 400..1100 px, plus (6b) abel.center_image puts a blob symmetric about a pixel centre on the image centre (every method / flag / parity); (7) a grid of ~410 spots: axis 10..1100 px x width 0.6 px..frame/4 x 6 positions, other axis 12/40/300 px, amplitude 1e-2..1e3, background; all four methods: multiplication by 2**k, |k| <= 400, must give a bit-identical origin. distinct = (clause '
                        'family, method, axes, parities, centre parities or shift signs); correspondence cases counted in '
                        'evaluations only',
                   samples=[dict(kind=c['kind'], shape=list(np.asarray(c['IM']).shape), method=c['meth'],
                                 axes=repr(c['axes']), outcome=list(r[:3])) for c, r in list(zip(cases, results))[:6]],
                   exhaustive=False)
    new, seen = 0, set()
    for h in hits:
        if h.key in seen:
            continue
        seen.add(h.key)
        if ctx.report_hit(h):
            new += 1
    if not pr['ok'] and new == 0:
        ctx.report_broken('proof', pr['broken'] or 'props/C13.v', pr['error'] or '')
    if (bad or errors) and new == 0:
        detail = ''
        if bad:
            c = cases[bad[0]]
            detail = 'first disagreeing case: kind=%s shape=%r method=%r axes=%r impl=%r image=%r' % (
                c['kind'], np.asarray(c['IM']).shape, c['meth'], c['axes'], results[bad[0]],
                np.asarray(c['IM']).tolist())
        if errors:
            detail += ' coq errors: %r' % (errors[:1],)
        ctx.report_broken('correspondence', 'model/Origin.v vs abel/tools/center.py find_origin (%d of %d cases disagree)'
                          % (len(bad), len(cases)), detail)
    ctx.assumptions += [
        'theorems are about the R instance of the polymorphic model coq/model/Origin.v; the correspondence runs its Q '
        'instance on integer-valued images (all sums exact, one correctly rounded division)',
        'scipy.ndimage.center_of_mass is modelled as sum_i i*proj[i] / sum(proj) on the projections (equal to '
        'sum(IM*grid)/sum(IM) in exact arithmetic; validated by the correspondence)',
        'round_output: the executed (Q) model rounds with qround_even of model/Center.v (nearest, ties to even: '
        'qround_even_near in C12_whole_origin), the theorems use the same rule on R (Rround, C13_round_nearest); the '
        'correspondence includes exact ties (two equal point masses), the search excludes them',
        'scale invariance: powers of two 2**k, |k| <= 400 (beyond that the squares in the autoconvolution leave the normal '
        'binary64 range), must give a bit-identical origin for image_center / com / convolution / gaussian; the gaussian '
        'method has this property since /repo commit 807c223 (projection normalised by its maximum before the fit; before it '
        'the absolute gtol of scipy curve_fit made the fit stop at its start value for pixel values below ~1e-6)',
        'the gaussian method (scipy.optimize.curve_fit) and the slice method (scipy.optimize.minimize) are not modelled: '
        'the gaussian method is only swept numerically on noiseless Gaussian spots (1e-6 px); slice is outside the property',
    ]
