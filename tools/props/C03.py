# C03 — forward and inverse transforms of one method undo each other.
#
#   theorems   coq/props/C03.v (proofs: coq/proofs/MxAlgebra.v) about the
#              matrix expressions GENERATED from /repo on every run
#              (tools/translate/matrix_expr.py -> coq/gen/MatrixExpr.v)
#   tie        (a) the translator re-reads abel/{daun,basex,rbasex}.py and the
#              theorems are re-checked on the regenerated terms; (b) every
#              generated term is evaluated numerically with the
#              implementation's own basis matrices and compared with what the
#              implementation returns on the same options
#   search     the round trips evaluated directly on the implementation
#              (exact class: cond-scaled tolerance; approximate class:
#              calibrated envelopes, swept not proved)
import json
import os

import numpy as np

import vlib
from vlib import Hit
from props import _algebra_common as ac

LEVEL = 'proof'
ENV_FILE = os.path.join(os.path.dirname(__file__), 'C03_envelopes.json')
RTOL_COND = 1e-12          # exact class: relative deviation <= RTOL_COND * cond(operator)
SAFETY = 1.5               # approximate class: calibrated envelope * SAFETY

SNIP_HEAD = '''
import sys, warnings
import numpy as np
warnings.simplefilter('ignore')
import abel, abel.daun, abel.basex, abel.rbasex, abel.hansenlaw, abel.direct
def rel(a, b):
    a = np.asarray(a, float); b = np.asarray(b, float)
    if a.shape != b.shape or not np.all(np.isfinite(a)): return float('inf')
    return float(np.max(np.abs(a - b))) / max(float(np.max(np.abs(b))), float(np.max(np.abs(a))), 1e-300)
'''

SNIP_DAUN = SNIP_HEAD + '''
n, degree, dr, order, seed, rows, tol, reg = %(n)d, %(degree)d, %(dr)r, %(order)r, %(seed)d, %(rows)d, %(tol)r, %(reg)r
X = np.random.default_rng(seed).normal(size=(rows, n)) * 10
T = lambda Y, d: abel.daun.daun_transform(Y, reg=reg, degree=degree, dr=dr, direction=d, basis_dir=None, verbose=False)
R = T(T(X, 'forward'), 'inverse') if order == 'inv(fwd)' else T(T(X, 'inverse'), 'forward')
e = rel(R, X)
print('daun reg=%%r degree=%%d n=%%d dr=%%r %%s: round trip deviates by %%.3e (tolerance %%.3e)' %% (reg, degree, n, dr, order, e, tol))
sys.exit(0 if e <= tol else 1)
'''

SNIP_BASEX = SNIP_HEAD + '''
n, dr, order, seed, rows, tol = %(n)d, %(dr)r, %(order)r, %(seed)d, %(rows)d, %(tol)r
X = np.random.default_rng(seed).normal(size=(rows, n)) * 10
T = lambda Y, d: abel.basex.basex_transform(Y, sigma=1.0, reg=0.0, correction=False, basis_dir=None, dr=dr, verbose=False, direction=d)
R = T(T(X, 'forward'), 'inverse') if order == 'inv(fwd)' else T(T(X, 'inverse'), 'forward')
e = rel(R, X)
print('basex sigma=1 reg=0 correction=False n=%%d dr=%%r %%s: round trip deviates by %%.3e (tolerance %%.3e)' %% (n, dr, order, e, tol))
sys.exit(0 if e <= tol else 1)
'''

SNIP_RBASEX = SNIP_HEAD + '''
Rmax, aorder, odd, k, order, seed, tol, reg = %(Rmax)d, %(aorder)d, %(odd)r, %(k)d, %(order)r, %(seed)d, %(tol)r, %(reg)r
abel.rbasex.cache_cleanup()
Af = abel.rbasex.get_bs_cached(Rmax, aorder, odd, 'forward', None, None, None, False)
Ai = abel.rbasex.get_bs_cached(Rmax, aorder, odd, 'inverse', reg, None, None, False)
p = np.random.default_rng(seed).normal(size=Rmax + 1) * 10
q = Ai[k].dot(Af[k].dot(p)) if order == 'inv(fwd)' else Af[k].dot(Ai[k].dot(p))
P = Ai[k].dot(Af[k]) if order == 'inv(fwd)' else Af[k].dot(Ai[k])
e = max(rel(q, p), rel(P, np.eye(Rmax + 1)))
print('rbasex reg=%%r' %% (reg,), end=' '); print('Rmax=%%d order=%%d odd=%%r matrix %%d %%s: deviates from identity by %%.3e (tolerance %%.3e)' %% (Rmax, aorder, odd, k, order, e, tol))
sys.exit(0 if e <= tol else 1)
'''

APPROX = {
    'hansenlaw0': "lambda x, d, dr: abel.hansenlaw.hansenlaw_transform(x, dr=dr, direction=d, hold_order=0)",
    'hansenlaw1': "lambda x, d, dr: abel.hansenlaw.hansenlaw_transform(x, dr=dr, direction=d, hold_order=1)",
    'direct': "lambda x, d, dr: abel.direct.direct_transform(x, dr=dr, direction=d, correction=True, backend='python')",
    'basex_corrected': "lambda x, d, dr: abel.basex.basex_transform(x, sigma=1.0, reg=0.0, correction=True, "
                       "basis_dir=None, dr=dr, verbose=False, direction=d)",
    # direct on an explicit mesh r= : uniform k*dr, and stretched (non-uniform) dr*(n-1)*(k/(n-1))**1.1
    'direct-mesh-uniform': "lambda x, d, dr: abel.direct.direct_transform(x, r=np.arange(x.shape[-1]) * dr, direction=d, "
                           "correction=True, backend='python')",
    'direct-mesh-stretched': "lambda x, d, dr: abel.direct.direct_transform(x, r=dr * (x.shape[-1] - 1) * "
                             "(np.arange(x.shape[-1]) / (x.shape[-1] - 1.0))**1.1, direction=d, correction=True, backend='python')",
    'direct-mesh-stretched-nocorrection': "lambda x, d, dr: abel.direct.direct_transform(x, r=dr * (x.shape[-1] - 1) * "
                             "(np.arange(x.shape[-1]) / (x.shape[-1] - 1.0))**1.1, direction=d, correction=False, backend='python')",
}
# envelope of an entry on a non-uniform mesh: also bounded by MESH_FACTOR x the envelope of the uniform mesh
MESH_REF = {'direct-mesh-stretched': 'direct-mesh-uniform'}
MESH_FACTOR = 3.0

PROFILES_SRC = '''
def profiles(n):
    r = np.arange(n, dtype=float); R = n - 1
    return {'gauss': np.exp(-r**2 / (2 * (n / 6.)**2)),
            'bump': np.where(r < 0.8 * R, (1 - (r / (0.8 * R))**2)**2, 0.0),
            'ring': np.exp(-(r - 0.5 * R)**2 / (2 * (n / 12.)**2)) + 0.5 * np.exp(-r**2 / (2 * (n / 8.)**2))}
'''
exec(PROFILES_SRC)

SNIP_APPROX = SNIP_HEAD + PROFILES_SRC + '''
meth, n, prof, dr, order, env, dr_tol = %(meth)r, %(n)d, %(prof)r, %(dr)r, %(order)r, %(env)r, 1e-11
f = %(fn)s
p = profiles(n)[prof]; X = np.vstack([p, 2 * p])
rt = lambda dr: f(f(X, 'forward', dr), 'inverse', dr) if order == 'inv(fwd)' else f(f(X, 'inverse', dr), 'forward', dr)
R1 = rt(1.0); R = rt(dr)
e = rel(R, X); edr = rel(R, R1)
print('%%s n=%%d profile=%%s dr=%%r %%s: round-trip error %%.3e (envelope %%.3e); change with dr %%.1e' %% (meth, n, prof, dr, order, e, env, edr))
sys.exit(0 if (e <= env and edr <= dr_tol) else 1)
'''


def approx_fn(meth):
    import abel, abel.hansenlaw, abel.direct, abel.basex   # noqa
    return eval(APPROX[meth], dict(abel=abel, np=np))


def calibrate(sizes=(30, 60, 101, 200)):
    """Run on the UNCHANGED tree only: records the observed round-trip errors
    of the approximate class (the envelopes are swept, not proved)."""
    env = {}
    with ac.quiet():
        for meth in APPROX:
            f = approx_fn(meth)
            for n in sizes:
                for pn, p in profiles(n).items():
                    X = np.vstack([p, 2 * p])
                    a = f(f(X, 'forward', 1.0), 'inverse', 1.0)
                    b = f(f(X, 'inverse', 1.0), 'forward', 1.0)
                    env['%s|%d|%s|inv(fwd)' % (meth, n, pn)] = ac.rel_err(a, X)
                    env['%s|%d|%s|fwd(inv)' % (meth, n, pn)] = ac.rel_err(b, X)
    json.dump(env, open(ENV_FILE, 'w'), indent=0, sort_keys=True)
    return env


def search(ctx, rng, enlarged):
    import abel.daun, abel.basex, abel.rbasex   # noqa
    hits = []
    n_eval = 0
    distinct = set()
    worst = {}
    samples = []
    seed0 = int(rng.integers(1, 2**31 - 1))
    orders = ('inv(fwd)', 'fwd(inv)')
    drs = (0.5, 1.0, 3.0)
    if ctx.quick and not enlarged:
        daun_sizes = [3, 4, 5, 8, 17, 50] + [int(rng.integers(6, 201))]
        basex_sizes = [3, 4, 5, 8, 17, 50]
        rb_sizes = [2, 3, 4, 7, 16, 49]
        approx_sizes = [30, 60]
    else:
        daun_sizes = list(range(3, 201))
        basex_sizes = list(range(3, 61)) + [101, 200]
        rb_sizes = list(range(2, 60)) + [100, 199]
        approx_sizes = [30, 60, 101, 200]
    with ac.quiet():
        # ---- daun, all degrees --------------------------------------------------
        for pas, sizes in enumerate([daun_sizes, sorted(daun_sizes, reverse=True)[::7]]):
            for n in sizes:
                for degree in range(4):
                    if pas == 0:
                        ac.cleanup()         # fresh caches (second pass: cached / cropped bases)
                    B = abel.daun.get_bs_cached(n, degree, direction='forward')
                    tol = RTOL_COND * max(float(np.linalg.cond(B)), 1.0)
                    # every spelling of "no regularisation" and every regulariser family at strength 0
                    regs = [None, 0, 0.0, ('diff', 0), ('L2', 0), ('L2c', 0), ('diff', 0.0)]
                    if n > 40 and not (ctx.quick and not enlarged):
                        regs = [None, regs[1 + (n + degree) % 6]]
                    for reg in regs:
                        for dr in drs:
                            for order in orders:
                                seed = seed0 + n * 101 + degree
                                rows = 1 + (n + degree) % 3
                                X = np.random.default_rng(seed).normal(size=(rows, n)) * 10
                                T = lambda Y, d: abel.daun.daun_transform(Y, reg=reg, degree=degree, dr=dr, direction=d,   # noqa
                                                                          basis_dir=None, verbose=False)
                                try:
                                    R = T(T(X, 'forward'), 'inverse') if order == 'inv(fwd)' else T(T(X, 'inverse'), 'forward')
                                    e = ac.rel_err(R, X)
                                except Exception as ex:     # noqa
                                    e = float('inf')
                                n_eval += 1
                                distinct.add(('daun', degree, n, dr, order, pas, repr(reg)))
                                worst['daun'] = max(worst.get('daun', 0.0), e / tol)
                                if len(samples) < 3:
                                    samples.append(dict(method='daun', degree=degree, n=n, dr=dr, order=order, reg=repr(reg), deviation=e, tol=tol))
                                if not e <= tol:
                                    hits.append(Hit('exact-roundtrip', 'C03:daun:degree=%d:%s:reg=%r' % (degree, order, reg),
                                                    'daun reg=%r degree=%d n=%d dr=%r: %s deviates from the input by %.2e (tolerance %.2e)'
                                                    % (reg, degree, n, dr, order, e, tol),
                                                    SNIP_DAUN % dict(n=n, degree=degree, dr=dr, order=order, seed=seed, rows=rows, tol=tol, reg=reg),
                                                    dict(method='daun', degree=degree, n=n, dr=dr, order=order, seed=seed, reg=repr(reg),
                                                         deviation=e, cond=tol / RTOL_COND)))
        # ---- basex sigma=1, reg=0, no correction --------------------------------
        for n in basex_sizes:
            ac.cleanup()
            kw = dict(sigma=1.0, reg=0.0, correction=False, basis_dir=None, verbose=False)
            Af = abel.basex.get_bs_cached(n, 1.0, 0.0, False, None, 1.0, False, 'forward')
            tol = RTOL_COND * max(float(np.linalg.cond(Af)), 1.0)
            for dr in drs:
                for order in orders:
                    seed = seed0 + n * 7 + 3
                    rows = 2 + n % 2      # (a 1-row input comes back 1-D)
                    X = np.random.default_rng(seed).normal(size=(rows, n)) * 10
                    T = lambda Y, d: abel.basex.basex_transform(Y, dr=dr, direction=d, **kw)    # noqa
                    try:
                        R = T(T(X, 'forward'), 'inverse') if order == 'inv(fwd)' else T(T(X, 'inverse'), 'forward')
                        e = ac.rel_err(R, X)
                    except Exception as ex:     # noqa
                        e = float('inf')
                    n_eval += 1
                    distinct.add(('basex', n, dr, order))
                    worst['basex'] = max(worst.get('basex', 0.0), e / tol)
                    if not e <= tol:
                        hits.append(Hit('exact-roundtrip', 'C03:basex:%s' % order,
                                        'basex sigma=1 reg=0 correction=False n=%d dr=%r: %s deviates by %.2e (tolerance %.2e)'
                                        % (n, dr, order, e, tol),
                                        SNIP_BASEX % dict(n=n, dr=dr, order=order, seed=seed, rows=rows, tol=tol),
                                        dict(method='basex', n=n, dr=dr, order=order, seed=seed, deviation=e)))
        samples.append(dict(method='basex', n=basex_sizes[-1], worst_over_tol=worst.get('basex')))
        # ---- rbasex, per angular order -------------------------------------------
        for Rmax in rb_sizes:
            for aorder, odd in ((0, False), (2, False), (4, False), (1, True), (3, True)):
              # unregularised, and every regulariser family at strength 0
              for reg in (None, ('L2', 0), ('diff', 0), ('SVD', 0)):
                ac.cleanup()
                Af = abel.rbasex.get_bs_cached(Rmax, aorder, odd, 'forward', None, None, None, False)
                Ai = abel.rbasex.get_bs_cached(Rmax, aorder, odd, 'inverse', reg, None, None, False)
                for k in range(len(Af)):
                    tol = RTOL_COND * max(float(np.linalg.cond(Af[k])), 1.0) * (1 if reg is None else 1e3)
                    for order in orders:
                        seed = seed0 + Rmax * 13 + k
                        p = np.random.default_rng(seed).normal(size=Rmax + 1) * 10
                        if order == 'inv(fwd)':
                            q, P = Ai[k].dot(Af[k].dot(p)), Ai[k].dot(Af[k])
                        else:
                            q, P = Af[k].dot(Ai[k].dot(p)), Af[k].dot(Ai[k])
                        e = max(ac.rel_err(q, p), ac.rel_err(P, np.eye(Rmax + 1)))
                        n_eval += 1
                        distinct.add(('rbasex', Rmax, aorder, odd, k, order, repr(reg)))
                        worst['rbasex'] = max(worst.get('rbasex', 0.0), e / tol)
                        if not e <= tol:
                            hits.append(Hit('exact-roundtrip', 'C03:rbasex:order=%d:odd=%r:n=%d:%s:reg=%r' % (aorder, odd, k, order, reg),
                                            'rbasex reg=%r Rmax=%d order=%d odd=%r, matrices of angular term %d: %s deviates from identity '
                                            'by %.2e (tolerance %.2e)' % (reg, Rmax, aorder, odd, k, order, e, tol),
                                            SNIP_RBASEX % dict(Rmax=Rmax, aorder=aorder, odd=odd, k=k, order=order, seed=seed, tol=tol, reg=reg),
                                            dict(method='rbasex', Rmax=Rmax, order=aorder, odd=odd, k=k, reg=repr(reg), deviation=e)))
        samples.append(dict(method='rbasex', Rmax=rb_sizes[-1], worst_over_tol=worst.get('rbasex')))
        # ---- approximate class (swept; calibrated envelopes) ----------------------
        try:
            envs = json.load(open(ENV_FILE))
        except OSError:
            envs = {}
        for meth in APPROX:
            f = approx_fn(meth)
            for n in approx_sizes:
                for pn, p in profiles(n).items():
                    X = np.vstack([p, 2 * p])
                    for order in orders:
                        cal = envs.get('%s|%d|%s|%s' % (meth, n, pn, order))
                        if cal is None:
                            continue
                        env = SAFETY * cal + 1e-12
                        ref = envs.get('%s|%d|%s|%s' % (MESH_REF.get(meth), n, pn, order))
                        if ref is not None:
                            env = min(env, MESH_FACTOR * ref)
                        rt = (lambda dr: f(f(X, 'forward', dr), 'inverse', dr)) if order == 'inv(fwd)' else \
                             (lambda dr: f(f(X, 'inverse', dr), 'forward', dr))
                        try:
                            R1 = rt(1.0)
                            for dr in (0.5, 3.0):
                                R = rt(dr)
                                e, edr = ac.rel_err(R, X), ac.rel_err(R, R1)
                                n_eval += 1
                                distinct.add((meth, n, pn, order, dr))
                                worst[meth] = max(worst.get(meth, 0.0), e / env)
                                if not (e <= env and edr <= 1e-11):
                                    hits.append(Hit('approx-roundtrip', 'C03:%s:%s:%s' % (meth, pn, order),
                                                    '%s n=%d profile=%s dr=%r: %s error %.3e exceeds the envelope %.3e, or changes with dr (%.1e)'
                                                    % (meth, n, pn, dr, order, e, env, edr),
                                                    SNIP_APPROX % dict(meth=meth, n=n, prof=pn, dr=dr, order=order, env=env, fn=APPROX[meth]),
                                                    dict(method=meth, n=n, profile=pn, dr=dr, order=order, error=e, envelope=env)))
                        except Exception as ex:    # noqa
                            hits.append(Hit('approx-roundtrip', 'C03:%s:%s:%s:exception' % (meth, pn, order),
                                            '%s n=%d profile=%s: %s raised %s' % (meth, n, pn, order, type(ex).__name__),
                                            SNIP_APPROX % dict(meth=meth, n=n, prof=pn, dr=0.5, order=order, env=env, fn=APPROX[meth]),
                                            dict(method=meth, n=n, profile=pn)))
    ac.cleanup()
    # ---- operation histories: the operators the implementation uses in ANY state -----------
    # (basis_dir files left by earlier calls of other degrees / orders / regularisations / weights,
    #  cache_cleanup, fresh processes loading what an earlier process saved)
    from concurrent.futures import ThreadPoolExecutor
    from props import _algebra_hist as ah
    H = ah.gen_histories(rng, ctx.quick and not enlarged)
    with ThreadPoolExecutor(max_workers=8) as ex:
        R = list(ex.map(lambda h: ah.run_history(h[1]), H))
    for (fam, hist), res in zip(H, R):
        n_ops = sum(len(sg['ops']) for sg in hist)
        for r in res:
            tol = RTOL_COND * max(r['cond'], 1.0)
            n_eval += 1
            distinct.add(('history', fam, json.dumps(r['probe'][:-1]), len(hist), n_ops))
            worst['history-' + fam] = max(worst.get('history-' + fam, 0.0), r['deviation'] / tol)
            if not r['deviation'] <= tol:
                hits.append(Hit('exact-roundtrip-after-history', 'C03:history:%s' % fam,
                                '%s: after a history of %d calls in %d process(es) (basis_dir, other degrees/orders/regularisations, '
                                'cache_cleanup) the round trip %r deviates by %.2e (tolerance %.2e) %s'
                                % (fam, n_ops, len(hist), r['probe'], r['deviation'], tol, r.get('error', '')),
                                ah.replay_snippet(hist, RTOL_COND), dict(history=hist, probe=r['probe'], deviation=r['deviation'])))
                break
    samples.append(dict(histories=len(H), example=H[0][1] if H else None))
    return hits, n_eval, len(distinct), worst, samples


def run(ctx):
    rng = np.random.default_rng(ctx.seed)
    em, terr = ac.run_translator()
    pr = vlib.coq_props('C03')
    ac.standard_cov(ctx, pr, 'C03')
    tv_n, tv_fail = (0, [])
    if em is not None:
        tv_n, tv_fail = ac.validate_translation(em, rng, sizes=(3, 6, 13) if ctx.quick else (3, 4, 6, 13, 40),
                                                which=('basex', 'daun', 'rbasex'))
    ctx.cov.update(traces_validated_against_impl=tv_n, translation_validation_failures=len(tv_fail),
                   generated_definitions=0 if em is None else len(em.index))
    # proof obligations = theorems of the props file; the numeric validation of the generated terms is the tie
    ctx.cov['obligations'] = len(pr['theorems'])
    ctx.cov['discharged'] = pr['discharged']
    ctx.cov['generated_terms_validated_numerically'] = tv_n - len(tv_fail)
    broken = (not pr['ok']) or bool(terr) or bool(tv_fail)
    hits, n_eval, n_distinct, worst, samples = search(ctx, rng, enlarged=broken)
    ctx.cov.update(evaluations=n_eval + tv_n, distinct_nontrivial=n_distinct, exhaustive=False,
                   rule='a case is distinct by (method, degree/angular term, size, dr, composition order[, profile]); random signed '
                        'non-smooth data (normal*10, 1-3 rows) for the exact class, 3 smooth profiles for the approximate class',
                   samples=samples, worst_deviation_over_tolerance=worst,
                   input_distribution=dict(exact_class_tolerance='relative deviation <= %g * cond(forward operator)' % RTOL_COND,
                                           approximate_class='hansenlaw (hold 0/1), direct (python backend, correction), basex '
                                                             'correction=True; envelope = %g x error recorded on the unchanged tree '
                                                             '(tools/props/C03_envelopes.json)' % SAFETY,
                                           dr=[0.5, 1.0, 3.0]))
    new = 0
    seen = set()
    for h in hits:
        if h.key in seen:
            continue
        seen.add(h.key)
        if ctx.report_hit(h):
            new += 1
    if new == 0:
        if terr:
            ctx.report_broken('translator', 'tools/translate/matrix_expr.py on ' + vlib.REPO, terr)
        elif not pr['ok']:
            ctx.report_broken('proof', pr['broken'] or 'props/C03.v', pr['error'] or '')
        elif tv_fail:
            ctx.report_broken('correspondence', 'generated matrix expression vs implementation (%d of %d)' % (len(tv_fail), tv_n),
                              '; '.join(tv_fail[:5]))
    ctx.assumptions += [
        'theorems: exact class only (daun all degrees, basex sigma=1 reg=0 uncorrected, rbasex per angular order), over any field, '
        'all sizes, for the matrix expressions generated from the current sources; inv/solve_triangular by specification',
        'hypotheses B, M, Mc, P invertible (and B, P triangular) are met by triangular bases with non-zero diagonal '
        '(C03_unit_of_triangular); that the actual bases are such is numerically observed (finite cond), entries are C09',
        'approximate class (hansenlaw, direct, corrected basex): NUMERIC ONLY - round-trip error on 3 smooth profiles must stay '
        'below 1.5 x the error recorded on the unchanged tree, and must not depend on dr; not a theorem',
        'binary64 rounding is outside the theorems: the implementation is compared with tolerance 1e-12*cond',
    ]
    ctx.notes.append('C03: %d theorems; %d generated definitions validated numerically (%d checks); approximate class swept only'
                     % (len(pr['theorems']), 0 if em is None else len(em.index), tv_n))
