# C02 — forward transforms reproduce the true projection, including the
# absolute scale set by the pixel size.
#
#   theorems   coq/props/C02.v: the shared pair theorems plus abel_scaling
#              (Abel of r -> f(r/a) is a times Abel f: the dr law of the true
#              transform).
#   tie/sweep  as C01 (tools/oracle/runner.py) with direction='forward' and the
#              dr-scale clause: forward(f, dr) == dr * forward(f, 1) exactly.
from oracle import runner

LEVEL = 'proof'


def run(ctx):
    runner.run(ctx, 'C02', 'forward')
