# C14 — radial distributions recover an exact angular model exactly.
#
#   theorems   coq/props/C14.v (proofs in coq/proofs/VmiInvProofs.v,
#              DistrGeomProofs.v, DistrFitProofs.v, DistrFitMx.v, C14R.v)
#   models     coq/model/DistrGeom.v, DistrFit.v (hand-written, executable),
#              coq/gen/VmiInv.v (translated from abel/tools/vmi.py on every run)
#   tie        (a) translator tools/translate/vmi_inv.py: inv2_correct /
#              inv3_correct are re-proved against the current source;
#              (b) correspondence: geometry (origin/rmax resolution, quadrant
#              size, slices, bins, valid) exactly, folded quadrant exactly,
#              Results.cos() against the model run in fixed-point arithmetic
#   search     exact-model images must give back their coefficients;
#              anisotropy_parameter on noiseless curves
import json
import re
import warnings

import numpy as np

import distr_lib as L
import vlib
from vlib import Hit

LEVEL = 'proof'
MAX_REPORTED = 10      # distinct failing inputs written as replays per run (the rest is counted in the evidence)

CASE_HEADER = (vlib.HEADER_CASES +
               'From Coq Require Import String.\n'
               'From PA Require Import base.QClose model.DistrGeom model.DistrFit model.DistrQ.\n'
               'Open Scope Q_scope.\n')


def meth_coq(m):
    return 'Nearest' if m == 'nearest' else 'Linear'


# ---------------------------------------------------------------------------
# correspondence: geometry
# ---------------------------------------------------------------------------

def run_distr(h, w, o, rm, order, odd, meth, sin, W=None, IM=None, prime=None):
    """('Ok', d, res) | ('ValueError',) | ('Exc', name, message).
    prime: shape of an image analysed first with the same object (object reuse:
    _precalc is re-run when an object without weights meets another shape)."""
    from abel.tools.vmi import Distributions
    if IM is None:
        IM = np.ones((h, w))
    try:
        with warnings.catch_warnings(), np.errstate(all='ignore'):
            warnings.simplefilter('ignore')
            d = Distributions(origin=o, rmax=rm, order=order, odd=odd, use_sin=sin, method=meth, weights=W)
            if prime is not None and W is None:
                try:
                    d(np.ones(prime))
                except Exception:      # noqa  (e.g. the origin is outside the first image)
                    pass
            res = d(IM)
        return ('Ok', d, res)
    except ValueError:
        return ('ValueError',)
    except Exception as e:      # noqa
        return ('Exc', type(e).__name__, str(e))


def gcase_coq(c, out):
    h, w, o, rm, order, odd, meth, sin = c
    exp = 'GOk ' + L.obs_coq(out[1]) if out[0] == 'Ok' else 'GValueError'
    return ('{| gc_h := %d; gc_w := %d; gc_origin := %s; gc_rmax := %s; gc_order := %d; gc_odd := %s; '
            'gc_meth := %s; gc_sin := %s; gc_expect := %s |}'
            % (h, w, L.origin_coq(o), L.rmax_coq(rm), order, vlib.bool_lit(odd), meth_coq(meth),
               vlib.bool_lit(sin), exp))


def rand_opts(rng):
    return (int(rng.integers(0, 9)), bool(rng.integers(2)), ['nearest', 'linear'][rng.integers(2)],
            bool(rng.integers(2)))


def rand_rmax(rng):
    k = rng.random()
    if k < 0.5:
        return L.RMAX_KW[rng.integers(9)]
    if k < 0.97:
        return int(rng.integers(0, 14))
    return 'foo'


def neg_spelling(rng, h, w, r, c):
    """Spell the same pixel with negative indices at random."""
    return (r - h if rng.random() < 0.4 else r, c - w if rng.random() < 0.4 else c)


def gen_geom_cases(ctx, rng):
    cases = []
    shapes = [(h, w) for h in range(3, 10) for w in range(3, 10)]
    if ctx.quick:
        for _ in range(2000):
            h, w = shapes[rng.integers(len(shapes))]
            k = rng.random()
            if k < 0.55:
                o = neg_spelling(rng, h, w, int(rng.integers(h)), int(rng.integers(w)))
            elif k < 0.93:
                o = L.ORIGIN_STRINGS[rng.integers(len(L.ORIGIN_STRINGS))]
            else:
                o = L.BAD_ORIGIN_STRINGS[rng.integers(len(L.BAD_ORIGIN_STRINGS))]
            cases.append((h, w, o, rand_rmax(rng)) + rand_opts(rng))
        # every location string once
        for o in L.ORIGIN_STRINGS + L.BAD_ORIGIN_STRINGS:
            h, w = shapes[rng.integers(len(shapes))]
            cases.append((h, w, o, rand_rmax(rng)) + rand_opts(rng))
    else:
        for (h, w) in shapes:
            for r in range(h):
                for c in range(w):
                    for kw in L.RMAX_KW:                       # nine keywords
                        cases.append((h, w, neg_spelling(rng, h, w, r, c), kw) + rand_opts(rng))
                    for _ in range(3):                         # integers
                        cases.append((h, w, neg_spelling(rng, h, w, r, c), int(rng.integers(0, 14))) + rand_opts(rng))
            for o in L.ORIGIN_STRINGS + L.BAD_ORIGIN_STRINGS:
                cases.append((h, w, o, rand_rmax(rng)) + rand_opts(rng))
            # every order / odd once per shape
            for order in range(9):
                for odd in (False, True):
                    cases.append((h, w, (int(rng.integers(h)), int(rng.integers(w))), rand_rmax(rng),
                                  order, odd, ['nearest', 'linear'][rng.integers(2)], bool(rng.integers(2))))
    return cases


def eval_cases(prefix, decl, cases_text, evalexpr, shard):
    texts = []
    for k in range(0, len(cases_text), shard):
        body = vlib.list_lit(cases_text[k:k + shard])
        texts.append(('%s_%03d' % (prefix, k // shard),
                      CASE_HEADER + 'Definition cases : list %s := %s.\n' % (decl, body) + evalexpr))
    return texts, vlib.coq_eval_many(texts, timeout=1500)


def correspondence_geom(ctx, rng, exc_hits):
    cases = gen_geom_cases(ctx, rng)
    kept, texts_c, dist = [], [], {}
    for c in cases:
        # a third of the objects have analysed an image of another (or the same) shape before
        prime = None
        if rng.random() < 0.33:
            prime = (int(rng.integers(3, 12)), int(rng.integers(3, 12))) if rng.random() < 0.8 else (c[0], c[1])
        out = run_distr(*c, prime=prime)
        key = '%s/%s%s' % ('string' if isinstance(c[2], str) else 'tuple', out[0], '/reused-object' if prime else '')
        dist[key] = dist.get(key, 0) + 1
        if out[0] == 'Exc':
            exc_hits.append((c, out))
            continue
        kept.append(c)
        texts_c.append(gcase_coq(c, out))
    texts, outs = eval_cases('C14g', 'gcase', texts_c,
                             'Definition res := map gcheck cases.\n'
                             'Eval vm_compute in (count_true res, false_idx 0 res).\n', 400)
    n_ok, bad, errors = 0, [], []
    for k, (name, _) in enumerate(texts):
        rc, out = outs[name]
        r = vlib.parse_eval_lists(out)
        if rc != 0 or not r:
            errors.append((name, out[-400:]))
            continue
        m = re.match(r'\((\d+), (.*)\)$', r[0])
        n_ok += int(m.group(1))
        bad += [kept[k * 400 + i] for i in vlib.parse_nat_list(m.group(2))]
    return len(kept), n_ok, bad, errors, dist


# ---------------------------------------------------------------------------
# correspondence: values
# ---------------------------------------------------------------------------

def gen_value_cases(ctx, rng):
    n = 480 if ctx.quick else 2400
    cases = []
    for _ in range(n):
        h, w = [int(v) for v in rng.integers(3, 9, 2)]
        o = (neg_spelling(rng, h, w, int(rng.integers(h)), int(rng.integers(w))) if rng.random() < 0.75
             else L.ORIGIN_STRINGS[rng.integers(len(L.ORIGIN_STRINGS))])
        rm = L.RMAX_KW[rng.integers(9)] if rng.random() < 0.7 else int(rng.integers(0, 10))
        # orders whose inverse the code writes by hand (N <= 3) mostly
        order, odd = [(0, False), (2, False), (4, False), (1, True), (2, True), (2, False), (4, False),
                      (6, False), (3, True)][rng.integers(9)]
        meth = ['nearest', 'linear'][rng.integers(2)]
        sin = bool(rng.integers(2))
        W = None if rng.random() < 0.3 else rng.integers(0, 4, (h, w)).astype(float)
        IM = rng.integers(-9, 10, (h, w)).astype(float)
        cases.append((h, w, o, rm, order, odd, meth, sin, W, IM))
    return cases


def vcase_coq(c, out):
    h, w, o, rm, order, odd, meth, sin, W, IM = c
    d, res = out[1], out[2]
    Q = L.folded(d, IM if W is None else W * IM)
    return ('{| vc_h := %d; vc_w := %d; vc_origin := %s; vc_rmax := %s; vc_order := %d; vc_odd := %s; '
            'vc_meth := %s; vc_sin := %s; vc_W := %s; vc_IM := %s; vc_sqrt := %s; vc_obs := %s; '
            'vc_Q := %s; vc_cos := %s |}'
            % (h, w, L.origin_coq(o), L.rmax_coq(rm), order, vlib.bool_lit(odd), meth_coq(meth),
               vlib.bool_lit(sin), 'None' if W is None else 'Some ' + vlib.img_q(W.tolist()),
               vlib.img_q(IM.tolist()), L.sqrt_table(d), L.obs_coq(d), vlib.img_q(Q.tolist()),
               vlib.img_q(res.cos().tolist())))


def correspondence_values(ctx, rng, exc_hits):
    cases = gen_value_cases(ctx, rng)
    kept, texts_c = [], []
    for c in cases:
        prime = None
        if c[8] is None and rng.random() < 0.5:
            prime = (int(rng.integers(3, 12)), int(rng.integers(3, 12)))
        out = run_distr(*c[:8], W=c[8], IM=c[9], prime=prime)
        if out[0] == 'Exc':
            exc_hits.append((c[:8], out))
            continue
        if out[0] != 'Ok':
            continue
        if not np.all(np.isfinite(out[2].cos())):
            # rank-deficient radius whose float determinant is tiny: the code
            # divides by it; nothing to compare for this image
            out[2].cn = np.nan_to_num(out[2].cos(), nan=0.0, posinf=0.0, neginf=0.0)
        kept.append(c)
        texts_c.append(vcase_coq(c, out))
    shard = 30
    texts, outs = eval_cases('C14v', 'vcase', texts_c,
                             'Definition res := map vcheck cases.\n'
                             'Eval vm_compute in (count_true (map (fun x => fst (fst x)) res), '
                             'false_idx 0 (map (fun x => fst (fst x)) res), '
                             'fold_left Nat.add (map (fun x => snd (fst x)) res) 0%nat, '
                             'fold_left Nat.add (map snd res) 0%nat).\n', shard)
    n_ok, bad, errors, compared, skipped = 0, [], [], 0, 0
    for k, (name, _) in enumerate(texts):
        rc, out = outs[name]
        r = vlib.parse_eval_lists(out)
        if rc != 0 or not r:
            errors.append((name, out[-400:]))
            continue
        parts = L.parse_tuple_result(r[0])
        n_ok += int(parts[0])
        bad += [kept[k * shard + i] for i in vlib.parse_nat_list(parts[1])]
        compared += int(parts[2])
        skipped += int(parts[3])
    return len(kept), n_ok, bad, errors, compared, skipped


# ---------------------------------------------------------------------------
# search: the property evaluated on the implementation
# ---------------------------------------------------------------------------

SNIPPET_MODEL = '''
import json, sys, warnings
import numpy as np
warnings.simplefilter('ignore')
from abel.tools.vmi import Distributions
p = json.loads(%(params)r)
IM = np.array(p['IM']); W = None if p['W'] is None else np.array(p['W'])
origin = tuple(p['origin']) if isinstance(p['origin'], list) else p['origin']
res = Distributions(origin=origin, rmax=p['rmax'], order=p['order'], odd=p['odd'], use_sin=p['use_sin'],
                    weights=W, method=p['method'])(IM).cos()
exp = np.array(p['expected']); radii = p['radii']; tol = np.array(p['tol'])
err = np.abs(res[:, radii] - exp[:, radii])
ok = bool(np.all(err <= tol[None, :]))
print('C14 exact-model recovery', 'holds' if ok else 'FAILS', 'max error', float(err.max()) if err.size else 0.0,
      'for', {k: p[k] for k in ('origin', 'rmax', 'order', 'odd', 'use_sin', 'method')}, 'shape', IM.shape)
sys.exit(0 if ok else 1)
'''

SNIPPET_EXC = '''
import json, sys, warnings
import numpy as np
warnings.simplefilter('ignore')
from abel.tools.vmi import Distributions
p = json.loads(%(params)r)
origin = tuple(p['origin']) if isinstance(p['origin'], list) else p['origin']
IM = np.ones(p['shape'])
try:
    Distributions(origin=origin, rmax=p['rmax'], order=p['order'], odd=p['odd'], use_sin=p['use_sin'],
                  method=p['method'])(IM).cos()
except ValueError:
    raise
except Exception as e:
    print('C14 FAILS: a valid analysis request raises', type(e).__name__, e, 'for', p); sys.exit(1)
print('C14 holds (no exception) for', p)
'''

SNIPPET_BETA = '''
import json, sys, warnings
import numpy as np
warnings.simplefilter('ignore')
from abel.tools.vmi import anisotropy_parameter
p = json.loads(%(params)r)
theta = np.array(p['theta']); beta = p['beta']; A = p['A']
I = A * (1 + beta * (3 * np.cos(theta) ** 2 - 1) / 2)
tr = None if p['theta_ranges'] is None else [tuple(t) for t in p['theta_ranges']]
try:
    (b, eb), (a, ea) = anisotropy_parameter(theta, I, theta_ranges=tr, mode=p['mode'])
    ok = bool(np.isfinite(b) and abs(b - beta) <= p['tol'])
    print('C14 anisotropy_parameter', 'holds' if ok else 'FAILS', 'beta', beta, 'returned', b, 'mode', p['mode'],
          'theta_ranges', tr)
except Exception as e:
    ok = False
    print('C14 anisotropy_parameter FAILS: raises', type(e).__name__, e, 'theta_ranges', tr)
sys.exit(0 if ok else 1)
'''


def origin_json(o):
    return o if isinstance(o, str) else [int(o[0]), int(o[1])]


def origin_class(shape, row, col):
    h, w = shape
    er, ec = row in (0, h - 1), col in (0, w - 1)
    return 'corner' if (er and ec) else ('edge' if (er or ec) else 'inside')


def exc_hit(c, out):
    h, w, o, rm, order, odd, meth, sin = c[:8]
    try:
        row, col = L.resolve_origin((h, w), o)
        oc = origin_class((h, w), row, col)
    except Exception:   # noqa
        oc = 'unresolved'
    params = dict(shape=[h, w], origin=origin_json(o), rmax=rm, order=order, odd=odd, use_sin=sin, method=meth)
    _, odd_r = L.orders_of(order, odd)
    key = 'C14:exception:%s:method=%s:use_sin=%s:order=%d:odd=%s:weights=None:origin=%s' % (
        out[1], meth, sin, order, odd_r, oc)
    return Hit('returns-coefficients', key,
               'Distributions(origin=%r, rmax=%r, order=%d, odd=%s, use_sin=%s, method=%r) on a %dx%d image raises %s: %s'
               % (o, rm, order, odd, sin, meth, h, w, out[1], out[2]),
               SNIPPET_EXC % dict(params=json.dumps(params)), params)


def search_model(ctx, rng, budget):
    """Exact-model images sum_n c_n(r) cos^n(theta): Distributions must return c_n."""
    hits, n_eval, distinct, n_radii = [], 0, set(), 0
    samples = []
    for it in range(budget):
        big = rng.random() < 0.35
        h, w = [int(v) for v in (rng.integers(12, 34, 2) if big else rng.integers(3, 14, 2))]
        k = rng.random()
        if k < 0.45:
            row, col = int(rng.integers(h)), int(rng.integers(w))
            o = neg_spelling(rng, h, w, row, col)
        elif k < 0.6:       # on an edge / corner
            row = [0, h - 1, int(rng.integers(h))][rng.integers(3)]
            col = [0, w - 1, int(rng.integers(w))][rng.integers(3)]
            o = (row, col)
        else:
            o = L.ORIGIN_STRINGS[rng.integers(len(L.ORIGIN_STRINGS))]
            row, col = L.resolve_origin((h, w), o)
        rm = L.RMAX_KW[rng.integers(9)] if rng.random() < 0.7 else int(rng.integers(0, max(h, w) + 3))
        order = int(rng.integers(0, 9)) if big else int(rng.integers(0, 5))
        odd = bool(rng.integers(2))
        orders, odd_r = L.orders_of(order, odd)
        meth = ['nearest', 'linear'][rng.integers(2)]
        sin = bool(rng.integers(2))
        W = None if rng.random() < 0.35 else rng.uniform(0.2, 3.0, (h, w))
        if W is not None and rng.random() < 0.4:        # 'any weights': the overall scale of the weights is arbitrary
            W = W * float([1e-6, 1e-9, 2.0**-40, 1e6][rng.integers(4)])
        nb = int(np.hypot(h, w)) + 3
        if meth == 'nearest':
            coef = [rng.normal(size=nb) for _ in orders]
        else:
            coef = [float(rng.normal()) for _ in orders]
        IM = L.model_image((h, w), row, col, orders, coef, meth)
        out = run_distr(h, w, o, rm, order, odd, meth, sin, W=W, IM=IM)
        n_eval += 1
        distinct.add((meth, sin, odd_r, len(orders), origin_class((h, w), row, col), W is None,
                      rm if isinstance(rm, str) else 'int'))
        if out[0] == 'Exc':
            hits.append(exc_hit((h, w, o, rm, order, odd, meth, sin), out))
            continue
        if out[0] != 'Ok':
            hits.append(Hit('returns-coefficients', 'C14:rejects-valid:%s' % meth,
                            'valid request rejected with ValueError: origin=%r rmax=%r' % (o, rm),
                            SNIPPET_EXC % dict(params=json.dumps(dict(shape=[h, w], origin=origin_json(o), rmax=rm,
                                                                      order=order, odd=odd, use_sin=sin, method=meth)))))
            continue
        d, res = out[1], out[2]
        got = res.cos()
        rmax = d.rmax
        exp = np.array([(np.asarray(c)[:rmax + 1] if np.ndim(c) else np.full(rmax + 1, c)) for c in coef])
        if exp.shape[1] < rmax + 1:
            exp = np.pad(exp, ((0, 0), (0, rmax + 1 - exp.shape[1])))
        conds = L.hankel_cond((h, w), row, col, W, orders, odd_r, meth, sin, rmax)
        radii = [int(k) for k in range(rmax + 1) if conds[k] <= 1e8]
        n_radii += len(radii)
        if len(samples) < 5:
            samples.append(dict(shape=[h, w], origin=repr(o), rmax=rm, order=order, odd=odd, method=meth,
                                use_sin=sin, weights=W is not None, radii_checked=len(radii)))
        if got.shape != exp.shape:
            hits.append(Hit('returns-coefficients', 'C14:shape:%s' % meth, 'cos() has shape %r, expected %r'
                            % (got.shape, exp.shape), '', {}))
            continue
        if not radii:
            continue
        scale = 1 + np.abs(exp[:, radii]).max(axis=0)
        tol = (1e-9 + 1e-13 * conds[radii]) * scale
        err = np.abs(got[:, radii] - exp[:, radii])
        if not np.all(err <= tol[None, :]):
            params = dict(IM=IM.tolist(), W=None if W is None else W.tolist(), origin=origin_json(o), rmax=rm,
                          order=order, odd=odd, use_sin=sin, method=meth, expected=exp.tolist(), radii=radii,
                          tol=tol.tolist())
            key = 'C14:exact-model:method=%s:use_sin=%s:odd=%s:N=%d:origin=%s:weights=%s' % (
                meth, sin, odd_r, len(orders), origin_class((h, w), row, col), 'None' if W is None else 'array')
            hits.append(Hit('returns-coefficients', key,
                            'exact-model image (shape %dx%d, origin %r, rmax %r, order %d, odd %s, %s, use_sin %s) is '
                            'not recovered: max error %.3g at well-conditioned radii'
                            % (h, w, o, rm, order, odd, meth, sin, float(err.max())),
                            SNIPPET_MODEL % dict(params=json.dumps(params)),
                            dict(shape=[h, w], origin=repr(o), rmax=rm, order=order, odd=odd, method=meth, use_sin=sin)))
    return hits, n_eval, len(distinct), n_radii, samples


SNIPPET_REUSE = '''
import json, sys, warnings
import numpy as np
warnings.simplefilter('ignore')
from abel.tools.vmi import Distributions
p = json.loads(%(params)r)
origin = tuple(p['origin']) if isinstance(p['origin'], list) else p['origin']
W = None if p['W'] is None else np.array(p['W'])
kw = dict(origin=origin, rmax=p['rmax'], order=p['order'], odd=p['odd'], use_sin=p['use_sin'], method=p['method'], weights=W)
d = Distributions(**kw)
ok = True
for k, im in enumerate(p['images']):
    IM = np.array(im)
    try:
        got = d(IM).cos()
    except Exception as e:
        got = type(e).__name__
    try:
        ref = Distributions(**kw)(IM).cos()
    except Exception as e:
        ref = type(e).__name__
    same = (got == ref) if isinstance(got, str) or isinstance(ref, str) else (
        got.shape == ref.shape and np.allclose(got, ref, rtol=1e-10, atol=1e-10, equal_nan=True))
    print('image', k, 'shape', IM.shape, 'reused object == fresh object:', bool(same))
    ok = ok and bool(same)
print('C14 object reuse', 'holds' if ok else 'FAILS', {k: p[k] for k in ('origin', 'rmax', 'order', 'odd', 'use_sin', 'method')})
sys.exit(0 if ok else 1)
'''


def search_reuse(ctx, rng, budget):
    """One Distributions object analysing several images (same and different
    shapes): every result must equal that of a fresh object, and the exact
    model coefficients at well-conditioned radii."""
    from abel.tools.vmi import Distributions
    hits, n_eval, distinct = [], 0, set()
    for it in range(budget):
        meth = ['nearest', 'linear', 'remap'][rng.integers(3)] if rng.random() < 0.4 else ['nearest', 'linear'][rng.integers(2)]
        lo = 12 if meth == 'remap' else 4
        nshape = int(rng.integers(2, 4))
        shapes = [tuple(int(v) for v in rng.integers(lo, lo + 14, 2)) for _ in range(nshape)]
        if rng.random() < 0.3:
            shapes[1] = shapes[0]
        with_w = rng.random() < 0.2
        if with_w:
            shapes = [shapes[0]] * nshape
        mh, mw = min(s[0] for s in shapes), min(s[1] for s in shapes)
        k = rng.random()
        if k < 0.5:
            o = L.ORIGIN_STRINGS[rng.integers(len(L.ORIGIN_STRINGS))]
        elif k < 0.8:
            o = (int(rng.integers(mh)), int(rng.integers(mw)))
        else:
            o = (-int(rng.integers(1, mh + 1)), -int(rng.integers(1, mw + 1)))
        rm = L.RMAX_KW[rng.integers(9)] if rng.random() < 0.7 else int(rng.integers(1, 12))
        order = int(rng.integers(0, 5))
        odd = bool(rng.integers(2))
        orders, odd_r = L.orders_of(order, odd)
        sin = bool(rng.integers(2))
        W = rng.uniform(0.5, 2.0, shapes[0]) if with_w else None
        kw = dict(origin=o, rmax=rm, order=order, odd=odd, use_sin=sin, method=meth, weights=W)
        coef = [float(rng.normal()) for _ in orders]
        images = []
        for shp in shapes:
            row, col = L.resolve_origin(shp, o)
            images.append(L.model_image(shp, row, col, orders, coef, 'linear'))
        n_eval += 1
        distinct.add((meth, odd_r, len(orders), with_w, isinstance(o, str), len(set(shapes))))
        bad = None
        try:
            with warnings.catch_warnings(), np.errstate(all='ignore'):
                warnings.simplefilter('ignore')
                d = Distributions(**kw)
                for kk, IM in enumerate(images):
                    try:
                        got = d(IM).cos()
                    except Exception as e:     # noqa
                        got = type(e).__name__
                    try:
                        ref = Distributions(**kw)(IM).cos()
                    except Exception as e:     # noqa
                        ref = type(e).__name__
                    if isinstance(got, str) or isinstance(ref, str):
                        same = got == ref if (isinstance(got, str) and isinstance(ref, str)) else False
                    else:
                        same = got.shape == ref.shape and np.allclose(got, ref, rtol=1e-10, atol=1e-10, equal_nan=True)
                    if not same:
                        bad = (kk, IM.shape, got if isinstance(got, str) else
                               ('max difference %.3g' % float(np.nanmax(np.abs(got - ref))) if got.shape == ref.shape else 'shape'))
                        break
        except Exception as e:     # noqa
            bad = (-1, None, 'constructor raises %s' % type(e).__name__)
        if bad:
            params = dict(origin=origin_json(o), rmax=rm, order=order, odd=odd, use_sin=sin, method=meth,
                          W=None if W is None else W.tolist(), images=[im.tolist() for im in images])
            key = 'C14:object-reuse:method=%s:odd=%s:shapes=%s:weights=%s' % (
                meth, odd_r, 'same' if len(set(shapes)) == 1 else 'different', 'array' if with_w else 'None')
            hits.append(Hit('returns-coefficients', key,
                            'one Distributions object (origin %r, rmax %r, order %d, odd %s, %s, use_sin %s) analysing images of '
                            'shapes %r: result for image %d (shape %r) differs from a fresh object (%s)'
                            % (o, rm, order, odd, meth, sin, shapes, bad[0], bad[1], bad[2]),
                            SNIPPET_REUSE % dict(params=json.dumps(params)),
                            dict(shapes=[list(s_) for s_ in shapes], origin=repr(o), rmax=rm, order=order, odd=odd, method=meth)))
    return hits, n_eval, len(distinct)


# tolerances of the 'remap' method (spline resampling to a polar grid): max |c_n - exact| for
# |c_n| <= 2, at radii >= 5 whose normal matrix (taken from the object: C[r] = inverse) has
# condition number <= 1000 and at least a quarter of the largest angular coverage.
# Calibrated on the unchanged tree over 10 000 random configurations (worst errors
# 4e-15 / 0.020 / 0.033 / 0.104 for N = 1 / N = 2 / N = 3 even / odd orders with N >= 3).
def remap_tol(N, odd):
    if N == 1:
        return 1e-9
    if N == 2:
        return 0.08
    if not odd:
        return 0.15
    return 0.35


SNIPPET_REMAP = '''
import json, sys, warnings
import numpy as np
warnings.simplefilter('ignore')
from abel.tools.vmi import Distributions
p = json.loads(%(params)r)
IM = np.array(p['IM']); W = None if p['W'] is None else np.array(p['W'])
res = Distributions(origin=tuple(p['origin']), rmax=p['rmax'], order=p['order'], odd=p['odd'], use_sin=p['use_sin'],
                    weights=W, method='remap')(IM).cos()
exp = np.array(p['coef'])[:, None]; radii = p['radii']
err = float(np.abs(res[:, radii] - exp).max())
ok = err <= p['tol']
print("C14 'remap' recovery", 'holds' if ok else 'FAILS', 'max error', err, 'tolerance', p['tol'],
      {k: p[k] for k in ('origin', 'rmax', 'order', 'odd', 'use_sin')}, 'shape', IM.shape)
sys.exit(0 if ok else 1)
'''


def search_remap(ctx, rng, budget):
    """Exact-model images (coefficients constant over r) through method='remap':
    coefficients recovered to interpolation accuracy."""
    from abel.tools.vmi import Distributions
    hits, n_eval, distinct, n_radii = [], 0, set(), 0
    for it in range(budget):
        h, w = [int(v) for v in rng.integers(20, 70, 2)]
        k = rng.random()
        if k < 0.35:
            row, col, oc = [0, h - 1][rng.integers(2)], [0, w - 1][rng.integers(2)], 'corner'
        elif k < 0.6:
            if rng.random() < 0.5:
                row, col = [0, h - 1][rng.integers(2)], int(rng.integers(3, w - 3))
            else:
                row, col = int(rng.integers(3, h - 3)), [0, w - 1][rng.integers(2)]
            oc = 'edge'
        elif k < 0.8:
            row, col, oc = h // 2, w // 2, 'centre'
        else:
            row, col, oc = int(rng.integers(h)), int(rng.integers(w)), 'inside'
        rm = L.RMAX_KW[rng.integers(9)] if rng.random() < 0.7 else int(rng.integers(6, max(h, w)))
        order = int(rng.integers(0, 5))
        odd = bool(rng.integers(2))
        orders, odd_r = L.orders_of(order, odd)
        sin = bool(rng.integers(2))
        wk = int(rng.integers(3))
        W = None if wk == 0 else (np.ones((h, w)) if wk == 1 else
                                  1 + 0.5 * np.cos(np.arange(h)[:, None] / 9.0) * np.sin(np.arange(w)[None, :] / 7.0))
        coef = [float(rng.uniform(-1, 1)) for _ in orders]
        coef[0] = float(rng.uniform(1, 2))
        IM = L.model_image((h, w), row, col, orders, coef, 'linear')
        try:
            with warnings.catch_warnings(), np.errstate(all='ignore'):
                warnings.simplefilter('ignore')
                d = Distributions(origin=(row, col), rmax=rm, order=order, odd=odd, use_sin=sin, weights=W, method='remap')
                res = d(IM).cos()
        except Exception as e:     # noqa
            hits.append(exc_hit((h, w, (row, col), rm, order, odd, 'remap', sin), ('Exc', type(e).__name__, str(e))))
            continue
        n_eval += 1
        distinct.add((len(orders), odd_r, oc, wk, sin, rm if isinstance(rm, str) else 'int'))
        R = d.rmax
        if R < 6:
            continue
        N = len(orders)
        valid = np.broadcast_to(d.valid, (R + 1,))
        CC = np.broadcast_to(d.C, (R + 1,) + d.C.shape[1:])
        with np.errstate(all='ignore'):
            H00 = np.array([(np.linalg.inv(CC[r])[0, 0] if valid[r] and np.all(np.isfinite(CC[r]))
                             and abs(np.linalg.det(CC[r])) > 0 else 0.0) for r in range(R + 1)])
            cov = H00 / max(H00.max(), 1e-300)
            radii = [r for r in range(5, R + 1) if valid[r] and cov[r] >= 0.25
                     and (N == 1 or np.linalg.cond(CC[r]) <= 1000)]
        if not radii:
            continue
        n_radii += len(radii)
        tol = remap_tol(N, odd_r)
        err = float(np.abs(res[:, radii] - np.array(coef)[:, None]).max())
        if not err <= tol:
            params = dict(IM=IM.tolist(), W=None if W is None else W.tolist(), origin=[row, col], rmax=rm, order=order,
                          odd=odd, use_sin=sin, coef=coef, radii=[int(r) for r in radii], tol=tol)
            key = "C14:remap:N=%d:odd=%s:origin=%s:weights=%s:use_sin=%s" % (N, odd_r, oc, ['None', 'ones', 'smooth'][wk], sin)
            hits.append(Hit('returns-coefficients', key,
                            "method='remap': exact-model image (shape %dx%d, origin (%d, %d) [%s], rmax %r, order %d, odd %s, use_sin %s, "
                            "weights %s) not recovered to interpolation accuracy: max error %.3g > %.3g"
                            % (h, w, row, col, oc, rm, order, odd, sin, ['None', 'ones', 'smooth'][wk], err, tol),
                            SNIPPET_REMAP % dict(params=json.dumps(params)),
                            dict(shape=[h, w], origin=[row, col], rmax=rm, order=order, odd=odd, use_sin=sin)))
    return hits, n_eval, len(distinct), n_radii


def search_beta(ctx, rng, budget):
    from abel.tools.vmi import anisotropy_parameter
    hits, n_eval = [], 0

    def P2(x):
        return (3 * x * x - 1) / 2

    for it in range(budget):
        kind = it % 10
        beta = -1.0 if kind == 0 else (2.0 if kind == 1 else float(rng.uniform(-1, 2)))
        A = float(10 ** rng.uniform(-3, 3))
        nth = int(rng.integers(4, 200))
        g = rng.integers(3)
        if g == 0:
            th = np.linspace(0, np.pi, nth)
        elif g == 1:
            th = np.sort(rng.uniform(-np.pi, np.pi, nth))
        else:
            th = np.linspace(0, 2 * np.pi, nth, endpoint=False)
        tr = None
        trk = 'none'
        if rng.random() < 0.3:
            a, b = np.sort(rng.uniform(th.min(), th.max(), 2))
            tr, trk = [(float(a), float(b))], 'one'
            if rng.random() < 0.4:
                a2, b2 = np.sort(rng.uniform(th.min(), th.max(), 2))
                tr.append((float(a2), float(b2)))
                trk = 'two-disjoint' if (b2 < a or a2 > b) else 'two-overlapping'
        # the points the documentation says are fitted: union of the ranges
        sel = np.ones(len(th), bool) if tr is None else np.zeros(len(th), bool)
        if tr is not None:
            for (a, b) in tr:
                sel |= (th >= a) & (th <= b)
        if len(set(np.round(np.cos(th[sel]) ** 2, 9))) < 3:
            continue
        I = A * (1 + beta * P2(np.cos(th)))
        mode = ['reject', 'raw', 'bound'][rng.integers(3)]
        at_limit = beta in (-1.0, 2.0)
        tol = 1e-2 if mode == 'bound' else 1e-5
        n_eval += 1
        what = None

        def outcome(t, y, ranges, mode_=None):
            try:
                with warnings.catch_warnings():
                    warnings.simplefilter('ignore')
                    (bb, _), _ = anisotropy_parameter(t, y, theta_ranges=ranges, mode=mode_ or mode)
                return ('value', float(bb))
            except Exception as e:     # noqa
                return ('exception', type(e).__name__)

        try:
            with warnings.catch_warnings():
                warnings.simplefilter('ignore')
                (b_, eb), (a_, ea) = anisotropy_parameter(th, I, theta_ranges=tr, mode=mode)
            if not (np.isfinite(b_) and abs(b_ - beta) <= tol):
                what = 'returns %r for a noiseless curve with beta = %r (mode %r, theta_ranges %s)' % (
                    float(b_), beta, mode, trk)
                key = 'C14:anisotropy:%s:mode=%s:theta_ranges=%s:%s' % (
                    'nan' if not np.isfinite(b_) else 'inaccurate', mode, trk,
                    'beta-at-physical-limit' if at_limit else 'beta-inside')
                if at_limit and mode == 'reject' and np.isnan(b_):
                    # the recorded finding, matched precisely: noiseless curve, beta exactly at a
                    # physical limit, default mode 'reject' returns nan although the unfiltered
                    # fit (mode 'raw') is within 1e-5 of the limit, just outside [-1, 2]
                    raw = outcome(th, I, tr, 'raw')
                    if raw[0] == 'value' and abs(raw[1] - beta) <= 1e-5 and (raw[1] > 2 or raw[1] < -1):
                        key = 'C14:anisotropy:reject-nan-at-physical-limit'
        except Exception as e:     # noqa
            what = 'raises %s (%s) for theta_ranges %s' % (type(e).__name__, e, trk)
            key = 'C14:anisotropy:exception:%s:theta_ranges=%s' % (type(e).__name__, trk)
        if what:
            params = dict(theta=th.tolist(), beta=beta, A=A, theta_ranges=tr, mode=mode, tol=tol)
            hits.append(Hit('anisotropy-parameter', key, 'anisotropy_parameter ' + what,
                            SNIPPET_BETA % dict(params=json.dumps(params)),
                            dict(beta=beta, A=A, n_theta=nth, mode=mode, theta_ranges=tr)))
    return hits, n_eval


# ---------------------------------------------------------------------------

def run(ctx):
    rng = np.random.default_rng(ctx.seed)
    warnings.simplefilter('ignore')
    # 0. translator (tie a): regenerate gen/VmiInv.v from the current source
    trans_err = None
    try:
        from translate import vmi_inv, vmi_index
        vmi_inv.generate()
        vmi_index.generate()
    except Exception as e:     # noqa
        trans_err = '%s: %s' % (type(e).__name__, e)
    # 1. theorems (re-proves inv2_correct / inv3_correct against the regenerated file)
    pr = vlib.coq_props('C14', extra_targets=['model/DistrQ.vo'])
    ctx.cov.update(obligations=len(pr['theorems']), discharged=pr['discharged'], theorems=pr['theorems'],
                   axioms=pr['axioms'],
                   checker_cmd='tools/translate/vmi_inv.py; make -C /verif/coq props/C14.vo (coqc 8.16.1, full .vo '
                               'build) + Print Assumptions; coqc cases/C14g_*.v cases/C14v_*.v (vm_compute)',
                   trusted_base=vlib.TRUSTED_COMMON + [
                       'axioms reported by Print Assumptions: ' + ', '.join(pr['axioms']),
                       'the ast translator tools/translate/vmi_inv.py (fail-closed, ~250 lines)',
                       'fixed-point (2^-100) evaluation of the model inside Coq approximates its real-number instance; '
                       'square roots are binary64 values validated inside Coq by squaring'])
    # 2. correspondence
    exc = []
    g_n, g_ok, g_bad, g_err, g_dist = correspondence_geom(ctx, rng, exc)
    v_n, v_ok, v_bad, v_err, v_cmp, v_skip = correspondence_values(ctx, rng, exc)
    ctx.cov.update(traces_validated_against_impl=g_ok + v_ok, correspondence_cases=g_n + v_n,
                   correspondence_disagreements=len(g_bad) + len(v_bad),
                   value_radii_compared=v_cmp, value_radii_skipped=v_skip,
                   input_distribution=g_dist)
    broken = bool(trans_err) or (not pr['ok']) or g_bad or v_bad or g_err or v_err
    # 3. search
    budget = (250 if ctx.quick else 2500) * (3 if broken else 1)
    hits, n_eval, n_distinct, n_radii, samples = search_model(ctx, rng, budget)
    bhits, b_eval = search_beta(ctx, rng, (150 if ctx.quick else 1500) * (3 if broken else 1))
    uhits, u_eval, u_dist = search_reuse(ctx, rng, (200 if ctx.quick else 2000) * (3 if broken else 1))
    mhits, m_eval, m_dist, m_radii = search_remap(ctx, rng, (400 if ctx.quick else 4000) * (3 if broken else 1))
    dfails, d_eval, d_dist = L.dtype_search(rng, (300 if ctx.quick else 3000) * (3 if broken else 1), 'distributions', 'C14')
    dhits = [Hit('dtype-independence', k_, 'Distributions(...).image().cos(): ' + w_, sn_, da_) for (k_, w_, sn_, da_) in dfails]
    lfails, l_eval, l_dist = L.layout_search(rng, (400 if ctx.quick else 4000) * (3 if broken else 1), 'distributions', 'C14')
    dhits += [Hit('layout-independence', k_, 'Distributions(...).image().cos(): ' + w_, sn_, da_) for (k_, w_, sn_, da_) in lfails]
    d_eval += l_eval
    d_dist += l_dist
    hits += uhits + mhits + dhits
    seen_exc = set()
    for c, out in exc:
        h = exc_hit(c, out)
        if h.key not in seen_exc:
            seen_exc.add(h.key)
            hits.append(h)
    hits += bhits
    ctx.cov.update(evaluations=n_eval + b_eval + u_eval + m_eval + d_eval + g_n + v_n,
                   distinct_nontrivial=n_distinct + u_dist + m_dist + d_dist,
                   radii_checked=n_radii, remap_radii_checked=m_radii, object_reuse_sequences=u_eval,
                   rule='search: exact-model images (random shape 3..33, origin tuple incl. negative / edge / corner / '
                        'location string, rmax keyword or integer, order 0..8, odd on/off, nearest/linear, use_sin '
                        'on/off, positive weights or None) compared with their coefficients at radii whose Hankel '
                        'matrix has cond <= 1e8 (tolerance (1e-9 + 1e-13 cond)(1+|c|)); a configuration is distinct by '
                        '(method, use_sin, odd, N, origin class, weights present, rmax keyword); anisotropy_parameter on '
                        'noiseless curves (beta in [-1,2] incl. the limits, A in 1e-3..1e3, three kinds of theta grid, '
                        'zero/one/two theta_ranges, three modes); object reuse: one Distributions object through 2-3 images of '
                        'different or equal shapes (nearest/linear/remap) must agree with a fresh object per image; remap: '
                        'exact-model images (20..69 squared, corner/edge/centre/inside origins, all rmax keywords and integers, '
                        'order 0..4, odd on/off, weights None/ones/smooth, sin on/off) recovered to the calibrated interpolation '
                        'tolerances 1e-9 / 0.08 / 0.15 / 0.35 at radii >= 5 with cond <= 1000 and coverage >= 1/4; dtype independence: images '
                        'and weights of dtype uint8/int8/uint16/int16/int32/uint32/int64/float32 with values up to the type extremes must '
                        'give the result of their float64 copies (bit for bit whenever all conversions are exact, float32 products to 1e-4 '
                        'at radii with cond <= 1e3), all methods, folding and non-folding origins; memory-layout independence: image / weights as '
                        'Fortran-ordered, transposed view, strided view of a larger array, negative-stride view, read-only: bit-identical to the '
                        'C-contiguous copies and arguments left intact (mostly non-square shapes, corner / edge / inside origins)',
                   samples=samples, exhaustive=False)
    new, seen = 0, set()
    for h in hits:
        if (h.key, h.clause) in seen:
            continue
        seen.add((h.key, h.clause))
        if new >= MAX_REPORTED:
            ctx.cov['hits_not_reported'] = ctx.cov.get('hits_not_reported', 0) + 1
            continue
        if ctx.report_hit(h):
            new += 1
    if trans_err and new == 0:
        ctx.report_broken('translator', 'tools/translate/vmi_inv.py (inv2/inv3 of abel/tools/vmi.py)', trans_err)
    if not pr['ok'] and new == 0:
        ctx.report_broken('proof', pr['broken'] or 'props/C14.v', pr['error'] or '')
    if (g_bad or g_err) and new == 0:
        detail = ''
        if g_bad:
            detail = 'first disagreeing case (h, w, origin, rmax, order, odd, method, use_sin): %r' % (g_bad[0],)
        if g_err:
            detail += ' coq errors: %r' % (g_err[:1],)
        ctx.report_broken('correspondence', 'model/DistrGeom.v vs Distributions._precalc geometry (%d of %d cases disagree)'
                          % (len(g_bad), g_n), detail)
    if (v_bad or v_err) and new == 0:
        detail = ''
        if v_bad:
            c = v_bad[0]
            detail = 'first disagreeing case: shape=%dx%d origin=%r rmax=%r order=%d odd=%s method=%s use_sin=%s weights=%s IM=%s' % (
                c[0], c[1], c[2], c[3], c[4], c[5], c[6], c[7], 'None' if c[8] is None else c[8].tolist(), c[9].tolist())
        if v_err:
            detail += ' coq errors: %r' % (v_err[:1],)
        ctx.report_broken('correspondence', 'model/DistrFit.v vs Distributions.image().cos() (%d of %d cases disagree)'
                          % (len(v_bad), v_n), detail)
    ctx.assumptions += [
        'theorems are about the R instance of the polymorphic models; the correspondence runs them in 2^-100 fixed-point '
        'arithmetic on rationals with square roots taken from numpy (validated by squaring inside Coq)',
        'C14_fit_exact_partial is end-to-end (origin, rmax, folding, bins, weights, sin, integrals, solve) for N <= 3 angular '
        'terms; for N > 3 (numpy.linalg.inv branch) the algebra is proved at pixel level over any field '
        '(C14_fit_exact_any_order) and the implementation is only swept numerically',
        "method 'remap' (spline resampling) is not modelled in Coq: swept numerically with calibrated interpolation tolerances",
        'object reuse (one Distributions object, several image shapes) is part of the correspondence: a third of the observed '
        'objects have analysed another image first',
        'anisotropy_parameter: only uniqueness of the least-squares minimiser is proved; the optimiser is swept',
        'Results.cos() is compared with the model only at radii whose exact Hankel determinant is non-zero and whose '
        'cancellation factor is <= 2^20; valid[] is compared where exact arithmetic determines it',
    ]
    ctx.notes.append('per-instance machine-checked goals: every correspondence case is a vm_compute evaluation inside Coq')
