# C20 — a request the library cannot honour fails loudly, never silently
# substituted.
#
#   model      coq/model/Dispatch.v : the guards (direction / shape / option
#              checks) of the ten methods and of abel.Transform as a decision
#              function  outcome : request -> Raise | Performs (method, dir)
#   theorem    coq/props/C20.v : for EVERY request of the (finite) product space
#              the outcome is Raise or the requested operation; a forward
#              request is never answered by an inverse (vm_compute over the
#              enumerated space, bound stated in the theorem)
#   tie        every cell family is executed on the implementation on every
#              run and the observed outcome class is compared with the model's
#              (exhaustive on the executed grid)
#   search     the grid itself: a cell that neither raises nor performs the
#              requested operation is the failing input
import json
import warnings

import numpy as np

import vlib
from vlib import Hit

LEVEL = 'proof'

METHODS = ['basex', 'daun', 'direct', 'hansenlaw', 'onion_bordas', 'onion_peeling',
           'two_point', 'three_point', 'linbasex', 'rbasex']
TWO_WAY = ['basex', 'daun', 'direct', 'hansenlaw', 'rbasex']
FULL = ['linbasex', 'rbasex']
DIRS = ['forward', 'inverse', 'sideways']
COQ_M = dict(basex='Basex', daun='Daun', direct='Direct', hansenlaw='Hansenlaw', onion_bordas='OnionBordas',
             onion_peeling='OnionPeeling', two_point='TwoPoint', three_point='ThreePoint',
             linbasex='Linbasex', rbasex='Rbasex')
COQ_D = dict(forward='Forward', inverse='Inverse', sideways='Sideways')

PRELUDE = r'''
import warnings, sys
import numpy as np
warnings.simplefilter('ignore')
import abel
from abel import basex, daun, dasch, direct, hansenlaw, onion_bordas, linbasex, rbasex
from abel.tools import center as tcenter, symmetry as tsym
SIG = 4.0
N = 21
x = np.arange(N) - N // 2
X, Y = np.meshgrid(x, x)
IM = np.exp(-(X**2 + Y**2) / SIG**2)
HALF = IM[:N // 2 + 1, N // 2:]
FUN = {
 'basex': lambda Q, **k: basex.basex_transform(Q, verbose=False, basis_dir=None, **k),
 'daun': lambda Q, **k: daun.daun_transform(Q, verbose=False, basis_dir=None, **k),
 'direct': lambda Q, **k: direct.direct_transform(Q, **k),
 'hansenlaw': lambda Q, **k: hansenlaw.hansenlaw_transform(Q, **k),
 'onion_bordas': lambda Q, **k: onion_bordas.onion_bordas_transform(Q, **k),
 'onion_peeling': lambda Q, **k: dasch.onion_peeling_transform(Q, basis_dir=None, **k),
 'two_point': lambda Q, **k: dasch.two_point_transform(Q, basis_dir=None, **k),
 'three_point': lambda Q, **k: dasch.three_point_transform(Q, basis_dir=None, **k),
 'linbasex': lambda Q, **k: linbasex.linbasex_transform_full(Q, basis_dir=None, **k)[0],
 'rbasex': lambda Q, **k: rbasex.rbasex_transform(Q, **k)[0],
 # the single-quadrant front end of linbasex (a public entry point of its own)
 'linbasex_quadrant': lambda Q, **k: linbasex.linbasex_transform(Q, basis_dir=None, **k),
}
TOPT = {'basex': dict(verbose=False, basis_dir=None), 'daun': dict(verbose=False, basis_dir=None),
        'onion_peeling': dict(basis_dir=None), 'two_point': dict(basis_dir=None),
        'three_point': dict(basis_dir=None), 'linbasex': dict(basis_dir=None)}
FULLM = ('linbasex', 'rbasex')

def fresh():
    # C20 is about single requests: start every cell from empty caches
    for mod in (basex, daun, dasch, linbasex, rbasex):
        try:
            mod.cache_cleanup()
        except Exception:
            pass

def classify(R, Xin):
    """Which Abel transform of the centred Gaussian is R?  The forward transform
    of exp(-r^2/s^2) is s*sqrt(pi)*exp(-x^2/s^2) and the inverse transform is
    exp(-r^2/s^2)/(s*sqrt(pi)): the ratio R/X tells them apart (factor 50)."""
    R = np.asarray(R, dtype=float)
    Xin = np.asarray(Xin, dtype=float)
    if R.shape != Xin.shape or not np.all(np.isfinite(R)):
        return 'other'
    m = Xin > 0.2 * Xin.max()
    if m.sum() < 3:
        return 'other'
    rat = float(np.median(R[m] / Xin[m]))
    f = SIG * np.sqrt(np.pi)
    if 0.5 < rat / f < 2:
        return 'forward'
    if 0.5 < rat * f < 2:
        return 'inverse'
    return 'other'

def call_fn(m, arg, **kw):
    return FUN[m](arg, **kw)

def call_tr(m, arg, direction, topt=None, **kw):
    o = dict(TOPT.get(m, {}))
    o.update(topt or {})
    return abel.Transform(arg, method=m, direction=direction, transform_options=o, **kw).transform

def outcome_all(fs, Xin, m=None):
    """A cell that stands for 'any value outside the documented set' is run
    with several such values (near-misses of the documented names included);
    the first one that does not raise decides the outcome."""
    for val, f in fs:
        o = outcome(f, Xin, m)
        if not o.startswith('raise'):
            return o + '@' + repr(val)
    return o

def warm(m):
    """Fill the caches of method m by ordinary valid requests on the full-size
    data (both directions where implemented): the answer to a request must not
    depend on what was asked before."""
    if m is None:
        return
    arg = IM if m in FULLM else HALF
    for d in ('inverse', 'forward'):
        try:
            FUN[m](arg, direction=d)
        except Exception:
            pass

def once(f, Xin):
    try:
        R = f()
    except Exception as e:
        return 'raise:' + type(e).__name__
    return classify(R, Xin)

def outcome(f, Xin, m=None):
    """The request is made in three cache states: empty caches; after ordinary
    valid requests of the same method; and once more immediately after itself.
    The outcome class must be the same in all three -- the first state that
    answers differently from the empty-cache state is reported."""
    fresh()
    o0 = once(f, Xin)
    fresh()
    warm(m)
    o1 = once(f, Xin)
    o2 = once(f, Xin)
    cls = lambda o: 'raise' if o.startswith('raise') else o
    for tag, o in (('after-valid-requests', o1), ('repeated', o2)):
        if cls(o) != cls(o0):
            return o + '~' + tag
    return o0
'''


SHAPES = ['OneD', 'TwoRows', 'OneCol', 'TwoCols', 'NonSquare', 'EvenSize']
OPTS = ['BadMethod', 'BadOrigin', 'BadCrop', 'BadSymMethod', 'NoQuadrants',
        'DaunRegString', 'DaunRegTuple', 'DaunDegree', 'DaunNonneg',
        'RbasexReg', 'RbasexRegTuple', 'RbasexOut', 'RbasexRmax']
BAD_VALUES = dict(
    BadMethod=['foo', 'Basex', 'basex ', 'three_points', 'hansen_law', 'onion', 'two-point', 'rbasex2', 'direct_', ''],
    BadOrigin=['foo', 'center', 'COM', 'com ', 'convolve', 'gauss', 'image-center', 'slices', 'None', ''],
    BadCrop=['foo', 'maintain', 'valid', 'maintain-size', 'Valid_region', 'maintain_size ', 'maintain_datas', ''],
    BadSymMethod=['foo', 'Average', 'avg', 'fourier ', 'fft', 'averages', ''],
    DaunRegString=['foo', 'nonnegative', 'Nonneg', 'non-neg', 'diff', 'L2', 'L2c', 'nonneg '],
    DaunRegTuple=[('foo', 1.0), ('l2', 1.0), ('L2 ', 1.0), ('Diff', 1.0), ('L2C', 1.0), ('L22', 1.0), ('nonneg', 1.0), ('', 1.0)],
    DaunDegree=[5, 4, -1],
    RbasexReg=['foo', 'positive', 'Pos', 'nonneg', 'pos ', 'L2', 'SVD'],
    RbasexRegTuple=[('foo', 1.0), ('l2', 1.0), ('svd', 0.5), ('L2c', 1.0), ('Diff', 1.0), ('pos', 1.0), ('SVD ', 0.5)],
    RbasexOut=['foo', 'full_unique', 'fullunique', 'Same', 'folded', 'unfolded', 'full-uniq', 'same ', 'FULL', ''],
    RbasexRmax=['foo', 'Hor', 'minimum', 'ALL', 'horizontal', 'Max', 'all ', ''],
)
OPT_ARG = dict(DaunRegString='reg', DaunRegTuple='reg', DaunDegree='degree', RbasexReg='reg', RbasexRegTuple='reg',
               RbasexOut='out', RbasexRmax='rmax')

OPT_KW = dict(DaunRegString="reg='foo'", DaunRegTuple="reg=('foo', 1.0)", DaunDegree="degree=5",
              DaunNonneg="reg='nonneg'", RbasexReg="reg='foo'", RbasexRegTuple="reg=('foo', 1.0)",
              RbasexOut="out='foo'", RbasexRmax="rmax='foo'")
TR_KW = dict(BadOrigin="origin='foo'", BadCrop="origin=(10, 10), center_options=dict(crop='foo')",
             BadSymMethod="symmetrize_method='foo'", NoQuadrants="use_quadrants=(False,)*4")


def shape_applies(via, m, sh):
    if sh in ('OneD', 'TwoRows'):
        return via == 'Tr'
    if sh == 'OneCol':
        return m in ('two_point', 'three_point')
    if sh == 'TwoCols':
        return m == 'three_point'
    return m == 'linbasex'


def opt_applies(via, m, o):
    if o == 'BadMethod':
        return via == 'Tr' and m == 'basex'
    if o in ('BadOrigin', 'BadCrop', 'NoQuadrants'):
        return via == 'Tr'
    if o == 'BadSymMethod':
        return via == 'Tr' and m not in FULL
    if o.startswith('Daun'):
        return m == 'daun'
    return m == 'rbasex'


def cell_expr(via, m, d, sh, o):
    """Python expression (in the PRELUDE namespace) that makes the request and
    returns its outcome class."""
    if via == 'Fn':
        base = 'IM' if m in FULL else 'HALF'
        arg = dict(Fine=base, OneCol='HALF[:, :1]', TwoCols='HALF[:, :2]',
                   NonSquare='IM[2:-2]', EvenSize='IM[:-1, :-1]')[sh]
        if o in BAD_VALUES:
            fs = ', '.join("(%r, lambda: call_fn(%r, %s, direction=%r, %s=%r))" % (v, m, arg, d, OPT_ARG[o], v)
                           for v in BAD_VALUES[o])
            return "outcome_all([%s], %s, %r)" % (fs, arg, m)
        kw = (', ' + OPT_KW[o]) if o in OPT_KW else ''
        return "outcome(lambda: call_fn(%r, %s, direction=%r%s), %s, %r)" % (m, arg, d, kw, arg, m)
    arg = dict(Fine='IM', OneD='IM[3]', TwoRows='IM[9:11]', OneCol='IM[:, 10:11]', TwoCols='IM[:, 9:12]',
               NonSquare='IM[2:-2]', EvenSize='IM[:-1, :-1]')[sh]
    if o == 'BadMethod':
        fs = ', '.join("(%r, lambda: abel.Transform(IM, method=%r, direction=%r).transform)" % (v, v, d)
                       for v in BAD_VALUES[o])
        return "outcome_all([%s], IM)" % fs
    if o in ('BadOrigin', 'BadCrop', 'BadSymMethod'):
        tmpl = dict(BadOrigin="origin=%r", BadCrop="origin=(10, 10), center_options=dict(crop=%r)",
                    BadSymMethod="symmetrize_method=%r")[o]
        fs = ', '.join("(%r, lambda: call_tr(%r, %s, %r, %s))" % (v, m, arg, d, tmpl % v) for v in BAD_VALUES[o])
        return "outcome_all([%s], %s, %r)" % (fs, arg, m)
    if o in BAD_VALUES:
        fs = ', '.join("(%r, lambda: call_tr(%r, %s, %r, topt={%r: %r}))" % (v, m, arg, d, OPT_ARG[o], v)
                       for v in BAD_VALUES[o])
        return "outcome_all([%s], %s, %r)" % (fs, arg, m)
    kw = ''
    if o in OPT_KW:
        kw = ', topt=dict(%s)' % OPT_KW[o]
    elif o in TR_KW:
        kw = ', ' + TR_KW[o]
    return "outcome(lambda: call_tr(%r, %s, %r%s), %s, %r)" % (m, arg, d, kw, arg, m)


def cells():
    """The request space, enumerated in the same order as all_requests in
    coq/model/Dispatch.v (the Coq side checks that the two lists are equal),
    followed by the image-tool cells that have no model counterpart.
    Each entry: (cell id, coq request term or None, python expression)."""
    out = []

    def rq(via, m, d, sh, opt):
        return '{| r_via := %s; r_meth := %s; r_dir := %s; r_shape := %s; r_opt := %s |}' % (
            via, COQ_M[m], COQ_D[d], sh, opt)

    for via in ('Fn', 'Tr'):
        for m in METHODS:
            for d in DIRS:
                combos = [('Fine', 'NoOpt')]
                combos += [(sh, 'NoOpt') for sh in SHAPES if shape_applies(via, m, sh)]
                combos += [('Fine', o) for o in OPTS if opt_applies(via, m, o)]
                for sh, o in combos:
                    out.append(('%s/%s/%s/%s/%s' % (via, m, d, sh, o), rq(via, m, d, sh, o),
                                cell_expr(via, m, d, sh, o)))
    # further public entry points that take a direction (no model counterpart: the
    # expected outcome is that of the method they front)
    for d in DIRS:
        out.append(('wrap/linbasex_quadrant/%s/Fine/NoOpt' % d, None,
                    "outcome(lambda: call_fn('linbasex_quadrant', HALF, direction=%r), HALF, 'linbasex')" % d))
    # linbasex needs a whole square image: 1-D data and a single row must be refused
    # by the function itself (Transform refuses them for every method: OneD / TwoRows)
    for nm, arg in (('OneD', 'IM[3]'), ('OneRow', 'IM[3:4]'), ('ThreeRows', 'IM[3:6]')):
        out.append(('wrap/linbasex_full/inverse/%s/NoOpt' % nm, None,
                    "outcome(lambda: call_fn('linbasex', %s, direction='inverse'), IM, 'linbasex')" % arg))
    # image tools called directly with unknown names (must raise; search only)
    def multi(vals, tmpl):
        return "outcome_all([%s], IM)" % ', '.join("(%r, lambda: %s)" % (v, tmpl % v) for v in vals)
    out.append(('tools/center_image/inverse/Fine/BadOrigin', None,
                multi(BAD_VALUES['BadOrigin'], "tcenter.center_image(IM, method=%r)")))
    out.append(('tools/find_origin/inverse/Fine/BadOrigin', None,
                multi(BAD_VALUES['BadOrigin'], "np.asarray(tcenter.find_origin(IM, method=%r))")))
    out.append(('tools/set_center/inverse/Fine/BadCrop', None,
                multi(BAD_VALUES['BadCrop'], "tcenter.set_center(IM, (10, 10), crop=%r)")))
    out.append(('tools/get_image_quadrants/inverse/Fine/BadSymMethod', None,
                multi(BAD_VALUES['BadSymMethod'], "tsym.get_image_quadrants(IM, symmetrize_method=%r)[0]")))
    out.append(('tools/get_image_quadrants/inverse/Fine/NoQuadrants', None,
                "outcome(lambda: tsym.get_image_quadrants(IM, use_quadrants=(False,)*4)[0], IM)"))
    return out


IMPLEMENTED_FWD = set(TWO_WAY)


def expected(cid):
    """What the property allows for a cell: the set of acceptable outcome
    classes (independent of the Coq model)."""
    via, m, d, sh, o = cid.split('/')
    if via == 'tools':
        return {'raise'}
    if via == 'wrap':
        return {'inverse'} if (d == 'inverse' and sh == 'Fine') else {'raise'}
    if d == 'sideways' or (d == 'forward' and m not in IMPLEMENTED_FWD):
        return {'raise'}
    if sh != 'Fine':
        return {'raise'}
    if o == 'NoOpt':
        return {d}
    if o == 'DaunNonneg':
        return {'raise'} if d == 'forward' else {d}
    if o in ('RbasexReg', 'RbasexRegTuple') and d == 'forward':
        return {'raise', 'forward'}      # reg is only interpreted by the inverse transform
    return {'raise'}


def run_grid(cs):
    """Execute all cells in one interpreter (imports dominate the cost)."""
    prog = PRELUDE + '\nimport json\nres = {}\n'
    for cid, _, expr in cs:
        prog += 'res[%r] = %s\n' % (cid, expr)
    prog += "print('@@' + json.dumps(res))\n"
    rc, out = vlib.run_snippet(prog, timeout=900)
    for line in out.splitlines():
        if line.startswith('@@'):
            return json.loads(line[2:])
    raise RuntimeError('grid run failed:\n' + out[-2000:])


def run(ctx):
    cs = cells()
    # 1. theorems
    pr = vlib.coq_props('C20', translators=['dir_guards', 'opt_names'])
    ctx.cov.update(obligations=len(pr['theorems']), discharged=pr['discharged'], theorems=pr['theorems'],
                   axioms=pr['axioms'],
                   checker_cmd='make -C /verif/coq props/C20.vo (coqc 8.16.1) + Print Assumptions',
                   trusted_base=vlib.TRUSTED_COMMON + ['axioms: ' + (', '.join(pr['axioms']) or 'none (closed under the global context)'),
                                                       'classification of a returned image as forward/inverse transform by its ratio to the Gaussian input (closed-form Abel pair)'])
    # 2. run the grid on the implementation
    res = run_grid(cs)
    # 3. model outcomes for the same cells
    mcells = [c for c in cs if c[1] is not None]
    body = vlib.list_lit([t for _, t, _ in mcells])
    # the candidate "bad" values must really lie outside the documented sets of model/OptNamesDoc.v
    DOC = dict(BadMethod='doc_transform_methods', BadOrigin='doc_origin_methods', BadCrop='doc_crop_names',
               BadSymMethod='doc_symmetrize_names', DaunRegString='doc_daun_reg_strings',
               DaunRegTuple='doc_daun_reg_types', RbasexReg='doc_rbasex_reg_strings',
               RbasexRegTuple='doc_rbasex_reg_types', RbasexOut='doc_rbasex_out_names', RbasexRmax='doc_rmax_names')
    outside = ' && '.join('all_outside [%s]%%string %s' % (
        '; '.join('"%s"' % (v[0] if isinstance(v, tuple) else v) for v in BAD_VALUES[k]), d) for k, d in sorted(DOC.items()))
    text = (vlib.HEADER_CASES + 'From Coq Require Import String.\n'
            'From PA Require Import model.Dispatch proofs.DispatchProofs model.OptNamesDoc.\n'
            'Definition cells : list request := %s.\n'
            'Eval vm_compute in (map (fun r => outcome_code (outcome_of r)) cells).\n'
            'Eval vm_compute in (if requests_eqb cells all_requests then [1] else [0]).\n'
            'Eval vm_compute in (if (%s)%%bool then [1] else [0]).\n' % (body, outside))
    rc, out = vlib.coq_eval('C20_cells', text)
    lists = vlib.parse_eval_lists(out)
    model = vlib.parse_nat_list(lists[0]) if (rc == 0 and len(lists) == 3) else None
    same_space = (rc == 0 and len(lists) == 3 and vlib.parse_nat_list(lists[1]) == [1])
    cands_outside = (rc == 0 and len(lists) == 3 and vlib.parse_nat_list(lists[2]) == [1])
    # outcome_code: 0 Raise, 1 Performs forward, 2 Performs inverse
    CODE = {0: 'raise', 1: 'forward', 2: 'inverse'}
    hits = []
    disagreements = []
    dist = {}
    k = -1
    for (cid, term, expr) in cs:
        o = res[cid]
        oc = 'raise' if o.startswith('raise') and '~' not in o else o.split('@')[0]
        dist[oc] = dist.get(oc, 0) + 1
        want = expected(cid)
        # the property itself: raise, or perform exactly what was requested
        if oc not in want:
            snippet = PRELUDE + '\no = %s\nprint(%r, "->", o)\no = "raise" if o.startswith("raise") and "~" not in o else o.split("@")[0]\nsys.exit(0 if o in %r else 1)\n' % (expr, cid, sorted(want))
            hits.append(Hit('loud_or_honoured', 'C20:' + cid,
                            'request %s is answered with "%s"; the property allows only %s' % (cid, o, sorted(want)),
                            snippet, dict(cell=cid, observed=o, allowed=sorted(want))))
        if term is not None:
            k += 1
            if model is not None and CODE.get(model[k]) != oc:
                disagreements.append((cid, CODE.get(model[k]), o))
    ctx.cov.update(evaluations=len(cs), distinct_nontrivial=len(set(c[0] for c in cs)),
                   traces_validated_against_impl=len(cs) - len(disagreements),
                   rule='three calls (empty caches / after valid requests of the same method / repeated) per request (for an option value outside its documented set: one request per candidate bad value, near-misses of the documented names included) per cell of the request grid (families: 10 methods x 3 directions x {function, Transform}; '
                        'shapes violating a stated requirement; option values outside their documented sets); every cell is distinct',
                   samples=[dict(cell=c[0], observed=res[c[0]]) for c in cs[:6]],
                   exhaustive=True, outcome_distribution=dist, correspondence_disagreements=len(disagreements))
    new = 0
    for h in hits:
        if ctx.report_hit(h):
            new += 1
    if not pr['ok'] and new == 0:
        ctx.report_broken('proof', pr['broken'] or 'props/C20.v', pr['error'] or '')
    if model is None and new == 0:
        ctx.report_broken('correspondence', 'model/Dispatch.v could not be evaluated', out[-1500:])
    elif not cands_outside and new == 0:
        ctx.report_broken('correspondence', 'candidate bad option values of tools/props/C20.py are not all outside the documented sets of model/OptNamesDoc.v', '')
    elif not same_space and new == 0:
        ctx.report_broken('correspondence', 'request grid of tools/props/C20.py differs from all_requests of model/Dispatch.v', '')
    elif disagreements and new == 0:
        ctx.report_broken('correspondence', 'model/Dispatch.v vs implementation on %d cells' % len(disagreements),
                          '; '.join('%s: model %s, implementation %s' % d for d in disagreements[:8]))
    ctx.assumptions += ['the model coq/model/Dispatch.v is hand-written from the guards in transform.py, dasch.py, '
                        'onion_bordas.py, linbasex.py, daun.py, rbasex.py, center.py, symmetry.py and is compared with '
                        'the implementation on every executed cell',
                        'every cell is executed in three cache states (empty; after valid requests of the same method; repeated immediately) and must give the same outcome class in all three; longer histories are property C07']
