# Shared pieces of the checks C03 / C04 / C17 (builder group "algebra").
import contextlib
import json
import sys
import warnings

import numpy as np

import vlib

TRUSTED_ALGEBRA = [
    'scipy.linalg.inv / solve_triangular / numpy dot, .T, tensordot, eye, diag are modelled by their specification '
    '(coq/base/MxNp.v: invmx, invmx of the triangle read by LAPACK, mulmx, trmx); scipy.optimize.nnls by its '
    'specification argmin_{x>=0} ||Ax-b|| (coq/model/LinOps.v)',
    'tools/translate/_symexec.py + matrix_expr.py (symbolic execution of the Python ast of /repo, fail closed); its '
    'output is validated numerically against the implementation on every run',
    'the basis matrices (daun B, rbasex P, basex M/Mc, dasch W/D) are parameters of the theorems; their entries are '
    'property C09; theorems assume fresh module caches and no basis file (cache behaviour is C07)',
]


def rel_err(a, b):
    a = np.asarray(a, dtype=float)
    b = np.asarray(b, dtype=float)
    if a.shape != b.shape:
        return float('inf')
    if not (np.all(np.isfinite(a)) and np.all(np.isfinite(b))):
        return float('inf')
    d = float(np.max(np.abs(a - b))) if a.size else 0.0
    s = max(float(np.max(np.abs(b))) if b.size else 0.0, float(np.max(np.abs(a))) if a.size else 0.0, 1e-300)
    return d / s


def cleanup():
    import abel.basex, abel.daun, abel.rbasex, abel.dasch, abel.linbasex   # noqa
    for m in (abel.basex, abel.daun, abel.rbasex, abel.dasch, abel.linbasex):
        try:
            m.cache_cleanup()
        except Exception:      # noqa
            pass


@contextlib.contextmanager
def quiet():
    with warnings.catch_warnings(), np.errstate(all='ignore'):
        warnings.simplefilter('ignore')
        yield


def capture_locals(code_name, file_suffix, names, fn):
    """Run fn() and return (result, locals of the LAST returning frame of the
    named function) -- used to read values the implementation computed
    (Tikhonov matrices, coefficient tables) without re-implementing them."""
    got = {}

    def prof(frame, event, arg):
        if event == 'return' and frame.f_code.co_name == code_name \
                and frame.f_code.co_filename.endswith(file_suffix):
            for k in names:
                if k in frame.f_locals:
                    v = frame.f_locals[k]
                    got[k] = np.array(v, copy=True) if isinstance(v, np.ndarray) else v
    sys.setprofile(prof)
    try:
        out = fn()
    finally:
        sys.setprofile(None)
    return out, got


def run_translator():
    """Regenerate coq/gen/MatrixExpr.v (and DrSites.v) from the current sources.
    Returns (emitter or None, error string or None)."""
    try:
        from translate import matrix_expr
        em = matrix_expr.generate()
    except Exception as e:       # fail closed
        return None, 'matrix_expr: %s: %s' % (type(e).__name__, e)
    try:
        from translate import dr_sites
        dr_sites.generate()
    except ImportError:
        pass
    except Exception as e:
        return em, 'dr_sites: %s: %s' % (type(e).__name__, e)
    return em, None


# --------------------------------------------------------------------------
# translation validation: the generated terms, evaluated numerically with the
# implementation's own basis matrices, must reproduce what the implementation
# returns on the same option set.
# --------------------------------------------------------------------------

DAUN_REG_VALUES = {'none': None, 'int0': 0, 'float0': 0.0, 'diff0': ('diff', 0), 'L20': ('L2', 0),
                   'L2c0': ('L2c', 0), 'diff': ('diff', 's'), 'L2': ('L2', 's'), 'L2c': ('L2c', 's'),
                   'num': 's', 'nonneg': 'nonneg'}


def validate_translation(em, rng, sizes=(3, 6, 13), which=('basex', 'daun', 'rbasex', 'dasch')):
    """Returns (n_checked, failures[list of str])."""
    import abel.basex, abel.daun, abel.rbasex, abel.dasch   # noqa
    from scipy.optimize import nnls as sp_nnls
    fails = []
    checked = 0
    sval, drval = 0.37, 0.7

    def tol(*mats):
        c = max([np.linalg.cond(m) for m in mats] + [1.0])
        return 1e-10 * c

    with quiet():
        for n in sizes:
            h = 3
            X = rng.normal(size=(h, n)) * 5
            for name, d in em.index.items():
                parts = name.split('_')
                try:
                    if parts[0] == 'daun' and parts[1] in ('forward', 'inverse') and 'daun' in which:
                        direction, degree, rname, drname = parts[1], int(parts[2][3:]), parts[3], parts[-1]
                        shape = parts[4] if len(parts) == 6 else '2d'
                        reg = DAUN_REG_VALUES[rname]
                        if reg == 's':
                            reg = sval
                        elif isinstance(reg, tuple) and reg[1] == 's':
                            reg = (reg[0], sval)
                        dr = 1.0 if drname == 'dr1' else drval
                        cleanup()
                        B = abel.daun._bs_daun(n, degree)
                        data = X if shape == '2d' else (X[:1] if shape == 'onerow' else X[0])
                        if rname == 'nonneg':
                            src = np.abs(X)
                            data = src.dot(B)       # so that NNLS has a well defined answer
                        cleanup()
                        out, got = capture_locals('get_bs_cached', 'daun.py', ['LTL'], lambda: abel.daun.daun_transform(
                            data, reg=reg, degree=degree, dr=dr, direction=direction, basis_dir=None, verbose=False))
                        env = dict(B=B, X=data, x=data, dr=dr, s=sval, n=n, h=h, nnls=lambda A, b: sp_nnls(A, b)[0])
                        if 'LTL' in got:
                            env['LTL'] = np.asarray(got['LTL'], dtype=float)
                        val = d['ev'](env)
                        checked += 1
                        e = rel_err(np.ravel(val), np.ravel(out)) if shape != "2d" else rel_err(val, out)
                        if not e <= tol(B) * (1e3 if rname in ('diff', 'L2', 'L2c', 'num', 'nonneg') else 1):
                            fails.append('%s n=%d: generated term differs from daun_transform by %.2e' % (name, n, e))
                    elif parts[0] == 'daun' and parts[1] == 'tikhonov' and 'daun' in which:
                        rname = parts[2]
                        cleanup()
                        B = abel.daun._bs_daun(n, 0)
                        cleanup()
                        out, got = capture_locals('get_bs_cached', 'daun.py', ['LTL'], lambda: abel.daun.get_bs_cached(
                            n, 0, rname, sval, 'inverse', None, False))
                        env = dict(B=B, s=sval, n=n, LTL=np.asarray(got.get('LTL', np.eye(n)), dtype=float))
                        checked += 1
                        e = rel_err(d['ev'](env), out)
                        if not e <= tol(B) * 1e3:
                            fails.append('%s n=%d: differs from daun.get_bs_cached by %.2e' % (name, n, e))
                    elif parts[0] == 'basex' and 'basex' in which:
                        cleanup()
                        M, Mc = abel.basex._bs_basex(n, 1.0, verbose=False)
                        M, Mc = np.array(M), np.array(Mc)
                        env = dict(M=M, Mc=Mc, n=n, nbf=n, h=h, X=X, dr=drval, reg=sval)
                        if parts[1] == 'A':
                            direction, kind = parts[2], parts[3]
                            out = abel.basex._get_A(M, Mc, 0.0 if kind == 'exact' else sval, direction)
                            val = d['ev'](env)
                        elif parts[1] == 'matrix':
                            direction, drname = parts[2], parts[-1]
                            corr = (parts[3] == 'corr')
                            cleanup()
                            out, got = capture_locals('get_bs_cached', 'basex.py', ['cor'], lambda: np.array(abel.basex.get_bs_cached(
                                n, 1.0, 0.0, corr, None, 1.0 if drname == 'dr1' else drval, False, direction)))
                            if corr:
                                env['cor'] = np.asarray(got['cor'], dtype=float).ravel()
                            val = d['ev'](env)
                        elif parts[1] == 'core':
                            A = rng.normal(size=(n, n))
                            env['A'] = A
                            out = abel.basex.basex_core_transform(X, A)
                            val = d['ev'](env)
                        else:
                            raise KeyError(name)
                        checked += 1
                        e = rel_err(val, out)
                        if not e <= tol(M, Mc) * 1e3:
                            fails.append('%s n=%d: differs from abel.basex by %.2e' % (name, n, e))
                    elif parts[0] == 'rbasex' and 'rbasex' in which:
                        kind, direction, rname = parts[1], parts[2], parts[3]
                        Rmax = n - 1
                        reg = None if rname == 'none' else (rname, sval)
                        for order, odd in ((2, False), (3, True)):
                            cleanup()
                            Ps = [np.array(P) for P in abel.rbasex._bs_rbasex(Rmax, order, odd)]
                            cleanup()
                            A, got = capture_locals('get_bs_cached', 'rbasex.py', ['GTG'], lambda: abel.rbasex.get_bs_cached(
                                Rmax, order, odd, direction, reg, None, None, False))
                            for k, P in enumerate(Ps):
                                p = rng.normal(size=n)
                                env = dict(P=P, s=sval, Rmax=Rmax, p=p)
                                if 'GTG' in got:
                                    # the translated term multiplies the (opaque) matrix by s itself
                                    env['GTG'] = np.asarray(got['GTG'], dtype=float) / sval
                                val = d['ev'](env)
                                out = np.array(A[k]) if kind == 'matrix' else np.array(A[k]).dot(p)
                                checked += 1
                                e = rel_err(val, out)
                                if not e <= tol(P) * 1e3:
                                    fails.append('%s Rmax=%d order=%d index %d: differs from abel.rbasex by %.2e'
                                                 % (name, Rmax, order, k, e))
                    elif parts[0] == 'dasch' and 'dasch' in which:
                        shape = parts[-2] if parts[-2] in ('onerow', '1d') else '2d'
                        method = '_'.join(parts[1:-1] if shape == '2d' else parts[1:-2])
                        drname = parts[-1]
                        X0 = X
                        X = X0 if shape == '2d' else (X0[:1] if shape == 'onerow' else X0[0])
                        dr = 1 if drname == 'dr1' else drval
                        if n < 3:
                            continue
                        cleanup()
                        if method == 'onion_peeling':
                            D, got = capture_locals('_bs_onion_peeling', 'dasch.py', ['W'],
                                                    lambda: abel.dasch._bs_onion_peeling(n))
                            env = dict(W=np.asarray(got['W'], dtype=float), X=X, x=X, dr=dr, n=n, h=h)
                        else:
                            D = abel.dasch.get_bs_cached(method, n, basis_dir=None)
                            env = dict(D=np.array(D), X=X, x=X, dr=dr, n=n, h=h)
                        cleanup()
                        fn = getattr(abel.dasch, method + '_transform')
                        out = fn(X, basis_dir=None, dr=dr, direction='inverse')
                        checked += 1
                        e = rel_err(np.ravel(d['ev'](env)), np.ravel(out)) if shape != '2d' else rel_err(d['ev'](env), out)
                        X = X0
                        if not e <= 1e-9 * max(np.linalg.cond(np.array(D)), 1):
                            fails.append('%s n=%d: differs from abel.dasch by %.2e' % (name, n, e))
                except Exception as ex:     # noqa
                    fails.append('%s n=%d: %s: %s' % (name, n, type(ex).__name__, ex))
    cleanup()
    return checked, fails


def standard_cov(ctx, pr, pid, extra_trusted=()):
    ctx.cov.update(obligations=len(pr['theorems']), discharged=pr['discharged'], theorems=pr['theorems'],
                   axioms=pr['axioms'],
                   checker_cmd='tools/translate/matrix_expr.py (regenerate coq/gen/MatrixExpr.v from /repo) + '
                               'make -C /verif/coq props/%s.vo (coqc 8.16.1, full .vo build) + Print Assumptions' % pid,
                   trusted_base=vlib.TRUSTED_COMMON + TRUSTED_ALGEBRA + list(extra_trusted) +
                   ['axioms reported by Print Assumptions: ' + (', '.join(pr['axioms']) or 'none')])


def jdump(x):
    return json.dumps(np.asarray(x, dtype=float).tolist())
