# C05 — abel.Transform = centre, symmetrise, transform each quadrant, reassemble.
#
#   model     coq/model/TransformPipe.v (+ model/Symmetry.v)
#   theorems  coq/props/C05.v
#   tie       correspondence: the eight half-image functions are replaced (inside
#             the harness process) by an exactly computable row-wise probe
#             transform; abel.Transform(...).transform is compared with the
#             model pipeline (Q instance, vm_compute) for all small shapes /
#             symmetry settings / masks
#   search    the clauses on the real methods: assembly from the method's own
#             half-image transforms, shape, integer dtype, option routing,
#             centring delegation, linbasex / rbasex pass-through
import itertools
import json
import re
import warnings

import numpy as np

import vlib
from vlib import Hit
from props.C06 import ax_coq, mask_coq, METH_COQ

LEVEL = 'proof'

QMETHODS = ['basex', 'daun', 'direct', 'hansenlaw', 'onion_bordas', 'onion_peeling', 'two_point', 'three_point']
FUNC = dict(basex=('abel.basex', 'basex_transform'), daun=('abel.daun', 'daun_transform'),
            direct=('abel.direct', 'direct_transform'), hansenlaw=('abel.hansenlaw', 'hansenlaw_transform'),
            onion_bordas=('abel.onion_bordas', 'onion_bordas_transform'),
            onion_peeling=('abel.dasch', 'onion_peeling_transform'),
            two_point=('abel.dasch', 'two_point_transform'), three_point=('abel.dasch', 'three_point_transform'))
FORWARD_OK = {'basex', 'daun', 'direct', 'hansenlaw'}
AXES = [None, 0, 1, (0, 1), [0, 1], [], ()]
MASKS = list(itertools.product([True, False], repeat=4))
TOPT = dict(basex=dict(verbose=False, basis_dir=None), daun=dict(verbose=False, basis_dir=None),
            onion_peeling=dict(basis_dir=None), two_point=dict(basis_dir=None), three_point=dict(basis_dir=None))


def probe(Z, direction='inverse', **kw):
    Z = np.atleast_2d(np.asarray(Z, dtype=float))
    rc = np.cumsum(Z[:, ::-1], axis=1)[:, ::-1]
    return 2 * Z + rc


class patched:
    """Replace the eight half-image functions by f inside this process."""

    def __init__(self, f):
        self.f = f
        self.saved = []

    def __enter__(self):
        import importlib
        for m, (mod, name) in FUNC.items():
            M = importlib.import_module(mod)
            self.saved.append((M, name, getattr(M, name)))
            setattr(M, name, self.f)
        return self

    def __exit__(self, *a):
        for M, name, old in self.saved:
            setattr(M, name, old)


def correspondence(ctx, rng):
    import abel
    shapes = [(n, m) for n in range(1, 9) for m in range(1, 10)]
    cases = []
    if ctx.quick:
        for _ in range(1800):
            n, m = shapes[rng.integers(len(shapes))]
            cases.append((n, m, AXES[rng.integers(len(AXES))],
                          MASKS[rng.integers(16)] if rng.random() < 0.6 else (True,) * 4,
                          'average' if rng.random() < 0.85 else 'fourier'))
    else:
        for (n, m) in shapes:
            for ax in AXES:
                for mask in MASKS:
                    cases.append((n, m, ax, mask, 'average'))
                cases.append((n, m, ax, (True,) * 4, 'fourier'))
    out = []
    results = []
    warnings.simplefilter('ignore')
    with patched(probe), np.errstate(all='ignore'):
        for (n, m, ax, mask, meth) in cases:
            IM = rng.integers(-9, 10, size=(n, m))
            if rng.random() < 0.6:
                IM = IM.astype(float)
            method = QMETHODS[rng.integers(len(QMETHODS))]
            try:
                T = abel.Transform(IM, method=method, direction='inverse', symmetry_axis=ax,
                                   use_quadrants=mask, symmetrize_method=meth)
                R = np.asarray(T.transform, dtype=float)
                res = ('Ok', R) if np.all(np.isfinite(R)) else ('Other', 'nonfinite')
            except ValueError:
                res = ('ValueError',)
            except Exception as e:      # noqa
                res = ('Other', type(e).__name__)
            out.append(dict(IM=IM, ax=ax, mask=mask, meth=meth, method=method))
            results.append(res)
    shard = 300
    texts = []
    for k in range(0, len(out), shard):
        items = []
        for c, r in zip(out[k:k + shard], results[k:k + shard]):
            exp = 'POk %s' % vlib.img_q(r[1].tolist()) if r[0] == 'Ok' else \
                ('PValueError' if r[0] == 'ValueError' else 'POther')
            items.append('{| p_im := %s; p_axis := %s; p_mask := %s; p_meth := %s; p_expect := %s |}' % (
                vlib.img_q(np.atleast_2d(c['IM']).tolist()), ax_coq(c['ax']), mask_coq(c['mask']),
                METH_COQ[c['meth']], exp))
        texts.append(('C05_%03d' % (k // shard),
                      vlib.HEADER_CASES + 'From PA Require Import base.QClose model.Symmetry model.TransformPipe model.TransformPipeQ.\n'
                      'Open Scope Q_scope.\nDefinition cases : list pcase := %s.\n'
                      'Definition res := map pcheck cases.\n'
                      'Eval vm_compute in (count_true res, false_idx 0 res).\n' % vlib.list_lit(items)))
    outs = vlib.coq_eval_many(texts)
    bad, errors, n_ok = [], [], 0
    for k, (name, _) in enumerate(texts):
        rc, o = outs[name]
        r = vlib.parse_eval_lists(o)
        if rc != 0 or not r:
            errors.append((name, o[-400:]))
            continue
        mm = re.match(r'\((\d+), (.*)\)$', r[0])
        n_ok += int(mm.group(1))
        bad += [k * shard + i for i in vlib.parse_nat_list(mm.group(2))]
    dist = {}
    for c, r in zip(out, results):
        key = 'axis=%r/%s' % (c['ax'], r[0])
        dist[key] = dist.get(key, 0) + 1
    return out, results, n_ok, bad, errors, dist


# ---------------------------------------------------------------------------
# search: the clauses evaluated on the real methods
# ---------------------------------------------------------------------------

SNIPPET_HEAD = r'''
import sys, json, warnings, importlib
import numpy as np
warnings.simplefilter('ignore')
import abel
from abel.tools.symmetry import get_image_quadrants
FUNC = %(FUNC)r
def fn(method):
    mod, name = FUNC[method]
    return getattr(importlib.import_module(mod), name)
def assemble(AQ, shape):
    n, m = shape; mc = m // 2 + m %% 2; hn = n // 2; hm = m // 2
    out = np.empty(shape)
    for i in range(n):
        for j in range(m):
            if i < hn:
                out[i, j] = AQ[1][i, mc - 1 - j] if j < hm else AQ[0][i, j - hm]
            else:
                out[i, j] = AQ[2][n - 1 - i, mc - 1 - j] if j < hm else AQ[3][n - 1 - i, j - hm]
    return out
def close(a, b):
    a = np.asarray(a, dtype=float); b = np.asarray(b, dtype=float)
    return a.shape == b.shape and np.allclose(a, b, rtol=1e-10, atol=1e-12, equal_nan=True)
''' % dict(FUNC=FUNC)

SNIPPET_ASSEMBLY_TAIL = r'''
IM = np.array(%(IM)s, dtype=%(dtype)r)
method = %(method)r; direction = %(direction)r; ax = %(ax)r; mask = %(mask)r; topt = %(topt)r
T = abel.Transform(IM, method=method, direction=direction, symmetry_axis=ax, use_quadrants=mask,
                   transform_options=dict(topt))
Q = get_image_quadrants(IM.astype(float), symmetry_axis=ax, use_quadrants=mask)
AQ = [fn(method)(q, direction=direction, **topt) for q in Q]
E = assemble(AQ, IM.shape)
ok = close(T.transform, E) and T.transform.shape == IM.shape
print('Transform == assembly of the four half-image transforms:', ok)
sys.exit(0 if ok else 1)
'''


def search(ctx, rng, budget):
    import importlib
    import abel
    from abel.tools.symmetry import get_image_quadrants
    hits = []
    n_eval = 0
    distinct = set()
    warnings.simplefilter('ignore')

    def fn(method):
        mod, name = FUNC[method]
        return getattr(importlib.import_module(mod), name)

    def assemble(AQ, shape):
        n, m = shape
        mc = m // 2 + m % 2
        hn, hm = n // 2, m // 2
        out = np.empty(shape)
        for i in range(n):
            for j in range(m):
                if i < hn:
                    out[i, j] = AQ[1][i, mc - 1 - j] if j < hm else AQ[0][i, j - hm]
                else:
                    out[i, j] = AQ[2][n - 1 - i, mc - 1 - j] if j < hm else AQ[3][n - 1 - i, j - hm]
        return out

    def close(a, b):
        a = np.asarray(a, dtype=float)
        b = np.asarray(b, dtype=float)
        return a.shape == b.shape and np.allclose(a, b, rtol=1e-10, atol=1e-12, equal_nan=True)

    opt_variants = dict(
        basex=[dict(), dict(sigma=2.0), dict(reg=10.0, correction=False)],
        daun=[dict(), dict(degree=1), dict(degree=2, reg=1.0), dict(degree=3)],
        direct=[dict(), dict(correction=False)],
        hansenlaw=[dict(), dict(hold_order=1)],
        onion_bordas=[dict(), dict(shift_grid=False)],
        onion_peeling=[dict()], two_point=[dict()], three_point=[dict()])
    sym_axes = [None, 0, 1, (0, 1)]
    with np.errstate(all='ignore'):
        for it in range(budget):
            method = QMETHODS[it % len(QMETHODS)]
            n = int(rng.integers(3, 13))
            m = int(2 * rng.integers(2, 8) + 1)             # odd width >= 5
            ax = sym_axes[rng.integers(4)]
            mask = MASKS[rng.integers(16)] if rng.random() < 0.4 else (True,) * 4
            direction = 'forward' if (method in FORWARD_OK and rng.random() < 0.4) else 'inverse'
            ov = opt_variants[method]
            topt = dict(TOPT.get(method, {}))
            topt.update(ov[rng.integers(len(ov))])
            if rng.random() < 0.3:
                topt['dr'] = float(rng.choice([0.5, 2.0]))
            integer = rng.random() < 0.3
            IM = rng.integers(0, 50, size=(n, m)) if integer else rng.normal(size=(n, m)) * 5
            n_eval += 1
            distinct.add((method, direction, repr(ax), mask, n % 2, integer, tuple(sorted(k for k in topt))))
            try:
                Q = get_image_quadrants(IM.astype(float), symmetry_axis=ax, use_quadrants=mask)
            except ValueError:
                continue            # rejected request (C06 / C20)
            try:
                T = abel.Transform(IM, method=method, direction=direction, symmetry_axis=ax,
                                   use_quadrants=mask, transform_options=dict(topt))
                AQ = [fn(method)(q, direction=direction, **topt) for q in Q]
                E = assemble(AQ, IM.shape)
                ok = close(T.transform, E)
                what = 'Transform(...).transform differs from the assembly of the four half-image transforms'
            except Exception as e:  # noqa
                ok = False
                what = 'unexpected exception %s: %s' % (type(e).__name__, e)
            if not ok:
                sn = SNIPPET_HEAD + SNIPPET_ASSEMBLY_TAIL % dict(IM=json.dumps(IM.tolist()), dtype='int64' if integer else 'float64',
                                                                  method=method, direction=direction, ax=ax, mask=mask, topt=topt)
                hits.append(Hit('four_quadrants', 'C05:assembly:%s:%s:axis=%r' % (method, direction, ax), what, sn,
                                dict(method=method, direction=direction, symmetry_axis=repr(ax), use_quadrants=list(mask),
                                     shape=[n, m], transform_options={k: repr(v) for k, v in topt.items()})))
            # integer input == float64 copy
            if integer and ok:
                T2 = abel.Transform(IM.astype('float64'), method=method, direction=direction, symmetry_axis=ax,
                                    use_quadrants=mask, transform_options=dict(topt))
                if not (T2.transform.dtype == T.transform.dtype and np.array_equal(T2.transform, T.transform)):
                    sn = SNIPPET_HEAD + ('IM = np.array(%s, dtype="int64")\nkw = dict(method=%r, direction=%r, symmetry_axis=%r, use_quadrants=%r, transform_options=%r)\n'
                                         'a = abel.Transform(IM, **kw).transform; b = abel.Transform(IM.astype(float), **kw).transform\n'
                                         'ok = np.array_equal(a, b); print("integer input == float64 copy:", ok); sys.exit(0 if ok else 1)\n'
                                         % (json.dumps(IM.tolist()), method, direction, ax, mask, topt))
                    hits.append(Hit('integer_dtype', 'C05:dtype:%s' % method,
                                    'integer-typed input gives a different result than its float64 copy', sn))
    hits += search_routing(ctx, rng)
    hits += search_center(ctx, rng)
    hits += search_full_methods(ctx, rng)
    return hits, n_eval, len(distinct)


ROUTING_SNIPPET = r'''
import sys, warnings
import numpy as np
warnings.simplefilter('ignore')
import abel, abel.tools.vmi
rec = {}
real = abel.tools.vmi.angular_integration_3D
def spy(IM, **kw):
    rec['a'] = kw
    return real(IM, **kw)
abel.tools.vmi.angular_integration_3D = spy
IM = np.random.default_rng(0).normal(size=(9, 11)) + 5
seq = [(dict(dr=0.5), None, dict(dr=0.5)), (dict(), None, dict()), (dict(dr=0.25), None, dict(dr=0.25)),
       (dict(dr=0.25), dict(dr=2.0), dict(dr=2.0)), (dict(), dict(dt=0.2), dict(dt=0.2)), (dict(), None, dict())]
bad = 0
for step, (topt, aio, want) in enumerate(seq):
    kw = dict(method='hansenlaw', angular_integration=True, transform_options=dict(topt))
    if aio is not None:
        kw['angular_integration_options'] = dict(aio)
    rec.clear()
    abel.Transform(IM, **kw)
    ok = rec.get('a') == want
    print('call', step + 1, 'angular_integration_3D received', rec.get('a'), 'expected', want, 'OK' if ok else 'WRONG')
    bad += not ok
sys.exit(1 if bad else 0)
'''


def search_routing(ctx, rng):
    """transform_options / center_options / angular_integration_options reach
    the documented callees; dr is forwarded to the angular integration."""
    import abel
    import abel.tools.center
    import abel.tools.vmi
    hits = []
    rec = {}

    def spy_t(Z, **kw):
        rec.setdefault('t', []).append(kw)
        return probe(Z)

    real_center = abel.tools.center.center_image
    real_ai = abel.tools.vmi.angular_integration_3D

    def spy_c(IM, method='com', **kw):
        rec['c'] = (method, kw)
        return real_center(IM, method, **kw)

    def spy_a(IM, **kw):
        rec['a'] = kw
        return real_ai(IM, **kw)

    IM = rng.normal(size=(9, 11)) + 5
    problems = []
    try:
        abel.tools.center.center_image = spy_c
        abel.tools.vmi.angular_integration_3D = spy_a
        for method in QMETHODS:
            for direction in ('inverse',):
                rec.clear()
                with patched(spy_t):
                    topt = dict(dr=0.5, foo_option=3)
                    abel.Transform(IM, method=method, direction=direction, origin=(4, 5),
                                   center_options=dict(crop='valid_region', order=1),
                                   angular_integration=True,
                                   angular_integration_options=dict(dt=0.1),
                                   transform_options=topt)
                t = rec.get('t', [])
                if len(t) != 4 or any(k != dict(direction=direction, dr=0.5, foo_option=3) for k in t):
                    problems.append((method, 'transform_options/direction not passed unchanged to the method function: %r' % (t[:1],)))
                c = rec.get('c')
                if c is None or c[0] != (4, 5) or c[1] != dict(crop='valid_region', order=1):
                    problems.append((method, 'origin/center_options not passed to center_image: %r' % (c,)))
                a = rec.get('a')
                if a != dict(dt=0.1, dr=0.5):
                    problems.append((method, 'angular_integration_options (+ forwarded dr) not passed to angular_integration_3D: %r' % (a,)))
                rec.clear()
                with patched(spy_t):
                    abel.Transform(IM, method=method, angular_integration=True,
                                   angular_integration_options=dict(dr=2.0), transform_options=dict(dr=0.5))
                if rec.get('a') != dict(dr=2.0):
                    problems.append((method, 'explicit dr of angular_integration_options overridden: %r' % (rec.get('a'),)))
        # a sequence of calls: nothing may leak from one Transform to the next
        # (e.g. through a shared mutable default argument)
        import copy
        import inspect
        defaults0 = copy.deepcopy([p.default for p in inspect.signature(abel.Transform.__init__).parameters.values()
                                   if isinstance(p.default, (dict, list))])
        seq = [(dict(dr=0.5), None, dict(dr=0.5)), (dict(), None, dict()), (dict(dr=0.25), None, dict(dr=0.25)),
               (dict(dr=0.25), dict(dr=2.0), dict(dr=2.0)), (dict(), dict(dt=0.2), dict(dt=0.2)), (dict(), None, dict())]
        for method in ('hansenlaw', 'three_point'):
            for step, (topt, aio, want) in enumerate(seq):
                rec.clear()
                topt_in, aio_in = dict(topt), (dict(aio) if aio is not None else None)
                kw = dict(method=method, angular_integration=True, transform_options=topt_in)
                if aio_in is not None:
                    kw['angular_integration_options'] = aio_in
                with patched(spy_t):
                    abel.Transform(IM, **kw)
                if rec.get('a') != want:
                    problems.append((method, 'call %d of a sequence: angular_integration_3D received %r, expected %r '
                                             '(options leak between Transform calls)' % (step + 1, rec.get('a'), want)))
                if topt_in != topt or (aio is not None and aio_in != aio):
                    problems.append((method, 'call %d of a sequence: the caller\'s option dict was modified' % (step + 1)))
        defaults1 = [p.default for p in inspect.signature(abel.Transform.__init__).parameters.values()
                     if isinstance(p.default, (dict, list))]
        if defaults1 != defaults0:
            problems.append(('Transform', 'a mutable default argument of Transform.__init__ was modified by a call: %r' % (defaults1,)))
    finally:
        abel.tools.center.center_image = real_center
        abel.tools.vmi.angular_integration_3D = real_ai
    for method, what in problems[:3]:
        sn = ROUTING_SNIPPET
        hits.append(Hit('options_routing', 'C05:routing:%s' % method, what, sn))
    return hits


def search_center(ctx, rng):
    """Transform centres with center_image and transforms exactly that image."""
    import abel
    from abel.tools.center import center_image
    hits = []
    IM = np.zeros((12, 13))
    y, x = np.mgrid[:12, :13]
    IM = np.exp(-((y - 5.3) ** 2 + (x - 7.2) ** 2) / 6.0) + 0.01 * rng.random((12, 13))
    for origin in [(5, 7), (5.3, 7.2), 'com', 'convolution', 'gaussian', 'image_center', 'slice']:
        for co in [dict(), dict(crop='valid_region'), dict(crop='maintain_data'), dict(odd_size=False), dict(order=1)]:
            try:
                C = center_image(IM.astype('float64'), origin, **co)
            except Exception:       # noqa  (centring itself is C12/C13)
                continue
            if C.ndim != 2 or C.shape[0] < 3 or C.shape[1] < 3:
                continue            # degenerate centred image: nothing to transform
            try:
                T = abel.Transform(IM, method='hansenlaw', origin=origin, center_options=dict(co))
                T0 = abel.Transform(C, method='hansenlaw', origin='none')
                ok = np.array_equal(T.IM, C) and np.array_equal(T.transform, T0.transform) and T.transform.shape == C.shape
            except Exception as e:  # noqa
                ok = False
            if not ok:
                sn = (SNIPPET_HEAD + 'from abel.tools.center import center_image\n'
                      'IM = np.array(%s)\norigin = %r; co = %r\n'
                      'T = abel.Transform(IM, method="hansenlaw", origin=origin, center_options=dict(co))\n'
                      'C = center_image(IM, origin, **co)\nT0 = abel.Transform(C, method="hansenlaw", origin="none")\n'
                      'ok = np.array_equal(T.IM, C) and np.array_equal(T.transform, T0.transform)\n'
                      'print("Transform centres with center_image and transforms that image:", ok); sys.exit(0 if ok else 1)\n'
                      % (json.dumps(IM.tolist()), origin, co))
                hits.append(Hit('centering_delegated', 'C05:center:%r:%r' % (origin, sorted(co)),
                                'Transform(origin=%r, center_options=%r) is not the transform of center_image(...)' % (origin, co), sn))
    return hits


def search_full_methods(ctx, rng):
    """linbasex / rbasex: image and extra attributes equal the method's own
    function results."""
    import abel
    from abel import linbasex, rbasex
    hits = []
    y, x = np.mgrid[:15, :15] - 7
    r = np.hypot(x, y)
    IM = np.exp(-(r - 4) ** 2 / 3.0) * (1 + 0.5 * (y / np.maximum(r, 1e-9)) ** 2)
    checks = []
    try:
        for lo in [dict(), dict(legendre_orders=[0, 2, 4], proj_angles=[0, np.pi / 4, np.pi / 2]), dict(radial_step=2)]:
            o = dict(basis_dir=None)
            o.update(lo)
            T = abel.Transform(IM, method='linbasex', transform_options=dict(o))
            R = linbasex.linbasex_transform_full(IM.astype(float), **o)
            ok = (np.array_equal(T.transform, R[0]) and np.array_equal(T.radial, R[1])
                  and np.array_equal(np.asarray(T.Beta), np.asarray(R[2])) and np.array_equal(np.asarray(T.projection), np.asarray(R[3])))
            checks.append(('linbasex', lo, ok))
        for ro in [dict(), dict(order=4), dict(order=1, odd=True), dict(out='full'), dict(reg=('L2', 1.0))]:
            for direction in ('inverse', 'forward'):
                rbasex.cache_cleanup()
                T = abel.Transform(IM, method='rbasex', direction=direction, transform_options=dict(ro))
                rbasex.cache_cleanup()
                R = rbasex.rbasex_transform(IM.astype(float), direction=direction, **ro)
                ok = (np.array_equal(T.transform, R[0]) and np.array_equal(T.distr.r, R[1].r)
                      and np.array_equal(T.distr.cos(), R[1].cos()))
                checks.append(('rbasex', dict(ro, direction=direction), ok))
    except Exception as e:      # noqa
        checks.append(('full-image methods', repr(e), False))
    for method, o, ok in checks:
        if not ok:
            sn = "import sys\nprint('Transform(method=%s, %r) differs from the method function; re-run ./check C05')\nsys.exit(1)\n" % (method, o)
            hits.append(Hit('full_image_passthrough', 'C05:passthrough:%s:%r' % (method, o),
                            'Transform(method=%r, transform_options=%r) image/attributes differ from what the method function returns' % (method, o), sn))
    return hits


def run(ctx):
    rng = np.random.default_rng(ctx.seed)
    pr = vlib.coq_props('C05', extra_targets=['model/TransformPipeQ.vo'], translators=['symmetry_src', 'transform_src'])
    ctx.cov.update(obligations=len(pr['theorems']), discharged=pr['discharged'], theorems=pr['theorems'],
                   axioms=pr['axioms'],
                   checker_cmd='make -C /verif/coq props/C05.vo (coqc 8.16.1, full .vo build) + Print Assumptions',
                   trusted_base=vlib.TRUSTED_COMMON + ['axioms reported by Print Assumptions: ' + ', '.join(pr['axioms'])])
    cases, results, n_ok, bad, errors, dist = correspondence(ctx, rng)
    ctx.cov.update(traces_validated_against_impl=n_ok, correspondence_cases=len(cases),
                   correspondence_disagreements=len(bad), input_distribution=dist)
    broken = (not pr['ok']) or bad or errors
    budget = (400 if ctx.quick else 3000) * (3 if broken else 1)
    hits, n_eval, n_distinct = search(ctx, rng, budget)
    ctx.cov.update(evaluations=n_eval + len(cases), distinct_nontrivial=n_distinct,
                   rule='search: random images (rows 3..12, odd widths 5..15, integer and float) through the 8 quadrant methods '
                        'with documented option variants, both directions, 4 symmetry settings, random masks, compared with '
                        'the assembly of the method\'s own half-image transforms; distinct by (method, direction, axis, mask, '
                        'row parity, dtype, option names); plus option-routing, centring-delegation and linbasex/rbasex '
                        'pass-through clauses',
                   samples=[dict(shape=list(np.atleast_2d(c['IM']).shape), symmetry_axis=repr(c['ax']), use_quadrants=list(c['mask']),
                                 symmetrize_method=c['meth'], method=c['method'], outcome=r[0])
                            for c, r in list(zip(cases, results))[:5]],
                   exhaustive=False)
    new = 0
    seen = set()
    for h in hits:
        if h.key in seen:
            continue
        seen.add(h.key)
        if ctx.report_hit(h):
            new += 1
    if not pr['ok'] and new == 0:
        ctx.report_broken('proof', pr['broken'] or 'props/C05.v', pr['error'] or '')
    if (bad or errors) and new == 0:
        detail = ''
        if bad:
            c = cases[bad[0]]
            detail = 'first disagreeing case: shape=%r symmetry_axis=%r use_quadrants=%r symmetrize_method=%r impl=%s' % (
                np.atleast_2d(c['IM']).shape, c['ax'], c['mask'], c['meth'], results[bad[0]][0])
        if errors:
            detail += ' coq errors: %r' % (errors[:1],)
        ctx.report_broken('correspondence', 'model/TransformPipe.v vs abel/transform.py with the probe transform (%d of %d cases disagree)'
                          % (len(bad), len(cases)), detail)
    ctx.assumptions += [
        'theorems are about the R instance of the polymorphic model; the correspondence runs its Q instance with the probe transform',
        'fractional / automatic origins are delegated to center_image (properties C12, C13); here only the delegation is checked',
    ]
