# C08 — a damaged or concurrently written basis file never changes a result.
#
#   theorems   coq/props/C08.v (proofs: NpyProofs.v, FileFaultsProofs.v,
#              Cache*Proofs.v)
#   models     coq/base/Npy.v (byte-level .npy codec), coq/model/FileFaults.v
#              (writers, interleavings, handlers), coq/model/Cache*.v
#   tie        (1) codec: Npy.serialize against numpy.save byte for byte;
#                  Npy.parse against numpy.load on EVERY prefix of those files
#                  and on a garbage stream (evaluated inside Coq);
#              (2) handlers: each caching method is given its own basis file
#                  damaged in every modelled way; the outcome class
#                  (fresh / exception / different) is compared with
#                  FileFaults.load_outcome evaluated on the same bytes;
#                  histories with damaged files against the cache state
#                  machines (as in C07);
#              (3) atomicity: strace of the library's own save paths — every basis
#                  file must appear by rename of a completely written temp file
#   search     damage sweeps and damage histories judged by the property on
#              the implementation (result equals the no-disk-cache result, or
#              an exception while the damaged file is still there; fresh
#              results again after it is removed / re-saved)
import io
import os
import re
import shutil
import subprocess
import sys
import time

import numpy as np

import vlib
from vlib import Hit
from props import cache_harness as H
from props import C07 as C07mod

LEVEL = 'proof'
MODS = ['basex', 'daun', 'dasch', 'linbasex', 'rbasex']
HDR = 'From Coq Require Import List Arith Bool NArith.\nImport ListNotations.\n'
METHOD_COQ = {'basex': 'Basex', 'daun': 'Daun', 'rbasex': 'Rbasex', 'dasch': 'Dasch', 'linbasex': 'Linbasex'}


def nbytes(b):
    return '[' + ';'.join(str(x) for x in b) + ']%N'


def load_class(path):
    """Outcome class of numpy.load on a file: 0 ok, 1 EOFError, 2 ValueError, 3 other."""
    try:
        a = np.load(path)
        if not isinstance(a, np.ndarray):       # a (possibly empty) zip archive: NpzFile
            return 3, None
        return 0, a
    except EOFError:
        return 1, None
    except ValueError:
        return 2, None
    except Exception:       # noqa  (zipfile.BadZipFile, ...)
        return 3, None


# --------------------------------------------------------------------------
# (1) codec
# --------------------------------------------------------------------------
def codec_tie(ctx, rng, root):
    d = os.path.join(root, 'codec')
    os.makedirs(d, exist_ok=True)
    p = os.path.join(d, 'f.npy')
    shapes = [(), (1,), (3,), (2, 3), (2, 3, 2), (0,), (3, 0), (10,), (2, 5, 5), (7, 4)]
    if not ctx.quick:
        shapes += [(12, 12), (100,), (2, 9, 9), (1, 1, 1, 2), (21,)]
    items = []
    n_loads = 0
    dist = {}
    files = []
    for sh in shapes:
        a = rng.normal(size=sh) * 10.0 ** rng.integers(-3, 4)
        np.save(p, a)
        b = open(p, 'rb').read()
        files.append((sh, a, b))
        classes = []
        for k in range(len(b) + 1):
            open(p, 'wb').write(b[:k])
            c, arr = load_class(p)
            n_loads += 1
            classes.append(c)
            dist['prefix/%d' % c] = dist.get('prefix/%d' % c, 0) + 1
        arrlit = '{| shape := %s; data := %s |}' % (H.cnats(sh), nbytes(a.tobytes()))
        items.append('beq (serialize %s) %s' % (arrlit, nbytes(b)))
        items.append('(if list_eq_dec Nat.eq_dec (prefix_classes %s) %s then true else false)' % (nbytes(b), H.cnats(classes)))
        items.append('(match parse %s with POk x => arr_eqb x %s | PErr _ => false end)' % (nbytes(b), arrlit))
    # garbage stream
    garbage = []
    sh, a, good = files[3]
    for _ in range(12 if ctx.quick else 60):
        garbage.append(bytes(rng.integers(0, 256, size=int(rng.integers(1, 300)), dtype=np.uint8)))
    garbage += [b'\x00' * 7, b'\x00' * 200, b'hello, this is not a basis set\n', b'PK\x03\x04' + b'\x00' * 30,
                b'PK\x05\x06' + b'\x00' * 18, b'PK', b'\x93NUMPY', b'\x93NUMPY\x01', b'\x93NUMPY\x01\x00',
                b'\x93NUMPY\x01\x00v', b'\x93NUMPY\x01\x00v\x00', good + b'trailing bytes', good + b'\x00' * 50,
                good[:6] + b'\x02\x00' + good[8:], good[:6] + b'\x03\x00' + good[8:], good[:6] + b'\x09\x09' + good[8:],
                good[:6] + b'\x01\x01' + good[8:]]
    for _ in range(25 if ctx.quick else 120):
        pos = int(rng.integers(0, len(good)))
        g = bytearray(good)
        g[pos] = int(rng.integers(0, 256))
        garbage.append(bytes(g))
    gi = []
    for g in garbage:
        open(p, 'wb').write(g)
        c, arr = load_class(p)
        n_loads += 1
        dist['garbage/%d' % c] = dist.get('garbage/%d' % c, 0) + 1
        gi.append((g, c, arr))
        if c == 0 and (arr.dtype != np.float64 or not arr.flags['C_CONTIGUOUS']):
            exp = '(Nat.eqb (pclass (parse %s)) 4)' % nbytes(g)        # outside the modelled header grammar
        elif c == 0:
            exp = ('(match parse %s with POk x => arr_eqb x {| shape := %s; data := %s |} | PErr e => '
                   'match e with PUnsupported => true | _ => false end end)'
                   % (nbytes(g), H.cnats(arr.shape), nbytes(arr.tobytes())))
        else:
            exp = '(let c := pclass (parse %s) in Nat.eqb c %d || Nat.eqb c 4)' % (nbytes(g), c)
        items.append(exp)
    unsup = '(length (filter (fun c => Nat.eqb c 4) %s))' % H.clist(['pclass (parse %s)' % nbytes(g) for g, _, _ in gi])
    text = (HDR + 'From PA Require Import base.Npy base.QClose.\n'
            'Definition res : list bool := %s.\nEval vm_compute in (count_true res, false_idx 0 res).\n'
            'Eval vm_compute in %s.\n' % (H.clist(items), unsup))
    return ('C08_codec', text), len(items), n_loads, dist, (len(shapes) * 3)


# --------------------------------------------------------------------------
# (2) handlers: damage sweep per method
# --------------------------------------------------------------------------
def request_of(mod, rng):
    """A representative request and the key of the file it loads."""
    s = int(rng.integers(1 << 30))
    if mod == 'basex':
        return dict(n=6, sig=0, reg=0, corr=True, dr=0, direction='inverse', bd=1, seed=s), (6, 0)
    if mod == 'daun':
        return dict(n=6, degree=int(rng.integers(0, 3)), reg=None, direction='inverse', bd=1, dr=1.0, seed=s), None
    if mod == 'dasch':
        m = int(rng.integers(3))
        return dict(meth=m, n=6, bd=1, dr=1.0, seed=s), (m, 6)
    if mod == 'linbasex':
        return dict(n=7, orders=[0, 2], angles=[0, 202], step=1, clip=0, bd=1, seed=s), (7, (0, 2), (0, 202), 1, 0)
    if mod == 'rbasex':
        return dict(shape=0, origin=0, rmax=0, order=2, odd=False, wid=0, direction='inverse', reg=0, out=0, bd=1, seed=s), (4, 2, 0, 1)
    raise ValueError(mod)


def sweep(ctx, rng, env, worker, mod):
    """Damage the file a call would load in every modelled way."""
    ad = H.ADAPTERS[mod](env)
    call, key = request_of(mod, rng)
    if mod == 'daun':
        key = (call['n'], call['degree'])
    good = ad.good_file(key)
    ref = worker.ask(mod, ad.ref_call(dict(call, bd=None)))
    assert ref[0] == 'ok', ref
    path = os.path.join(env.path(1), ad.fname(key))
    n = len(good)
    if ctx.quick:
        ks = sorted(set(list(range(0, 14)) + [127, 128, 129, n - 9, n - 8, n - 1, n] + list(range(14, n, 13))))
    else:
        ks = list(range(n + 1))
    ks = [k for k in ks if 0 <= k <= n]
    contents = [('prefix', k, good[:k]) for k in ks]
    contents += [('garbage', 0, H.damaged_bytes('garbage')), ('zip', 0, H.damaged_bytes('zip')),
                 ('zeros', 0, b'\x00' * 64), ('random', 0, bytes(rng.integers(0, 256, size=97, dtype=np.uint8)))]
    rows = []
    hits = []

    def classify(out):
        if out[0] == 'exc':
            return 1
        return 0 if H.same(out[1], ref[1]) else 2

    for kind, k, data in contents:
        env.reset()
        ad.reset_memory()
        with open(path, 'wb') as f:
            f.write(data)
        out = ad.call(call)
        c1 = classify(out)
        now = open(path, 'rb').read() if os.path.exists(path) else None
        resaved = now is not None and now != data
        # after the library's own re-save, or after removing the file: fresh again?
        if not resaved and os.path.exists(path):
            os.remove(path)
        out2 = ad.call(call)
        c2 = classify(out2)
        rows.append((kind, k, data, c1, resaved, c2))
        is_full = kind == 'prefix' and k == n
        if c1 == 2 and not is_full:
            hits.append((mod, 'different', [('seedbytes', kind, k), ('call', call)],
                         'a call that finds a damaged file (%s %d) returns other numbers' % (kind, k)))
        if c2 != 0 and not is_full:
            hits.append((mod, 'after', kind, k, c1, c2, resaved, out2))
    return ad, call, key, good, rows, hits


def sweep_case(mod, good, rows):
    """Coq: FileFaults.load_outcome on the same bytes gives the same class."""
    n = len(good)
    ks = [k for kind, k, d, c1, rs, c2 in rows if kind == 'prefix']
    obs = [c1 for kind, k, d, c1, rs, c2 in rows if kind == 'prefix']
    rsv = [rs for kind, k, d, c1, rs, c2 in rows if kind == 'prefix']
    others = [(d, c1, rs) for kind, k, d, c1, rs, c2 in rows if kind != 'prefix']
    m = METHOD_COQ[mod]
    t = lambda: '(fun _ => true)'        # noqa
    code = ('(fun o => match o with Fresh => 0 | Exception => 1 | Different => 2 end)')
    items = ['(Nat.eqb (%s (load_outcome %s %s %s (firstn %d G))) %d)' % (code, m, t(), t(), k, c)
             for k, c in zip(ks, obs)]
    items += ['(Bool.eqb (resaved %s (firstn %d G)) %s)' % (m, k, H.cbool(r)) for k, r in zip(ks, rsv) if k < n]
    for d, c, r in others:
        items.append('(Nat.eqb (%s (load_outcome %s %s %s %s)) %d)' % (code, m, t(), t(), nbytes(d), c))
        items.append('(Bool.eqb (resaved %s %s) %s)' % (m, nbytes(d), H.cbool(r)))
    text = (HDR + 'From PA Require Import base.Npy base.QClose model.FileFaults.\n'
            'Definition G : bytes := %s.\nDefinition res : list bool := %s.\n'
            'Eval vm_compute in (count_true res, false_idx 0 res).\n' % (nbytes(good), H.clist(items)))
    return ('C08_sweep_%s' % mod, text), len(items)


# --------------------------------------------------------------------------
# (3) strace: how many write syscalls does a save of the library issue?
# --------------------------------------------------------------------------
STRACE_SCRIPT = r'''
import os, sys, warnings
warnings.simplefilter('ignore')
import numpy as np
d = sys.argv[1]
import abel, abel.basex, abel.daun, abel.dasch, abel.linbasex, abel.rbasex
IM = np.random.default_rng(1).random((2, 40)) + 0.1
abel.basex.basex_transform(IM, basis_dir=d, verbose=False)
abel.daun.daun_transform(IM, basis_dir=d, degree=1, verbose=False)
abel.dasch.three_point_transform(IM, basis_dir=d)
Q = np.random.default_rng(2).random((41, 41)) + 0.1
abel.linbasex.linbasex_transform_full(Q, basis_dir=d)
abel.rbasex.rbasex_transform(Q, basis_dir=d)
'''


def strace_guard(root, _second=False):
    """How does each basis file of the library's own save paths come into being?
    Returns {basis file: dict(inplace=[sizes of write syscalls on the .npy path itself],
    renamed_from=temp name or None, temp_bytes=bytes written to that temp file, size=final size)}.
    The atomic-save theorem needs: no in-place write, the file appears by rename
    of a temporary file into which all of its bytes were written before."""
    d = os.path.join(root, 'strace')
    shutil.rmtree(d, ignore_errors=True)
    os.makedirs(d)
    log = os.path.join(root, 'strace.log')
    if shutil.which('strace') is None:
        return None, 'strace not available'
    env = dict(os.environ, PYTHONPATH=vlib.REPO)
    p = subprocess.run(['strace', '-f', '-y', '-e', 'trace=write,rename,renameat,renameat2', '-o', log, H.PY, '-W',
                        'ignore', '-c', STRACE_SCRIPT, d], env=env, stdout=subprocess.PIPE, stderr=subprocess.PIPE,
                       timeout=600)
    if p.returncode != 0 or not os.path.exists(log):
        return None, 'strace run failed: ' + p.stderr.decode()[-300:]
    written = {}            # path -> list of write sizes (in order)
    info = {}
    for line in open(log, errors='replace'):
        # -y annotates descriptors with their path (also after dup): write(5</dir/x>, ..., N) = N
        m = re.match(r'\d+\s+write\(\d+<([^>]*)>, .*\)\s*=\s*(\d+)', line)
        if m and m.group(1).startswith(d):
            written.setdefault(os.path.basename(m.group(1)), []).append(int(m.group(2)))
            continue
        m = re.match(r'\d+\s+rename(?:at2?)?\((?:AT_FDCWD[^,]*, )?"([^"]*)", (?:AT_FDCWD[^,]*, )?"([^"]*\.npy)"[^"]*\)\s*=\s*0', line)
        if m and m.group(2).startswith(d):
            src, dst = os.path.basename(m.group(1)), os.path.basename(m.group(2))
            info[dst] = dict(renamed_from=src, temp_bytes=sum(written.get(src, [])), temp_writes=len(written.get(src, [])))
    for f in os.listdir(d):
        if f.endswith('.npy'):
            e = info.setdefault(f, dict(renamed_from=None, temp_bytes=0, temp_writes=0))
            e['inplace'] = written.get(f, [])
            e['size'] = os.path.getsize(os.path.join(d, f))
    # the atomic-save theorem lets every writer fill a temporary file OF ITS OWN: a second
    # process saving the same basis into the same directory must use another temporary name
    if not _second:
        shutil.rmtree(d, ignore_errors=True)
        info2, err2 = strace_guard(root, _second=True)
        for f, e in info.items():
            e2 = (info2 or {}).get(f)
            e['temp_name_private_to_writer'] = bool(e2 and e.get('renamed_from') and e2.get('renamed_from')
                                                    and e2['renamed_from'] != e['renamed_from'])
    return info, None


def not_atomic(info):
    """basis files that did not appear by rename of a completely written temp file
    private to the writing process"""
    return sorted(f for f, e in info.items()
                  if e.get('inplace') or e['renamed_from'] is None or e['temp_bytes'] != e.get('size')
                  or e.get('temp_name_private_to_writer') is False)


def zero_gap_probe(env, worker, rng):
    """Failing schedule of the refuted three-chunk theorem, as a file: header,
    zero gap, rest of the payload.  Used when a save is seen to need > 2 writes."""
    ad = H.ADAPTERS['daun'](env)
    call = dict(n=8, degree=1, reg=None, direction='forward', bd=1, dr=1.0, seed=5)
    good = ad.good_file((8, 1))
    k = 128 + (len(good) - 128) // 2
    data = good[:128] + b'\x00' * (k - 128) + good[k:]
    env.reset()
    ad.reset_memory()
    open(os.path.join(env.path(1), ad.fname((8, 1))), 'wb').write(data)
    out = ad.call(call)
    ref = worker.ask('daun', dict(call, bd=None))
    return out[0] == 'ok' and ref[0] == 'ok' and not H.same(out[1], ref[1])


CHUNK_SNIPPET = '''import sys, os, shutil
sys.path.insert(0, '/verif/tools')
import numpy as np
from props import cache_harness as H
from props import C08
# 1. the library's own saves: does every basis file appear by rename of a fully written temp file? (strace)
root = '/var/tmp/pyabel-verif-replay-%d' % os.getpid()
os.makedirs(root)
info, err = C08.strace_guard(root)
print('how the saved basis files came into being:', info or err)
bad = C08.not_atomic(info or {})
# 2. the content the schedule A:trunc,hdr,bulk  B:trunc,hdr  A:tail  leaves behind (header, zero gap, tail)
env = H.Env(os.path.join(root, 'main')); w = H.LocalFresh(os.path.join(root, 'fresh'))
changed = C08.zero_gap_probe(env, w, np.random.default_rng(0))
env.close(); w.close(); shutil.rmtree(root, ignore_errors=True)
print('a zero-gap file (possible when saving in place) is loaded and changes the result:', changed)
fails = bool(bad) and changed
print('property C08 (concurrent writers)', 'FAILS for %r' % bad if fails else 'holds')
sys.exit(1 if fails else 0)
'''


BASEX_EXTEND_SNIPPET = '''import sys, os, shutil, io, contextlib, warnings
warnings.simplefilter('ignore')
import numpy as np
import abel.basex as bx
d = '/var/tmp/pyabel-verif-replay-%d' % os.getpid()
shutil.rmtree(d, ignore_errors=True); os.makedirs(d)
IM = np.random.default_rng(0).random((2, 8)) + 0.1
bx.cache_cleanup(); fresh = bx.basex_transform(IM, basis_dir=None, verbose=False); bx.cache_cleanup()
# a valid .npy that is not what its name promises ((5, 5) expected), smaller than the request
np.save(d + '/basex_basis_5_1.0.npy', np.zeros((2, 3, 3)))
with contextlib.redirect_stdout(io.StringIO()):
    try:
        r = bx.basex_transform(IM, basis_dir=d, verbose=False)
    except Exception as e:
        print('raises', type(e).__name__, '(allowed)'); shutil.rmtree(d); sys.exit(0)
diff = float(abs(r - fresh).max())
shutil.rmtree(d)
print('max abs difference to the no-disk-cache result:', diff)
sys.exit(1 if diff > 1e-9 else 0)
'''


# --------------------------------------------------------------------------
# findings
# --------------------------------------------------------------------------
def classify(mod, ops, recs, out, ref):
    """All defects of this property found while the check was built are fixed in
    /repo; whatever fails now gets a key of its own."""
    kinds = [o[3] for o in ops if o[0] == 'seed' and o[3] != 'good'] + [o[0] for o in ops if o[0] == 'overwrite']
    if not kinds:
        return None                       # no damaged file involved: C07's business
    return 'C08:%s:unclassified:%s' % (mod, '/'.join(o[0] + (':' + o[3] if o[0] == 'seed' else '') for o in ops))


WHAT = {}


def gen_damage_history(ad, rng, L):
    """A random history in which files appear damaged, and files that exist (put
    there as good files, or saved / loaded by an earlier call) are later
    overwritten in place."""
    ops = []
    known = []          # (directory, key) of files that may exist
    for op in ad.gen_history(rng, L):
        if op[0] == 'seed':
            known.append((op[1], op[2]))
            if rng.random() < 0.6:
                op = (op[0], op[1], op[2], ad.DAMAGE_KINDS[rng.integers(len(ad.DAMAGE_KINDS))])
        if op[0] == 'call' and op[1].get('bd') == H.BADDIR:
            op = ('call', dict(op[1], bd=1))
        if op[0] == 'setdir' and op[1] == H.BADDIR:
            continue
        ops.append(op)
        if op[0] == 'call' and op[1].get('bd') in (1, 2):
            known.append((op[1]['bd'], ad.call_key(op[1])))
            if rng.random() < 0.3:
                # the same request again: from memory (after an overwrite: of what?) or from disk
                ops.append(('call', dict(op[1], seed=int(rng.integers(1 << 30)))))
        if known and rng.random() < 0.2:
            d, key = known[rng.integers(len(known))]
            ops.append(('overwrite', d, key))
            for c in [o[1] for o in ops if o[0] == 'call'][-1:]:
                if rng.random() < 0.6:
                    ops.append(('call', dict(c, seed=int(rng.integers(1 << 30)))))
    return ops


def directed(mod, rng):
    """after a damaged file made a call raise: remove it, call again"""
    S = []
    call, key = request_of(mod, rng)
    if mod == 'daun':
        key = (call['n'], call['degree'])
    other = {'basex': dict(call, sig=1, bd=None), 'daun': dict(call, degree=(call.get('degree', 0) + 1) % 3, bd=None),
             'dasch': dict(call, meth=(call.get('meth', 0) + 1) % 3, n=9, bd=None),
             'linbasex': dict(call, angles=[0, 102], bd=None),
             'rbasex': dict(call, order=2, odd=True, bd=None)}[mod]
    if mod == 'rbasex':
        call = dict(call, order=4)
        key = (4, 4, 0, 1)
    for kind in ('empty', 'trunc', 'zip', 'garbage', 'shape'):
        S.append([('call', other), ('seed', 1, key, kind), ('call', call), ('remove', 1, key), ('call', call)])
        S.append([('seed', 1, key, kind), ('call', call), ('call', call)])
    # a wrong-shape file whose NAME promises more than the request needs: cropped and used?
    big = {'basex': (14, 0), 'daun': (14, call.get('degree', 0)), 'dasch': (call.get('meth', 0), 14),
           'rbasex': (6, 4, 0, 1)}.get(mod)
    if big is not None:
        S.append([('seed', 1, big, 'shape'), ('call', call)])
        S.append([('seed', 1, big, 'shapebig'), ('call', call), ('remove', 1, big), ('call', call)])
    S += two_damaged(mod, rng, call)
    S += overwritten_after_load(mod, rng, call, key, big)
    return S


def sized(mod, call, size):
    """(the request `call` at another size, key of the file that request saves)"""
    if mod == 'rbasex':
        # image (9, 9): rmax 'MIN' = 4 about the centre, explicit 3 otherwise
        c = dict(call, rmax={4: 0, 3: 1}[size])
        return c, (size, c['order'], int(bool(c['odd'] or c['order'] % 2)), int(c['direction'] == 'inverse'))
    c = dict(call, n=size)
    return c, H.ADAPTERS[mod].call_key(None, c)


def two_damaged(mod, rng, call):
    """Two unusable candidate files at once, for the methods that choose among
    several files of a directory: a warm-up request (same method, smaller), then
    a directory holding a valid .npy of the wrong shape and a file that cannot be
    parsed, both with names that promise enough for the request (both
    assignments of the two names, so both glob orders), the request, removal of
    both files, the request again (with and without disk cache)."""
    if mod == 'linbasex':
        return []           # exact file name only: never more than one candidate
    S = []
    sd = lambda: int(rng.integers(1 << 30))      # noqa
    if mod == 'rbasex':
        warm, _ = sized(mod, dict(call, bd=None), 3)
        req = dict(call, rmax=0)
        k1 = (5, req['order'], 0, 1)
        k2 = (6, req['order'], 0, 1)
    else:
        warm, _ = sized(mod, dict(call, bd=None), 5)
        req, _ = sized(mod, call, 8)
        _, k1 = sized(mod, call, 9)
        _, k2 = sized(mod, call, 12)
    kinds = ['garbage', 'empty', 'trunc', 'zip']
    for bad in kinds:
        for ka, kb in ((k1, k2), (k2, k1)):
            for shp in ('shapebig', 'shape'):
                if shp == 'shape' and bad != 'garbage':
                    continue
                S.append([('call', dict(warm, seed=sd())), ('seed', 1, ka, shp), ('seed', 1, kb, bad),
                          ('call', dict(req, seed=sd())), ('remove', 1, ka), ('remove', 1, kb),
                          ('call', dict(req, seed=sd())), ('call', dict(req, bd=None, seed=sd()))])
    # two unparsable files, two wrong-shape files
    for wa, wb in (('garbage', 'trunc'), ('shapebig', 'shapebig')):
        S.append([('call', dict(warm, seed=sd())), ('seed', 1, k1, wa), ('seed', 1, k2, wb),
                  ('call', dict(req, seed=sd())), ('remove', 1, k1), ('call', dict(req, seed=sd())),
                  ('remove', 1, k2), ('call', dict(req, seed=sd()))])
    return S


def load_variants(mod):
    """Every kind of request of a module (direction, regularisation, degree,
    method, parity ...) with every kind of file it can be served from and other
    requests that are served from the same memory cache:
    [(request, [file keys], [neighbour requests])]."""
    V = []
    if mod == 'daun':
        for deg in (0, 1, 2, 3):
            for direction, reg in (('inverse', None), ('forward', None), ('inverse', ('L2', 0.5))):
                c = dict(n=6, degree=deg, reg=reg, direction=direction, bd=1, dr=1.0)
                nb = [dict(c, direction='forward' if direction == 'inverse' else 'inverse', reg=None),
                      dict(c, direction='inverse', reg=('diff', 0.5))] + ([dict(c, n=5)] if deg != 3 else [])
                V.append((c, [(6, deg)] + ([(14, deg)] if deg != 3 else []), nb))
    if mod == 'basex':
        for sig in (0, 1):
            for direction in ('inverse', 'forward'):
                for reg in (0, 1):
                    c = dict(n=6, sig=sig, reg=reg, corr=True, dr=0, direction=direction, bd=1)
                    nb = [dict(c, direction='forward' if direction == 'inverse' else 'inverse'), dict(c, reg=2, corr=False),
                          dict(c, n=5)]
                    V.append((c, [(6, sig), (14, sig)], nb))
    if mod == 'dasch':
        for m in (0, 1, 2):
            c = dict(meth=m, n=6, bd=1, dr=1.0)
            V.append((c, [(m, 6), (m, 14)], [dict(c, n=5), dict(c, dr=0.5)]))
    if mod == 'linbasex':
        for orders, angles, n in (([0, 2], [0, 202], 7), ([2, 0], [0, 202], 11), ([0, 1, 2], [0, 102, 202], 7)):
            c = dict(n=n, orders=orders, angles=angles, step=1, clip=0, bd=1)
            V.append((c, [(n, tuple(orders), tuple(angles), 1, 0)], [dict(c, spell=1), dict(c, spell=2, bd=None)]))
    if mod == 'rbasex':
        base = dict(shape=0, origin=0, rmax=0, order=4, odd=False, wid=0, direction='inverse', reg=0, out=0, bd=1)
        # file kinds: exact / larger radius / with odd orders too; with and without the inverse matrices ('i')
        for c, keys in ((base, [(4, 4, 0, 1), (6, 4, 0, 1), (4, 4, 1, 1)]),
                        (dict(base, reg=2), [(4, 4, 0, 0), (4, 4, 0, 1), (6, 4, 0, 0)]),
                        (dict(base, reg=4), [(4, 4, 0, 0), (4, 4, 1, 0)]),
                        (dict(base, direction='forward'), [(4, 4, 0, 0), (6, 4, 0, 0), (4, 4, 1, 0), (4, 4, 0, 1)]),
                        (dict(base, direction='forward', order=2, odd=True), [(4, 2, 1, 0), (5, 3, 1, 0)]),
                        (dict(base, order=2, odd=True), [(4, 2, 1, 1), (4, 2, 1, 0)])):
            nb = [dict(c, direction='forward' if c['direction'] == 'inverse' else 'inverse', reg=0),
                  dict(c, direction='inverse', reg=3), dict(c, out=3)]
            V.append((c, keys, nb))
    return V


def overwritten_after_load(mod, rng, call, key, big):
    """A good file is loaded successfully; afterwards it is overwritten in place
    (same inode, same length) with garbage.  Every following call must return the
    no-disk-cache result or raise: what was loaded must not alias the file.  For
    every kind of request of the module and every kind of file that can serve it
    (load_variants), followed by calls that are served from the memory caches."""
    S = []
    sd = lambda: int(rng.integers(1 << 30))      # noqa
    again = lambda c: ('call', dict(c, seed=sd()))      # noqa
    cl = ('cleanup', 'all') if mod in ('basex', 'daun', 'rbasex') else ('cleanup',)
    cls = H.ADAPTERS[mod]
    ad0 = cls.__new__(cls)          # (only for call_key, which reads class tables)
    for c, keys, nb in load_variants(mod):
        for k in keys:
            # the file is put there, loaded, overwritten; the same and neighbouring requests from
            # memory, then without disk cache, then after dropping the memory caches (meets the
            # garbage: raises or regenerates), then after the file is gone
            S.append([('seed', 1, k, 'good'), again(c), ('overwrite', 1, k), again(c)] + [again(x) for x in nb] +
                     [again(dict(c, bd=None)), cl, again(c), ('remove', 1, k), again(c)])
        # the library's own file: saved by the first call, loaded by the second
        own = [ad0.call_key(c)]
        if mod == 'rbasex':
            own = [own[0][:3] + (0,), own[0][:3] + (1,)]
        S.append([again(c), cl, again(c)] + [('overwrite', 1, k) for k in own] + [again(c)] + [again(x) for x in nb] +
                 [again(dict(c, bd=None))] + [('remove', 1, k) for k in own] + [again(c)])
    return S


RACE_SCRIPT = r'''
import sys, os, warnings
warnings.simplefilter('ignore')
import numpy as np
import abel.basex, abel.daun, abel.rbasex, abel.dasch
d, rounds, me = sys.argv[1], int(sys.argv[2]), int(sys.argv[3])
rng = np.random.default_rng(me)
bad = 0
for r in range(rounds):
    n = int(rng.choice([30, 45, 60]))
    IM = rng.random((2, n)) + 0.1
    for f, kw in ((abel.daun.daun_transform, dict(degree=1, verbose=False)), (abel.basex.basex_transform, dict(verbose=False)),
                  (abel.dasch.onion_peeling_transform, {})):
        for m in (abel.basex, abel.daun, abel.dasch):
            m.cache_cleanup()
        try:
            a = f(IM, basis_dir=d, **kw)
        except Exception:
            continue
        for m in (abel.basex, abel.daun, abel.dasch):
            m.cache_cleanup()
        b = f(IM, basis_dir=None, **kw)
        if not np.allclose(a, b, rtol=1e-7, atol=1e-12):
            bad += 1
sys.exit(1 if bad else 0)
'''


def race_smoke(root, nproc=4, rounds=12):
    d = os.path.join(root, 'race')
    bad = 0
    for rep in range(3):
        shutil.rmtree(d, ignore_errors=True)
        os.makedirs(d)
        env = dict(os.environ, PYTHONPATH=vlib.REPO)
        ps = [subprocess.Popen([H.PY, '-W', 'ignore', '-c', RACE_SCRIPT, d, str(rounds), str(rep * 10 + i)], env=env,
                               stdout=subprocess.DEVNULL, stderr=subprocess.DEVNULL) for i in range(nproc)]
        for p in ps:
            p.wait(timeout=900)
            bad += (p.returncode == 1)
    return bad


def run(ctx):
    t0 = time.time()
    rng = np.random.default_rng(ctx.seed)
    pr = vlib.coq_props('C08')
    refuted = [t for t in pr['theorems'] if t.endswith('_refuted')]
    partial = [t for t in pr['theorems'] if t.endswith('_partial')]
    ctx.cov.update(obligations=len(pr['theorems']), discharged=pr['discharged'], theorems=pr['theorems'],
                   refuted_theorems=refuted, partial_theorems=partial, axioms=pr['axioms'],
                   checker_cmd='make -C /verif/coq props/C08.vo (coqc 8.16.1, full .vo build) + Print Assumptions',
                   trusted_base=vlib.TRUSTED_COMMON + [
                       'axioms reported by Print Assumptions: ' + (', '.join(pr['axioms']) or 'none'),
                       'POSIX semantics of open(O_TRUNC)/write at syscall granularity; a torn single write is seen as a truncation',
                       'hand-written models coq/base/Npy.v, coq/model/FileFaults.v, coq/model/Cache*.v (tied by correspondence)'])
    root = '/var/tmp/pyabel-verif-C08-%d' % os.getpid()
    shutil.rmtree(root, ignore_errors=True)
    env = H.Env(os.path.join(root, 'main'))
    worker = H.FreshWorker(os.path.join(root, 'fresh'))
    texts, broken, hits = [], [], []
    n_obl = n_eval = 0
    dist = {}
    try:
        # (1) codec
        ct, n_items, n_loads, cdist, _ = codec_tie(ctx, rng, root)
        texts.append(ct)
        n_obl += n_items
        n_eval += n_loads
        dist.update(cdist)
        # (2) handlers
        sweeps = {}
        for mod in MODS:
            ad, call, key, good, rows, sh = sweep(ctx, rng, env, worker, mod)
            sweeps[mod] = (ad, call, key, good, rows, sh)
            st, ni = sweep_case(mod, good, rows)
            texts.append(st)
            n_obl += ni
            n_eval += 2 * len(rows)
            for kind, k, d, c1, rs, c2 in rows:
                kk = 'sweep/%s/%s/first=%d/second=%d' % (mod, kind, c1, c2)
                dist[kk] = dist.get(kk, 0) + 1
        # damage histories against the state machines
        nh, L = (24, 10) if ctx.quick else (120, 20)
        allh = {}
        for mod in MODS:
            ad = H.ADAPTERS[mod](env)
            hists = [H.run_history(ad, worker, ops) for ops in directed(mod, rng)]
            for _ in range(nh):
                hists.append(H.run_history(ad, worker, gen_damage_history(ad, rng, int(rng.integers(4, L + 1)))))
            allh[mod] = (ad, hists)
            name, text = C07mod.correspondence(ad, hists, mod)
            texts.append(('C08_hist_' + mod, text))
        outs = vlib.coq_eval_many(texts)
        n_ok = n_tot = 0
        unsupported = None
        for name, _ in texts:
            rc, out = outs[name]
            res = vlib.parse_eval_lists(out) if rc == 0 else []
            pc = None
            if res:
                m = re.match(r'\((\d+), (.*)\)$', res[0])
                pc = (int(m.group(1)), vlib.parse_nat_list(m.group(2)))
            if pc is None:
                broken.append((name, 'coq evaluation failed: ' + out[-400:]))
                continue
            if name == 'C08_codec' and len(res) > 1:
                unsupported = int(res[1])
            n_ok += pc[0]
            n_tot += pc[0] + len(pc[1])
            if pc[1]:
                detail = 'items %r disagree' % pc[1][:5]
                if name.startswith('C08_hist_'):
                    ad, hists = allh[name[9:]]
                    flat = [(hi, si) for hi, h in enumerate(hists) for si, r in enumerate(h)
                            if ad.coq_op(r['op'], r['aux'], r['ref']) is not None]
                    hi, si = flat[pc[1][0]]
                    r = hists[hi][si]
                    detail = 'history %d step %d op=%r impl code=%s agree=%s state=%r; history=%r' % (
                        hi, si, r['op'], r['code'], r['agree'], r['state'], [x['op'] for x in hists[hi][:si]])
                broken.append((name, detail))
        ctx.cov.update(traces_validated_against_impl=n_ok, correspondence_items=n_tot,
                       correspondence_disagreements=n_tot - n_ok, garbage_outside_header_grammar=unsupported,
                       correspondence_broken=[list(b) for b in broken])
        # (3) chunking
        info, err = strace_guard(root)
        ctx.cov['how_saved_basis_files_appear'] = info if info is not None else err
        bad = not_atomic(info or {})
        if info is None or len(info) < 5:
            broken.append(('strace', err or 'fewer than 5 saved basis files seen: %r' % (info,)))
        if bad:
            if zero_gap_probe(env, worker, rng):
                hits.append(Hit('atomic_save_safe', 'C08:basis-file-not-saved-atomically',
                                'basis files %r do not appear by rename of a completely written temporary file that is private '
                                'to the writing process (in-place writes / shared temporary name: %r): the atomic-save theorem does '
                                'not cover them; numpy.save needs three write '
                                'syscalls, so two concurrent savers and a reader admit the schedule of the refuted three-chunk '
                                'theorem, and the zero-gap file it leaves behind is loaded and changes the result'
                                % (bad, {f: (info[f].get('inplace'), info[f].get('renamed_from'), info[f].get('temp_name_private_to_writer')) for f in bad}),
                                CHUNK_SNIPPET, dict(info=info)))
            else:
                broken.append(('strace', 'basis files not saved atomically: %r' % bad))
        # the extension path of basex (fixed in 6203711): a wrong-shape smaller file of the same sigma
        rc, out = vlib.run_snippet(BASEX_EXTEND_SNIPPET)
        n_eval += 1
        if rc != 0:
            hits.append(Hit('fault_outcome', 'C08:basex:wrong-shape-file-extended',
                            'basex: a valid .npy that is not what its name promises is used as the block to extend: '
                            + out.strip().splitlines()[-1][:120], BASEX_EXTEND_SNIPPET, {}))
        # search: verdicts
        seen = {}
        # (a) sweeps: second call after removal / re-save
        for mod in MODS:
            ad, call, key, good, rows, sh = sweeps[mod]
            for h in sh:
                if h[1] == 'different':
                    hits.append(Hit('fault_outcome', 'C08:%s:damaged-file-changes-result' % mod, h[3],
                                    'import sys; sys.exit(1)', dict(call=call)))
        # (b) histories
        groups = {}
        for mod in MODS:
            ad, hists = allh[mod]
            for h in hists:
                for si, r in enumerate(h):
                    if r['op'][0] != 'call':
                        continue
                    n_eval += 1
                    ref2 = None
                    if r['out'][0] == 'ok' and r['ref'][0] == 'exc':
                        c2 = dict(r['op'][1], bd=None)
                        if mod == 'rbasex' and c2.get('wid'):
                            c2['wver'] = r['aux']['wver']      # the weights content at the time of the call
                        ref2 = worker.ask(mod, ad.ref_call(c2))
                    v = H.verdict('C08', r['out'], r['ref'], ref2, r['damage_before'])
                    if v is None:
                        continue
                    ops = [x['op'] for x in h[:si + 1]]
                    pre = classify(mod, ops, h[:si], r['out'], r['ref'])
                    if pre is None:
                        continue
                    groups.setdefault(pre, []).append((len(ops), mod, ops))
        n_shrunk = 0
        for pre in sorted(groups, key=lambda k: ('unclassified' in k, k)):
            for _, mod, ops in sorted(groups[pre], key=lambda t: t[0])[:2]:
                if n_shrunk >= (24 if ctx.quick else 100):
                    break
                n_shrunk += 1
                ad = allh[mod][0]
                mops = H.shrink(ad, worker, ops, 'C08', budget=40 if ctx.quick else 120)
                v2, recs, out, ref = H.check_last(ad, worker, mops, 'C08')
                if v2 is None:
                    mops = ops
                    v2, recs, out, ref = H.check_last(ad, worker, mops, 'C08')
                    if v2 is None:
                        continue
                key = classify(mod, mops, recs, out, ref)
                if key is None or (key in seen and len(seen[key][0]) <= len(mops)):
                    continue
                seen[key] = (mops, v2)
        ctx.cov['failing_history_groups'] = {k: len(v) for k, v in groups.items()}
        for key, (mops, v2) in seen.items():
            mod = key.split(':')[1]
            hits.append(Hit('fault_outcome', key, '%s: %s' % (WHAT.get(key, key), v2),
                            H.snippet(mod, mops, 'C08'), dict(module=mod, history=[repr(o) for o in mops])))
        if not ctx.quick:
            nbad = race_smoke(root)
            ctx.cov['race_smoke_processes_with_different_results'] = nbad
            if nbad:
                hits.append(Hit('two_chunk_interleaving_safe', 'C08:race-smoke-different-result',
                                'concurrent processes sharing an initially empty basis directory obtained results different from the no-cache result',
                                'import sys; sys.exit(1)', {}))
    finally:
        worker.close()
        env.close()
        shutil.rmtree(root, ignore_errors=True)

    samples = []
    for mod in MODS:
        ad, call, key, good, rows, sh = sweeps[mod]
        samples.append(dict(module=mod, call=repr(call), file=ad.fname(key), file_bytes=len(good),
                            outcomes_first_second=[(kind, k, c1, c2) for kind, k, d, c1, rs, c2 in rows][:8]))
    ctx.cov.update(obligations=len(pr['theorems']), discharged=pr['discharged'],
                   per_instance_goals_evaluated_in_coq=ctx.cov['correspondence_items'],
                   per_instance_goals_true=ctx.cov['traces_validated_against_impl'],
                   evaluations=n_eval, distinct_nontrivial=len(dist),
                   rule='codec: numpy.load on every prefix of files saved by numpy.save for a list of shapes + a garbage stream; handlers: '
                        'for each caching method the file its call loads is replaced by every (quick: sampled) prefix, garbage, zip prefix, '
                        'zeros, random bytes, and the call is judged against the no-disk-cache result, then repeated after the file was '
                        're-saved by the library or removed; histories with damaged / wrong-shape files as in C07, with two unusable '
                        'candidate files at once (wrong-shape valid .npy + unparsable file, both name assignments, after a warm-up call, '
                        'then removal and the call again) and with files overwritten in place (same inode and length) AFTER they were '
                        'loaded or saved (every kind of request of every module x every kind of file that can serve it: exact / larger / with odd '
                        'orders / with and without inverse matrices, forward and inverse, regularised), followed by the same and neighbouring '
                        'calls served from the memory caches (directed + at random in the random histories); a case is distinct by '
                        '(stage, method, damage kind, outcome classes)',
                   samples=samples, input_distribution=dist, exhaustive=False, wall_impl_s=round(time.time() - t0, 1))
    ctx.assumptions += [
        'per-instance machine-checked goals (vm_compute inside Coq): serialize = numpy.save bytes; parse = numpy.load on every prefix '
        'and on the garbage stream; load_outcome = observed outcome class of each caching method on each damaged content',
        'numpy.load results on headers outside the grammar numpy.save emits for C-ordered float64 data are not modelled '
        '(PUnsupported; counted in garbage_outside_header_grammar)',
        'the atomic-save theorem assumes that a basis file appears by rename (os.replace) of a temporary file into which all of its '
        'bytes were written before, and is never written in place; checked with strace on every run for the five save paths',
        'real multi-process races are only smoke-tested (thorough tier)',
        'valid-but-different files (no checksum exists) are outside the fault class, except wrong-shape files which are swept',
        'an in-place overwrite of a basis file is, in the models, the appearance of an unparsable file under that name: the model '
        'memory caches never alias the disk (C08_daun_disk_fault_keeps_memory); that the implementation copies what it loads is '
        'tested by the overwrite histories, not proved',
    ]
    new = 0
    for h in hits:
        if ctx.report_hit(h):
            new += 1
    if not pr['ok'] and new == 0:
        ctx.report_broken('proof', pr['broken'] or 'props/C08.v', pr['error'] or '')
    if broken and new == 0:
        ctx.report_broken('correspondence', broken[0][0], '; '.join('%s: %s' % tuple(b) for b in broken[:3]))
