# cache_harness.py — shared harness of the checks C07 and C08 (basis caches).
#
#   * Env: numbered scratch basis directories (0 = the library's default
#     directory, redirected by XDG_CACHE_HOME; 99 = a path that does not exist).
#   * one adapter per caching module: runs calls / clean-ups on the
#     implementation, reads the observable cache state (module globals,
#     directory listing) and renders operations and observations as literals
#     of the corresponding Coq model (coq/model/Cache*.v).
#   * FreshWorker: a separate interpreter that answers "what does this call
#     return in a fresh state with empty basis directories".
#
# Nothing here decides a verdict; tools/props/C07.py and C08.py do.
import contextlib
import glob as _glob
import io
import os
import pickle
import shutil
import struct
import subprocess
import sys
import warnings

import numpy as np

BADDIR = 99
PY = '/venv/bin/python'


# --------------------------------------------------------------------------
# scratch directories
# --------------------------------------------------------------------------
class Env:
    def __init__(self, root, ndirs=3):
        self.root = root
        self.ndirs = ndirs
        os.environ['XDG_CACHE_HOME'] = os.path.join(root, 'xdg')
        self.reset()

    def path(self, d):
        if d == 0:
            return os.path.join(self.root, 'xdg', 'PyAbel')
        if d == BADDIR:
            return os.path.join(self.root, 'missing', 'dir')
        return os.path.join(self.root, 'd%d' % d)

    def ids(self):
        return list(range(self.ndirs))

    def reset(self):
        shutil.rmtree(self.root, ignore_errors=True)
        for d in self.ids():
            os.makedirs(self.path(d))

    def arg(self, bd):
        """basis_dir argument: None, '' or a directory number."""
        if bd is None or bd == '':
            return bd
        return self.path(bd)

    def dir_id(self, p):
        for d in self.ids() + [BADDIR]:
            if p == self.path(d):
                return d
        raise KeyError(p)

    def files(self, prefix):
        out = []
        for d in self.ids():
            for f in sorted(os.listdir(self.path(d))):
                if f.startswith(prefix):
                    out.append((d, f))
        return out

    def close(self):
        shutil.rmtree(self.root, ignore_errors=True)


def quiet(f, *a, **k):
    """Run f silently; return ('ok', value) or ('exc', class name)."""
    with warnings.catch_warnings(), np.errstate(all='ignore'), \
            contextlib.redirect_stdout(io.StringIO()):
        warnings.simplefilter('ignore')
        try:
            return ('ok', f(*a, **k))
        except Exception as e:      # noqa
            return ('exc', type(e).__name__)


EXC_CODE = {'ValueError': 1, 'EOFError': 2, 'AttributeError': 3}


def exc_code(name):
    return EXC_CODE.get(name, 4)


def flat(v):
    """Result of a transform call as a list of float arrays."""
    if v is None:
        return []
    if isinstance(v, np.ndarray):
        return [np.asarray(v, dtype=float)]
    if isinstance(v, (tuple, list)):
        out = []
        for x in v:
            out += flat(x)
        return out
    if hasattr(v, 'cos') and callable(v.cos):       # rbasex Distributions.Results
        return [np.asarray(v.cos(), dtype=float)]
    return [np.asarray(v, dtype=float)]


def same(a, b, rtol=1e-7):
    """Equal 'to rounding': same structure and max-norm relative difference."""
    a, b = flat(a), flat(b)
    if len(a) != len(b):
        return False
    for x, y in zip(a, b):
        if x.shape != y.shape:
            return False
        if x.size == 0:
            continue
        fx, fy = np.isfinite(x), np.isfinite(y)
        if not np.array_equal(fx, fy):
            return False
        if not fx.any():
            continue
        scale = max(np.abs(x[fx]).max(), np.abs(y[fx]).max())
        if np.abs(x[fx] - y[fx]).max() > rtol * scale + 1e-13:
            return False
    return True


def maxdiff(a, b):
    a, b = flat(a), flat(b)
    if len(a) != len(b) or any(x.shape != y.shape for x, y in zip(a, b)):
        return float('inf')
    return max([float(np.nanmax(np.abs(x - y))) for x, y in zip(a, b) if x.size] + [0.0])


def image(seed, shape):
    return np.random.default_rng(seed).random(shape) + 0.1


# --------------------------------------------------------------------------
# Coq literals
# --------------------------------------------------------------------------
def cbool(b):
    return 'true' if b else 'false'


def clist(items):
    return '[' + '; '.join(items) + ']'


def cnats(xs):
    return clist([str(int(x)) for x in xs])


def cbd(bd):
    if bd is None:
        return 'BNone'
    if bd == '':
        return 'BDefault'
    return '(BPath %d)' % bd


PERR = {'empty': 'PEOF', 'trunc': 'PValue', 'garbage': 'PValue', 'zip': 'PZip'}


def damaged_bytes(kind, good=b''):
    if kind == 'empty':
        return b''
    if kind == 'trunc':
        return good[:max(1, len(good) // 2)] if good else b'\x93NUMPY\x01\x00v\x00{'
    if kind == 'garbage':
        return b'not a basis file at all\n' * 3
    if kind == 'zip':
        return b'PK\x03\x04' + b'\x00' * 40
    raise ValueError(kind)


def basis_dir_global(env):
    import abel.transform as T
    g = T._basis_dir
    if g == '':
        return 0
    if g is None:
        return 1
    return 2 + env.dir_id(g)


def resolved_dir(env, bd):
    """Directory number a call with this basis_dir argument will use."""
    import abel.transform as T
    if bd is None:
        return None
    if bd == '':
        g = T._basis_dir
        if g == '':
            return 0
        if g is None:
            return None
        return env.dir_id(g)
    return bd


# --------------------------------------------------------------------------
# adapters
# --------------------------------------------------------------------------
class Adapter:
    name = None
    coq_module = None
    file_prefix = None

    def __init__(self, env):
        self.env = env
        self.damaged = []

    def damage_present(self):
        """Is a damaged / wrong-shape file that was put there still on disk?"""
        for p, data in self.damaged:
            try:
                if open(p, 'rb').read() == data:
                    return True
            except OSError:
                pass
        return False

    DAMAGE_KINDS = ['empty', 'trunc', 'garbage', 'zip', 'shape', 'shapebig']

    @staticmethod
    def big_junk(shape):
        """A valid .npy holding finite garbage numbers, with a shape that is larger
        than (and different from) what the file's name promises."""
        buf = io.BytesIO()
        np.save(buf, np.random.default_rng(4711).random(shape) * 7 - 3)
        return buf.getvalue()

    @staticmethod
    def garbage_of_len(n):
        """n bytes that are no .npy/.npz file and read as finite doubles"""
        return (np.random.default_rng(815).random(n // 8 + 1) * 7 - 3).tobytes()[:n]

    def model_op(self, op):
        """The model operation of a harness operation: overwriting a file in
        place is, for the models (whose memory caches never alias the disk), the
        appearance of an unparsable file under that name."""
        if op[0] == 'overwrite':
            return ('seed', op[1], op[2], 'garbage')
        return op

    def gen_damage(self, rng, key):
        return ('seed', int(rng.integers(1, 3)), key, self.DAMAGE_KINDS[rng.integers(len(self.DAMAGE_KINDS))])

    # operations common to all modules -----------------------------------
    def apply(self, op):
        """Run one operation on the implementation; returns the outcome of a
        call ('ok', value) / ('exc', name) or None for other operations."""
        kind = op[0]
        if kind == 'call':
            return self.call(op[1])
        if kind == 'setdir':
            import abel.transform as T
            quiet(T.set_basis_dir, self.env.arg(op[1]), make=False)
            return None
        if kind == 'seed':
            _, d, key, what = op
            p = os.path.join(self.env.path(d), self.fname(key))
            good = self.good_file(key)
            data = good if what == 'good' else self.junk_file(key) if what == 'shape' \
                else self.bigjunk_file(key) if what == 'shapebig' else damaged_bytes(what, good)
            # a new file under this name (new inode; an existing file is never
            # truncated in place: that is what 'overwrite' is for)
            with open(p + '.seed-tmp', 'wb') as f:
                f.write(data)
            os.replace(p + '.seed-tmp', p)
            if what != 'good':
                self.damaged.append((p, data))
            return None
        if kind == 'overwrite':
            # the existing file is overwritten IN PLACE (same inode, same length) with
            # garbage, e.g. after the library has loaded it; creates it when missing
            _, d, key = op
            p = os.path.join(self.env.path(d), self.fname(key))
            n = os.path.getsize(p) if os.path.exists(p) else 0
            if n < 64:
                n = max(n, len(self.good_file(key)))
            data = self.garbage_of_len(n)
            with open(p, 'r+b' if os.path.exists(p) else 'wb') as f:
                f.write(data)
            self.damaged.append((p, data))
            return None
        if kind == 'remove':
            _, d, key = op
            p = os.path.join(self.env.path(d), self.fname(key))
            if os.path.exists(p):
                os.remove(p)
            return None
        return self.apply_other(op)

    def ref_call(self, c):
        return c

    def info(self):
        return None

    def fix_call(self, c):
        return c

    BLANK = {}

    def safe_state(self):
        """state(), or an impossible observation when the globals are in a shape
        the reader does not understand (then the correspondence fails closed)"""
        try:
            return self.state()
        except Exception:       # noqa
            return dict(self.BLANK)

    def gen_call_near(self, rng, prev):
        """A call that differs from the previous one in one or two parameters
        (neighbours in the parameter lattice: where stale cache entries show)."""
        new = self.gen_call(rng)
        if prev is None or rng.random() < 0.35:
            return new
        c = dict(prev)
        keys = [k for k in new if k != 'seed']
        for k in rng.choice(keys, size=int(rng.integers(0, 3)), replace=False):
            c[k] = new[k]
        c['seed'] = new['seed']
        return self.fix_call(c)

    def gen_history(self, rng, length):
        ops, prev = [], None
        for _ in range(length):
            op = self.gen_op(rng)
            if op[0] == 'call':
                op = ('call', self.gen_call_near(rng, prev))
                prev = op[1]
            ops.append(op)
        return ops

    def reset_memory(self):
        """Put the module (and transform._basis_dir) in its import-time state."""
        import abel.transform as T
        T._basis_dir = ''
        self.reset_module()

    def coq_fstate(self, key, what):
        if what == 'good':
            return '(FGood %s)' % self.coq_content(key)
        if what in ('shape', 'shapebig'):
            return 'FShape'
        return '(FBad %s)' % PERR[what]

    _good_cache = {}

    def good_file(self, key):
        """Bytes of the file the library itself saves under this name."""
        ck = (self.name, key)
        if ck not in Adapter._good_cache:
            Adapter._good_cache[ck] = self.make_good_file(key)
        return Adapter._good_cache[ck]


class Daun(Adapter):
    BLANK = dict(bs_prm=[98], bs_size=[98], tr_prm=[98], gdir=98, listing=[])
    name = 'daun'
    coq_module = 'CacheDaun'
    file_prefix = 'daun_basis_'
    REGS = [None, 'nonneg', ('diff', 0.5), ('diff', 2.0), ('L2', 0.5), ('L2c', 0.5), ('L2', 0), 2.0, ('L2', 2.0), ('L2c', 2.0)]
    STRENGTH = {0: 0, 0.5: 1, 2.0: 2}

    @staticmethod
    def mod():
        import abel.daun
        return abel.daun

    def reset_module(self):
        m = self.mod()
        m._bs = m._bs_prm = m._tr = m._tr_prm = None

    @staticmethod
    def reg_parts(reg):
        """(reg_type code, strength code) as daun_transform derives them."""
        if reg is None:
            return 0, 0
        if reg == 'nonneg':
            return 4, 0
        if isinstance(reg, (int, float)):
            return 1, Daun.STRENGTH[reg]
        return {'diff': 1, 'L2': 2, 'L2c': 3}[reg[0]], Daun.STRENGTH[reg[1]]

    def fname(self, key):
        return 'daun_basis_%d_%d.npy' % key

    def parse_name(self, f):
        a = f[:-4].split('_')
        return (int(a[2]), int(a[3]))

    def make_good_file(self, key):
        buf = io.BytesIO()
        np.save(buf, self.mod()._bs_daun(key[0], key[1]))
        return buf.getvalue()

    def junk_file(self, key):
        buf = io.BytesIO()
        np.save(buf, np.eye(max(1, key[0] // 2)))
        return buf.getvalue()

    def bigjunk_file(self, key):
        return self.big_junk((key[0] + 2, key[0] + 2))

    def call_key(self, c):
        return (c['n'], c['degree'])

    def coq_content(self, key):
        return '(ideal %d %d)' % key

    def gen_call(self, rng):
        n = int(rng.choice([5, 6, 8, 9, 12]))
        deg = int(rng.choice([0, 1, 2, 3], p=[0.25, 0.2, 0.2, 0.35]))
        reg = self.REGS[rng.integers(len(self.REGS))]
        direction = 'forward' if rng.random() < 0.35 else 'inverse'
        if reg == 'nonneg':
            direction = 'inverse'
        bd = [None, '', 1, 1, 2, BADDIR][rng.integers(6)] if rng.random() < 0.8 else 1
        return dict(n=n, degree=deg, reg=reg, direction=direction, bd=bd,
                    dr=float(rng.choice([1.0, 0.5])), seed=int(rng.integers(1 << 30)))

    def fix_call(self, c):
        if c['reg'] == 'nonneg':
            c['direction'] = 'inverse'
        return c

    def gen_op(self, rng):
        u = rng.random()
        if u < 0.62:
            return ('call', self.gen_call(rng))
        if u < 0.74:
            return ('cleanup', 'all' if rng.random() < 0.6 else 'inverse')
        if u < 0.79:
            return ('dircleanup', [None, '', 1, 2][rng.integers(4)])
        if u < 0.85:
            return ('setdir', [None, '', 1, 2][rng.integers(4)])
        key = (int(rng.choice([5, 6, 8, 9, 12, 14])), int(rng.choice([0, 1, 2, 3])))
        d = int(rng.integers(0, 3))
        if u < 0.95:
            return ('seed', d, key, 'good')
        return ('remove', d, key)

    def call(self, c, env=None):
        env = env or self.env
        IM = image(c['seed'], (2, c['n']))
        return quiet(self.mod().daun_transform, IM, basis_dir=env.arg(c['bd']), dr=c['dr'],
                     direction=c['direction'], degree=c['degree'], reg=c['reg'], verbose=False)

    def apply_other(self, op):
        m = self.mod()
        if op[0] == 'cleanup':
            m.cache_cleanup(op[1])
        elif op[0] == 'dircleanup':
            quiet(m.basis_dir_cleanup, self.env.arg(op[1]))
        return None

    def lastsz(self, c):
        d = resolved_dir(self.env, c['bd'])
        if d is None:
            return 0
        fs = _glob.glob(os.path.join(self.env.path(d), 'daun_basis_*_%d.npy' % c['degree']))
        return int(fs[-1].split('_')[-2]) if fs else 0

    def coq_op(self, op, aux, ref=None):
        op = self.model_op(op)
        k = op[0]
        if k == 'call':
            c = op[1]
            rt, z = self.reg_parts(c['reg'])
            return '(Call %d %d %s %d %s %s)' % (
                c['n'], c['degree'], ['RNone', 'RDiff', 'RL2', 'RL2c', 'RNonneg'][rt], z,
                cbool(c['direction'] == 'forward'), cbd(c['bd']))
        if k == 'cleanup':
            return '(Cleanup %s)' % cbool(op[1] == 'all')
        if k == 'dircleanup':
            return '(DirCleanup %s)' % cbd(op[1])
        if k == 'setdir':
            return '(SetDir %s)' % cbd(op[1])
        if k == 'seed':
            return '(Seed %d (%d, %d) %s)' % (op[1], op[2][0], op[2][1], self.coq_fstate(op[2], op[3]))
        if k == 'remove':
            return '(Remove %d (%d, %d))' % (op[1], op[2][0], op[2][1])
        raise ValueError(op)

    def pre(self, op):
        return 0

    def state(self):
        m = self.mod()
        trp = []
        if m._tr_prm is not None:
            rt = {None: 0, 'diff': 1, 'L2': 2, 'L2c': 3, 'nonneg': 4}[m._tr_prm[1]]
            trp = [m._tr_prm[0], rt, self.STRENGTH[m._tr_prm[2]]]
        return dict(bs_prm=list(m._bs_prm) if m._bs_prm is not None else [],
                    bs_size=[m._bs.shape[0]] if m._bs is not None else [],
                    tr_prm=trp,
                    gdir=basis_dir_global(self.env),
                    listing=[(d,) + self.parse_name(f) for d, f in self.env.files(self.file_prefix)])

    def coq_obs(self, code, agree, fresh_code, st):
        return ('{| o_code := %d; o_agree := %s; o_fresh_code := %d; o_bs_prm := %s; o_bs_size := %s; '
                'o_tr_prm := %s; o_gdir := %d; o_listing := %s |}'
                % (code, cbool(agree), fresh_code, cnats(st['bs_prm']), cnats(st['bs_size']),
                   cnats(st['tr_prm']), st['gdir'],
                   clist(['(%d, %d, %d)' % t for t in sorted(st['listing'])])))


class Basex(Adapter):
    BLANK = dict(bs_prm=[98], bs_rows=[98], trf_prm=[98], tri_prm=[98], gdir=98, listing=[])
    name = 'basex'
    coq_module = 'CacheBasex'
    file_prefix = 'basex_basis_'
    SIGMAS = [1.0, 2.0, 1.5]
    REGS = [0.0, 10.0, 1.0]
    DRS = [1.0, 0.5]

    @staticmethod
    def mod():
        import abel.basex
        return abel.basex

    def reset_module(self):
        m = self.mod()
        m._bs_prm = m._bs = m._trf_prm = m._trf = m._tri_prm = m._tri = None

    def fname(self, key):
        return 'basex_basis_%d_%s.npy' % (key[0], self.SIGMAS[key[1]])

    def parse_name(self, f):
        a = f[:-4].split('_')
        return (int(a[2]), self.SIGMAS.index(float(a[3])))

    def make_good_file(self, key):
        buf = io.BytesIO()
        with contextlib.redirect_stdout(io.StringIO()):
            np.save(buf, self.mod()._bs_basex(key[0], self.SIGMAS[key[1]], verbose=False))
        return buf.getvalue()

    def junk_file(self, key):
        # one row, wider than any basis: fails the shape check as "best" file and does
        # not fit as the block to extend (a wrong-shape file that DOES fit is the
        # subject of the directed probe in C08.py)
        buf = io.BytesIO()
        np.save(buf, np.zeros((2, 1, 1000)))
        return buf.getvalue()

    def bigjunk_file(self, key):
        return self.big_junk((2, key[0] + 2, key[0] + 2))

    def call_key(self, c):
        return (c['n'], c['sig'])

    def coq_content(self, key):
        return '(ideal %d %d)' % key

    def gen_call(self, rng):
        return dict(n=int(rng.choice([5, 6, 8, 9, 12])), sig=int(rng.integers(3)), reg=int(rng.integers(3)),
                    corr=bool(rng.random() < 0.5), dr=int(rng.integers(2)),
                    direction='forward' if rng.random() < 0.4 else 'inverse',
                    bd=[None, '', 1, 1, 2, BADDIR][rng.integers(6)] if rng.random() < 0.8 else 1,
                    seed=int(rng.integers(1 << 30)))

    def gen_op(self, rng):
        u = rng.random()
        if u < 0.62:
            return ('call', self.gen_call(rng))
        if u < 0.74:
            return ('cleanup', ['all', 'forward', 'inverse'][rng.integers(3)])
        if u < 0.79:
            return ('dircleanup', [None, '', 1, 2][rng.integers(4)])
        if u < 0.85:
            return ('setdir', [None, '', 1, 2][rng.integers(4)])
        key = (int(rng.choice([4, 5, 6, 8, 9, 12, 14])), int(rng.integers(3)))
        d = int(rng.integers(0, 3))
        if u < 0.95:
            return ('seed', d, key, 'good')
        return ('remove', d, key)

    def call(self, c, env=None):
        env = env or self.env
        IM = image(c['seed'], (2, c['n']))
        return quiet(self.mod().basex_transform, IM, sigma=self.SIGMAS[c['sig']], reg=self.REGS[c['reg']],
                     correction=c['corr'], basis_dir=env.arg(c['bd']), dr=self.DRS[c['dr']],
                     verbose=False, direction=c['direction'])

    def apply_other(self, op):
        m = self.mod()
        if op[0] == 'cleanup':
            m.cache_cleanup(op[1])
        elif op[0] == 'dircleanup':
            quiet(m.basis_dir_cleanup, self.env.arg(op[1]))
        return None

    def pre(self, op):
        return 0

    def coq_op(self, op, aux, ref=None):
        op = self.model_op(op)
        k = op[0]
        if k == 'call':
            c = op[1]
            return '(Call %d %d %d %s %d %s %s)' % (c['n'], c['sig'], c['reg'], cbool(c['corr']), c['dr'],
                                                    cbool(c['direction'] == 'forward'), cbd(c['bd']))
        if k == 'cleanup':
            return '(Cleanup %s)' % {'all': 'CAll', 'forward': 'CFwd', 'inverse': 'CInv'}[op[1]]
        if k == 'dircleanup':
            return '(DirCleanup %s)' % cbd(op[1])
        if k == 'setdir':
            return '(SetDir %s)' % cbd(op[1])
        if k == 'seed':
            return '(Seed %d (%d, %d) %s)' % (op[1], op[2][0], op[2][1], self.coq_fstate(op[2], op[3]))
        if k == 'remove':
            return '(Remove %d (%d, %d))' % (op[1], op[2][0], op[2][1])
        raise ValueError(op)

    def prm3(self, p):
        if p is None:
            return []
        return [self.REGS.index(float(p[0])), int(bool(p[1])), self.DRS.index(float(p[2]))]

    def state(self):
        m = self.mod()
        return dict(bs_prm=[m._bs_prm[0], self.SIGMAS.index(m._bs_prm[1])] if m._bs_prm is not None else [],
                    bs_rows=[m._bs[0].shape[0]] if m._bs is not None else [],
                    trf_prm=self.prm3(m._trf_prm), tri_prm=self.prm3(m._tri_prm),
                    gdir=basis_dir_global(self.env),
                    listing=[(d,) + self.parse_name(f) for d, f in self.env.files(self.file_prefix)])

    def coq_obs(self, code, agree, fresh_code, st):
        return ('{| o_code := %d; o_agree := %s; o_fresh_code := %d; o_bs_prm := %s; o_bs_rows := %s; '
                'o_trf_prm := %s; o_tri_prm := %s; o_gdir := %d; o_listing := %s |}'
                % (code, cbool(agree), fresh_code, cnats(st['bs_prm']), cnats(st['bs_rows']),
                   cnats(st['trf_prm']), cnats(st['tri_prm']), st['gdir'],
                   clist(['(%d, %d, %d)' % t for t in sorted(st['listing'])])))


class Dasch(Adapter):
    BLANK = dict(method=[98], size=[98], source=98, gdir=98, listing=[])
    name = 'dasch'
    coq_module = 'CacheDasch'
    file_prefix = ('two_point_basis_', 'three_point_basis_', 'onion_peeling_basis_')
    METHODS = ['two_point', 'three_point', 'onion_peeling']

    @staticmethod
    def mod():
        import abel.dasch
        return abel.dasch

    def reset_module(self):
        m = self.mod()
        m._D = m._method = m._source = None

    def fname(self, key):
        return '%s_basis_%d.npy' % (self.METHODS[key[0]], key[1])

    def parse_name(self, f):
        for i, mname in enumerate(self.METHODS):
            if f.startswith(mname + '_basis_'):
                return (i, int(f[len(mname) + 7:-4]))
        raise ValueError(f)

    def make_good_file(self, key):
        buf = io.BytesIO()
        np.save(buf, getattr(self.mod(), '_bs_' + self.METHODS[key[0]])(key[1]))
        return buf.getvalue()

    def junk_file(self, key):
        buf = io.BytesIO()
        np.save(buf, np.eye(max(1, key[1] // 2)))
        return buf.getvalue()

    def bigjunk_file(self, key):
        return self.big_junk((key[1] + 2, key[1] + 2))

    def call_key(self, c):
        return (c['meth'], c['n'])

    def coq_content(self, key):
        return '(ideal %d %d)' % key

    def gen_call(self, rng):
        return dict(meth=int(rng.integers(3)), n=int(rng.choice([5, 6, 8, 9, 12])),
                    bd=[None, '', 1, 1, 2, BADDIR][rng.integers(6)] if rng.random() < 0.8 else 1,
                    dr=float(rng.choice([1.0, 0.5])), seed=int(rng.integers(1 << 30)))

    def gen_op(self, rng):
        u = rng.random()
        if u < 0.62:
            return ('call', self.gen_call(rng))
        if u < 0.72:
            return ('cleanup',)
        if u < 0.78:
            return ('dircleanup', int(rng.integers(3)), [None, '', 1, 2][rng.integers(4)])
        if u < 0.84:
            return ('setdir', [None, '', 1, 2][rng.integers(4)])
        key = (int(rng.integers(3)), int(rng.choice([4, 5, 6, 8, 9, 12, 14])))
        d = int(rng.integers(0, 3))
        if u < 0.95:
            return ('seed', d, key, 'good')
        return ('remove', d, key)

    def call(self, c, env=None):
        env = env or self.env
        IM = image(c['seed'], (2, c['n']))
        f = getattr(self.mod(), self.METHODS[c['meth']] + '_transform')
        return quiet(f, IM, basis_dir=env.arg(c['bd']), dr=c['dr'], direction='inverse', verbose=False)

    def apply_other(self, op):
        m = self.mod()
        if op[0] == 'cleanup':
            m.cache_cleanup()
        elif op[0] == 'dircleanup':
            quiet(m.basis_dir_cleanup, self.METHODS[op[1]], self.env.arg(op[2]))
        return None

    def pre(self, op):
        """sizes in the names of this method's files, in glob order"""
        if op[0] != 'call':
            return []
        d = resolved_dir(self.env, op[1]['bd'])
        if d is None:
            return []
        fs = _glob.glob(os.path.join(self.env.path(d), self.METHODS[op[1]['meth']] + '_basis*'))
        return [int(f.split('_')[-1].split('.')[0]) for f in fs]

    def coq_op(self, op, aux, ref=None):
        op = self.model_op(op)
        k = op[0]
        if k == 'call':
            c = op[1]
            return '(Call %d %d %s %s)' % (c['meth'], c['n'], cbd(c['bd']), cnats(aux))
        if k == 'cleanup':
            return 'Cleanup'
        if k == 'dircleanup':
            return '(DirCleanup %d %s)' % (op[1], cbd(op[2]))
        if k == 'setdir':
            return '(SetDir %s)' % cbd(op[1])
        if k == 'seed':
            return '(Seed %d (%d, %d) %s)' % (op[1], op[2][0], op[2][1], self.coq_fstate(op[2], op[3]))
        if k == 'remove':
            return '(Remove %d (%d, %d))' % (op[1], op[2][0], op[2][1])
        raise ValueError(op)

    def state(self):
        m = self.mod()
        files = []
        for pre in self.file_prefix:
            files += self.env.files(pre)
        return dict(method=[self.METHODS.index(m._method)] if m._method is not None else [],
                    size=[m._D.shape[0]] if m._D is not None else [],
                    source={None: 0, 'cache': 1, 'file': 2, 'generated': 3}[m._source],
                    gdir=basis_dir_global(self.env),
                    listing=[(d,) + self.parse_name(f) for d, f in files])

    def coq_obs(self, code, agree, fresh_code, st):
        return ('{| o_code := %d; o_agree := %s; o_fresh_code := %d; o_method := %s; o_size := %s; '
                'o_source := %d; o_gdir := %d; o_listing := %s |}'
                % (code, cbool(agree), fresh_code, cnats(st['method']), cnats(st['size']), st['source'],
                   st['gdir'], clist(['(%d, %d, %d)' % t for t in sorted(st['listing'])])))


class Linbasex(Adapter):
    BLANK = dict(los=[], pas=[], stepclip=[98], shape=[98], gdir=98, files=98)
    name = 'linbasex'
    coq_module = 'CacheLinbasex'
    file_prefix = 'linbasex_basis_'
    ORDERS = [[0, 2], [0, 2], [0, 1, 2], [1, 2], [12], [0], [0, 2, 4], [2, 0], [0, 2, 1], [2, 1]]
    # angles in units of pi/400; a = 0 or a % 4 != 0 (see CacheLinbasex.v)
    ANGLES = [[0, 202], [0, 202], [0, 201], [0, 102], [22, 2], [202], [0, 182, 362], [202, 0], [2, 22]]

    @staticmethod
    def mod():
        import abel.linbasex
        return abel.linbasex

    def reset_module(self):
        m = self.mod()
        m._basis = m._cols = m._los = m._pas = m._radial_step = m._clip = None

    @staticmethod
    def ang(a):
        return a * np.pi / 400

    def keystr(self, key):
        cols, orders, angles, step, clip = key
        los = '-'.join(map(str, orders))
        pas = '-'.join(repr(float(self.ang(a))) for a in angles)
        return cols, los, pas, step, clip

    def fname(self, key):
        return 'linbasex_basis_%d_%s_%s_%d_%d.npy' % self.keystr(key)

    def make_good_file(self, key):
        cols, orders, angles, step, clip = key
        buf = io.BytesIO()
        np.save(buf, self.mod()._bs_linbasex(cols, proj_angles=[a * np.pi / 400 for a in angles],
                                             legendre_orders=list(orders), radial_step=step, clip=clip))
        return buf.getvalue()

    def junk_file(self, key):
        buf = io.BytesIO()
        np.save(buf, np.zeros((2 * key[0], 6)))
        return buf.getvalue()

    def bigjunk_file(self, key):
        return self.big_junk((len(key[2]) * (key[0] + 2), key[0] + 3))

    def call_key(self, c):
        return (c['n'], tuple(c['orders']), tuple(c['angles']), c['step'], c['clip'])

    def coq_key(self, key):
        cols, orders, angles, step, clip = key
        return '(%d, key_of %s %s %d %d)' % (cols, cnats(orders), cnats(angles), step, clip)

    def coq_content(self, key):
        cols, orders, angles, step, clip = key
        return '(ideal %d %s %s %d %d)' % (cols, cnats(orders), cnats(angles), step, clip)

    def gen_params(self, rng):
        return (int(rng.choice([7, 9, 11])), tuple(self.ORDERS[rng.integers(len(self.ORDERS))]),
                tuple(self.ANGLES[rng.integers(len(self.ANGLES))]),
                int(rng.choice([1, 1, 2])), int(rng.choice([0, 0, 1])))

    def gen_call(self, rng):
        cols, orders, angles, step, clip = self.gen_params(rng)
        return dict(n=cols, orders=list(orders), angles=list(angles), step=step, clip=clip,
                    spell=int(rng.integers(3)),
                    bd=[None, '', 1, 1, 2, BADDIR][rng.integers(6)] if rng.random() < 0.8 else 1,
                    seed=int(rng.integers(1 << 30)))

    def gen_op(self, rng):
        u = rng.random()
        if u < 0.66:
            return ('call', self.gen_call(rng))
        if u < 0.76:
            return ('cleanup',)
        if u < 0.80:
            return ('dircleanup', [None, '', 1, 2][rng.integers(4)])
        if u < 0.86:
            return ('setdir', [None, '', 1, 2][rng.integers(4)])
        key = self.gen_params(rng)
        d = int(rng.integers(0, 3))
        if u < 0.95:
            return ('seed', d, key, 'good')
        return ('remove', d, key)

    def call(self, c, env=None):
        env = env or self.env
        IM = image(c['seed'], (c['n'], c['n']))
        # how the two lists are spelled (list / tuple / array): never part of the key
        sp = [list, tuple, np.array][c.get('spell', 0)]
        return quiet(self.mod().linbasex_transform_full, IM, basis_dir=env.arg(c['bd']),
                     proj_angles=sp([a * np.pi / 400 for a in c['angles']]), legendre_orders=sp(list(c['orders'])),
                     radial_step=c['step'], clip=c['clip'], verbose=False)

    def apply_other(self, op):
        m = self.mod()
        if op[0] == 'cleanup':
            m.cache_cleanup()
        elif op[0] == 'dircleanup':
            quiet(m.basis_dir_cleanup, self.env.arg(op[1]))
        return None

    def pre(self, op):
        return 0

    def coq_op(self, op, aux, ref=None):
        op = self.model_op(op)
        k = op[0]
        if k == 'call':
            c = op[1]
            return '(Call %d %s %s %d %d %s)' % (c['n'], cnats(c['orders']), cnats(c['angles']), c['step'],
                                                 c['clip'], cbd(c['bd']))
        if k == 'cleanup':
            return 'Cleanup'
        if k == 'dircleanup':
            return '(DirCleanup %s)' % cbd(op[1])
        if k == 'setdir':
            return '(SetDir %s)' % cbd(op[1])
        if k == 'seed':
            return '(Seed %d %s %s)' % (op[1], self.coq_key(op[2]), self.coq_fstate(op[2], op[3]))
        if k == 'remove':
            return '(Remove %d %s)' % (op[1], self.coq_key(op[2]))
        raise ValueError(op)

    def state(self):
        m = self.mod()
        has = m._los is not None

        def unangle(t):
            a = float(t) * 400 / np.pi
            assert abs(a - round(a)) < 1e-6, t
            return int(round(a))
        return dict(los=[[int(t) for t in m._los.split('-') if t != '']] if has else [],
                    pas=[[unangle(t) for t in m._pas.split('-') if t != '']] if has else [],
                    stepclip=[int(m._radial_step), int(m._clip), int(m._cols)] if has else [],
                    shape=list(m._basis.shape) if m._basis is not None else [],
                    gdir=basis_dir_global(self.env),
                    files=len(self.env.files(self.file_prefix)))

    def coq_obs(self, code, agree, fresh_code, st):
        return ('{| o_code := %d; o_agree := %s; o_fresh_code := %d; o_los := %s; o_pas := %s; '
                'o_stepclip := %s; o_shape := %s; o_gdir := %d; o_files := %d |}'
                % (code, cbool(agree), fresh_code, clist([cnats(x) for x in st['los']]),
                   clist([cnats(x) for x in st['pas']]), cnats(st['stepclip']), cnats(st['shape']),
                   st['gdir'], st['files']))


class Rbasex(Adapter):
    BLANK = dict(prm=[98], dst=98, ibs=False, bs_prm=[98], nbs=[98], has_tri_full=False, has_trf=False,
                 tri_prm=[98], mkey=98, gdir=98, files=[])
    name = 'rbasex'
    coq_module = 'CacheRbasex'
    file_prefix = 'rbasex_basis_'
    SHAPES = [(9, 9), (9, 11)]
    ORIGINS = ['center', (3, 4)]
    # 4: the frame height of a (9, 9) image is 2 rmax + 1 also for the off-centre origin;
    # 7: beyond the corners of all frames (radii without data)
    RMAXS = ['MIN', 3, 'foo', 4, 7]
    REGS = {0: None, 1: 'pos', 2: ('L2', 1.0), 3: ('diff', 1.0), 4: ('SVD', 0.5), 8: ('SVD', 2.0), 9: 'foo'}
    OUTS = ['same', 'fold', 'unfold', 'full', 'full-unique', None]
    # 4: weights with a ring of zeros around the frame centre (radii without data)
    WSHAPE = {1: (9, 9), 2: (9, 9), 3: (9, 11), 4: (9, 9)}

    def __init__(self, env):
        Adapter.__init__(self, env)
        self.pids = {}
        self.vids = {}
        self.reset_weights()
        self._info = None

    # weights objects: identity matters, content is a function of (id, version)
    @staticmethod
    def wcontent(wid, ver):
        w = np.random.default_rng(1000 + wid).random(Rbasex.WSHAPE[wid]) + 0.5
        if wid == 4:
            y, x = np.indices(w.shape)
            r = np.hypot(y - w.shape[0] // 2, x - w.shape[1] // 2)
            w[(r > 1) & (r < 3)] = 0
        for v in range(ver):
            w[(2 + v) % w.shape[0], :] *= 0.25
            w[:, (1 + 2 * v) % w.shape[1]] = 0
        return w

    def reset_weights(self):
        self.wobj = {w: self.wcontent(w, 0) for w in self.WSHAPE}
        self.wver = {w: 0 for w in self.WSHAPE}

    @staticmethod
    def mod():
        import abel.rbasex
        return abel.rbasex

    def reset_module(self):
        m = self.mod()
        m._prm = m._weights = m._dst = m._bs_prm = m._bs = m._ibs = None
        m._trf = m._tri_full = m._tri_prm = m._tri = None
        m._ibs_prm = m._mask_key = None
        self.reset_weights()

    def fname(self, key):
        return 'rbasex_basis_%d_%d%s%s.npy' % (key[0], key[1], 'o' if key[2] else '', 'i' if key[3] else '')

    def parse_name(self, f):
        import re
        m = re.match(r'rbasex_basis_(\d+)_(\d+)(o?)(i?)\.npy$', f)
        return (int(m.group(1)), int(m.group(2)), int(bool(m.group(3))), int(bool(m.group(4))))

    def make_good_file(self, key):
        from scipy.linalg import solve_triangular
        m = self.mod()
        R, order, odd, inv = key
        bs = m._bs_rbasex(R, order, bool(odd))
        tri = [solve_triangular(Pn, np.eye(R + 1), lower=True).T for Pn in bs] if inv else None
        d = os.path.join(self.env.root, 'mk')
        os.makedirs(d, exist_ok=True)
        m._save_bs(d, R, order, bool(odd), bs, tri)
        data = open(os.path.join(d, self.fname(key)), 'rb').read()
        shutil.rmtree(d, ignore_errors=True)
        return data

    def junk_file(self, key):
        buf = io.BytesIO()
        k = max(1, key[0] // 2)
        n = 1 + (key[1] if key[2] else key[1] // 2)
        np.save(buf, np.array([np.eye(k + 1)] * n))
        return buf.getvalue()

    def bigjunk_file(self, key):
        n = 1 + (key[1] if key[2] else key[1] // 2)
        return self.big_junk((n, key[0] + 3, key[0] + 3))

    def call_key(self, c):
        if c.get('kind') == 'getbs':
            return (c['rmax'], c['order'], int(bool(c['odd'])), int(c['direction'] == 'inverse'))
        r = self.RMAXS[c['rmax']]
        if not isinstance(r, int):
            h, w = self.SHAPES[c['shape']]
            o = self.ORIGINS[c['origin']]
            row, col = (h // 2, w // 2) if o == 'center' else o
            r = min(row, h - 1 - row, col, w - 1 - col)
        return (r, c['order'], int(self.eff_odd(c)), int(c['direction'] == 'inverse'))

    def coq_key(self, key):
        return '{| fk_rmax := %d; fk_order := %d; fk_odd := %s; fk_inv := %s |}' % (
            key[0], key[1], cbool(key[2]), cbool(key[3]))

    def coq_content(self, key):
        return '{| f_c := ideal %d %d %s; f_inv := %s |}' % (key[0], key[1], cbool(key[2]), cbool(key[3]))

    def gen_call(self, rng):
        sh = int(rng.integers(2))
        order = int(rng.choice([0, 1, 2, 2, 4]))
        odd = bool(rng.random() < 0.3)
        eff_odd = False if order == 0 else True if order % 2 else odd
        wids = [0] + [w for w, s in self.WSHAPE.items() if s == self.SHAPES[sh]]
        direction = 'forward' if rng.random() < 0.3 else 'inverse'
        # reg='pos' only where the library supports it (inverse; not odd with order > 1)
        regs = [0, 0, 0, 2, 3, 4, 8, 9] + ([1] if direction == 'inverse' and not (eff_odd and order > 1) else [])
        return self.fix_call(dict(shape=sh, origin=int(rng.integers(2)),
                    rmax=int(rng.choice([0, 0, 0, 0, 1, 2, 3, 4])), order=order, odd=odd,
                    wid=int(wids[rng.integers(len(wids))]) if rng.random() < 0.5 else 0,
                    direction=direction,
                    reg=int(regs[rng.integers(len(regs))]), out=int(rng.integers(len(self.OUTS))),
                    bd=[None, '', 1, 1, 2, BADDIR][rng.integers(6)] if rng.random() < 0.6 else None,
                    seed=int(rng.integers(1 << 30))))

    def gen_getbs(self, rng):
        order = int(rng.choice([0, 1, 2, 2, 4]))
        return dict(kind='getbs', rmax=int(rng.choice([3, 4, 4, 5])), order=order,
                    odd=bool(order % 2 or (order and rng.random() < 0.3)),
                    direction='forward' if rng.random() < 0.3 else 'inverse',
                    reg=int(rng.choice([0, 0, 0, 2, 3, 4])), mask=int(rng.random() < 0.5),
                    bd=[None, None, 1][rng.integers(3)], seed=0)

    def gen_call_near(self, rng, prev):
        if rng.random() < 0.08:
            return self.gen_getbs(rng)
        if prev is not None and prev.get('kind') == 'getbs':
            prev = None
        return Adapter.gen_call_near(self, rng, prev)

    @staticmethod
    def mask_of(c):
        if not c['mask']:
            return None
        v = np.ones(c['rmax'] + 1, dtype=bool)
        v[-2:] = False
        return v

    def vid_of(self, valid_bytes):
        v = np.frombuffer(valid_bytes, dtype=bool)
        if v.size == 0 or v.all():
            return 1000 + v.size
        return self.vids.setdefault(valid_bytes, len(self.vids) + 1)

    def gen_op(self, rng):
        u = rng.random()
        if u < 0.66:
            return ('call', self.gen_call(rng))
        if u < 0.76:
            return ('cleanup', ['all', 'forward', 'inverse'][rng.integers(3)])
        if u < 0.79:
            return ('dircleanup', [None, '', 1, 2][rng.integers(4)])
        if u < 0.83:
            return ('setdir', [None, '', 1, 2][rng.integers(4)])
        if u < 0.88:
            return ('mutw', int(rng.integers(1, 4)))
        order = int(rng.choice([0, 1, 2, 4]))
        key = (int(rng.choice([3, 4, 5, 6])), order, int(bool(order % 2 or (order and rng.random() < 0.4))),
               int(rng.random() < 0.5))
        d = int(rng.integers(0, 3))
        if u < 0.96:
            return ('seed', d, key, 'good')
        return ('remove', d, key)

    def fix_call(self, c):
        if c.get('kind') == 'getbs':
            return c
        if c['wid'] and self.WSHAPE[c['wid']] != self.SHAPES[c['shape']]:
            c['wid'] = 0
        if c['reg'] == 1 and (c['direction'] != 'inverse' or (self.eff_odd(c) and c['order'] > 1)):
            c['reg'] = 0
        return c

    def weights_for(self, c):
        """The weights object of a call.  In the process that runs histories the
        objects persist (identity!); a call that names a version (reference
        runs) gets a new array with that content."""
        if c['wid'] == 0:
            return None
        if 'wver' in c:
            return self.wcontent(c['wid'], c['wver'])
        return self.wobj[c['wid']]

    def call(self, c, env=None):
        env = env or self.env
        m = self.mod()
        if c.get('kind') == 'getbs':
            self._info = None
            return quiet(m.get_bs_cached, c['rmax'], c['order'], c['odd'], c['direction'], self.REGS[c['reg']],
                         self.mask_of(c), env.arg(c['bd']), False)
        IM = image(c['seed'], self.SHAPES[c['shape']])
        geom = []
        orig = m._image

        def spy(height, width, row, cc, verbose):
            geom.append((int(height), int(width), int(row)))
            return orig(height, width, row, cc, verbose)
        m._image = spy
        try:
            out = quiet(m.rbasex_transform, IM, origin=self.ORIGINS[c['origin']], rmax=self.RMAXS[c['rmax']],
                        order=c['order'], odd=c['odd'], weights=self.weights_for(c),
                        direction=c['direction'], reg=self.REGS[c['reg']], out=self.OUTS[c['out']],
                        basis_dir=env.arg(c['bd']), verbose=False)
        finally:
            m._image = orig
        d = m._dst
        self._info = dict(geom=geom[0] if geom else None,
                          rmax=int(d.rmax) if d is not None and hasattr(d, 'rmax') and hasattr(d, 'valid') else 0,
                          valid=d.valid.tobytes() if d is not None and hasattr(d, 'valid') else b'')
        return out

    def info(self):
        return self._info

    def apply_other(self, op):
        m = self.mod()
        if op[0] == 'cleanup':
            m.cache_cleanup(op[1])
        elif op[0] == 'dircleanup':
            quiet(m.basis_dir_cleanup, self.env.arg(op[1]))
        elif op[0] == 'mutw':
            w = op[1]
            self.wver[w] += 1
            self.wobj[w][...] = self.wcontent(w, self.wver[w])      # in place: same object
        return None

    def ref_call(self, c):
        """what is sent to the fresh worker: the weights content is named"""
        c = dict(c)
        if c.get('wid') and 'wver' not in c:
            c['wver'] = self.wver[c['wid']]
        return c

    def eff_odd(self, c):
        return False if c['order'] == 0 else True if c['order'] % 2 else bool(c['odd'])

    def pre(self, op):
        if op[0] != 'call':
            return None
        c = op[1]
        d = resolved_dir(self.env, c['bd'])
        listing = []
        if d is not None and d != BADDIR:
            listing = [self.parse_name(f) for f in os.listdir(self.env.path(d)) if f.startswith(self.file_prefix)]
        return dict(listing=listing, wver=self.wver[c['wid']] if c.get('wid') else 0)

    def coq_op(self, op, aux, ref=None):
        op = self.model_op(op)
        k = op[0]
        if k == 'call' and op[1].get('kind') == 'getbs':
            c = op[1]
            mk = self.mask_of(c)
            vid = 1000 if mk is None else self.vid_of(mk.tobytes())
            return '(GetBs %d %d %s %s %d %d %s %s)' % (
                c['rmax'], c['order'], cbool(c['odd']), cbool(c['direction'] == 'forward'), c['reg'], vid,
                cbd(c['bd']), clist([self.coq_key(x) for x in aux['listing']]))
        if k == 'call':
            c = op[1]
            info = (ref[2] if ref is not None and len(ref) > 2 and ref[2] else None) or {}
            failed = ref is not None and ref[0] == 'exc'
            fail = 0
            if failed and self.RMAXS[c['rmax']] == 'foo':
                fail = 2 if c['wid'] == 0 else 1
            pkey = repr([self.SHAPES[c['shape']], self.ORIGINS[c['origin']], self.RMAXS[c['rmax']], c['order'],
                         self.eff_odd(c)])
            pid = self.pids.setdefault(pkey, len(self.pids) + 1)
            vid = self.vid_of(info.get('valid', b''))
            g = info.get('geom')
            return ('(Call {| c_pid := %d; c_wid := %d; c_wver := %d; c_fail := %d; c_rmax := %d; c_vid := %d; '
                    'c_order := %d; c_odd := %s; c_fwd := %s; c_reg := %d; c_geom := %s; c_bd := %s; '
                    'c_listing := %s |})'
                    % (pid, c['wid'], c['wid'] * 100 + aux['wver'], fail, info.get('rmax', 0), vid,
                       c['order'], cbool(self.eff_odd(c)), cbool(c['direction'] == 'forward'), c['reg'],
                       'None' if g is None else 'Some (%d, %d, %d)' % g, cbd(c['bd']),
                       clist([self.coq_key(x) for x in aux['listing']])))
        if k == 'cleanup':
            return '(Cleanup %s)' % {'all': 'CAll', 'forward': 'CFwd', 'inverse': 'CInv'}[op[1]]
        if k == 'dircleanup':
            return '(DirCleanup %s)' % cbd(op[1])
        if k == 'setdir':
            return '(SetDir %s)' % cbd(op[1])
        if k == 'mutw':
            return None         # no model operation: the weights version travels with each call
        if k == 'seed':
            return '(Seed %d %s %s)' % (op[1], self.coq_key(op[2]), self.coq_fstate(op[2], op[3]))
        if k == 'remove':
            return '(Remove %d %s)' % (op[1], self.coq_key(op[2]))
        raise ValueError(op)

    def state(self):
        m = self.mod()
        prm = []
        if m._prm is not None:
            prm = [self.pids.setdefault(repr([tuple(m._prm[0]), m._prm[1], m._prm[2], m._prm[3], m._prm[4]]),
                                        len(self.pids) + 1)]
        d = m._dst
        files = sorted((d_,) + self.parse_name(f) for d_, f in self.env.files(self.file_prefix))
        return dict(prm=prm, dst=0 if d is None else 2 if hasattr(d, 'valid') else 1,
                    ibs=m._ibs is not None,
                    bs_prm=[m._bs_prm[0], m._bs_prm[1], int(bool(m._bs_prm[2]))] if m._bs_prm is not None else [],
                    nbs=[len(m._bs), m._bs[0].shape[0]] if m._bs is not None else [],
                    has_tri_full=m._tri_full is not None, has_trf=m._trf is not None,
                    tri_prm=[{v if not isinstance(v, list) else tuple(v): k for k, v in self.REGS.items()}[
                        m._tri_prm[0]]] if m._tri_prm is not None else [],
                    mkey=0 if m._mask_key is None else self.vid_of(
                        np.logical_not(np.frombuffer(m._mask_key, dtype=bool)).tobytes()),
                    gdir=basis_dir_global(self.env), files=[list(x) for x in files])

    def coq_obs(self, code, agree, fresh_code, st):
        return ('{| o_code := %d; o_agree := %s; o_fresh_code := %d; o_prm := %s; o_dst := %d; o_ibs := %s; '
                'o_bs_prm := %s; o_nbs := %s; o_has_tri_full := %s; o_has_trf := %s; o_tri_prm := %s; '
                'o_mkey := %d; o_gdir := %d; o_files := %s |}'
                % (code, cbool(agree), fresh_code, cnats(st['prm']), st['dst'], cbool(st['ibs']),
                   cnats(st['bs_prm']), cnats(st['nbs']), cbool(st['has_tri_full']), cbool(st['has_trf']),
                   cnats(st['tri_prm']), st['mkey'], st['gdir'], clist([cnats(x) for x in st['files']])))


ADAPTERS = {'daun': Daun, 'basex': Basex, 'dasch': Dasch, 'linbasex': Linbasex, 'rbasex': Rbasex}


# --------------------------------------------------------------------------
# fresh-state reference
# --------------------------------------------------------------------------
def fresh_bd(bd):
    """basis_dir of the reference call: an explicit writable directory becomes
    the (emptied) directory 1; None, '' and the unwritable path stay."""
    if bd in (None, '', BADDIR):
        return bd
    return 1


class FreshWorker:
    """A second interpreter; every request is executed after putting all cache
    modules in their import-time state and emptying the basis directories."""

    def __init__(self, root):
        self.root = root
        env = dict(os.environ)
        self.p = subprocess.Popen([PY, '-W', 'ignore', os.path.abspath(__file__), '--worker', root],
                                  stdin=subprocess.PIPE, stdout=subprocess.PIPE, env=env)

    def ask(self, modname, call):
        data = pickle.dumps((modname, call))
        self.p.stdin.write(struct.pack('<I', len(data)) + data)
        self.p.stdin.flush()
        n = struct.unpack('<I', self.p.stdout.read(4))[0]
        return pickle.loads(self.p.stdout.read(n))

    def close(self):
        try:
            self.p.stdin.close()
            self.p.wait(timeout=10)
        except Exception:   # noqa
            self.p.kill()
        shutil.rmtree(self.root, ignore_errors=True)


def fresh_call(env, adapters, modname, call):
    env.reset()
    for a in adapters.values():
        a.reset_memory()
    c = dict(call)
    c['bd'] = fresh_bd(c.get('bd'))
    out = adapters[modname].call(c)
    info = adapters[modname].info()
    if out[0] == 'exc' and modname == 'rbasex':
        # the quantities derived by Distributions (rmax, valid, output geometry)
        # are taken from a run that cannot fail in the cache code
        env.reset()
        for a in adapters.values():
            a.reset_memory()
        adapters[modname].call(dict(c, bd=None, reg=0))
        info = adapters[modname].info()
        env.reset()
        for a in adapters.values():
            a.reset_memory()
    if out[0] == 'ok':
        return ('ok', [np.array(x) for x in flat(out[1])], info)
    return (out[0], out[1], info)


def worker_main(root):
    env = Env(root)
    adapters = {k: cls(env) for k, cls in ADAPTERS.items()}
    inp, outp = sys.stdin.buffer, sys.stdout.buffer
    sys.stdout = io.StringIO()          # the library prints; keep the pipe clean
    while True:
        h = inp.read(4)
        if len(h) < 4:
            break
        modname, call = pickle.loads(inp.read(struct.unpack('<I', h)[0]))
        try:
            ans = fresh_call(env, adapters, modname, call)
        except Exception as e:          # noqa
            ans = ('harness-error', repr(e))
        data = pickle.dumps(ans)
        outp.write(struct.pack('<I', len(data)) + data)
        outp.flush()
    env.close()


FRESH_SNIPPET = '''
import os, sys, pickle
os.environ['XDG_CACHE_HOME'] = %(root)r + '/xdg'
sys.path.insert(0, %(tools)r)
from props import cache_harness as H
env = H.Env(%(root)r)
ad = {k: cls(env) for k, cls in H.ADAPTERS.items()}
out = H.fresh_call(env, ad, %(mod)r, %(call)r)
env.close()
sys.stdout.buffer.write(b'@@' + pickle.dumps(out))
'''


def fresh_process(root, modname, call):
    """The same reference computed in a brand-new interpreter."""
    code = FRESH_SNIPPET % dict(root=root, tools=os.path.dirname(os.path.dirname(os.path.abspath(__file__))),
                                mod=modname, call=call)
    p = subprocess.run([PY, '-W', 'ignore', '-c', code], stdout=subprocess.PIPE, stderr=subprocess.PIPE,
                       timeout=300)
    i = p.stdout.find(b'@@')
    if i < 0:
        raise RuntimeError('fresh process failed: ' + p.stderr.decode()[-500:])
    return pickle.loads(p.stdout[i + 2:])


# --------------------------------------------------------------------------
# running a history
# --------------------------------------------------------------------------
def run_history(adapter, worker, ops, refs=True):
    """Execute ops on the implementation (from the import-time state, empty
    directories).  Returns one record per operation."""
    adapter.env.reset()
    adapter.reset_memory()
    adapter.damaged = []
    recs = []
    for op in ops:
        aux = adapter.pre(op)
        present = adapter.damage_present()
        out = adapter.apply(op)
        code = agree = fcode = 0
        agree = True
        ref = None
        if op[0] == 'call' and refs:
            ref = worker.ask(adapter.name, adapter.ref_call(op[1]))
            if ref[0] == 'harness-error':
                raise RuntimeError('fresh worker: ' + ref[1])
            code = 0 if out[0] == 'ok' else exc_code(out[1])
            fcode = 0 if ref[0] == 'ok' else exc_code(ref[1])
            if out[0] == 'ok' and ref[0] == 'ok':
                agree = same(out[1], ref[1])
            else:
                agree = (code == fcode)
        recs.append(dict(op=op, aux=aux, out=out, ref=ref, code=code, fresh_code=fcode, agree=agree,
                         state=adapter.safe_state(), damage_before=present))
    return recs


def coq_history(adapter, recs):
    out = []
    for r in recs:
        o = adapter.coq_op(r['op'], r['aux'], r['ref'])
        if o is not None:
            out.append('(%s, %s)' % (o, adapter.coq_obs(r['code'], r['agree'], r['fresh_code'], r['state'])))
    return clist(out)


# --------------------------------------------------------------------------
# the property on the implementation: verdict of one call, replay, shrinking
# --------------------------------------------------------------------------
def verdict(rule, out, ref, ref_nodisk=None, damage_present=True):
    """Does the outcome of a call in a history violate the property?
    rule 'C07': the call must return what the fresh process returns.
    rule 'C08': (a damaged file is or was around) it must return that or raise.
    Returns None when fine, else a short description."""
    if out[0] == 'ok' and ref[0] == 'ok':
        if same(out[1], ref[1]):
            return None
        return 'returns other numbers than a fresh process (max abs difference %.3g)' % maxdiff(out[1], ref[1])
    if out[0] == 'exc' and ref[0] == 'ok':
        if rule == 'C08' and damage_present:
            return None
        if rule == 'C08':
            return 'still raises %s after the damaged file is gone (a fresh process returns a result)' % out[1]
        return 'raises %s where a fresh process returns a result' % out[1]
    if out[0] == 'ok' and ref[0] == 'exc':
        # e.g. an unwritable basis_dir: a fresh process cannot even save; then the
        # reference is the same call without disk cache
        if ref_nodisk is not None and ref_nodisk[0] == 'ok':
            if same(out[1], ref_nodisk[1]):
                return None
            return 'returns other numbers than without disk cache (max abs difference %.3g)' % maxdiff(
                out[1], ref_nodisk[1])
        return 'returns a result where a fresh process raises %s' % ref[1]
    return None


class LocalFresh:
    """Fresh-state reference computed in a child interpreter per request
    (used by replays, which must be stand-alone)."""

    def __init__(self, root):
        self.root = root

    def ask(self, modname, call):
        return fresh_process(self.root, modname, call)

    def close(self):
        shutil.rmtree(self.root, ignore_errors=True)


def check_last(adapter, worker, ops, rule):
    """Run ops (the last one is a call); verdict of that last call."""
    recs = run_history(adapter, worker, ops[:-1], refs=False)
    last = ops[-1]
    aux = adapter.pre(last)
    present = adapter.damage_present()
    out = adapter.apply(last)
    ref = worker.ask(adapter.name, adapter.ref_call(last[1]))
    ref2 = None
    if out[0] == 'ok' and ref[0] == 'exc':
        ref2 = worker.ask(adapter.name, adapter.ref_call(dict(last[1], bd=None)))
    return verdict(rule, out, ref, ref2, present), recs, out, ref


def replay(modname, ops, rule):
    """Entry point of the replay snippets: exit status 1 iff the property fails."""
    root = '/var/tmp/pyabel-verif-replay-%d' % os.getpid()
    env = Env(os.path.join(root, 'main'))
    ad = ADAPTERS[modname](env)
    w = LocalFresh(os.path.join(root, 'fresh'))
    try:
        v, recs, out, ref = check_last(ad, w, ops, rule)
    finally:
        w.close()
        env.close()
        shutil.rmtree(root, ignore_errors=True)
    for r in recs:
        print('  ', r['op'][0], r['op'][1:] if r['op'][0] != 'call' else r['op'][1],
              '->', r['out'] if r['out'] is None or r['out'][0] == 'exc' else 'ok')
    print('last call:', ops[-1][1], '->', out if out[0] == 'exc' else 'ok',
          '| fresh process:', ref[:2] if ref[0] == 'exc' else 'ok')
    print('property %s %s%s' % (rule, 'FAILS: ' if v else 'holds', v or ''))
    return 1 if v else 0


SNIPPET = """import sys
sys.path.insert(0, '/verif/tools')
from props import cache_harness as H
# history of operations on abel.%(mod)s (see tools/props/cache_harness.py for the
# meaning of the fields); the last call must %(must)s
ops = %(ops)s
sys.exit(H.replay(%(mod)r, ops, %(rule)r))
"""


def snippet(modname, ops, rule):
    must = 'return what a fresh process returns' if rule == 'C07' else \
        'return what a fresh process returns, or raise while a damaged file is still on disk'
    body = '[\n' + ''.join('    %r,\n' % (o,) for o in ops) + ']'
    return SNIPPET % dict(mod=modname, ops=body, rule=rule, must=must)


def shrink(adapter, worker, ops, rule, budget=60):
    """Delta-debugging of a failing history (the last op is the failing call)."""
    fails = lambda h: check_last(adapter, worker, h, rule)[0] is not None      # noqa
    cur = list(ops)
    n = 0
    changed = True
    while changed and n < budget:
        changed = False
        for i in range(len(cur) - 1):
            cand = cur[:i] + cur[i + 1:]
            n += 1
            try:
                bad = fails(cand)
            except Exception:       # noqa
                bad = False
            if bad:
                cur = cand
                changed = True
                break
            if n >= budget:
                break
    return cur


if __name__ == '__main__':
    if len(sys.argv) >= 3 and sys.argv[1] == '--worker':
        worker_main(sys.argv[2])
