# cache_harness.py — shared harness of the checks C07 and C08 (basis caches).
#
#   * Env: numbered scratch basis directories (0 = the library's default
#     directory, redirected by XDG_CACHE_HOME; 99 = a path that does not exist).
#   * one adapter per caching module: runs calls / clean-ups on the
#     implementation, reads the observable cache state (module globals,
#     directory listing) and renders operations and observations as literals
#     of the corresponding Coq model (coq/model/Cache*.v).
#   * FreshWorker: a separate interpreter that answers "what does this call
#     return in a fresh state with empty basis directories".
#
# Nothing here decides a verdict; tools/props/C07.py and C08.py do.
import contextlib
import glob as _glob
import io
import os
import pickle
import shutil
import struct
import subprocess
import sys
import warnings

import numpy as np

BADDIR = 99
PY = '/venv/bin/python'


# --------------------------------------------------------------------------
# scratch directories
# --------------------------------------------------------------------------
class Env:
    def __init__(self, root, ndirs=3):
        self.root = root
        self.ndirs = ndirs
        os.environ['XDG_CACHE_HOME'] = os.path.join(root, 'xdg')
        self.reset()

    def path(self, d):
        if d == 0:
            return os.path.join(self.root, 'xdg', 'PyAbel')
        if d == BADDIR:
            return os.path.join(self.root, 'missing', 'dir')
        return os.path.join(self.root, 'd%d' % d)

    def ids(self):
        return list(range(self.ndirs))

    def reset(self):
        shutil.rmtree(self.root, ignore_errors=True)
        for d in self.ids():
            os.makedirs(self.path(d))

    def arg(self, bd):
        """basis_dir argument: None, '' or a directory number."""
        if bd is None or bd == '':
            return bd
        return self.path(bd)

    def dir_id(self, p):
        for d in self.ids() + [BADDIR]:
            if p == self.path(d):
                return d
        raise KeyError(p)

    def files(self, prefix):
        out = []
        for d in self.ids():
            for f in sorted(os.listdir(self.path(d))):
                if f.startswith(prefix):
                    out.append((d, f))
        return out

    def close(self):
        shutil.rmtree(self.root, ignore_errors=True)


def quiet(f, *a, **k):
    """Run f silently; return ('ok', value) or ('exc', class name)."""
    with warnings.catch_warnings(), np.errstate(all='ignore'), \
            contextlib.redirect_stdout(io.StringIO()):
        warnings.simplefilter('ignore')
        try:
            return ('ok', f(*a, **k))
        except Exception as e:      # noqa
            return ('exc', type(e).__name__)


EXC_CODE = {'ValueError': 1, 'EOFError': 2, 'AttributeError': 3}


def exc_code(name):
    return EXC_CODE.get(name, 4)


def flat(v):
    """Result of a transform call as a list of float arrays."""
    if v is None:
        return []
    if isinstance(v, np.ndarray):
        return [np.asarray(v, dtype=float)]
    if isinstance(v, (tuple, list)):
        out = []
        for x in v:
            out += flat(x)
        return out
    if hasattr(v, 'cos') and callable(v.cos):       # rbasex Distributions.Results
        return [np.asarray(v.cos(), dtype=float)]
    return [np.asarray(v, dtype=float)]


def same(a, b, rtol=1e-7):
    """Equal 'to rounding': same structure and max-norm relative difference."""
    a, b = flat(a), flat(b)
    if len(a) != len(b):
        return False
    for x, y in zip(a, b):
        if x.shape != y.shape:
            return False
        if x.size == 0:
            continue
        fx, fy = np.isfinite(x), np.isfinite(y)
        if not np.array_equal(fx, fy):
            return False
        if not fx.any():
            continue
        scale = max(np.abs(x[fx]).max(), np.abs(y[fx]).max())
        if np.abs(x[fx] - y[fx]).max() > rtol * scale + 1e-13:
            return False
    return True


def maxdiff(a, b):
    a, b = flat(a), flat(b)
    if len(a) != len(b) or any(x.shape != y.shape for x, y in zip(a, b)):
        return float('inf')
    return max([float(np.nanmax(np.abs(x - y))) for x, y in zip(a, b) if x.size] + [0.0])


def image(seed, shape):
    return np.random.default_rng(seed).random(shape) + 0.1


# --------------------------------------------------------------------------
# Coq literals
# --------------------------------------------------------------------------
def cbool(b):
    return 'true' if b else 'false'


def clist(items):
    return '[' + '; '.join(items) + ']'


def cnats(xs):
    return clist([str(int(x)) for x in xs])


def cbd(bd):
    if bd is None:
        return 'BNone'
    if bd == '':
        return 'BDefault'
    return '(BPath %d)' % bd


PERR = {'empty': 'PEOF', 'trunc': 'PValue', 'garbage': 'PValue', 'zip': 'PZip'}


def damaged_bytes(kind, good=b''):
    if kind == 'empty':
        return b''
    if kind == 'trunc':
        return good[:max(1, len(good) // 2)] if good else b'\x93NUMPY\x01\x00v\x00{'
    if kind == 'garbage':
        return b'not a basis file at all\n' * 3
    if kind == 'zip':
        return b'PK\x03\x04' + b'\x00' * 40
    raise ValueError(kind)


def basis_dir_global(env):
    import abel.transform as T
    g = T._basis_dir
    if g == '':
        return 0
    if g is None:
        return 1
    return 2 + env.dir_id(g)


def resolved_dir(env, bd):
    """Directory number a call with this basis_dir argument will use."""
    import abel.transform as T
    if bd is None:
        return None
    if bd == '':
        g = T._basis_dir
        if g == '':
            return 0
        if g is None:
            return None
        return env.dir_id(g)
    return bd


# --------------------------------------------------------------------------
# adapters
# --------------------------------------------------------------------------
class Adapter:
    name = None
    coq_module = None
    file_prefix = None

    def __init__(self, env):
        self.env = env

    # operations common to all modules -----------------------------------
    def apply(self, op):
        """Run one operation on the implementation; returns the outcome of a
        call ('ok', value) / ('exc', name) or None for other operations."""
        kind = op[0]
        if kind == 'call':
            return self.call(op[1])
        if kind == 'setdir':
            import abel.transform as T
            quiet(T.set_basis_dir, self.env.arg(op[1]), make=False)
            return None
        if kind == 'seed':
            _, d, key, what = op
            p = os.path.join(self.env.path(d), self.fname(key))
            good = self.good_file(key)
            data = good if what == 'good' else self.junk_file(key) if what == 'shape' \
                else damaged_bytes(what, good)
            with open(p, 'wb') as f:
                f.write(data)
            return None
        if kind == 'remove':
            _, d, key = op
            p = os.path.join(self.env.path(d), self.fname(key))
            if os.path.exists(p):
                os.remove(p)
            return None
        return self.apply_other(op)

    def reset_memory(self):
        """Put the module (and transform._basis_dir) in its import-time state."""
        import abel.transform as T
        T._basis_dir = ''
        self.reset_module()

    def coq_fstate(self, key, what):
        if what == 'good':
            return '(FGood %s)' % self.coq_content(key)
        if what == 'shape':
            return 'FShape'
        return '(FBad %s)' % PERR[what]

    _good_cache = {}

    def good_file(self, key):
        """Bytes of the file the library itself saves under this name."""
        ck = (self.name, key)
        if ck not in Adapter._good_cache:
            Adapter._good_cache[ck] = self.make_good_file(key)
        return Adapter._good_cache[ck]


class Daun(Adapter):
    name = 'daun'
    coq_module = 'CacheDaun'
    file_prefix = 'daun_basis_'
    REGS = [None, 'nonneg', ('diff', 0.5), ('diff', 2.0), ('L2', 0.5), ('L2c', 0.5), ('L2', 0), 2.0]
    STRENGTH = {0: 0, 0.5: 1, 2.0: 2}

    @staticmethod
    def mod():
        import abel.daun
        return abel.daun

    def reset_module(self):
        m = self.mod()
        m._bs = m._bs_prm = m._tr = m._tr_prm = None

    @staticmethod
    def reg_parts(reg):
        """(reg_type code, strength code) as daun_transform derives them."""
        if reg is None:
            return 0, 0
        if reg == 'nonneg':
            return 4, 0
        if isinstance(reg, (int, float)):
            return 1, Daun.STRENGTH[reg]
        return {'diff': 1, 'L2': 2, 'L2c': 3}[reg[0]], Daun.STRENGTH[reg[1]]

    def fname(self, key):
        return 'daun_basis_%d_%d.npy' % key

    def parse_name(self, f):
        a = f[:-4].split('_')
        return (int(a[2]), int(a[3]))

    def make_good_file(self, key):
        buf = io.BytesIO()
        np.save(buf, self.mod()._bs_daun(key[0], key[1]))
        return buf.getvalue()

    def junk_file(self, key):
        buf = io.BytesIO()
        np.save(buf, np.eye(max(1, key[0] // 2)))
        return buf.getvalue()

    def coq_content(self, key):
        return '(ideal %d %d)' % key

    def gen_call(self, rng):
        n = int(rng.choice([5, 6, 8, 9, 12]))
        deg = int(rng.choice([0, 1, 2, 3], p=[0.25, 0.2, 0.2, 0.35]))
        reg = self.REGS[rng.integers(len(self.REGS))]
        direction = 'forward' if rng.random() < 0.35 else 'inverse'
        if reg == 'nonneg':
            direction = 'inverse'
        bd = [None, '', 1, 1, 2, BADDIR][rng.integers(6)] if rng.random() < 0.8 else 1
        return dict(n=n, degree=deg, reg=reg, direction=direction, bd=bd,
                    dr=float(rng.choice([1.0, 0.5])), seed=int(rng.integers(1 << 30)))

    def gen_op(self, rng):
        u = rng.random()
        if u < 0.62:
            return ('call', self.gen_call(rng))
        if u < 0.74:
            return ('cleanup', 'all' if rng.random() < 0.6 else 'inverse')
        if u < 0.79:
            return ('dircleanup', [None, '', 1, 2][rng.integers(4)])
        if u < 0.85:
            return ('setdir', [None, '', 1, 2][rng.integers(4)])
        key = (int(rng.choice([5, 6, 8, 9, 12, 14])), int(rng.choice([0, 1, 2, 3])))
        d = int(rng.integers(0, 3))
        if u < 0.95:
            return ('seed', d, key, 'good')
        return ('remove', d, key)

    def call(self, c, env=None):
        env = env or self.env
        IM = image(c['seed'], (2, c['n']))
        return quiet(self.mod().daun_transform, IM, basis_dir=env.arg(c['bd']), dr=c['dr'],
                     direction=c['direction'], degree=c['degree'], reg=c['reg'], verbose=False)

    def apply_other(self, op):
        m = self.mod()
        if op[0] == 'cleanup':
            m.cache_cleanup(op[1])
        elif op[0] == 'dircleanup':
            quiet(m.basis_dir_cleanup, self.env.arg(op[1]))
        return None

    def lastsz(self, c):
        d = resolved_dir(self.env, c['bd'])
        if d is None:
            return 0
        fs = _glob.glob(os.path.join(self.env.path(d), 'daun_basis_*_%d.npy' % c['degree']))
        return int(fs[-1].split('_')[-2]) if fs else 0

    def coq_op(self, op, aux):
        k = op[0]
        if k == 'call':
            c = op[1]
            rt, z = self.reg_parts(c['reg'])
            return '(Call %d %d %s %d %s %s %d)' % (
                c['n'], c['degree'], ['RNone', 'RDiff', 'RL2', 'RL2c', 'RNonneg'][rt], z,
                cbool(c['direction'] == 'forward'), cbd(c['bd']), aux)
        if k == 'cleanup':
            return '(Cleanup %s)' % cbool(op[1] == 'all')
        if k == 'dircleanup':
            return '(DirCleanup %s)' % cbd(op[1])
        if k == 'setdir':
            return '(SetDir %s)' % cbd(op[1])
        if k == 'seed':
            return '(Seed %d (%d, %d) %s)' % (op[1], op[2][0], op[2][1], self.coq_fstate(op[2], op[3]))
        if k == 'remove':
            return '(Remove %d (%d, %d))' % (op[1], op[2][0], op[2][1])
        raise ValueError(op)

    def pre(self, op):
        return self.lastsz(op[1]) if op[0] == 'call' else 0

    def state(self):
        m = self.mod()
        trp = []
        if m._tr_prm is not None:
            rt = {None: 0, 'diff': 1, 'L2': 2, 'L2c': 3, 'nonneg': 4}[m._tr_prm[1]]
            trp = [m._tr_prm[0], rt, self.STRENGTH[m._tr_prm[2]]]
        return dict(bs_prm=list(m._bs_prm) if m._bs_prm is not None else [],
                    bs_size=[m._bs.shape[0]] if m._bs is not None else [],
                    tr_prm=trp,
                    gdir=basis_dir_global(self.env),
                    listing=[(d,) + self.parse_name(f) for d, f in self.env.files(self.file_prefix)])

    def coq_obs(self, code, agree, fresh_code, st):
        return ('{| o_code := %d; o_agree := %s; o_fresh_code := %d; o_bs_prm := %s; o_bs_size := %s; '
                'o_tr_prm := %s; o_gdir := %d; o_listing := %s |}'
                % (code, cbool(agree), fresh_code, cnats(st['bs_prm']), cnats(st['bs_size']),
                   cnats(st['tr_prm']), st['gdir'],
                   clist(['(%d, %d, %d)' % t for t in sorted(st['listing'])])))


ADAPTERS = {'daun': Daun}


# --------------------------------------------------------------------------
# fresh-state reference
# --------------------------------------------------------------------------
def fresh_bd(bd):
    """basis_dir of the reference call: an explicit writable directory becomes
    the (emptied) directory 1; None, '' and the unwritable path stay."""
    if bd in (None, '', BADDIR):
        return bd
    return 1


class FreshWorker:
    """A second interpreter; every request is executed after putting all cache
    modules in their import-time state and emptying the basis directories."""

    def __init__(self, root):
        self.root = root
        env = dict(os.environ)
        self.p = subprocess.Popen([PY, '-W', 'ignore', os.path.abspath(__file__), '--worker', root],
                                  stdin=subprocess.PIPE, stdout=subprocess.PIPE, env=env)

    def ask(self, modname, call):
        data = pickle.dumps((modname, call))
        self.p.stdin.write(struct.pack('<I', len(data)) + data)
        self.p.stdin.flush()
        n = struct.unpack('<I', self.p.stdout.read(4))[0]
        return pickle.loads(self.p.stdout.read(n))

    def close(self):
        try:
            self.p.stdin.close()
            self.p.wait(timeout=10)
        except Exception:   # noqa
            self.p.kill()
        shutil.rmtree(self.root, ignore_errors=True)


def fresh_call(env, adapters, modname, call):
    env.reset()
    for a in adapters.values():
        a.reset_memory()
    c = dict(call)
    c['bd'] = fresh_bd(c.get('bd'))
    out = adapters[modname].call(c)
    if out[0] == 'ok':
        return ('ok', [np.array(x) for x in flat(out[1])])
    return out


def worker_main(root):
    env = Env(root)
    adapters = {k: cls(env) for k, cls in ADAPTERS.items()}
    inp, outp = sys.stdin.buffer, sys.stdout.buffer
    sys.stdout = io.StringIO()          # the library prints; keep the pipe clean
    while True:
        h = inp.read(4)
        if len(h) < 4:
            break
        modname, call = pickle.loads(inp.read(struct.unpack('<I', h)[0]))
        try:
            ans = fresh_call(env, adapters, modname, call)
        except Exception as e:          # noqa
            ans = ('harness-error', repr(e))
        data = pickle.dumps(ans)
        outp.write(struct.pack('<I', len(data)) + data)
        outp.flush()
    env.close()


FRESH_SNIPPET = '''
import os, sys, pickle
os.environ['XDG_CACHE_HOME'] = %(root)r + '/xdg'
sys.path.insert(0, %(tools)r)
from props import cache_harness as H
env = H.Env(%(root)r)
ad = {k: cls(env) for k, cls in H.ADAPTERS.items()}
out = H.fresh_call(env, ad, %(mod)r, %(call)r)
env.close()
sys.stdout.buffer.write(b'@@' + pickle.dumps(out))
'''


def fresh_process(root, modname, call):
    """The same reference computed in a brand-new interpreter."""
    code = FRESH_SNIPPET % dict(root=root, tools=os.path.dirname(os.path.dirname(os.path.abspath(__file__))),
                                mod=modname, call=call)
    p = subprocess.run([PY, '-W', 'ignore', '-c', code], stdout=subprocess.PIPE, stderr=subprocess.PIPE,
                       timeout=300)
    i = p.stdout.find(b'@@')
    if i < 0:
        raise RuntimeError('fresh process failed: ' + p.stderr.decode()[-500:])
    return pickle.loads(p.stdout[i + 2:])


# --------------------------------------------------------------------------
# running a history
# --------------------------------------------------------------------------
def run_history(adapter, worker, ops):
    """Execute ops on the implementation (from the import-time state, empty
    directories).  Returns one record per operation."""
    adapter.env.reset()
    adapter.reset_memory()
    recs = []
    for op in ops:
        aux = adapter.pre(op)
        out = adapter.apply(op)
        code = agree = fcode = 0
        agree = True
        ref = None
        if op[0] == 'call':
            ref = worker.ask(adapter.name, op[1])
            if ref[0] == 'harness-error':
                raise RuntimeError('fresh worker: ' + ref[1])
            code = 0 if out[0] == 'ok' else exc_code(out[1])
            fcode = 0 if ref[0] == 'ok' else exc_code(ref[1])
            if out[0] == 'ok' and ref[0] == 'ok':
                agree = same(out[1], ref[1])
            else:
                agree = (code == fcode)
        recs.append(dict(op=op, aux=aux, out=out, ref=ref, code=code, fresh_code=fcode, agree=agree,
                         state=adapter.state()))
    return recs


def coq_history(adapter, recs):
    return clist(['(%s, %s)' % (adapter.coq_op(r['op'], r['aux']),
                                adapter.coq_obs(r['code'], r['agree'], r['fresh_code'], r['state']))
                  for r in recs])


if __name__ == '__main__':
    if len(sys.argv) >= 3 and sys.argv[1] == '--worker':
        worker_main(sys.argv[2])
