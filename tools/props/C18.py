# C18 — public functions leave their arguments intact and are repeatable.
#
#   theorems   coq/props/C18.v   (model/Alias.v, proofs/AliasSound.v, proofs/AliasPublic.v)
#   tie        tools/translate/alias_prog.py regenerates coq/gen/AliasProgs.v (one
#              program of the buffer language per public callable and per library
#              callee) from the *current* sources on every run, fail closed;
#              coq/gen/AliasExceptions.v from KNOWN_FINDINGS.json
#   search     = dynamic validation: every public callable (found by
#              introspection, argument specs in tools/translate/_alias_specs.py)
#              is run on float64 / float32 / integer, contiguous / strided /
#              read-only arguments; argument bytes compared before/after, call
#              repeated (same process, fresh process), np.empty memory poisoned
#              with two different fills, returned arrays overwritten and the call
#              repeated again.
import json
import os
import sys
import tempfile

import numpy as np

import vlib
from vlib import Hit
from translate import _alias_specs as SP
from translate._alias_harness import HARNESS_SRC

LEVEL = 'proof'

QUICK_VARIANTS = [('f64', 'C'), ('f32', 'C'), ('int', 'C'), ('f64', 'strided'), ('f64', 'readonly')]
MORE_VARIANTS = [('f32', 'strided'), ('int', 'strided'), ('f32', 'readonly'), ('int', 'readonly'),
                 ('f64', 'ro-strided'), ('f32', 'ro-strided')]

SNIPPET_MAIN = r'''
CALL = %(call)r
VARIANT = %(variant)r
SEED = %(seed)d
CLAUSE = %(clause)r
fails, info = check_case(CALL, VARIANT, SEED)
bad = [f for f in fails if f[0] == CLAUSE]
print('C18 clause %%r on %%s, arguments %%s/%%s: %%s' %% (CLAUSE, CALL[:90], VARIANT[0], VARIANT[1],
      'FAILS: ' + bad[0][1] if bad else 'holds'))
sys.exit(1 if bad else 0)
'''

CHILD_MAIN = r'''
import json
jobs = json.load(open(sys.argv[1]))
out = []
for call, variant, seed in jobs:
    A, r, e = one_call(call, tuple(variant), seed, float('nan'))
    out.append(repr(exc_digest(e) if e is not None else digest(r)))
json.dump(out, open(sys.argv[2], 'w'))
'''


def load_harness():
    g = {'__name__': 'c18_harness'}
    exec(HARNESS_SRC, g)
    return g


def all_cases():
    """[(callable key, call index, call source, spec)] for every spec"""
    out = []
    for k in sorted(SP.SPECS):
        for i, c in enumerate(SP.SPECS[k]['calls']):
            out.append((k, i, c, SP.SPECS[k]))
    return out


def input_class(A):
    return ','.join('%s(%s)' % (lab, 'x'.join(str(d) for d in arr.shape)) for lab, arr, base, b in A.made)


def run_children(jobs, workers=8):
    """digests of the first call of each job in fresh interpreters"""
    if not jobs:
        return []
    from concurrent.futures import ThreadPoolExecutor
    chunks = [jobs[i::workers] for i in range(workers) if jobs[i::workers]]
    d = tempfile.mkdtemp(prefix='c18-', dir='/var/tmp')
    src = os.path.join(d, 'child.py')
    with open(src, 'w') as f:
        f.write(HARNESS_SRC + CHILD_MAIN)
    env = dict(os.environ, PYTHONPATH=vlib.REPO, PYTHONHASHSEED='0')

    def one(i):
        jp, op = os.path.join(d, 'j%d.json' % i), os.path.join(d, 'o%d.json' % i)
        json.dump(chunks[i], open(jp, 'w'))
        rc, out = vlib.sh([vlib.PY, '-W', 'ignore', src, jp, op], timeout=900, env=env, cwd='/var/tmp')
        if rc != 0 or not os.path.exists(op):
            return [None] * len(chunks[i]), out[-400:]
        return json.load(open(op)), ''
    with ThreadPoolExecutor(max_workers=workers) as ex:
        res = list(ex.map(one, range(len(chunks))))
    out = [None] * len(jobs)
    errs = []
    for i, (digs, err) in enumerate(res):
        for j, dg in enumerate(digs):
            out[i + j * workers] = dg
        if err:
            errs.append(err)
    import shutil
    shutil.rmtree(d, ignore_errors=True)
    return out, errs


def mk_hit(key_callable, call, variant, seed, clause, detail, key_detail, data):
    key = 'C18:%s:%s:%s' % (clause, key_callable, key_detail)
    snippet = HARNESS_SRC + SNIPPET_MAIN % dict(call=call, variant=tuple(variant), seed=seed, clause=clause)
    what = '%s: %s [arguments %s/%s]' % (key_callable, detail, variant[0], variant[1])
    return Hit(clause, key, what, snippet, dict(data, call=call, variant=list(variant), seed=seed))


def clean_caches():
    import abel
    for mod in (abel.basex, abel.daun, abel.dasch, abel.linbasex, abel.rbasex):
        try:
            mod.cache_cleanup()
        except Exception:       # noqa
            pass


DYN_ARG_RETURNERS = set()


def dynamic(ctx, H, variants, seeds, fresh_sample, rng):
    hits = []
    stats = dict(evaluations=0, cases=0, ok_cases=0, raised={}, by_variant={}, fresh_compared=0, fresh_errors=[])
    distinct = set()
    samples = []
    arg_labels = {}          # (callable, call idx) -> labels found modified (for read-only failures)
    dyn_arg_writers, dyn_cache_returners = set(), set()
    dyn_arg_returners = DYN_ARG_RETURNERS
    dyn_arg_returners.clear()
    jobs, job_digest = [], []
    for seed in seeds:
        for (k, i, call, spec) in all_cases():
            for v in variants:
                if 'only' in spec and v[0] not in spec['only']:
                    continue
                clauses = ('args', 'repeat', 'uninit', 'arg-reuse', 'result-aliases-arg') if spec.get('cache_accessor') else \
                    ('args', 'repeat', 'uninit', 'result-mutation', 'arg-reuse', 'result-aliases-arg')
                try:
                    fails, info = H['check_case'](call, v, seed, clauses)
                except Exception as e:       # noqa
                    raise RuntimeError('harness error in %s #%d %r: %r' % (k, i, v, e))
                stats['cases'] += 1
                stats['evaluations'] += 4 + (1 if 'result-mutation' in clauses else 0)
                stats['by_variant']['%s/%s' % v] = stats['by_variant'].get('%s/%s' % v, 0) + 1
                if info['outcome'] == 'ok':
                    stats['ok_cases'] += 1
                    distinct.add((k, i, v))
                else:
                    stats['raised'][info['outcome']] = stats['raised'].get(info['outcome'], 0) + 1
                    if v == ('f64', 'C') and not any(f[0] == 'args' for f in fails):
                        raise RuntimeError('argument spec of %s #%d does not produce a valid call: %s' % (k, i, info['outcome']))
                if len(samples) < 6 and info['outcome'] == 'ok' and rng.random() < 0.02:
                    samples.append(dict(callable=k, call=call[:160], variant='%s/%s' % v, arrays=info['n_arrays'],
                                        result_arrays=info['n_leaves'], failures=[f[0] for f in fails]))
                if info['outcome'] == 'ok' and not fails and (k, i, v, seed) in fresh_sample:
                    jobs.append([call, list(v), seed])
                    job_digest.append((k, i, call, v, seed, repr(info['digest'])))
                for clause, detail in fails:
                    A = H['one_call'](call, v, seed, None)[0] if clause in ('repeat', 'uninit') else None
                    if clause == 'args':
                        dyn_arg_writers.add(k)
                        if 'argument(s) ' in detail:
                            labels = detail.split('argument(s) ')[1].split(' modified')[0].replace(', ', '+')
                            arg_labels[(k, i)] = labels
                        else:
                            labels = arg_labels.get((k, i)) or next((l for (kk, ii), l in arg_labels.items() if kk == k), 'read-only-write')
                        kd = labels
                    elif clause == 'result-mutation':
                        dyn_cache_returners.add(k)
                        kd = detail.split('differs at ')[1].split(',')[0].strip()
                    elif clause == 'result-aliases-arg':
                        dyn_arg_returners.add(k)
                        kd = detail.split('the argument ')[1].strip()
                    elif clause == 'arg-reuse':
                        kd = '+'.join(lab for lab, arr, base, b in H['one_call'](call, v, seed, None)[0].made)
                    else:
                        kd = input_class(A)
                    hits.append(mk_hit(k, call, v, seed, clause, detail, kd, dict(callable=k, call_index=i)))
    # interleaving: a call must return the same result before and after the other
    # calls of the same callable (different options, sizes, weights, ...)
    v0 = ('f64', 'C')
    by_callable = {}
    for (k, i, call, spec) in all_cases():
        by_callable.setdefault(k, []).append((i, call, spec))
    for k, lst in by_callable.items():
        if len(lst) < 2:
            continue
        for first in range(min(2, len(lst))):
            i0, call0, spec0 = lst[first]
            if 'only' in spec0 and v0[0] not in spec0['only']:
                continue
            clean_caches()          # the reference result is computed from empty memory caches
            A0, r0, e0 = H['one_call'](call0, v0, seeds[0], float('nan'))
            d0 = H['exc_digest'](e0) if e0 is not None else H['digest'](r0)
            for (j, callj, specj) in lst[first + 1:] + lst[:first]:
                if 'only' in specj and v0[0] not in specj['only']:
                    continue
                H['one_call'](callj, v0, seeds[0], float('nan'))
                stats['evaluations'] += 1
            A1, r1, e1 = H['one_call'](call0, v0, seeds[0], float('nan'))
            d1 = H['exc_digest'](e1) if e1 is not None else H['digest'](r1)
            stats['evaluations'] += 2
            if d1 != d0:
                others = [c for (_, c, _) in lst[first + 1:] + lst[:first]]
                hits.append(mk_hit_history(k, i0, call0, others, v0, seeds[0], H['diff_paths'](d0, d1)[:4]))
                continue
            # ... and after each other call alone (a long history can repair a cache that one
            # call has corrupted: e.g. a later call with another size rebuilds the matrices)
            for (j, callj, specj) in lst[first + 1:] + lst[:first]:
                if 'only' in specj and v0[0] not in specj['only']:
                    continue
                clean_caches()
                H['one_call'](call0, v0, seeds[0], float('nan'))
                H['one_call'](callj, v0, seeds[0], float('nan'))
                A2, r2, e2 = H['one_call'](call0, v0, seeds[0], float('nan'))
                d2 = H['exc_digest'](e2) if e2 is not None else H['digest'](r2)
                stats['evaluations'] += 3
                if d2 != d0:
                    hits.append(mk_hit_history(k, i0, call0, [callj], v0, seeds[0], H['diff_paths'](d0, d2)[:4]))
                    break
    # fresh-process repeats
    if jobs:
        digs, errs = run_children(jobs)
        stats['fresh_errors'] = errs[:2]
        for (k, i, call, v, seed, d0), d1 in zip(job_digest, digs):
            if d1 is None:
                continue
            stats['fresh_compared'] += 1
            stats['evaluations'] += 1
            if d1 != d0:
                hits.append(mk_hit_fresh(k, i, call, v, seed))
    stats['distinct'] = len(distinct)
    stats['samples'] = samples
    return hits, stats, dyn_arg_writers, dyn_cache_returners


FRESH_SNIPPET = r'''
import subprocess, tempfile, json
CALL = %(call)r
VARIANT = %(variant)r
SEED = %(seed)d
A, r, e = one_call(CALL, VARIANT, SEED, float('nan'))
here = repr(exc_digest(e) if e is not None else digest(r))
child = HARNESS + "\nA, r, e = one_call(%%r, %%r, %%d, float('nan'))\nprint(repr(exc_digest(e) if e is not None else digest(r)))\n" %% (CALL, VARIANT, SEED)
out = subprocess.run([sys.executable, '-W', 'ignore', '-c', child], capture_output=True, text=True).stdout.strip().splitlines()[-1]
# the process that imported everything first and ran the call twice vs a new process
A, r, e = one_call(CALL, VARIANT, SEED, float('nan'))
again = repr(exc_digest(e) if e is not None else digest(r))
ok = (here == out == again)
print('C18 fresh-process repeat of %%s: %%s' %% (CALL[:90], 'identical' if ok else 'DIFFERS'))
sys.exit(0 if ok else 1)
'''


HISTORY_SNIPPET = r'''
CALL = %(call)r
OTHERS = %(others)r
VARIANT = %(variant)r
SEED = %(seed)d
import abel
for mod in (abel.basex, abel.daun, abel.dasch, abel.linbasex, abel.rbasex):
    mod.cache_cleanup()
A, r, e = one_call(CALL, VARIANT, SEED, float('nan'))
d0 = exc_digest(e) if e is not None else digest(r)
for c in OTHERS:
    one_call(c, VARIANT, SEED, float('nan'))
A, r, e = one_call(CALL, VARIANT, SEED, float('nan'))
d1 = exc_digest(e) if e is not None else digest(r)
ok = d0 == d1
print('C18 same call before/after other calls of the same function: %%s %%s' %% (CALL[:90], 'identical' if ok else 'DIFFERS at %%r' %% (diff_paths(d0, d1)[:4],)))
sys.exit(0 if ok else 1)
'''


def mk_hit_history(k, i, call, others, v, seed, paths):
    sn = HARNESS_SRC + '\nimport sys\n' + HISTORY_SNIPPET % dict(call=call, others=others, variant=tuple(v), seed=seed)
    return Hit('repeat-after-other-calls', 'C18:history:%s:call%d' % (k, i),
               '%s: the same call returns a different result after other calls of the same function '
               '(differs at %s)' % (k, ', '.join(paths)), sn, dict(callable=k, call=call, others=others))


def mk_hit_fresh(k, i, call, v, seed):
    snippet = 'HARNESS = %r\n' % HARNESS_SRC + HARNESS_SRC + FRESH_SNIPPET % dict(call=call, variant=tuple(v), seed=seed)
    return Hit('fresh-process', 'C18:fresh-process:%s:call%d' % (k, i),
               '%s: the same call in a new process returns a different result [arguments %s/%s]' % (k, v[0], v[1]),
               snippet, dict(callable=k, call=call, variant=list(v), seed=seed))


OBJECT_SNIPPET = r'''
CTOR = %(ctor)r
USE = %(use)r
VARIANT = %(variant)r
SEED = %(seed)d
CLAUSE = %(clause)r
fails, info = check_object(CTOR, USE, VARIANT, SEED)
bad = [f for f in fails if f[0] == CLAUSE]
print('C18 clause %%r, one object obj = %%s reused for %%s, arguments %%s/%%s: %%s' %% (CLAUSE, CTOR[:70], USE[:60], VARIANT[0],
      VARIANT[1], 'FAILS: ' + bad[0][1] if bad else 'holds'))
sys.exit(1 if bad else 0)
'''


def object_cases():
    out = []
    for k in sorted(SP.OBJECTS):
        for oi, o in enumerate(SP.OBJECTS[k]):
            for ui, u in enumerate(o['uses']):
                out.append((k, oi, ui, o['ctor'], u))
    return out


def object_coverage(pub):
    """Fail closed: every public class needs an OBJECTS entry, and every public method of the class
    (and of the abel classes nested in it, e.g. Distributions.Results) must occur in some use."""
    import inspect
    problems = []

    def methods(cls):
        out = []
        for n, m in inspect.getmembers(cls):
            st = inspect.getattr_static(cls, n, None)
            if inspect.isclass(m) and getattr(m, '__module__', '').startswith('abel') and not n.startswith('_'):
                out += methods(m)
            elif not n.startswith('_') and inspect.isfunction(m) and not isinstance(st, (property,)):
                out.append(n)
            elif n in ('__call__', '__add__', '__sub__', '__mul__', '__truediv__') and inspect.isfunction(m):
                out.append(n)
        return out
    OPS = {'__call__': 'obj(', '__add__': ' + ', '__sub__': ' - ', '__mul__': ' * ', '__truediv__': ' / '}
    for k, o in sorted(pub.items()):
        if not inspect.isclass(o) or k not in SP.SPECS:
            continue
        if k not in SP.OBJECTS:
            problems.append('%s: public class without an OBJECTS entry' % k)
            continue
        text = ' '.join([x['ctor'] for x in SP.OBJECTS[k]] + [u for x in SP.OBJECTS[k] for u in x['uses']]
                        + SP.SPECS[k]['calls'])
        for n in sorted(set(methods(o))):
            pat = OPS.get(n, '.%s(' % n)
            if pat not in text:
                problems.append('%s.%s is not exercised on a reused object' % (k, n))
    return problems


def dynamic_objects(H, variants, seed, stats):
    hits = []
    for (k, oi, ui, ctor, use) in object_cases():
        for v in variants:
            fails, info = H['check_object'](ctor, use, v, seed)
            stats['object_cases'] = stats.get('object_cases', 0) + 1
            stats['evaluations'] += 9
            if info['outcome'] != 'ok':
                stats['raised'][info['outcome']] = stats['raised'].get(info['outcome'], 0) + 1
                if v == ('f64', 'C') and not fails:
                    raise RuntimeError('object spec %s #%d use %d does not produce a valid call: %s' % (k, oi, ui, info['outcome']))
            else:
                stats['object_ok'] = stats.get('object_ok', 0) + 1
            names = [f[0] for f in fails]
            for clause, detail in fails:
                if clause == 'object-shares' and 'object-result-mutation' in names:
                    continue        # the behavioural failure is the stronger evidence of the same sharing
                if len(use) <= 48:
                    kd = use
                else:
                    kd = 'object%d:use%d:%s' % (oi, ui, (detail.split(' at ')[-1].split(',')[0] if ' at ' in detail
                                                       else detail.split(' shares')[0]))
                key = 'C18:%s:%s:%s' % (clause, k, kd)
                sn = HARNESS_SRC + OBJECT_SNIPPET % dict(ctor=ctor, use=use, variant=tuple(v), seed=seed, clause=clause)
                hits.append(Hit(clause, key, '%s: object built once and reused, use %s: %s [arguments %s/%s]'
                                % (k, use[:60], detail, v[0], v[1]), sn,
                                dict(callable=k, ctor=ctor, use=use, variant=list(v), seed=seed)))
    return hits


def extra_known():
    p = os.environ.get('VERIF_C18_EXTRA_FINDINGS')          # self-test only (proposed, unmerged entries)
    if not p:
        return {}
    return {f['key']: f for f in json.load(open(p)).get('findings', []) if f.get('property') == 'C18'}


def run(ctx):
    rng = np.random.default_rng(ctx.seed)
    broken = []
    # ---- 0. tie: regenerate the alias programs from the current sources
    res = None
    try:
        from translate import alias_prog
        res = alias_prog.generate()
    except Exception as e:      # noqa
        import traceback
        broken.append(('translator', 'tools/translate/alias_prog.py', traceback.format_exc()[-1500:]))
    pub = SP.public_callables()
    missing = sorted(k for k in pub if k not in SP.SPECS and k not in SP.EXCLUDED)
    stale = sorted(k for k in list(SP.SPECS) + list(SP.EXCLUDED) if k not in pub)
    objprob = object_coverage(pub)
    if objprob:
        broken.append(('spec-table', 'tools/translate/_alias_specs.py (OBJECTS)', '; '.join(objprob)))
    if missing or stale:
        static = ''
        if res is not None:
            v0 = alias_prog.verdicts(res)
            static = '; alias checker on the callables without spec (every parameter taken as an array): %s' % ', '.join(
                '%s %r' % (k, v0.get(k) or v0.get(k + '.__init__') or res['failed'].get(k, 'not translated')) for k in missing)
        broken.append(('spec-table', 'tools/translate/_alias_specs.py',
                       'public callables without an argument spec: %s; specs of callables that no longer exist: %s%s'
                       % (missing, stale, static)))
    translated, untranslated_req, untranslated_other, preview = [], [], [], {}
    if res is not None:
        translated = res['public_translated']
        for k in sorted(SP.SPECS):
            if k not in translated:
                why = res['failed'].get(k) or res['failed'].get(k + '.__init__') or 'not generated'
                (untranslated_req if alias_prog.required(k) else untranslated_other).append((k, why))
        if untranslated_req:
            broken.append(('translator', 'untranslatable callables of the required set: %s'
                           % ', '.join(k for k, _ in untranslated_req),
                           '; '.join('%s: %s' % kw for kw in untranslated_req)))
        v = alias_prog.verdicts(res)
        preview = {alias_prog.public_key(q): v[q] for q in v if alias_prog.public_key(q) in SP.SPECS
                   and (v[q]['arg_writes'] or v[q]['returns_cached'] or v[q]['returns_args'])}
    # ---- 1. theorems
    pr = vlib.coq_props('C18')
    ctx.cov.update(obligations=len(pr['theorems']), discharged=pr['discharged'], theorems=pr['theorems'],
                   axioms=pr['axioms'],
                   checker_cmd='make -C /verif/coq props/C18.vo (coqc 8.16.1, full .vo build; safe_all_public and '
                               'calls_consistent by vm_compute on the regenerated programs) + Print Assumptions',
                   trusted_base=vlib.TRUSTED_COMMON + [
                       'tools/translate/alias_prog.py (Python ast -> buffer programs; objects of PyAbel classes are abstracted to regions)',
                       'tools/translate/_alias_numpy.py: effect summaries of numpy/scipy/builtin callables and of array/container methods',
                       'user-supplied callables (radial_correction_function, derivative, int_func) are assumed not to modify their arguments',
                       'axioms reported by Print Assumptions: ' + (', '.join(pr['axioms']) or 'none')])
    if not pr['ok']:
        ex = res['exceptions'] if res is not None else {}
        unexpected = sorted(k for k, w in preview.items()
                            if (set(w['arg_writes']) - set(ex.get('unproved_positions', {}).get(k, [])) and k not in ex.get('writers', []))
                            or (w['returns_cached'] and k not in ex.get('returners', []) + ex.get('accessors', []))
                            or (set(w['returns_args']) - set(ex.get('returned_args_allowed', {}).get(k, []))
                                and k not in ex.get('returners', []) + ex.get('accessors', [])))
        broken.append(('proof', pr['broken'] or 'props/C18.v',
                       (pr['error'] or '') + ' | callables the alias checker rejects outside the listed exceptions: %s'
                       % ', '.join('%s %r' % (k, preview[k]) for k in unexpected)))
    # ---- 2. dynamic validation = search
    H = load_harness()
    cases = all_cases()
    big = bool(broken)
    if ctx.quick and not big:
        variants, seeds = QUICK_VARIANTS, [int(rng.integers(1, 10 ** 6))]
        nfresh = 60
    else:
        variants, seeds = QUICK_VARIANTS + MORE_VARIANTS, [int(s) for s in rng.integers(1, 10 ** 6, size=2 if not ctx.quick else 1)]
        nfresh = 10 ** 9
    keys = [(k, i, v, s) for (k, i, c, sp) in cases for v in variants[:2] for s in seeds]
    if nfresh < len(keys):
        idx = rng.choice(len(keys), size=nfresh, replace=False)
        fresh_sample = {keys[j] for j in idx}
    else:
        fresh_sample = set(keys)
    try:
        hits, st, dyn_w, dyn_r = dynamic(ctx, H, variants, seeds, fresh_sample, rng)
        hits += dynamic_objects(H, variants, seeds[0], st)
    except RuntimeError as e:
        ctx.report_broken('check-machinery', 'dynamic harness', str(e))
        hits, st, dyn_w, dyn_r = [], dict(evaluations=0, cases=0, ok_cases=0, raised={}, by_variant={}, fresh_compared=0,
                                          distinct=0, samples=[], fresh_errors=[]), set(), set()
    # ---- 3. translation validation: the static verdicts against the observed behaviour
    ex = res['exceptions'] if res is not None else dict(writers=[], returners=[], unproved=[], accessors=[], returned_args_allowed={})
    static_unsafe_args = {k for k, w in preview.items() if w['arg_writes']}
    static_unsafe_ret = {k for k, w in preview.items() if w['returns_cached']}
    static_ret_args = {k for k, w in preview.items() if w['returns_args']}
    contradicted = sorted((set(dyn_w) & set(translated)) - static_unsafe_args) + \
        sorted((set(dyn_r) & set(translated)) - static_unsafe_ret) + \
        sorted((set(DYN_ARG_RETURNERS) & set(translated)) - static_ret_args)
    agree = len([k for k in translated if (k in dyn_w) <= (k in static_unsafe_args) and (k in dyn_r) <= (k in static_unsafe_ret)])
    if contradicted:
        broken.append(('translation-validation', 'alias programs vs observed behaviour',
                       'the checker accepts %s but the run modified an argument / returned a cached array / returned an argument array' % contradicted))
    ctx.cov.update(evaluations=st['evaluations'], distinct_nontrivial=st['distinct'],
                   rule='one evaluation = one call of a public callable on freshly built arguments (5 per case; the first result is also walked for memory shared with the arguments: '
                        'NaN-poisoned np.empty, repeat, differently poisoned np.empty, after overwriting all returned '
                        'arrays, after overwriting the argument arrays of the earlier calls; +1 per fresh-process repeat); a case is distinct by (callable, call expression, dtype, '
                        'layout) and counted only when the call returned normally',
                   samples=st['samples'], traces_validated_against_impl=agree,
                   input_distribution=dict(by_variant=st['by_variant'], raised=st['raised'], cases=st['cases'],
                                           ok_cases=st['ok_cases'], fresh_process_comparisons=st['fresh_compared'],
                                           reused_object_cases=st.get('object_cases', 0), reused_object_ok=st.get('object_ok', 0),
                                           seeds=seeds),
                   callables=dict(public=len(pub), with_spec=len(SP.SPECS), excluded=SP.EXCLUDED,
                                  translated=len(translated),
                                  not_translated_outside_required_set=dict(untranslated_other),
                                  not_translated_required=dict(untranslated_req),
                                  helper_programs=(len(res['progs']) - len(translated)) if res else 0,
                                  public_methods_translated=(res['methods'] if res else []),
                                  public_methods_not_translated=(res['methods_failed'] if res else {}),
                                  public_callables_not_covered_by_abstract_programs=sorted(
                                      [k for k, _ in untranslated_req + untranslated_other]
                                      + [k for k in SP.EXCLUDED if res is not None and k not in res['progs']
                                         and k + '.__init__' not in res['progs']]),
                                  not_covered_note='properties, classmethods and operator methods (__mul__, __add__, ...) of the '
                                                   'public classes are exercised dynamically on reused objects only'),
                   static_exceptions=ex, exhaustive=False)
    if st.get('fresh_errors'):
        ctx.notes.append('fresh-process runner errors: %r' % (st['fresh_errors'],))
    # ---- 4. verdict
    xk = extra_known()
    new = 0
    seen = set()
    for h in hits:
        if h.key in seen:
            continue
        seen.add(h.key)
        if h.key in xk:
            if h.key not in ctx.known_printed:
                ctx.known_printed.add(h.key)
                print('KNOWN-FINDING (proposed, VERIF_C18_EXTRA_FINDINGS): property=C18 %s' % xk[h.key]['what'][:160])
            continue
        if ctx.report_hit(h):
            new += 1
    if new == 0:
        for kind, name, detail in broken:
            ctx.report_broken(kind, name, detail)
    ctx.assumptions += [
        'THEOREM (all executions of the abstract programs): argument buffers keep their version, returned buffers are not held by a cache '
        '- for the %d translated public callables except the exceptions listed by name in coq/gen/AliasExceptions.v' % len(translated),
        'the theorem assumes distinct array arguments do not share a buffer and are not cache buffers (init_ok)',
        'summaries at call sites of library functions are re-checked in Coq (calls_consistent); whole-program composition of the '
        'per-function soundness theorem over call chains is by induction on the call depth and is not formalised',
        'ONLY DYNAMIC: bit-identical repeats (same process / new process), reads of np.empty memory, dict/list option arguments, '
        'callables outside the translated set: %s' % ', '.join(k for k, _ in untranslated_other),
        'arguments are the representative calls of tools/translate/_alias_specs.py (small images); a violation on an option '
        'combination that is not listed there is not seen by the dynamic part',
    ]
