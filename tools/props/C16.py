# C16 — rBasex image, distributions and output shapes describe one transform.
#
#   theorems   coq/props/C16.v (proofs/RbasexProofs.v, proofs/RbasexSynth.v)
#   model      coq/model/RbasexOut.v (hand-written, executable) on the geometry
#              of model/DistrGeom.v
#   tie        correspondence: rbasex_transform(..., out=...) with a fresh
#              image-basis cache, after an earlier call with other image
#              parameters, and after earlier calls with the same parameters and
#              other out values (the model carries the cache state) against the model run in fixed-point arithmetic on
#              the returned distributions: shape exactly, pixels to 2^-40
#   search     the clauses of the property on the implementation: image =
#              synthesis of the returned distributions for every out, direction
#              and reg; same distributions for every out; zero-weight pixels;
#              invalid radii; abel.Transform wrapper; history of calls (cache)
import json
import re
import warnings

import numpy as np

import distr_lib as L
import vlib
from vlib import Hit

LEVEL = 'proof'
MAX_REPORTED = 10      # distinct failing inputs written as replays per run (the rest is counted in the evidence)

OUT = {'same': 'OSame', 'fold': 'OFold', 'unfold': 'OUnfold', 'full': 'OFull', 'full-unique': 'OFullUnique'}
OUTS = list(OUT)
REGS = [None, ('L2', 1.0), ('diff', 1.0), ('SVD', 0.2), 'pos']

CASE_HEADER = (vlib.HEADER_CASES + 'From Coq Require Import String.\n'
               'From PA Require Import base.QClose model.DistrGeom model.DistrFit model.DistrQ model.RbasexOut model.RbasexQ.\n'
               'Open Scope Q_scope.\n')


def rb():
    import abel.rbasex
    return abel.rbasex


def call(IM, fresh=True, **kw):
    m = rb()
    if fresh:
        m.cache_cleanup()
    with warnings.catch_warnings(), np.errstate(all='ignore'):
        warnings.simplefilter('ignore')
        return m.rbasex_transform(IM, **kw)


def sqrt_tab(M):
    ns = sorted({a * a + b * b for a in range(M + 1) for b in range(M + 1)})
    return vlib.list_lit(['(%d%%nat, %s)' % (n, vlib.q_lit(float(np.sqrt(float(n))))) for n in ns])


def ocase_coq(h, w, o, rm, order, odd, out, recon, distr, d, history=()):
    M = max(max(recon.shape), h, w) + 1
    return ('{| oc_h := %d; oc_w := %d; oc_origin := %s; oc_rmax := %s; oc_order := %d; oc_odd := %s; oc_out := %s; '
            'oc_history := %s; oc_sqrt := %s; oc_geom := (%d, %d, %d, %d, %d)%%nat; oc_cos := %s; oc_recon := %s |}'
            % (h, w, L.origin_coq(o), L.rmax_coq(rm), order, vlib.bool_lit(odd), OUT[out],
               vlib.list_lit([OUT[x] for x in history]), sqrt_tab(M),
               d.row, d.col, d.rmax, d.Qheight, d.Qwidth, vlib.img_q(distr.cos().tolist()), vlib.img_q(recon.tolist())))


def matched_frames(rng, R):
    """Frames with height 2R+1, HOR = R (so that rmax='MIN' is R) and the origin row
    off the middle: 'same', 'full' and 'full-unique' then ask for image bases of equal
    size about different rows.  One square, one not."""
    h = 2 * R + 1
    rows = [r for r in range(h) if r != R]
    k = int(rng.integers(0, R))
    return [(h, 2 * R + 1, (rows[rng.integers(len(rows))], R)),
            (h, R + 1 + k, (rows[rng.integers(len(rows))], R)) if rng.random() < 0.5
            else (h, R + 1 + k, (rows[rng.integers(len(rows))], k))]


def correspondence(ctx, rng, hits):
    combos = []
    if ctx.quick:
        for _ in range(320):
            h, w = [int(v) for v in rng.integers(3, 9, 2)]
            o = ((int(rng.integers(-h, h)), int(rng.integers(-w, w))) if rng.random() < 0.7
                 else L.ORIGIN_STRINGS[rng.integers(len(L.ORIGIN_STRINGS))])
            rm = L.RMAX_KW[rng.integers(9)] if rng.random() < 0.6 else int(rng.integers(1, 9))
            combos.append((h, w, o, rm, int(rng.integers(0, 5)), bool(rng.integers(2)), OUTS[rng.integers(5)], None))
    else:
        for h in range(3, 8):
            for w in range(3, 8):
                for r in range(h):
                    for c in range(w):
                        for out in OUTS:
                            rm = L.RMAX_KW[rng.integers(9)] if rng.random() < 0.6 else int(rng.integers(1, 9))
                            combos.append((h, w, (r - h if rng.random() < 0.3 else r, c), rm,
                                           int(rng.integers(0, 5)), bool(rng.integers(2)), out, None))
        for s in L.ORIGIN_STRINGS:
            for out in OUTS:
                h, w = [int(v) for v in rng.integers(3, 9, 2)]
                combos.append((h, w, s, L.RMAX_KW[rng.integers(9)], int(rng.integers(0, 5)), bool(rng.integers(2)), out, None))
    # every ordered pair of out values, odd on/off, on frames where several out values request an
    # image basis of the same size but about different origin rows (height = 2 rmax + 1, HOR = rmax,
    # origin row != rmax), square and not
    for (h, w, o) in matched_frames(rng, 3 if ctx.quick else 4):
        for odd in (False, True):
            for out1 in OUTS:
                for out2 in OUTS:
                    combos.append((h, w, o, 'MIN', 2 if rng.random() < 0.5 else 1 + int(odd), odd, out2, [out1]))
    cases, meta, dist = [], [], {}
    for (h, w, o, rm, order, odd, out, forced) in combos:
        IM = rng.integers(-9, 10, (h, w)).astype(float)
        history = 'fresh'
        hist_outs = []
        try:
            k = rng.random()
            if forced is not None:
                history = 'out-pair-on-matched-frame'
                hist_outs = list(forced)
                rb().cache_cleanup()
                for ho in hist_outs:
                    call(IM, fresh=False, origin=o, rmax=rm, order=order, odd=odd, out=ho)
                recon, distr = call(IM, fresh=False, origin=o, rmax=rm, order=order, odd=odd, out=out)
            elif k < 0.35:
                # earlier calls with the same image and parameters but other out values, no clean-up
                history = 'after-same-parameters-other-out'
                hist_outs = [OUTS[rng.integers(5)] for _ in range(int(rng.integers(1, 4)))]
                rb().cache_cleanup()
                for ho in hist_outs:
                    call(IM, fresh=False, origin=o, rmax=rm, order=order, odd=odd, out=ho)
                recon, distr = call(IM, fresh=False, origin=o, rmax=rm, order=order, odd=odd, out=out)
            elif k < 0.65:
                # an earlier call with other image parameters (resets the image basis), no clean-up
                history = 'after-other-parameters'
                call(rng.normal(size=(h + 1, w + 2)), fresh=bool(rng.integers(2)), origin='cc', rmax='MIN',
                     order=int(rng.integers(0, 3)), out=OUTS[rng.integers(5)])
                recon, distr = call(IM, fresh=False, origin=o, rmax=rm, order=order, odd=odd, out=out)
            else:
                recon, distr = call(IM, origin=o, rmax=rm, order=order, odd=odd, out=out)
        except Exception as e:      # noqa
            hits.append(Hit('returns', 'C16:exception:%s:out=%s' % (type(e).__name__, out),
                            'rbasex_transform raises %s (%s) for shape %dx%d origin %r rmax %r order %d odd %s out %r'
                            % (type(e).__name__, e, h, w, o, rm, order, odd, out), '', {}))
            continue
        key = '%s/odd=%s/%s' % (out, odd or bool(order % 2), history)
        dist[key] = dist.get(key, 0) + 1
        cases.append(ocase_coq(h, w, o, rm, order, odd, out, recon, distr, rb()._dst, hist_outs))
        meta.append((h, w, o, rm, order, odd, out, history + ':' + ','.join(hist_outs), IM.tolist()))
    shard = 20
    texts = []
    for k in range(0, len(cases), shard):
        texts.append(('C16_%03d' % (k // shard),
                      CASE_HEADER + 'Definition cases : list ocase := %s.\n' % vlib.list_lit(cases[k:k + shard]) +
                      'Definition res := map ocheck cases.\nEval vm_compute in (count_true res, false_idx 0 res).\n'))
    outs = vlib.coq_eval_many(texts, timeout=1500)
    n_ok, bad, errors = 0, [], []
    for k, (name, _) in enumerate(texts):
        rc, out = outs[name]
        r = vlib.parse_eval_lists(out)
        if rc != 0 or not r:
            errors.append((name, out[-400:]))
            continue
        m = re.match(r'\((\d+), (.*)\)$', r[0])
        n_ok += int(m.group(1))
        bad += [(meta[k * shard + i], cases[k * shard + i]) for i in vlib.parse_nat_list(m.group(2))]
    if bad:
        rc, out = vlib.coq_eval('C16_parts', CASE_HEADER + 'Eval vm_compute in (ocheck_parts %s).\n' % bad[0][1])
        r = vlib.parse_eval_lists(out)
        bad = [(b[0], '[geometry; sqrt table; shape; pixels] agree: %s' % (r[0] if r else out[-200:])) for b in bad]
    return len(cases), n_ok, bad, errors, dist


# ---------------------------------------------------------------------------
# search
# ---------------------------------------------------------------------------

def out_geometry(shape, row, col, R, odd, out):
    """Expected (shape, origin position) of the returned image."""
    h, w = shape
    row_, col_ = h - 1 - row, w - 1 - col
    VER, HOR = max(row, row_), max(col, col_)
    Qw = min(HOR, R) + 1
    if odd:
        Qh, y0 = min(row, R) + 1 + min(row_, R), min(row, R)
    else:
        Qh, y0 = min(VER, R) + 1, None
    if out == 'same':
        return (h, w), (row, col)
    if out == 'full':
        return (2 * R + 1, 2 * R + 1), (R, R)
    if out == 'full-unique':
        return ((2 * R + 1, R + 1), (R, 0)) if odd else ((R + 1, R + 1), (R, 0))
    if out == 'unfold':
        return ((Qh, 2 * Qw - 1), (y0, Qw - 1)) if odd else ((2 * Qh - 1, 2 * Qw - 1), (Qh - 1, Qw - 1))
    if out == 'fold':
        return ((Qh, Qw), (y0, 0)) if odd else ((Qh, Qw), (Qh - 1, 0))
    raise ValueError(out)


def synthesis(shape, origin, cn, orders, R):
    """sum_n lerp(c_n, r) cos^n(theta), zero from R + 1 on."""
    r, cos = L.polar(shape, origin[0], origin[1])
    k = np.floor(r).astype(int)
    f = r - k
    img = np.zeros(shape)
    for c, n in zip(cn, orders):
        ce = np.concatenate([c, [0.0, 0.0]])
        kk = np.minimum(k, R + 1)
        img += ((1 - f) * ce[kk] + f * ce[kk + 1]) * np.where(k > R, 0.0, 1.0) * cos ** n
    return img


SNIPPET = '''
import json, sys, warnings
import numpy as np
warnings.simplefilter('ignore')
import abel
from abel.rbasex import rbasex_transform, cache_cleanup
p = json.loads(%(params)r)
def arr(x): return None if x is None else np.array(x)
def org(o): return tuple(o) if isinstance(o, list) else o
def reg(r): return tuple(r) if isinstance(r, list) else r
def run(k, fresh):
    if fresh: cache_cleanup()
    return rbasex_transform(arr(k['IM']), origin=org(k['origin']), rmax=k['rmax'], order=k['order'], odd=k['odd'],
                            weights=arr(k.get('W')), direction=k.get('direction', 'inverse'), reg=reg(k.get('reg')),
                            out=k['out'])
cache_cleanup()
for k in p.get('history', []):
    run(k, False)
rec, dist = run(p['call'], not p.get('history'))
ok = True; msg = ''
if p.get('expected_image') is not None:
    E = arr(p['expected_image'])
    if rec is None or rec.shape != E.shape:
        ok = False; msg = 'shape %%r, expected %%r' %% (None if rec is None else rec.shape, E.shape)
    else:
        fin = np.isfinite(E); err = float(np.abs(rec - E)[fin].max()) if fin.any() else 0.0
        ok = err <= p['tol'] and not np.any(np.isfinite(rec[~fin])); msg = 'max |image - expected| = %%g' %% err
if ok and 'expected_cos' in p:
    E = arr(p['expected_cos']); fin = np.isfinite(E)
    err = float(np.abs(dist.cos() - E)[fin].max()) if fin.any() else 0.0; ok = err <= p['tol']
    msg = 'max |cos - expected| = %%g' %% err
if ok and 'expected_valid' in p:
    ok = all((not g) or e for g, e in zip(map(bool, dist.valid), p['expected_valid'])); msg = 'valid flags %%r' %% (list(map(bool, dist.valid)),)
print('C16', p['clause'], 'holds' if ok else 'FAILS', msg)
sys.exit(0 if ok else 1)
'''


def oj(o):
    return o if isinstance(o, str) else [int(o[0]), int(o[1])]


def kdict(IM, o, rm, order, odd, out, W=None, direction='inverse', reg=None):
    return dict(IM=np.asarray(IM).tolist(), origin=oj(o), rmax=rm, order=order, odd=odd, out=out,
                W=None if W is None else np.asarray(W).tolist(), direction=direction,
                reg=list(reg) if isinstance(reg, tuple) else reg)


def expected_valid(shape, row, col, W, R):
    r, _ = L.polar(shape, row, col)
    k = np.floor(r).astype(int)
    f = r - k
    wt = np.ones(shape) if W is None else W
    p0 = np.zeros(R + 2)
    np.add.at(p0, np.minimum(k, R + 1), (1 - f) * wt)
    up = np.minimum(k + 1, R + 1)
    np.add.at(p0, up, f * wt)
    return [bool(v > 0) for v in p0[:R + 1]]


def search(ctx, rng, budget, stats):
    hits, n_eval, distinct, samples = [], 0, set(), []

    def add(clause, key, what, params, data=None):
        hits.append(Hit(clause, key, what, SNIPPET % dict(params=json.dumps(params)), data or {}))

    for it in range(budget):
        h, w = [int(v) for v in rng.integers(3, 30, 2)]
        if rng.random() < 0.6:
            row, col = int(rng.integers(h)), int(rng.integers(w))
            o = (row - h if rng.random() < 0.3 else row, col - w if rng.random() < 0.3 else col)
        else:
            o = L.ORIGIN_STRINGS[rng.integers(len(L.ORIGIN_STRINGS))]
            row, col = L.resolve_origin((h, w), o)
        rm = L.RMAX_KW[rng.integers(9)] if rng.random() < 0.6 else int(rng.integers(1, max(h, w) + 2))
        order = int(rng.integers(0, 9)) if rng.random() < 0.3 else int(rng.integers(0, 5))
        odd = bool(rng.integers(2))
        orders, odd_r = L.orders_of(order, odd)
        direction = 'inverse' if rng.random() < 0.7 else 'forward'
        reg = None
        if direction == 'inverse' and rng.random() < 0.4:
            reg = REGS[rng.integers(len(REGS))]
            if reg == 'pos' and odd_r and order > 1:
                reg = None
        W = None
        if rng.random() < 0.4:
            W = rng.uniform(0.5, 2, (h, w)) * (rng.random((h, w)) < 0.85)
        IM = rng.normal(size=(h, w)) + 2
        out = OUTS[rng.integers(5)]
        kw = dict(origin=o, rmax=rm, order=order, odd=odd, weights=W, direction=direction, reg=reg)
        tag = 'out=%s:odd=%s:dir=%s:reg=%s:weights=%s' % (out, odd_r, direction, reg[0] if isinstance(reg, tuple) else reg,
                                                          W is not None)
        try:
            recon, distr = call(IM, out=out, **kw)
        except Exception as e:      # noqa
            add('returns', 'C16:exception:%s:%s' % (type(e).__name__, tag),
                'rbasex_transform raises %s: %s (shape %dx%d, origin %r, rmax %r, order %d)' % (type(e).__name__, e, h, w, o, rm, order),
                dict(clause='no exception', call=kdict(IM, o, rm, order, odd, out, W, direction, reg)))
            continue
        n_eval += 1
        distinct.add((out, odd_r, direction, reg[0] if isinstance(reg, tuple) else reg, W is not None))
        R = rb()._dst.rmax
        cn = distr.cos()
        scale = 1 + np.abs(cn).max() * len(orders)
        tol = 1e-9 * scale
        # 1. shape/origin and image = synthesis of the returned distributions
        shp, org = out_geometry((h, w), row, col, R, odd_r, out)
        E = synthesis(shp, org, cn, orders, R)
        if len(samples) < 5:
            samples.append(dict(shape=[h, w], origin=repr(o), rmax=rm, order=order, odd=odd, out=out, direction=direction,
                                reg=repr(reg), weights=W is not None, rmax_resolved=int(R)))
        nonfinite = not np.all(np.isfinite(cn))
        if nonfinite:
            # (seen for reg=('SVD', s) when some radius has no data: the masked matrix has zero
            #  singular values which the code inverts -- outside the clauses of C16; image and
            #  synthesis are then compared where the synthesis is finite)
            stats['nonfinite_distributions'] = stats.get('nonfinite_distributions', 0) + 1
            stats.setdefault('nonfinite_example', 'shape %dx%d origin %r rmax %r order %d odd %s reg %r' % (h, w, o, rm, order, odd, reg))
        fin = np.isfinite(E) if recon.shape == shp else None
        if recon.shape != shp or not np.all(np.abs(recon - E)[fin] <= tol) or np.any(np.isfinite(recon[~fin])):
            add('image-is-synthesis', 'C16:synthesis:' + tag,
                'returned image (shape %r) is not the synthesis of the returned distributions about the origin '
                '(expected shape %r): %s' % (recon.shape, shp, 'shape differs' if recon.shape != shp else
                                             'max difference %.3g' % float(np.nanmax(np.abs(recon - E)))),
                dict(clause='image = synthesis(distr)', call=kdict(IM, o, rm, order, odd, out, W, direction, reg),
                     expected_image=E.tolist(), tol=float(tol)))
            continue
        # 2. the other out values (and None) give the same distributions
        out2 = ([None] + OUTS)[rng.integers(6)]
        rec2, distr2 = call(IM, out=out2, **kw)
        if not np.array_equal(distr2.cos(), cn, equal_nan=True) or not np.array_equal(distr2.valid, distr.valid) or (out2 is None) != (rec2 is None):
            add('distr-independent-of-out', 'C16:distr-depends-on-out:%s:%s' % (out, out2),
                'distributions differ between out=%r and out=%r' % (out, out2),
                dict(clause='same distributions for every out', call=kdict(IM, o, rm, order, odd, out2, W, direction, reg),
                     expected_cos=cn.tolist(), tol=0.0))
        # 3. zero-weight pixels do not influence the result
        if W is not None and np.any(W == 0):
            IM3 = np.where(W == 0, rng.normal(size=(h, w)) * 50, IM)
            rec3, distr3 = call(IM3, out=out, **kw)
            if not (np.allclose(distr3.cos(), cn, rtol=0, atol=tol, equal_nan=True)
                    and np.allclose(rec3, recon, rtol=0, atol=tol, equal_nan=True)):
                add('zero-weight', 'C16:zero-weight-pixels-matter:' + tag, 'changing zero-weight pixels changes the result',
                    dict(clause='zero-weight pixels ignored', call=kdict(IM3, o, rm, order, odd, out, W, direction, reg),
                         expected_image=recon.tolist(), expected_cos=cn.tolist(), tol=float(tol)))
        # 4. radii without valid data are flagged, and zero without regularisation
        # (a radius with data but a rank-deficient normal matrix may be flagged too: its flag
        #  depends on rounding in the implementation; required are: no data => flagged, and
        #  well-conditioned => not flagged)
        ev = expected_valid((h, w), row, col, W, R)
        conds = L.hankel_cond((h, w), row, col, W, orders, odd_r, 'linear', False, R)
        gv = list(map(bool, distr.valid))
        if any((g and not e) or (not g and c <= 1e8) for g, e, c in zip(gv, ev, conds)):
            add('invalid-flagged', 'C16:valid-flags:' + tag, 'valid flags %r contradict the radii that have weighted data %r'
                % (gv, ev),
                dict(clause='radii without data are flagged', call=kdict(IM, o, rm, order, odd, out, W, direction, reg),
                     expected_valid=ev))
        elif reg is None and not np.all(cn[:, ~np.asarray(distr.valid, bool)] == 0):  # noqa
            add('invalid-zero', 'C16:invalid-radii-nonzero:' + tag, 'flagged radii are not zero in an unregularised transform',
                dict(clause='flagged radii are zero', call=kdict(IM, o, rm, order, odd, out, W, direction, reg)))
        # 5. abel.Transform wrapper
        if it % 4 == 0:
            import abel
            rb().cache_cleanup()
            with warnings.catch_warnings():
                warnings.simplefilter('ignore')
                T = abel.Transform(IM, method='rbasex', direction=direction,
                                   transform_options=dict(origin=o, rmax=rm, order=order, odd=odd, weights=W, reg=reg, out=out))
            if not (np.array_equal(T.transform, recon, equal_nan=True) and np.array_equal(T.distr.cos(), cn, equal_nan=True)):
                add('transform-wrapper', 'C16:Transform-wrapper-differs:' + tag,
                    "abel.Transform(method='rbasex') returns another image or distributions", dict(clause='wrapper'))
        # 6. history: the same parameters with another out first, no clean-up
        if it % 2 == 0:
            out0 = OUTS[rng.integers(5)]
            rb().cache_cleanup()
            call(IM, fresh=False, out=out0, **kw)
            recH, distrH = call(IM, fresh=False, out=out, **kw)
            n_eval += 1
            if recH.shape != recon.shape or not np.allclose(recH, recon, rtol=0, atol=tol, equal_nan=True) \
                    or not np.allclose(distrH.cos(), cn, rtol=0, atol=tol, equal_nan=True):
                g0 = out_geometry((h, w), row, col, R, odd_r, out0)
                add('history', 'C16:history:result-depends-on-earlier-out:%s->%s' % (out0, out),
                    'after a call with out=%r the same image with out=%r returns %s than with fresh caches (shape %r vs %r)'
                    % (out0, out, 'another shape' if recH.shape != recon.shape else 'other values', recH.shape, recon.shape),
                    dict(clause='result independent of earlier calls', history=[kdict(IM, o, rm, order, odd, out0, W, direction, reg)],
                         call=kdict(IM, o, rm, order, odd, out, W, direction, reg), expected_image=recon.tolist(),
                         expected_cos=cn.tolist(), tol=float(tol)),
                    dict(first_out=out0, second_out=out, shape=[h, w], origin=repr(o), rmax=rm))
    # 7. every ordered pair of out values (incl. None) x odd on/off on matched frames: the second
    #    result must equal the fresh-cache result and the synthesis of its distributions
    for (h, w, o) in matched_frames(rng, int(rng.integers(3, 11))) + matched_frames(rng, 20):
        row, col = o
        IM = rng.normal(size=(h, w)) + 2
        for odd in (False, True):
            order = 1 + int(odd) if rng.random() < 0.5 else 2
            orders, odd_r = L.orders_of(order, odd)
            direction = 'inverse' if rng.random() < 0.5 else 'forward'
            kw = dict(origin=o, rmax='MIN', order=order, odd=odd, direction=direction)
            fresh = {}
            for out2 in OUTS:
                fresh[out2] = call(IM, out=out2, **kw)
            R = rb()._dst.rmax
            for out1 in [None] + OUTS:
                for out2 in [None] + OUTS:
                    rb().cache_cleanup()
                    call(IM, fresh=False, out=out1, **kw)
                    rec2, distr2 = call(IM, fresh=False, out=out2, **kw)
                    n_eval += 1
                    distinct.add(('pair', out1, out2, odd_r))
                    if out2 is None:
                        ok = rec2 is None
                        E = None
                    else:
                        recF, distrF = fresh[out2]
                        cn = distr2.cos()
                        tol = 1e-9 * (1 + np.abs(cn).max() * len(orders))
                        shp, org = out_geometry((h, w), row, col, R, odd_r, out2)
                        E = synthesis(shp, org, cn, orders, R)
                        ok = (rec2.shape == recF.shape == shp and np.allclose(rec2, recF, rtol=0, atol=tol, equal_nan=True)
                              and np.allclose(rec2, E, rtol=0, atol=tol, equal_nan=True)
                              and np.allclose(cn, distrF.cos(), rtol=0, atol=tol, equal_nan=True))
                    if not ok:
                        add('history', 'C16:history:out-pair:%s->%s:odd=%s' % (out1, out2, odd_r),
                            'frame %dx%d, origin %r, rmax MIN (= %d), order %d, odd %s: after out=%r the call with out=%r does not '
                            'return the fresh-cache image / the synthesis of its distributions'
                            % (h, w, o, R, order, odd, out1, out2),
                            dict(clause='result independent of earlier calls',
                                 history=[kdict(IM, o, 'MIN', order, odd, out1, None, direction, None)],
                                 call=kdict(IM, o, 'MIN', order, odd, out2, None, direction, None),
                                 expected_image=None if E is None else E.tolist(), tol=float(tol) if E is not None else 0.0),
                            dict(first_out=out1, second_out=out2, shape=[h, w], origin=list(o), odd=odd_r))
    return hits, n_eval, len(distinct), samples


def run(ctx):
    rng = np.random.default_rng(ctx.seed)
    warnings.simplefilter('ignore')
    try:
        from translate import vmi_inv, vmi_index
        vmi_inv.generate()
        vmi_index.generate()
        trans_err = None
    except Exception as e:     # noqa
        trans_err = '%s: %s' % (type(e).__name__, e)
    pr = vlib.coq_props('C16', extra_targets=['model/RbasexQ.vo'])
    ctx.cov.update(obligations=len(pr['theorems']), discharged=pr['discharged'], theorems=pr['theorems'],
                   axioms=pr['axioms'],
                   checker_cmd='make -C /verif/coq props/C16.vo (coqc 8.16.1, full .vo build) + Print Assumptions; '
                               'coqc cases/C16_*.v (vm_compute)',
                   trusted_base=vlib.TRUSTED_COMMON + [
                       'axioms reported by Print Assumptions: ' + ', '.join(pr['axioms']),
                       'fixed-point (2^-100) evaluation of the model inside Coq; square roots are binary64 values '
                       'validated inside Coq by squaring',
                       'model/Symmetry.v put_quadrants (tied to abel/tools/symmetry.py by property C06)'])
    h0 = []
    n_cases, n_ok, bad, errors, dist = correspondence(ctx, rng, h0)
    ctx.cov.update(traces_validated_against_impl=n_ok, correspondence_cases=n_cases,
                   correspondence_disagreements=len(bad), input_distribution=dist)
    broken = bool(trans_err) or (not pr['ok']) or bad or errors
    stats = {}
    hits, n_eval, n_distinct, samples = search(ctx, rng, (120 if ctx.quick else 1500) * (3 if broken else 1), stats)
    dfails, d_eval, d_dist = L.dtype_search(rng, (200 if ctx.quick else 2000) * (3 if broken else 1), 'rbasex', 'C16')
    hits += [Hit('dtype-independence', k_, 'rbasex_transform: ' + w_, sn_, da_) for (k_, w_, sn_, da_) in dfails]
    lfails, l_eval, l_dist = L.layout_search(rng, (200 if ctx.quick else 2000) * (3 if broken else 1), 'rbasex', 'C16')
    hits += [Hit('layout-independence', k_, 'rbasex_transform: ' + w_, sn_, da_) for (k_, w_, sn_, da_) in lfails]
    n_eval += d_eval + l_eval
    n_distinct += d_dist + l_dist
    ctx.cov.update(search_stats=stats)
    ctx.cov.update(evaluations=n_eval + n_cases, distinct_nontrivial=n_distinct,
                   rule='search: random images 3..29 squared, origin tuple (incl. negative) or location string, rmax keyword or '
                        'integer, order 0..8, odd on/off, both directions, reg in {None, L2, diff, SVD, pos}, weights None or '
                        'with zeros, every out value; checked per call: shape and image = synthesis of the returned '
                        'distributions (1e-9 relative to the coefficient scale), same distributions for another out / None, '
                        'zero-weight pixels, valid flags, zero at flagged radii, abel.Transform wrapper, and the same call '
                        'after another out without cache clean-up; distinct by (out, odd, direction, reg, weights); dtype independence: integer '
                        '(8..64 bit) and float32 images and weights with values up to the type extremes give the image and distributions '
                        'of their float64 copies (bit for bit where conversions are exact), the image is float64; memory-layout independence '
                        '(Fortran order, transposed / strided / negative-stride views, read-only arrays): bit-identical image and distributions',
                   samples=samples, exhaustive=False)
    new, seen = 0, set()
    for h in h0 + hits:
        if (h.key, h.clause) in seen:
            continue
        seen.add((h.key, h.clause))
        if new >= MAX_REPORTED:
            ctx.cov['hits_not_reported'] = ctx.cov.get('hits_not_reported', 0) + 1
            continue
        if ctx.report_hit(h):
            new += 1
    if trans_err and new == 0:
        ctx.report_broken('translator', 'tools/translate/vmi_inv.py', trans_err)
    if not pr['ok'] and new == 0:
        ctx.report_broken('proof', pr['broken'] or 'props/C16.v', pr['error'] or '')
    if (bad or errors) and new == 0:
        detail = ''
        if bad:
            m, parts = bad[0]
            detail = ('first disagreeing case: shape=%dx%d origin=%r rmax=%r order=%d odd=%s out=%r history=%s IM=%r; %s'
                      % (m[0], m[1], m[2], m[3], m[4], m[5], m[6], m[7], m[8], parts))
        if errors:
            detail += ' coq errors: %r' % (errors[:1],)
        ctx.report_broken('correspondence', 'model/RbasexOut.v vs rbasex_transform (%d of %d cases disagree)'
                          % (len(bad), n_cases), detail)
    ctx.assumptions += [
        'the distributions (radial profiles) are those of Distributions(method=linear, use_sin=False): modelled and tied by C14; '
        'the Abel transform matrices themselves are the subject of C09',
        'C16_distr_independent_of_out is structural in the model (profiles are computed before `out` is read); on the '
        'implementation it is swept',
        'C16_ibs_history_independent: the model carries the cache state (_ibs_prm, _ibs) keyed by [height, width, row]; the '
        'correspondence runs it through histories of calls with the same image parameters and other out values, the search '
        'compares such histories with fresh-cache results on the implementation',
        'zero-weight pixels / valid flags / abel.Transform wrapper: swept numerically (zero-weight invariance of the profiles '
        'is theorem C15_zero_weight_pixels_ignored)',
    ]
