# Driver: ./check Cxx --tier quick|thorough   |  ./check Cxx --replay f  |  ./check --setup
import argparse
import importlib
import json
import os
import sys
import time
import traceback

import vlib


def setup():
    """Build the whole Coq development (full .vo build)."""
    # generated files first: every translator is run against /repo
    import gen_all
    gen_all.run(verbose=True)
    vlib.coq_project()
    # build what the registered checks need (props/Cxx.vo and dependencies)
    man = json.load(open(os.path.join(vlib.VERIF, 'MANIFEST.json')))
    targets = ['props/%s.vo' % c['property_id'] for c in man['checks']
               if os.path.exists(os.path.join(vlib.COQ, 'props', c['property_id'] + '.v'))]
    ok, log = vlib.coq_make(targets, timeout=3000)
    sys.stdout.write(log[-3000:])
    bad = vlib.scan_forbidden()
    if bad:
        print('forbidden constructs:', bad)
        return 1
    return 0 if ok else 1


def main():
    ap = argparse.ArgumentParser()
    ap.add_argument('pid', nargs='?')
    ap.add_argument('--tier', default=os.environ.get('VERIF_TIER', 'quick'))
    ap.add_argument('--replay')
    ap.add_argument('--setup', action='store_true')
    a = ap.parse_args()
    if a.setup:
        sys.exit(setup())
    tier = os.environ.get('VERIF_TIER') or a.tier
    if tier not in ('quick', 'thorough'):
        tier = 'quick'
    seed = int(os.environ.get('VERIF_SEED', '20260930'))
    mod = importlib.import_module('props.' + a.pid)
    if a.replay:
        data = json.load(open(a.replay))
        if data.get('python'):
            rc, out = vlib.run_snippet(data['python'])
            sys.stdout.write(out)
            if rc != 0:
                print('VIOLATION property=%s replay=%s' % (a.pid, a.replay))
                sys.exit(1)
            print('replay passes on the current tree')
            sys.exit(0)
        print('replay names a broken obligation (%s: %s); re-running the check'
              % (data.get('kind'), data.get('broken')))
    ctx = vlib.Ctx(a.pid, tier, seed)
    try:
        mod.run(ctx)
    except Exception:
        tb = traceback.format_exc()
        sys.stdout.write(tb)
        ctx.report_broken('check-machinery', 'exception in tools/props/%s.py' % a.pid, tb)
    if tier == 'thorough' and not ctx.violations and os.path.exists(os.path.join(vlib.COQ, 'props', a.pid + '.vo')):
        # independent re-check of the compiled theorems (coqchk) once per thorough run
        status, axioms, summary = vlib.coqchk(a.pid)
        ctx.cov['coqchk'] = dict(status=status, axioms=axioms, summary=summary)
        if status == 'failed':
            ctx.report_broken('proof', 'coqchk props/%s.vo' % a.pid, summary)
    sys.exit(ctx.finish(getattr(mod, 'LEVEL', 'proof')))


if __name__ == '__main__':
    main()
