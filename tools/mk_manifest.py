# Regenerates /verif/MANIFEST.json from the table below (run by hand after
# adding a property check; the result is committed).
import json

BASE_NOTE = ('Trusted: Coq 8.16.1 kernel + vm_compute (no native_compute); axioms listed by Print Assumptions in the '
             'evidence (standard-library real-number axioms and functional extensionality where R is used); the '
             'correspondence harness/translators under /verif/tools; numpy/scipy semantics of external calls. ')

CHECKS = {
 'C06': dict(
   text=('Theorems (Coq, all shapes/parities, all real images): split/join round trip, mirror symmetry, fixed points, '
         'idempotence for symmetry_axis in {0,1,(0,1),[0,1],(1,0)} and every admissible use_quadrants mask, mean formula, '
         'rejection iff a quadrant is undefined; refutation theorems for the recorded Fourier finding. The hand-written '
         'model coq/model/Symmetry.v is tied to abel/tools/symmetry.py by a correspondence run (model evaluated by '
         'vm_compute on exact rationals vs implementation) on every invocation, and the clauses are also evaluated directly '
         'on the implementation (search) to produce replays, also observed through abel.Transform (rejection and mirror clauses) and on narrower dtypes (the result must equal that of the float64 copy). get_image_quadrants / put_image_quadrants are REGENERATED from the source on every run and proved equal to the model (C06_model_is_source).'),
   note=BASE_NOTE + 'Model of symmetry.py is hand-written, tied by the translator + equality proof and by correspondence; the nested real_components() of the Fourier branch is pinned textually and modelled by the DFT identity g[j]=(f[j]+f[m-1-j])/2 (validated by correspondence, not proved); dtype conversions are identities in the model.',
   technique='Coq proof over list-of-rows model + vm_compute correspondence + property search on implementation',
   design='DESIGN.md §3 C06'),
 'C05': dict(
   text=('Theorems (Coq, every shape with >= 3 rows, every parity, any half-image transform T): the Transform pipeline that '
         'transforms only the quadrants symmetry leaves distinct equals the reassembly of T applied to the four identically '
         'oriented symmetrised quadrants (symmetry_axis None/0/1/(0,1) and spellings, every mask); result shape; pixel formula of '
         'the reassembly (central column from the right-hand, central row from the lower quadrants); [] treated as None. Tie: '
         'correspondence of the model pipeline (Q instance, vm_compute) with abel.Transform where the eight method functions are '
         'replaced by an exact probe transform. Search on the real methods: assembly from the method\'s own half-image transforms, '
         'integer dtype, option routing (spies), centring delegation, linbasex/rbasex pass-through.'),
   note=BASE_NOTE + 'Hand-written model of transform.py:462-573 tied by correspondence; origin finding / sub-pixel centring are delegated to C12/C13.',
   technique='Coq proof over list-of-rows model + vm_compute correspondence with probe transform + property search on implementation',
   design='DESIGN.md §3 C05'),
 'C20': dict(
   text=('Theorems (Coq): over the whole finite request space all_requests of model/Dispatch.v (315 cells: function/Transform x '
         '10 methods x 3 directions x named shape classes x out-of-set option values) every request raises or is answered '
         'with exactly the requested method and direction; requests that cannot be honoured raise; a forward request is never '
         'answered by an inverse. Decided by vm_compute on the enumerated space (bound stated in the theorem). Every cell is '
         'executed on the implementation on every run (exhaustive tie) and classified by an independent closed-form Gaussian '
         'Abel pair as raise/forward/inverse, in three cache states (empty, after valid requests of the same method, repeated), plus the '
         'linbasex quadrant front end and 1-D / single-row data passed to linbasex_transform_full. The direction guards, the shape guards and the sets of accepted option names of the model are REGENERATED from the '
         'current source on every run (tools/translate/dir_guards.py, opt_names.py) and proved equal to the model / to the documented sets '
         '(C20_direction_guards_are_source, C20_shape_guards_are_source, C20_option_names_are_source).'),
   note=BASE_NOTE + 'Model of the guards is hand-written; direction/shape guards and option-name sets are tied by translators, the rest by executing all cells; option-FORMAT guards (tuple vs string, SVD factor range) are tied by execution only; theorems are closed under the global context (no axioms).',
   technique='Coq decision-table model, finite-domain proof by computation + exhaustive execution of the request grid',
   design='DESIGN.md §3 C20'),
 'C01': dict(
   text=('PARTIAL by nature. Theorems (Coquelicot): the oracles the inverse transforms are judged against are true Abel pairs -- '
         'abel_bump for every p (induction), the exact Gaussian factorisation, an Interval enclosure of the Gaussian constant, the '
         'closed form within 2^-39 of the finite-range line integral, Abel scaling with pixel size; and each basis method is EXACT ON ITS OWN SPAN: '
         'for daun degrees 0-2 and onion peeling, for every size and coefficient vector, the forward matrix (regenerated formulas) applied to the '
         'coefficients is the exact Abel projection of the spanned function and any left inverse returns the coefficients; per-run Interval goals tie the '
         'floats of the Python oracles to the Coq terms. The property\'s envelope, refinement and dr clauses for the ten numerical '
         'schemes are NOT theorems: they are decided by a numeric sweep (all methods, documented options, families, sizes) against '
         'calibrated envelope laws (1.5 x fitted K (dr/scale)^q) and produce replays; C09/C03/C04 carry the exactness theorems. Stability statements '
         'C01_inverse_daun0_error_partial / C01_inverse_onion_peeling_error_partial bound the inverse error by L n sum|X i k| for any left inverse X (no bound on the inverse norm: partial).'),
   note=BASE_NOTE + 'Envelope/refinement clauses swept only (discretisation-error analysis of ten schemes is not mechanised); Gaussian integral value and equivalence of proper/singular Abel forms trusted; ring projections by scipy quadrature; two recorded refinement-floor findings.',
   technique='Coq/Coquelicot proofs of the Abel-pair oracles + Interval-checked oracle tie + calibrated numeric sweep (labelled swept, not proved)',
   design='DESIGN.md §3 C01, §6'),
 'C02': dict(
   text=('PARTIAL by nature, same structure as C01 for the forward direction: oracle theorems (bump, Gaussian, scaling: a forward '
         'transform of f(r/a) scales by a, i.e. the absolute scale set by dr; forward_exact_on_span for daun degrees 0-2: the forward matrix '
         'times the coefficients is the exact projection at every pixel), per-run Interval goals for the oracle floats; the '
         'envelope, refinement and exact-dr clauses for basex, daun, direct, hansenlaw, rbasex are decided by the calibrated numeric '
         'sweep with replays. PROVED convergence for the daun forward operators (all n, all pixels, Coquelicot): C02_forward_daun0_phys (|h sum f(jh) P0[j][i] - Abel f (ih)| <= L R h '
         'for L-Lipschitz f) and C02_forward_daun1_phys (<= L2/2 R h^2 for f with L2-Lipschitz derivative), tied to the implementation by per-run Interval goals enclosing the entries of the operator the code applies '
         'and evaluated against the implementation at every pixel (proved-envelope hits).'),
   note=BASE_NOTE + 'Envelope/refinement clauses swept only; two recorded refinement-floor findings (basex correction=False, hansenlaw hold_order=1).',
   technique='Coq/Coquelicot proofs of the Abel-pair oracles + Interval-checked oracle tie + calibrated numeric sweep (labelled swept, not proved)',
   design='DESIGN.md §3 C02, §6'),
 'C03': dict(
   text=('Theorems (mathcomp, any field, any size, any data matrix) over terms REGENERATED from the current source by '
         'tools/translate/matrix_expr.py (symbolic execution of daun_transform, basex _get_A/get_bs_cached/basex_core_transform, '
         'rbasex get_bs_cached): daun round trip for degrees 0-3 in both composition orders and any dr, basex (sigma=1, reg=0, '
         'no correction) and rbasex per order likewise; triangular matrices with non-zero diagonal are exactly the invertible '
         'ones. Tie: regeneration + numeric validation of every generated term against the running implementation. Search: '
         'random signed half-images n=3..200, cond-scaled tolerance. The approximate class (hansenlaw, direct, corrected basex) '
         'is swept against calibrated envelopes only (not a theorem). The round trips are also checked with the operators the library actually uses after random operation '
         'histories (with/without basis_dir, cache clean-ups, several processes).'),
   note=BASE_NOTE + 'scipy inv/solve_triangular modelled by specification (multiplication by invmx); float conditioning outside the theorem; approximate-class envelope clause swept numerically.',
   technique='Coq/mathcomp proof over source-regenerated matrix expressions + numeric translation validation + round-trip search',
   design='DESIGN.md §3 C03'),
 'C04': dict(
   text=('Theorems: every regenerated daun/basex/dasch/rbasex transform is X *m A (row-wise, linear, row-independent); dr scaling '
         'from the regenerated Jacobian sites (daun incl. Tikhonov, basex incl. correction, dasch, onion_bordas; C04_dr_direct: the whole direct integral with and without correction); Hansen-Law recursion REGENERATED from the source and proved equal to the model (C04_hansenlaw_model_is_source); Hansen-Law '
         'recursion linear, row-wise and dr-scaling by induction over columns for arbitrary coefficient tables; NNLS solvers '
         'positively homogeneous (solver by specification); onion_bordas peeling loop (hand-written executable model, arbitrary tables val1/val2) linear, '
         'row-wise and 1/dr-scaling by induction over the width; symmetrisation linear (over the C06 model). Tie: translators + '
         'numeric validation of generated terms + vm_compute runs of the Hansen-Law and onion_bordas models against the implementation (tables read from the running frame). Search: '
         'operator extraction on the implementation for all ten methods and the image tools (linearity with negative '
         'coefficients, row independence, dr, integer-typed images = float copies).'),
   note=BASE_NOTE + 'Linearity of direct, linbasex, rbasex image synthesis, set_center, radial_intensity, Distributions is checked on the implementation only (hansenlaw and the onion_bordas peeling loop are theorems about executable models with arbitrary tables, tied by vm_compute correspondence); scipy.ndimage interpolation (onion_bordas shift_grid, linbasex, centring) assumed linear; Hansen-Law / onion_bordas Q instances round to 120 bits.',
   technique='Coq proofs (mathcomp + induction) over regenerated expressions + operator extraction on implementation',
   design='DESIGN.md §3 C04'),
 'C07': dict(
   text=('Theorems (Coq, all finite histories, all parameter values; closed under the global context): for basex, the three Dasch '
         'methods, daun (degrees 0-3), linbasex and rbasex (transform calls and the public get_bs_cached accessor, valid and '
         'invalid parameters, weights, cache clean-ups, pre-seeded files) the result of any call after any history equals the '
         'result from the initial state -- cache state machines with symbolic content (key determines content), crop laws for '
         'triangular bases (leading-block inverse, mathcomp); cache_cleanup only changes speed; basis_dir resolution and '
         'basis_dir_cleanup remove exactly the method\'s files. Tie: after every operation of directed and random histories the '
         'model\'s observation (module globals, directory listing, outcome class, agreement with a fresh-state worker process) is '
         'compared inside Coq with the implementation\'s. Search: every call of a history against a fresh process/empty directory, '
         'failing histories shrunk to replays.'),
   note=BASE_NOTE + 'Hand-written state-machine models of the five caching modules (tied by correspondence); numeric content is symbolic; "same result" = 1e-7 relative; environment assumptions (writable directories, files on disk are what a save writes) stated in the theorems.',
   technique='Coq invariant proofs over cache state machines (induction over operation lists) + history correspondence + fresh-process search',
   design='DESIGN.md §3 C07'),
 'C08': dict(
   text=('Theorems (Coq, all arrays, all byte offsets, all schedules): byte-level .npy codec parse(serialize a) = a, every proper '
         'prefix of a saved file is rejected (every crash point), trailing bytes ignored; for each caching method a missing, empty, '
         'truncated, garbage or wrong-shape file yields the fresh result or an exception, also after a raising call; the atomic '
         'writer (temp file + os.replace) is safe for any number of writers and any chunking; sensitivity theorems for an in-place '
         'writer (two chunks safe, three chunks refuted). Tie: serialize/parse compared byte for byte with numpy.save/load on every '
         'prefix and a garbage stream; handler model vs observed behaviour on every damaged content; strace guard that every basis '
         'file appears by rename of a fully written temp file. Search: damage sweeps per method against the no-disk-cache result; '
         'multi-process race smoke test in the thorough tier.'),
   note=BASE_NOTE + 'Concurrency modelled at syscall granularity (a torn single write is a truncation); valid files with different numbers are outside the fault class (no checksum exists).',
   technique='Coq proofs over a byte-level codec and file-fault/interleaving model + codec correspondence + damage sweep + strace guard',
   design='DESIGN.md §3 C08'),
 'C09': dict(
   text=('Theorems (Coquelicot, unbounded in indices and sizes) over closed forms REGENERATED from the current source by '
         'tools/translate/formulas_basis.py: every daun entry of degrees 0-2 and the degree-3 Hermite pair equals the Abel integral of '
         'its basis function; onion-peeling W equals the degree-0 projection transposed; every two_point / three_point operator '
         'entry (all rows incl. the axis row and the last column) equals the inverse-Abel integral of the interpolant; the degree-3 row assembly (Hermite combination with the slopes of the (1,4,1) banded system, C09_daun3_spline_entry) given the banded solutions; the basex rho_k lines (C09_basex_rho_formula); prefix/crop and triangular-shape theorems; rbasex entries for orders 0..8 and the F '
         'recursion step. Tie: regeneration, bit-exact structure check of the symbolic assembly against the implementation, '
         'per-run interval/integral goals (machine-checked instances). Search: scipy quadrature of the defining integrals against '
         'the implementation incl. basex, daun 3 spline, large indices.'),
   note=BASE_NOTE + 'basex projected chi_k series has no theorem (instances + quadrature sweep); existence/accuracy of the daun-3 banded solutions are hypotheses; Dasch two_point axis entries D[0][0], D[0][1] are a documented convention; linbasex basis has no defining-integral oracle here.',
   technique='Coq/Coquelicot proofs over source-regenerated closed forms + Interval translation validation + quadrature search',
   design='DESIGN.md §3 C09'),
 'C10': dict(
   text=('Theorems (Coquelicot; unbounded in degree, grid and r): the Pascal/Toeplitz shift and stretch define the same function; '
         '.func is the polynomial on its interval and 0 outside for any ascending grid; the one-sided integrals a(k) are '
         'antiderivatives of (x^2+y^2)^(k/2) for all k (induction) and the code\'s recursion equals their difference, hence .abel '
         'is the Abel integral of .func for every coefficient vector, shift, stretch and reduction; piecewise sums and scalar '
         'multiples; Angular add/sub/mul are evaluation homomorphisms, cos/sin powers, Legendre (Bonnet recursion for all n). '
         'Per-run Interval goals: ApproxGaussian segment bounds for the ranges the implementation returns, .abel of random '
         'Polynomials. Tie: regenerated formulas/translators, vm_compute and Interval correspondence on random objects, Angular.c '
         'exactly over Q. Search: quadrature of the defining integrals for all four polynomial classes, algebra laws, copies, '
         'bspline, ApproxGaussian by dense sampling. SPolynomial / PiecewiseSPolynomial are modelled (model/SPoly.v): C10_spoly_abel* (.abel equals the Abel transform at every pixel), C10_piecewise_s_abel, the F(k, lim) family is an antiderivative for every integer k; scalar operators incl. division on whole objects and pieces (C10_scalar_*); the executed Q instance equals the R instance (C10_model_Q2R_*).'),
   note=BASE_NOTE + 'SPolynomial.func and PPoly.from_spline (bspline) are not proved (swept); ApproxGaussian for all tol is instance level; one recorded finding (ApproxGaussian up to 1.065 tol in narrow bands).',
   technique='Coq/Coquelicot proofs + Interval-checked instances + correspondence + quadrature search',
   design='DESIGN.md §3 C10'),
 'C11': dict(
   text=('Theorems over closed forms REGENERATED from analytical.py / transform_pairs.py: StepAnalytical and profiles 1, 2, 3, 5, 7 '
         'are exact Abel pairs for every r; profile 4 deviates by exactly sqrt(1-r^2)(10 r^2-1)/3e6 (bounded by 1.2e-6, refuted as '
         'exact); Gaussian pair up to the trusted Gaussian integral; grid, mirror layout and masks consistent for odd and even n. '
         'Instances (Interval/integral): profile 6, Gaussian enclosure, translation validation of every formula against the '
         'Python floats. Search: quadrature of the line-of-sight integral against .abel for every analytical class, all seven '
         'profiles up to n=1001 and every SampleImage name.'),
   note=BASE_NOTE + 'Profile 6 and SampleImage accuracy are instance/numeric level; improper Gaussian integral trusted; one recorded finding (profile 4 published rounded constants).',
   technique='Coq/Coquelicot proofs over regenerated closed forms + Interval translation validation + quadrature search',
   design='DESIGN.md §3 C11'),
 'C12': dict(
   text=('Theorems (Coq, every shape, every origin): set_center with a whole-pixel origin is the stated translation for the '
         'three crop modes (pixel formula + shape; valid_region maximal; maintain_data keeps every pixel), axes not selected or '
         'None are untouched (also for fractional coordinates of unselected axes), negative origins wrap, origin preprocessing '
         '(int(), Python round), order-1 fractional shift preserves total intensity and moves the centroid exactly (over R, '
         'one-pixel margin), center_image odd/square for every parity and aspect. Tie: hand-written model/Center.v vs '
         'implementation, exhaustive small-shape correspondence in exact arithmetic (vm_compute). Search: clauses on the '
         'implementation incl. orders 2-5 with measured tolerances and dtypes, center_image handing every option to set_center, Transform(...).IM in three process states. The trimming statements of center_image and the origin preprocessing loop of set_center are REGENERATED from the source and proved equal to the model (C12_trim_model_is_source, C12_prep_model_is_source).'),
   note=BASE_NOTE + 'scipy.ndimage.shift(order=1) = linear interpolation is validated by correspondence only; orders 2-5 (spline prefilter) swept only.',
   technique='Coq proof over list-of-rows model + vm_compute correspondence + property search on implementation',
   design='DESIGN.md §3 C12'),
 'C13': dict(
   text=('Theorems (Coq): centre of mass of a point-symmetric image is its centre, follows shifts and ignores positive scaling; the '
         'autoconvolution of a symmetric projection is maximal exactly at twice the centre and only there (so the method returns '
         'the centre on the half-pixel grid); image_center and unselected axes; translation equivariance of the convolution method for '
         'ANY image with non-zero projections (autoconvolution shifts by 2a, first argmax follows an index shift). Tie: exact integer-image correspondence of model/Origin.v. Search: equivariance, '
         'scaling by powers of two over 2^-400..2^400 (bit-identical for all four methods), symmetric images, Gaussian-fit on noiseless spots, round_output (C13_round_* theorems: nearest integer, symmetric image gives its centre pixel), projections=True.'),
   note=BASE_NOTE + 'Gaussian-fit optimiser (scipy curve_fit) is external: swept to 1e-6 px only.',
   technique='Coq proof over exact-rational model + vm_compute correspondence + property search on implementation',
   design='DESIGN.md §3 C13'),
 'C14': dict(
   text=('Theorems: the hand-written inv2/inv3 cofactor formulas REGENERATED from vmi.py times the Hankel matrix give the identity when '
         'the tested determinant is non-zero; the fold of the four image regions into one quadrant uses each source pixel exactly once '
         '(every shape, origin, rmax; even and odd modes, negative-step slices included); exact-model data is returned by the normal '
         'equations (end-to-end on the executable model for N <= 3, pixel-level algebra for any order over any field); the Hankel '
         'matrix is non-singular given enough distinct angles; the true (A, beta) is the unique least-squares minimiser. Tie: '
         'translator + exhaustive geometry correspondence + value correspondence (vm_compute). Search: exact-model images and '
         'noiseless beta curves on the implementation, integer dtypes. The odd flag / number of angular terms of Distributions.__init__ are regenerated from the source (C14_init_index_translated).'),
   note=BASE_NOTE + 'N > 3 (numpy inv branch), the remap method and the curve_fit optimiser are tied by search only; executable instance uses 2^-100 fixed point; one recorded finding (reject mode at beta = -1, 2).',
   technique='Coq proofs (list model, mathcomp algebra) + regenerated inv2/inv3 + vm_compute correspondence + search',
   design='DESIGN.md §3 C14'),
 'C15': dict(
   text=('Theorems: for all 18 (order <= 8, parity) cases, all real coefficient vectors and all angles the cos^n, cos^n sin^m and '
         'Legendre representations define the same angular function; I = 4 pi r^2 P0, beta_n = P_n / P0 and the moving average; '
         'origin spellings (negative index, 32 location strings) resolve to the same origin for all shapes; left-right mirror '
         'invariance (all orders), top-bottom mirror incl. the sign change of odd orders and weight scaling (N <= 3), image scaling (C15_image_scale_cos, C15_harmonics_scale, C15_Ibeta_scale: beta unchanged for c <> 0), rmax prefix for both methods, all orders and any weights (C15_rmax_prefix), Results.orders / sinpowers regenerated from the source (C15_orders_translated), zero-weight pixels ignored. Tie: conversion matrices and '
         'representations compared with the model for all cases (vm_compute). Search: representation agreement at random angles and '
         'seven invariances on the implementation.'),
   note=BASE_NOTE + 'Top-bottom mirror and weight scaling are theorems for N <= 3 terms (the inv2/inv3 paths), swept beyond; "well-conditioned" = cond <= 1e8.',
   technique='Coq proofs incl. finite families decided by computation and lifted by linearity + vm_compute correspondence + search',
   design='DESIGN.md §3 C15'),
 'C16': dict(
   text=('Theorems: the image built from radial profiles is the synthesis (linear interpolation between integer radii times cos^n, '
         'zero one pixel beyond rmax); out=same/full/full-unique/fold/unfold geometry (shape, origin, part-of and mirror relations) '
         'for every shape and origin; distributions independent of out; invalid radii zero; after the repair of the _ibs cache the '
         'image after any history of out values equals the fresh-cache image. Tie: shape exactly and every pixel to 2^-40 against '
         'the model evaluated on the returned distributions (vm_compute), fresh and after earlier calls. Search: image vs synthesis, '
         'out consistency, zero-weight pixels, valid flags, Transform wrapper, call history. The (height, width, row) table of rbasex_transform for the five out values is regenerated from the source (C16_out_dims_translated).'),
   note=BASE_NOTE + 'The Transform wrapper clause is swept; square roots are numpy values validated inside Coq by squaring.',
   technique='Coq proofs over list/index model + vm_compute correspondence + search',
   design='DESIGN.md §3 C16'),
 'C17': dict(
   text=('Theorems over regenerated expressions: Tikhonov with zero strength equals the plain inverse (daun diff/L2/L2c, rbasex, basex '
         'reg=0); daun reg=0/None take the same path for all degrees; daun default equals onion_peeling given W = B^T, and the '
         'entry identity W[i][j] = daun0[j][i] over R; NNLS returns the unconstrained solution when it is feasible (solver by '
         'specification) and is unique; dasch wrappers pass arguments unchanged. Search: 37 paired option sets on random '
         'half-images (sizes 3..120) on 1-D, one-row and many-row inputs x dr, wrappers and deprecated aliases; the translator also executes _dasch_transform and daun_transform on one-row / 1-D input (C17_single_row_same_expression, C17_dasch_row_of_image, C17_daun_default_eq_onion_peeling_all_shapes).'),
   note=BASE_NOTE + '"Alternatives agree within their envelopes" (hold_order, degree, backend) is numeric only; the C backend of direct is not built in this sandbox.',
   technique='Coq/mathcomp proofs over regenerated expressions + paired-option search on implementation',
   design='DESIGN.md §3 C17'),
 'C18': dict(
   text=('Theorems: soundness of an executable may-alias checker for a small buffer language (every execution of a program the '
         'checker accepts leaves every argument buffer unchanged and returns no cache-held buffer), and by vm_compute that the '
         'checker accepts the abstract programs REGENERATED from the current source for all 99 public callables with a spec (named exceptions '
         'listed), with call summaries re-checked in Coq. Tie: fail-closed AST translator + static-vs-dynamic agreement. Search: '
         'dynamic harness on every public callable (dtypes, strided/read-only arguments, repeat, NaN-poisoned np.empty, '
         'result mutation, fresh-process repeats, reused objects of every public class with a shares-memory walk). C18_public_methods_safe: for the 16 translated public methods no other argument is written and no returned buffer is cached or part of the object.'),
   note=BASE_NOTE + 'numpy/scipy aliasing summaries are a committed trusted table; interprocedural composition not formalised; benchmark classes and save16bitPNG are not covered by abstract programs; properties/classmethods/operator dunders dynamic only.',
   technique='Coq soundness proof of an alias analysis + regenerated abstract programs checked by vm_compute + dynamic harness',
   design='DESIGN.md §3 C18'),
 'C19': dict(
   text=('Theorems (Reals/Coquelicot) over formulas REGENERATED from polar.py, vmi.py, circularize.py: cart<->polar round trips, '
         'angle convention, index_coords origin, reprojection sampling positions, int2D = 2 pi r avg2D and int3D = 4 pi r^2 avg3D, '
         'toPES Jacobian identity, circularize with constant correction is the identity map. Tie: translation validation by '
         'per-instance interval goals (machine-checked, regenerated each run) + captured map_coordinates coordinates vs model. '
         'Search: round trips, relations between the four kinds, isotropic profiles, intensity conservation, toPES, circularize.'),
   note=BASE_NOTE + 'Spline interpolation and Riemann-sum accuracy clauses are swept with documented tolerances (theta-grid deficit treated as discretisation tolerance); one recorded finding (circularize border).',
   technique='Coq real-analysis proofs over regenerated formulas + interval-arithmetic translation validation + search',
   design='DESIGN.md §3 C19'),
}

NOT_YET = 'check not built yet (work in progress; see DESIGN.md section 3)'


def main():
    props = [json.loads(l) for l in open('/verif/properties.jsonl')]
    checks = []
    na = []
    for p in props:
        pid = p['id']
        if pid in CHECKS:
            c = CHECKS[pid]
            checks.append(dict(
                property_id=pid,
                quick_cmd='./check %s --tier quick' % pid,
                thorough_cmd='./check %s --tier thorough' % pid,
                evidence_file='/verif/evidence/%s.json' % pid,
                replay_cmd_template='./check %s --replay {path}' % pid,
                engine='coq+correspondence',
                level_claimed=dict(category=c.get('category', 'proof'), text=c['text'], design_ref=c['design']),
                level_note=c['note'],
                technique=c['technique']))
        else:
            na.append(dict(property_id=pid, reason=NOT_YET))
    m = dict(
        version=1,
        setup_cmd='cd /verif && ./check --setup',
        hooks=dict(guard='PYABEL_VERIF',
                   enable='no source hooks are needed: every observation is made from outside (module globals, '
                          'monkey-patching inside the harness process, file system)',
                   baseline_off_cmd='cd /repo && /venv/bin/python -m pytest -ra -q -p no:cacheprovider --timeout=900 --continue-on-collection-errors',
                   source_commits=[], add_only=True),
        engines=[dict(name='coq+correspondence', path='/verif/check',
                      serves_properties=sorted(CHECKS),
                      kind_free_text='Coq 8.16 development under /verif/coq (models, proofs, property theorems) + Python '
                                     'driver: translators regenerate coq/gen from /repo, correspondence files are evaluated '
                                     'with vm_compute, property oracles search the implementation for failing inputs')],
        checks=checks,
        not_applicable=na,
        notes='See DESIGN.md. KNOWN_FINDINGS.json lists recorded and fixed defects.')
    json.dump(m, open('/verif/MANIFEST.json', 'w'), indent=1)


if __name__ == '__main__':
    main()
