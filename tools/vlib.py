# vlib.py — shared machinery of the ./check driver.
#
#   * Coq build helpers (full .vo builds through coq_makefile; every call under
#     a shell timeout), collection of `Print Assumptions` output;
#   * evaluation of generated case files inside Coq (vm_compute);
#   * replay files, known findings, evidence files, VIOLATION lines.
#
# The implementation under test is always /repo's working tree (PYTHONPATH is
# forced by ./check); nothing is cached between runs except compiled .vo files
# whose sources did not change.
from __future__ import annotations

import hashlib
import json
import os
import re
import subprocess
import sys
import time
from fractions import Fraction

VERIF = '/verif'
COQ = os.path.join(VERIF, 'coq')
REPO = os.environ.get('VERIF_REPO', '/repo')
PY = '/venv/bin/python'
COQFLAGS = ['-Q', '.', 'PA']
NPROC = 16

FORBIDDEN = re.compile(
    r'\b(Admitted|admit|Axiom|Axioms|Parameter|Parameters|Conjecture|'
    r'Admit Obligations|Unset Guard Checking|Unset Positivity Checking|'
    r'Unset Universe Checking|bypass_check|type-in-type|impredicative-set)\b')


def sh(cmd, timeout=600, cwd=None, env=None, inp=None):
    """Run a command, return (rc, stdout+stderr)."""
    try:
        p = subprocess.run(cmd, cwd=cwd, env=env, input=inp, timeout=timeout,
                           stdout=subprocess.PIPE, stderr=subprocess.STDOUT,
                           text=True)
        return p.returncode, p.stdout
    except subprocess.TimeoutExpired as e:
        out = e.stdout or ''
        if isinstance(out, bytes):
            out = out.decode('utf8', 'replace')
        return 124, out + '\n[timeout after %ss]' % timeout


_GEN_WRITES = {}        # generated Coq sources written by this process: path -> text


def write_if_changed(path, text):
    if os.path.abspath(path).startswith(os.path.join(COQ, 'gen') + os.sep):
        _GEN_WRITES[os.path.abspath(path)] = text
    try:
        if open(path).read() == text:
            return False
    except OSError:
        pass
    os.makedirs(os.path.dirname(path), exist_ok=True)
    with open(path, 'w') as f:
        f.write(text)
    return True


# --------------------------------------------------------------------------
# Coq project
# --------------------------------------------------------------------------

def coq_sources():
    """All .v files of the development (committed ones and generated ones)."""
    out = []
    for sub in ('base', 'model', 'gen', 'proofs', 'props'):
        d = os.path.join(COQ, sub)
        if os.path.isdir(d):
            for f in sorted(os.listdir(d)):
                if f.endswith('.v'):
                    out.append(sub + '/' + f)
    return out


def coq_project():
    """(Re)write _CoqProject and the Makefile when the file list changed."""
    files = coq_sources()
    text = '-Q . PA\n-arg -w -arg -notation-overridden,-deprecated\n' + \
        '\n'.join(files) + '\n'
    changed = write_if_changed(os.path.join(COQ, '_CoqProject'), text)
    if changed or not os.path.exists(os.path.join(COQ, 'Makefile')):
        rc, out = sh(['coq_makefile', '-f', '_CoqProject', '-o', 'Makefile'],
                     cwd=COQ, timeout=60)
        if rc != 0:
            raise RuntimeError('coq_makefile failed:\n' + out)


def scan_forbidden():
    """Fail-closed scan of the development for axioms / admits / disabled checks."""
    hits = []
    for rel in coq_sources():
        txt = open(os.path.join(COQ, rel)).read()
        # strip comments (non-nested is enough: we never nest)
        txt2 = re.sub(r'\(\*.*?\*\)', '', txt, flags=re.S)
        for m in FORBIDDEN.finditer(txt2):
            hits.append('%s: %s' % (rel, m.group(0)))
        if re.search(r'^\s*(Variable|Variables|Hypothesis|Hypotheses|Context)\b', txt2, re.M):
            # allowed only inside a Section: check there is an enclosing section
            depth = 0
            for line in txt2.splitlines():
                if re.match(r'\s*Section\b', line):
                    depth += 1
                elif re.match(r'\s*End\b', line) and depth > 0:
                    depth -= 1
                elif re.match(r'\s*(Variable|Variables|Hypothesis|Hypotheses|Context)\b', line) and depth == 0:
                    hits.append('%s: top-level %s' % (rel, line.strip()[:40]))
    return hits


_LOCK_DEPTH = [0]


class build_lock(object):
    """Exclusive, re-entrant (within this process) lock on coq/: one writer of
    generated sources / one make at a time, so that a run against a scratch
    worktree (VERIF_REPO) and a run against /repo never mix generated files."""
    def __enter__(self):
        import fcntl
        if _LOCK_DEPTH[0] == 0:
            self.lk = open(os.path.join(COQ, '.build.lock'), 'w')
            fcntl.flock(self.lk, fcntl.LOCK_EX)
        else:
            self.lk = None
        _LOCK_DEPTH[0] += 1
        return self

    def __exit__(self, *a):
        _LOCK_DEPTH[0] -= 1
        if self.lk is not None:
            self.lk.close()
        return False


def coq_make(targets, timeout=1500):
    """make the given .vo targets (paths relative to coq/). Returns (ok, log)."""
    with build_lock():
        # a check that regenerated coq/gen/*.v from the tree under test builds
        # against exactly that text, even if a concurrent check of another tree
        # rewrote the file in between
        for path, text in list(_GEN_WRITES.items()):
            try:
                same = open(path).read() == text
            except OSError:
                same = False
            if not same:
                with open(path, 'w') as f:
                    f.write(text)
        coq_project()
        rc, out = sh(['make', '-j%d' % NPROC, '-k'] + list(targets), cwd=COQ, timeout=timeout)
    return rc == 0, out


def first_error(log):
    """Extract (file, line, message) of the first Coq error in a make log."""
    m = re.search(r'File "\./([^"]+)", line (\d+), characters [^\n]*\n(Error.*?)(?=\n\S|\Z)', log, re.S)
    if not m:
        m2 = re.search(r'(Error[^\n]*(?:\n[^\n]+){0,6})', log)
        return (None, None, m2.group(1) if m2 else log[-600:])
    return m.group(1), int(m.group(2)), m.group(3).strip()[:800]


def enclosing_lemma(relfile, line):
    """Name of the Lemma/Theorem containing the given line."""
    try:
        lines = open(os.path.join(COQ, relfile)).read().splitlines()
    except OSError:
        return None
    name = None
    for i, l in enumerate(lines[:line], 1):
        m = re.match(r'\s*(?:Local\s+|Global\s+)?(Lemma|Theorem|Corollary|Example|Fact|Remark|Definition|Fixpoint|Instance|Proposition)\s+([A-Za-z0-9_\']+)', l)
        if m:
            name = m.group(2)
    return name


def theorems_in(relfile):
    txt = open(os.path.join(COQ, relfile)).read()
    txt = re.sub(r'\(\*.*?\*\)', '', txt, flags=re.S)
    return re.findall(r'^\s*(?:Theorem|Example)\s+([A-Za-z0-9_\']+)', txt, re.M)


def run_translators(names):
    """Run the named translators (tools/translate/<name>.py: generate()) against
    the repository under test.  Returns a list of (name, error) for failures."""
    import importlib
    errs = []
    for n in names:
        try:
            importlib.import_module('translate.' + n).generate()
        except Exception as e:          # fail closed: the caller reports a broken tie
            errs.append((n, '%s: %s' % (type(e).__name__, e)))
    return errs


def coq_props(pid, extra_targets=(), translators=()):
    """Build everything props/<pid>.v depends on, then compile props/<pid>.v
    itself afresh (so that `Print Assumptions` is printed on every run).

    Returns dict(ok, theorems, discharged, axioms, log, error)."""
    rel = 'props/%s.v' % pid
    res = dict(ok=False, theorems=[], discharged=0, axioms=[], log='', error=None,
               broken=None)
    res['theorems'] = theorems_in(rel)
    bad = scan_forbidden()
    if bad:
        res['error'] = 'forbidden constructs in the development: ' + '; '.join(bad)
        res['broken'] = 'scan_forbidden'
        return res
    with build_lock():                  # regenerate + build atomically
        terrs = run_translators(translators)
        if terrs:
            res['error'] = 'translator failed (source outside the supported subset): ' + '; '.join('%s: %s' % e for e in terrs)
            res['broken'] = 'translator:' + ','.join(e[0] for e in terrs)
            return res
        vo = rel + 'o'
        try:
            os.remove(os.path.join(COQ, vo))
        except OSError:
            pass
        ok, log = coq_make([vo] + list(extra_targets))
    res['log'] = log
    if not ok:
        f, ln, msg = first_error(log)
        lemma = enclosing_lemma(f, ln) if f else None
        res['error'] = 'Coq build failed at %s:%s (%s): %s' % (f, ln, lemma, msg)
        res['broken'] = '%s:%s' % (f, lemma)
        # theorems of the property file that were still checked: none is
        # counted as discharged when the build of the file fails
        return res
    # parse Print Assumptions output
    axioms = set()
    closed = 0
    for m in re.finditer(r'Closed under the global context', log):
        closed += 1
    in_ax = False
    for l in log.splitlines():
        if l.startswith('Axioms:'):
            in_ax = True
            continue
        if in_ax:
            if l.startswith(' ') or l.startswith('\t'):
                continue
            m = re.match(r'^([A-Za-z_][A-Za-z0-9_\.\']*)\s*(:.*)?$', l)
            if m and not l.startswith(('COQC', 'make', 'Closed')):
                axioms.add(m.group(1))
            else:
                in_ax = False
    res['axioms'] = sorted(axioms)
    res['ok'] = True
    res['discharged'] = len(res['theorems'])
    return res


def pa_modules_of(pid):
    """Logical names of the modules of this development that props/<pid>.v
    depends on (transitively), from coqdep."""
    seen, todo = [], ['props/%s.v' % pid]
    while todo:
        f = todo.pop()
        if f in seen or not os.path.exists(os.path.join(COQ, f)):
            continue
        seen.append(f)
        rc, out = sh(['coqdep', '-Q', '.', 'PA', f], cwd=COQ, timeout=120)
        for m in re.finditer(r'(?:\./)?((?:base|model|gen|proofs|props)/[A-Za-z0-9_]+)\.vo', out):
            v = m.group(1) + '.v'
            if v not in seen:
                todo.append(v)
    return ['PA.' + f[:-2].replace('/', '.') for f in seen]


def coqchk(pid, timeout=1800):
    """Re-check props/<pid>.vo and every module of THIS development it depends
    on with the independent checker (-norec: the installed libraries -- stdlib,
    mathcomp, Coquelicot, Flocq, Interval -- are taken as compiled; re-checking
    Interval alone takes more than half an hour).
    Returns (status, axioms, summary) with status in ok / failed / timeout."""
    mods = pa_modules_of(pid)
    args = ['coqchk', '-o', '-Q', '.', 'PA']
    for m in mods:
        args += ['-norec', m]
    rc, out = sh(args, cwd=COQ, timeout=timeout)
    if rc == 124:
        return 'timeout', [], 'coqchk did not finish within %d s' % timeout
    ok = rc == 0 and 'Modules were successfully checked' in out
    axioms = []
    m = re.search(r'\* Axioms:(.*?)\n\s*\n\* Constants', out, re.S)
    if m:
        axioms = [l.strip() for l in m.group(1).splitlines() if l.strip() and l.strip() != '<none>']
    bad = []
    for label in ('type-in-type', 'unsafe (co)fixpoints', 'positivity is assumed'):
        mm = re.search(r'%s:\s*(.*?)\n\s*\n' % re.escape(label), out + '\n\n', re.S)
        if mm and mm.group(1).strip() not in ('<none>', ''):
            bad.append(label + ': ' + mm.group(1).strip()[:200])
    status = 'ok' if (ok and not bad) else 'failed'
    return status, axioms, ('%d modules of this development re-checked' % len(mods) if status == 'ok' else out[-600:]) + ('; '.join(bad))


HEADER_CASES = 'From Coq Require Import List ZArith QArith Bool.\nImport ListNotations.\n'


_ENSURED = set()
_ENSURE_LOCK = None


def ensure_case_deps(text):
    """A case file may import modules of this development that are not
    dependencies of the property file (the executable Q instances): build them
    (once per process) before the case is compiled, so that a fresh checkout
    needs nothing beyond `./check --setup` / the check itself."""
    global _ENSURE_LOCK
    import threading
    if _ENSURE_LOCK is None:
        _ENSURE_LOCK = threading.Lock()
    mods = set()
    # every sentence `[From PA] Require [Import|Export] a.b c.d .`
    for m in re.finditer(r'(From\s+PA\s+)?Require\s+(?:Import\s+|Export\s+)?([A-Za-z0-9_.\'\s]+?)\.(?=\s|$)', text):
        for w in m.group(2).split():
            if m.group(1):
                mods.add(w)
            elif w.startswith('PA.'):
                mods.add(w[3:])
    targets = []
    for w in sorted(mods):
        rel = w.replace('.', '/')
        if os.path.exists(os.path.join(COQ, rel + '.v')):
            targets.append(rel + '.vo')
    with _ENSURE_LOCK:
        todo = [t for t in targets if t not in _ENSURED]
        if todo:
            coq_make(todo)
            _ENSURED.update(todo)


def coq_eval(name, text, timeout=900):
    """Compile a generated case file under coq/cases and return its output."""
    ensure_case_deps(text)
    d = os.path.join(COQ, 'cases')
    os.makedirs(d, exist_ok=True)
    # one file per process: two runs of the same check at the same time (quick and
    # thorough, or runs against different trees) must not overwrite each other's cases
    orig = name
    name = '%s_p%d' % (name, os.getpid())
    path = os.path.join(d, name + '.v')
    with open(path, 'w') as f:
        f.write(text)
    rc, out = sh(['bash', '-c', 'ulimit -s unlimited 2>/dev/null; exec coqc -Q . PA cases/%s.v' % name],
                 cwd=COQ, timeout=timeout)
    for ext in ('.vo', '.vok', '.vos', '.glob', '.v') if rc == 0 else ('.vo', '.vok', '.vos', '.glob'):
        try:
            os.remove(os.path.join(d, name + ext))
        except OSError:
            pass
    try:
        os.remove(os.path.join(d, '.' + name + '.aux'))
    except OSError:
        pass
    if rc != 0:                     # keep the failing case under its plain name for inspection
        try:
            os.replace(path, os.path.join(d, orig + '.v'))
        except OSError:
            pass
    return rc, out.replace(name, orig)


def coq_eval_many(named_texts, timeout=900):
    """Compile several case files in parallel. Returns {name: (rc, out)}."""
    from concurrent.futures import ThreadPoolExecutor
    with ThreadPoolExecutor(max_workers=NPROC) as ex:
        futs = {n: ex.submit(coq_eval, n, t, timeout) for n, t in named_texts}
        return {n: f.result() for n, f in futs.items()}


def parse_eval_lists(out):
    """Return the list of `= ...` results printed by Eval commands, whitespace
    normalised, without the trailing type."""
    res = []
    for m in re.finditer(r'^\s*= (.*?)\n\s*: [^\n]*(?:\n(?=\s*=|\Z|[A-Z])|\Z)', out, re.S | re.M):
        res.append(re.sub(r'%(nat|Z|Q|N)\b', '', ' '.join(m.group(1).split())))
    return res


def parse_nat_list(s):
    s = s.strip()
    if s in ('[]', 'nil'):
        return []
    return [int(x.replace('%nat', '').replace('%Z', '').strip())
            for x in s.strip('[]').split(';') if x.strip()]


# --------------------------------------------------------------------------
# Coq literals
# --------------------------------------------------------------------------

def q_lit(x):
    """Exact Q literal of a Python int/float/Fraction."""
    f = Fraction(x)
    if f.denominator == 1:
        return '(%d)' % f.numerator if f.numerator < 0 else '%d' % f.numerator
    return '(%d # %d)' % (f.numerator, f.denominator)


def z_lit(x):
    return '(%d)' % x if x < 0 else '%d' % x


def list_lit(items):
    return '[' + '; '.join(items) + ']'


def img_q(a):
    return list_lit([list_lit([q_lit(v) for v in row]) for row in a])


def bool_lit(b):
    return 'true' if b else 'false'


# --------------------------------------------------------------------------
# Findings, replays, evidence
# --------------------------------------------------------------------------

class Hit:
    """A concrete failing input found on the implementation."""

    def __init__(self, clause, key, what, snippet, data=None):
        self.clause = clause      # which clause of the property fails
        self.key = key            # identification used to match known findings
        self.what = what          # one-line description
        self.snippet = snippet    # stand-alone python program: exits 1 / raises when the property fails
        self.data = data or {}


def known_findings(pid):
    p = os.path.join(VERIF, 'KNOWN_FINDINGS.json')
    try:
        d = json.load(open(p))
    except OSError:
        return []
    return [f for f in d.get('findings', []) if f.get('property') == pid]


class Ctx:
    def __init__(self, pid, tier, seed):
        self.pid = pid
        self.tier = tier
        self.seed = seed
        self.t0 = time.time()
        self.cov = {}
        self.assumptions = []
        self.violations = []     # (replay_path, no_input)
        self.known_printed = set()
        self.notes = []
        os.makedirs(os.path.join(VERIF, 'replays'), exist_ok=True)
        os.makedirs(os.path.join(VERIF, 'evidence'), exist_ok=True)
        for f in os.listdir(os.path.join(VERIF, 'replays')):
            if f.startswith(pid + '-'):
                try:
                    os.remove(os.path.join(VERIF, 'replays', f))
                except OSError:
                    pass

    @property
    def quick(self):
        return self.tier == 'quick'

    # ---- reporting -----------------------------------------------------
    def replay_path(self, tag, payload):
        h = hashlib.sha1(json.dumps(payload, sort_keys=True, default=str).encode()).hexdigest()[:10]
        return os.path.join(VERIF, 'replays', '%s-%s-%s.json' % (self.pid, tag, h))

    def report_hit(self, hit):
        """A failing input on the implementation: known finding or violation."""
        for kf in known_findings(self.pid):
            if kf['key'] == hit.key:
                if hit.key not in self.known_printed:
                    self.known_printed.add(hit.key)
                    print('KNOWN-FINDING: property=%s %s' % (self.pid, kf['what']))
                return False
        payload = dict(property=self.pid, kind='failing-input', clause=hit.clause,
                       key=hit.key, what=hit.what, python=hit.snippet, data=hit.data)
        path = self.replay_path('hit', payload)
        json.dump(payload, open(path, 'w'), indent=1, default=str)
        if not any(v[0] == path for v in self.violations):
            self.violations.append((path, False))
            print('VIOLATION property=%s replay=%s' % (self.pid, path))
            print('  clause: %s -- %s' % (hit.clause, hit.what))
        return True

    def report_broken(self, kind, name, detail):
        """A proof obligation / translator / correspondence that no longer
        checks while the search found no failing input."""
        payload = dict(property=self.pid, kind=kind, broken=name, detail=detail[:4000])
        path = self.replay_path('broken', payload)
        json.dump(payload, open(path, 'w'), indent=1)
        self.violations.append((path, True))
        print('VIOLATION property=%s replay=%s %s no longer checks: %s no-failing-input-found'
              % (self.pid, path, kind, name))

    # ---- evidence ------------------------------------------------------
    def finish(self, level='proof'):
        ev = dict(property_id=self.pid, tier=self.tier, seed=self.seed, level=level,
                  coverage=self.cov, assumptions=self.assumptions,
                  wall_s=round(time.time() - self.t0, 2),
                  violations=len(self.violations))
        if self.notes:
            ev['coverage']['notes'] = self.notes
        ev['coverage']['known_findings_seen'] = sorted(self.known_printed)
        # runs against a scratch copy (self-tests with VERIF_REPO) must not overwrite the evidence of /repo
        evdir = os.path.join(VERIF, 'evidence') if os.path.realpath(REPO) == '/repo' else '/var/tmp/verif-scratch-evidence'
        os.makedirs(evdir, exist_ok=True)
        path = os.path.join(evdir, '%s.json' % self.pid)
        tmp = path + '.tmp'
        json.dump(ev, open(tmp, 'w'), indent=1, default=str)
        os.replace(tmp, path)
        if self.violations:
            return 1
        print('OK property=%s tier=%s wall=%.1fs obligations=%s discharged=%s evaluations=%s'
              % (self.pid, self.tier, time.time() - self.t0, self.cov.get('obligations'),
                 self.cov.get('discharged'), self.cov.get('evaluations')))
        return 0


def run_snippet(snippet, timeout=600):
    """Run a stand-alone python snippet against /repo; rc 0 = property holds."""
    env = dict(os.environ, PYTHONPATH=REPO, PYTHONHASHSEED='0')
    return sh([PY, '-W', 'ignore', '-c', snippet], timeout=timeout, env=env, cwd='/var/tmp')


TRUSTED_COMMON = [
    'Coq 8.16.1 kernel and vm_compute (no native_compute)',
    'correspondence harness (tools/) and its generators',
    'binary64 arithmetic of numpy approximates the exact-rational/real model (compared with relative tolerance 2^-40 on exactly representable inputs)',
]
