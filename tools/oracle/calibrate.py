# calibrate.py — fit the accuracy envelopes of C01/C02 once, on the unchanged tree.
#
#   PYTHONPATH=/repo:/verif/tools /venv/bin/python -W ignore tools/oracle/calibrate.py
#
# Runs every configuration of sweep.universe('inverse') and ('forward') against
# the oracles of pairs.py, and fits per law key
#       (direction | method | option class | family kind | rows/image)
# a law  err <= K * h^q,  h = dr / (smallest length scale of the family):
#   q  least-squares slope of log(err) against log(h), clipped to [0, 6]
#      (0 when fewer than 3 distinct h or when the errors are rounding noise);
#   K  the smallest constant for which the law bounds every calibration point.
# The check multiplies the law by sweep.ENV_FACTOR (1.5).  For each law the
# tightest configuration (largest err / law) is recorded (`tight`, and
# `tight_quick` among sizes <= 101) — the sweeps always include it, so a
# uniform two-fold loss of accuracy exceeds 1.5 x law there.
#
# It also measures the refinement clause for every (direction, method, option
# class) and records those that violate it literally (`floors`): they sit on
# an error floor of the method itself.
#
# The output tools/oracle/envelopes.json is committed; it is *not* rewritten by
# the checks.
import json
import os
import sys
import time
from multiprocessing import Pool

import numpy as np

sys.path.insert(0, os.path.join(os.path.dirname(os.path.abspath(__file__)), '..'))
from oracle import sweep  # noqa


def work(group):
    out = []
    for cfg in group:
        t = time.time()
        try:
            r = sweep.evaluate(cfg)
            out.append((cfg, r['err'], r['pix'], time.time() - t, None))
        except Exception as e:  # noqa
            out.append((cfg, None, None, time.time() - t, '%s: %s' % (type(e).__name__, str(e)[:200])))
    return out


def fit(points):
    """points: list of (h, err).  -> K, q"""
    hs = np.array([p[0] for p in points])
    es = np.array([max(p[1], 1e-300) for p in points])
    q = 0.0
    if len(set(np.round(hs, 12))) >= 3 and es.max() > 1e-11:
        A = np.vstack([np.log(hs), np.ones_like(hs)]).T
        sol = np.linalg.lstsq(A, np.log(np.maximum(es, 1e-16)), rcond=None)[0]
        q = float(min(6.0, max(0.0, sol[0])))
        q = round(q, 3)
    K = float(np.max(es / hs ** q))
    return K, q


def refinement_probe(direction):
    """error of one distribution on successively finer grids, per option class"""
    res = {}
    for method, optl in sweep.OPTIONS[direction].items():
        for opts in optl:
            for base in sweep.refine_bases(method, opts):
                errs = []
                for (c, lo, hi) in sweep.refine_chain(direction, method, opts, base, thorough=True):
                    if opts.get('reg') in ('nonneg', 'pos') and c['n'] > 101:
                        continue
                    e = sweep.region_error(c, lo, hi)
                    errs.append((c['n'], e[0]))
                res['%s|%s|%s|%s' % (direction, method, sweep.optkey(opts), base['name'])] = errs
    return res


def main():
    rng = np.random.default_rng(0)
    t0 = time.time()
    allres = []
    for direction in ('inverse', 'forward'):
        U = {}
        for rep in range(4):        # several draws of the free choices (rows, dr, image height, call path)
            for c in sweep.universe(direction):
                c = sweep.assign(c, rng)
                U.setdefault(sweep.cfgkey(c) + str(c['pass_dr']), c)
        U = list(U.values())
        # group by (method, n) so that basis sets are computed once per process
        groups = {}
        for c in U:
            groups.setdefault((c['method'], c['n'], c['via'] == 'func'), []).append(c)
        gl = sorted(groups.values(), key=lambda g: -len(g) * g[0]['n'] ** 2)
        with Pool(8) as pool:
            for out in pool.imap_unordered(work, gl):
                allres += out
        print(direction, len(U), 'configurations, %.0f s' % (time.time() - t0), flush=True)
    bad = [(sweep.cfgkey(c), err) for c, e, p, t, err in allres if err]
    if bad:
        print('configurations that raised:', len(bad))
        for b in bad[:20]:
            print('  ', b)
    laws = {}
    pts = {}
    for c, e, p, t, err in allres:
        if err or e is None or not np.isfinite(e):
            continue
        pts.setdefault(sweep.envkey(c), []).append((sweep.hvar(c), max(e - sweep.trunc_allow(c), 0.0), c, e))
    for k, pl in sorted(pts.items()):
        K, q = fit([(h, e) for h, e, c, e0 in pl])
        ratios = [(e / (K * h ** q) if K > 0 else 0.0, c, e0) for h, e, c, e0 in pl]
        ratios.sort(key=lambda x: -x[0])
        tight = ratios[0]
        tq = [r for r in ratios if r[1]['n'] <= 101]
        base = lambda c: {k2: c[k2] for k2 in ('dir', 'method', 'via', 'opts', 'fam', 'n')}
        laws[k] = dict(K=K, q=q, points=len(pl), h_min=min(h for h, _, _, _ in pl), h_max=max(h for h, _, _, _ in pl),
                       err_min=min(e0 for _, _, _, e0 in pl), err_max=max(e0 for _, _, _, e0 in pl),
                       loosest_ratio=ratios[-1][0],
                       tight=base(tight[1]), tight_quick=(base(tq[0][1]) if tq else None),
                       tight_quick_ratio=(tq[0][0] if tq else None))
    refine = {}
    for direction in ('inverse', 'forward'):
        refine.update(refinement_probe(direction))
    floors = {}
    for k, errs in refine.items():
        grow = [(errs[i][0], errs[i + 1][0], errs[i + 1][1] / errs[i][1]) for i in range(len(errs) - 1)
                if errs[i + 1][1] > errs[i][1] * (1 + sweep.REFINE_SLACK) and errs[i + 1][1] > sweep.ROUND_ABS * 10]
        if grow:
            floors[k] = dict(errors=errs, grows=grow)
    doc = dict(
        comment='fitted once on the unchanged tree by tools/oracle/calibrate.py; the checks multiply each law by %g'
                % sweep.ENV_FACTOR,
        axis_excl=sweep.AXIS_EXCL, laws=laws, refinement=refine, refinement_violations=floors,
        calibrated_configurations=len(allres), wall_s=round(time.time() - t0, 1))
    json.dump(doc, open(sweep.ENVELOPES, 'w'), indent=0, sort_keys=True)
    slow = sorted(allres, key=lambda x: -x[3])[:10]
    print('slowest:', [(sweep.cfgkey(c)[:60], round(t, 1)) for c, e, p, t, err in slow])
    print('laws', len(laws), 'refinement violations', len(floors), 'wall %.0f s' % (time.time() - t0))
    for k, v in floors.items():
        print('  floor', k, v['grows'])


if __name__ == '__main__':
    main()
