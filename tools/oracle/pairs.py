# pairs.py — ground truth for the accuracy sweeps of C01/C02.
#
# Every family gives the source (a cylindrically symmetric 3-D distribution,
# evaluated in the plane through the axis) and its line-of-sight projection,
# *independently of PyAbel*:
#
#   Gauss   sum_k a_k exp(-r^2/s_k^2)         projection a_k s_k sqrt(pi) exp(-x^2/s_k^2)
#           Coq: proofs/AbelPairsGauss.v abel_gauss_shape / abel_gauss_scaled /
#           G_enclosure / abel_gauss_oracle (finite-range integral within
#           2^-39 of this closed form when the half chord is >= 7 s).  The
#           identity with the infinite Gaussian integral is trusted.
#   Bump    (1 - r^2/R^2)^p for r < R, else 0   projection c_p R (1-x^2/R^2)^(p+1/2)
#           Coq: proofs/AbelPairs.v abel_bump_gen (all p), c_p = 2*wallis p.
#   Ring    exp(-(r-r0)^2/w^2) cos(theta)^k, theta from the symmetry axis z;
#           projection by Gauss-Legendre quadrature of the line-of-sight
#           integral (numpy/scipy only; cross-checked against scipy.integrate.quad
#           and, at sampled pixels, enclosed by Interval's `integral` inside Coq).
#
# All functions take physical coordinates; r, x, z are numpy arrays.
from fractions import Fraction

import numpy as np

SQRT_PI = float(np.sqrt(np.pi))


def c_bump(p):
    """c_p = 2 * (2p)!!/(2p+1)!!  (exact Fraction) — equals 2*wallis p of Coq."""
    w = Fraction(1)
    for q in range(1, p + 1):
        w *= Fraction(2 * q, 2 * q + 1)
    return 2 * w


class Gauss:
    """sum of centred Gaussians: terms = [(amplitude, sigma), ...]"""
    kind = 'gauss'

    def __init__(self, terms):
        self.terms = [(float(a), float(s)) for a, s in terms]

    def scale(self):            # smallest width: the length the grid must resolve
        return min(s for _, s in self.terms)

    def extent(self):           # largest width (decides truncation at the edge)
        return max(s for _, s in self.terms)

    def source(self, r):
        r = np.asarray(r, dtype=float)
        return sum(a * np.exp(-r**2 / s**2) for a, s in self.terms)

    def proj(self, x):
        x = np.asarray(x, dtype=float)
        return sum(a * s * SQRT_PI * np.exp(-x**2 / s**2) for a, s in self.terms)

    def source2(self, x, z):
        return self.source(np.hypot(x, z))

    def proj2(self, x, z):
        return self.proj(np.hypot(x, z))

    def spec(self):
        return dict(family='gauss', terms=self.terms)


class Bump:
    kind = 'bump'

    def __init__(self, R, p):
        self.R = float(R)
        self.p = int(p)
        self.c = float(c_bump(self.p))

    def scale(self):
        return self.R

    def extent(self):
        return self.R

    def source(self, r):
        r = np.asarray(r, dtype=float)
        u = 1 - (r / self.R)**2
        return np.where(u > 0, np.abs(u)**self.p, 0.0)

    def proj(self, x):
        x = np.asarray(x, dtype=float)
        u = 1 - (x / self.R)**2
        u = np.where(u > 0, u, 0.0)
        return self.c * self.R * u**self.p * np.sqrt(u)

    def source2(self, x, z):
        return self.source(np.hypot(x, z))

    def proj2(self, x, z):
        return self.proj(np.hypot(x, z))

    def spec(self):
        return dict(family='bump', R=self.R, p=self.p)


_GL = {}


def _gl(n):
    if n not in _GL:
        from scipy.special import roots_legendre
        _GL[n] = roots_legendre(n)
    return _GL[n]


class Ring:
    """exp(-(r-r0)^2/w^2) * cos(theta)^k, source cut at the sphere r = Rm."""
    kind = 'ring'

    def __init__(self, r0, w, k, Rm):
        self.r0, self.w, self.k, self.Rm = float(r0), float(w), int(k), float(Rm)

    def scale(self):
        return self.w

    def extent(self):
        return self.r0 + 4 * self.w

    def source2(self, x, z):
        x = np.asarray(x, dtype=float)
        z = np.asarray(z, dtype=float)
        r = np.hypot(x, z)
        rs = np.where(r > 0, r, 1.0)
        c = np.where(r > 0, z / rs, 1.0)
        return np.exp(-(r - self.r0)**2 / self.w**2) * c**self.k

    def radial(self, r):
        return np.exp(-(np.asarray(r, dtype=float) - self.r0)**2 / self.w**2)

    def _integrand(self, x, y, z):
        r = np.sqrt(x * x + y * y + z * z)
        rs = np.where(r > 0, r, 1.0)
        return np.exp(-(r - self.r0)**2 / self.w**2) * np.where(r > 0, z / rs, 1.0)**self.k

    def proj2(self, x, z, nodes=None):
        """2 * int_0^Y f dy, Y = sqrt(Rm^2 - x^2 - z^2), Gauss-Legendre on a
        panel split at the point where the chord crosses the ring (the
        integrand is analytic on each panel)."""
        x, z = np.broadcast_arrays(np.asarray(x, dtype=float), np.asarray(z, dtype=float))
        shp = x.shape
        x = x.ravel()
        z = z.ravel()
        Y2 = self.Rm**2 - x**2 - z**2
        Y = np.sqrt(np.where(Y2 > 0, Y2, 0.0))
        if nodes is None:
            nodes = int(min(400, max(64, 6 * self.Rm / self.w)))
        t, wt = _gl(nodes)
        out = np.zeros_like(x)
        # two panels [0, Yc], [Yc, Y] with Yc where r = r0 (if the chord reaches it)
        yc2 = self.r0**2 - x**2 - z**2
        Yc = np.where(yc2 > 0, np.sqrt(np.where(yc2 > 0, yc2, 0.0)), 0.5 * Y)
        Yc = np.minimum(Yc, Y)
        for a, b in ((np.zeros_like(Y), Yc), (Yc, Y)):
            h = 0.5 * (b - a)
            m = 0.5 * (b + a)
            yy = m[:, None] + h[:, None] * t[None, :]
            out += h * (self._integrand(x[:, None], yy, z[:, None]) * wt[None, :]).sum(axis=1)
        return (2 * out).reshape(shp)

    def proj2_quad(self, x, z):
        """scalar reference: scipy.integrate.quad of the same line integral"""
        from scipy.integrate import quad
        Y2 = self.Rm**2 - x * x - z * z
        if Y2 <= 0:
            return 0.0
        Y = np.sqrt(Y2)
        pts = []
        yc2 = self.r0**2 - x * x - z * z
        if 0 < yc2 < Y2:
            pts = [np.sqrt(yc2)]
        v, _ = quad(lambda y: float(self._integrand(np.float64(x), np.float64(y), np.float64(z))),
                    0, Y, points=pts or None, epsabs=1e-13, epsrel=1e-13, limit=400)
        return 2 * v

    def spec(self):
        return dict(family='ring', r0=self.r0, w=self.w, k=self.k, Rm=self.Rm)


def from_spec(s):
    if s['family'] == 'gauss':
        return Gauss(s['terms'])
    if s['family'] == 'bump':
        return Bump(s['R'], s['p'])
    if s['family'] == 'ring':
        return Ring(s['r0'], s['w'], s['k'], s['Rm'])
    raise ValueError(s)
