# c09_quad.py — quadrature oracles for C09, independent of the Coq model and of
# the translated formulas: the defining line-of-sight integral of each basis
# function, evaluated with scipy.integrate.quad (break points at the kinks).
from __future__ import annotations

import math

import numpy as np
from scipy.integrate import quad


def los(f, x, Rm, breaks=(), **kw):
    """2 * int_0^sqrt(Rm^2-x^2) f(sqrt(x^2+y^2)) dy with break points at radii `breaks`."""
    if Rm <= x:
        return 0.0, 0.0
    Y = math.sqrt(Rm * Rm - x * x)
    pts = sorted({math.sqrt(b * b - x * x) for b in breaks if x < b < Rm})
    lims = [0.0] + pts + [Y]
    tot = 0.0
    err = 0.0
    for a, b in zip(lims[:-1], lims[1:]):
        v, e = quad(lambda y: f(math.hypot(x, y)), a, b, epsabs=1e-13, epsrel=1e-13, limit=200)
        tot += v
        err += e
    return 2 * tot, 2 * err


# ---- daun basis functions (as abel/tests/test_daun.py::daun_bs writes them) ----
def daun_f(deg, j):
    if deg == 0:
        return (lambda r: 1.0 if j - 0.5 <= r < j + 0.5 else 0.0), j + 0.5, [j - 0.5]
    if deg == 1:
        return (lambda r: max(0.0, 1 - abs(r - j))), j + 1, [j - 1, j]
    if deg == 2:
        def f(r):
            t = abs(r - j)
            return 1 - 2 * t * t if t <= 0.5 else (2 * (1 - t) ** 2 if t <= 1 else 0.0)
        return f, j + 1, [j - 1, j - 0.5, j, j + 0.5]
    raise ValueError


def herm_p(u):
    t = abs(u)
    return 1 - 3 * t * t + 2 * t ** 3 if t <= 1 else 0.0


def herm_q(u):
    return u * (1 - abs(u)) ** 2 if abs(u) <= 1 else 0.0


def daun3_f(n, j):
    """cardinal clamped cubic spline through delta_j at knots 0..n-1 (zero end
    slopes), continued on [n-1, n] by the Hermite fall-off of the last knot."""
    from scipy.interpolate import CubicSpline
    y = np.zeros(n)
    y[j] = 1.0
    if n >= 2:
        cs = CubicSpline(np.arange(n, dtype=float), y, bc_type=((1, 0.0), (1, 0.0)))
    else:
        cs = None

    def f(r):
        if r <= n - 1 and cs is not None:
            return float(cs(r))
        if r < n:
            return herm_p(r - (n - 1)) if j == n - 1 else 0.0
        return 0.0
    return f, float(n), list(range(1, n))


# ---- rbasex: radial part of the projection of tri_R(rho) cos^n(theta) ----
def rbasex_entry(n, R, r):
    if r == 0:
        if n == 0:
            return los(lambda s: max(0.0, 1 - abs(s - R)), 0.0, R + 1, [R - 1, R])
        return 0.0, 0.0
    f = lambda s: max(0.0, 1 - abs(s - R)) * (r / s) ** n
    return los(f, float(r), R + 1, [R - 1, R])


# ---- basex ----
def basex_rho(k, sigma, r):
    u = r / sigma
    if k == 0:
        return math.exp(-u * u)
    if r == 0:
        return 0.0
    k2 = k * k
    return math.exp(k2 * (1 - math.log(k2)) + 2 * k2 * math.log(u) - u * u)


def basex_chi(k, sigma, x):
    """2 int_0^inf rho_k(sqrt(x^2+y^2)) dy ; peak of rho_k at r = k sigma, width ~ sigma"""
    peak = k * sigma
    Rm = max(peak, x) + 12 * sigma + 5
    brk = [b for b in (peak - 3 * sigma, peak - sigma, peak, peak + sigma, peak + 3 * sigma) if b > 0]
    return los(lambda s: basex_rho(k, sigma, s), float(x), Rm, brk)


# ---- dasch: inverse Abel integral of the interpolant ----
def inv_abel_pieces(dP, x, lo, hi, breaks):
    """-1/pi int dP(s)/s dy over s in [max(lo,x), hi]"""
    if hi <= x:
        return 0.0, 0.0
    ya = math.sqrt(max(lo, x) ** 2 - x * x)
    yb = math.sqrt(hi * hi - x * x)
    pts = sorted({math.sqrt(b * b - x * x) for b in breaks if max(lo, x) < b < hi})
    lims = [ya] + pts + [yb]
    tot = err = 0.0
    for a, b in zip(lims[:-1], lims[1:]):
        v, e = quad(lambda y: dP(math.hypot(x, y)) / math.hypot(x, y), a, b, epsabs=1e-13, epsrel=1e-13, limit=200)
        tot += v
        err += e
    return -tot / math.pi, err / math.pi


def two_point_interp_d(P):
    """derivative of the piecewise-linear interpolant of samples P (P_n = 0 beyond)"""
    n = len(P)
    Pe = list(P) + [0.0]

    def d(s):
        k = int(math.floor(s))
        return Pe[k + 1] - Pe[k] if 0 <= k < n else 0.0
    return d, float(n), list(range(1, n))


def three_point_interp_d(P):
    """derivative of the piecewise-parabolic interpolant: on [k-1/2, k+1/2] the
    parabola through (k-1, k, k+1); samples beyond the outer end are 0, the
    profile is continued symmetrically about the axis (P_{-1} = P_1), which makes
    P'(s)/s integrable at the axis"""
    n = len(P)
    Pe = [P[1] if n > 1 else 0.0] + list(P) + [0.0, 0.0]

    def d(s):
        k = int(math.floor(s + 0.5))
        if not (0 <= k <= n):
            return 0.0
        pm, p0, pp = Pe[k], Pe[k + 1], Pe[k + 2]
        return (pp - pm) / 2 + (pp - 2 * p0 + pm) * (s - k)
    return d, n + 0.5, [k + 0.5 for k in range(n + 1)]


# ---- single entries (used by the history / cache checks and their replays) ----
def daun_entry(n, deg, j, i):
    """Abel projection at pixel i of the j-th daun basis function (degree 3: the
    clamped cardinal spline of size n)"""
    f, Rm, br = daun3_f(n, j) if deg == 3 else daun_f(deg, j)
    return los(f, float(i), Rm, br)


def dasch_entry(kind, n, i, j):
    """inverse Abel integral at r = i of the two_point / three_point interpolant of
    the unit vector e_j (n samples)"""
    e = np.zeros(n)
    e[j] = 1.0
    d, hi, br = (two_point_interp_d if kind == 'two_point' else three_point_interp_d)(e)
    br = [x for x in br if abs(x - j) <= 2]
    return inv_abel_pieces(d, float(i), max(0.0, j - 2.0), min(hi, j + 2.0), br)


def onion_products(D, a, b):
    """((W D)[a, b], (D W)[a, b]) with W[i][k] = projection at pixel i of the k-th
    ring indicator, by quadrature (row a and column b of W only)"""
    n = D.shape[0]
    row = np.array([los(*(daun_f(0, k)[:1]), float(a), *daun_f(0, k)[1:])[0] for k in range(n)])
    col = np.array([los(*(daun_f(0, b)[:1]), float(k), *daun_f(0, b)[1:])[0] for k in range(n)])
    return float(row @ D[:, b]), float(D[a, :] @ col)
