# runner.py — what tools/props/C01.py (inverse) and C02.py (forward) have in
# common: the oracle tie (pairs.py against the Coq closed forms / integrals),
# the sweep of the envelope, refinement and dr clauses, hits and coverage.
import json
import time

import numpy as np

import vlib
from vlib import Hit
from oracle import pairs, sweep, proved

# Configurations that violate the refinement clause literally on the unchanged
# tree because the method sits on an error floor of its own (DESIGN §3 C01,
# F21/F22).  Value: the floor (error relative to the peak).  For these the test
# is err(finer) <= FLOOR_FACTOR * floor, and a literal violation below that
# bound is reported under the floor key (a recorded finding, not a new one).
FLOORS = {
    'inverse|basex|correction=False': 1.5e-2,
    'forward|basex|correction=False': 1.5e-2,
    'forward|hansenlaw|hold_order=1': 1.1e-3,
    'inverse|basex|reg=1': 8.0e-4,
}

# binary64 noise: differences below this (relative to the peak) are not
# resolved by the refinement clause (daun degree 3 evaluates its cubic-spline
# projections with cancellation ~ n^4 eps: 5e-7 at n = 301)
NOISE = 1e-6


# ---------------------------------------------------------------------------
# oracle tie: the Python oracles against the Coq definitions
# ---------------------------------------------------------------------------

def _rq(x):
    from fractions import Fraction
    f = Fraction(float(x))
    if f.denominator == 1:
        return '(%d)' % f.numerator
    return '(%d / %d)' % (f.numerator, f.denominator)


HEADER = ('From Coq Require Import Reals.\nFrom Coquelicot Require Import Coquelicot.\n'
          'From Interval Require Import Tactic.\nFrom PA Require Import model.AbelPairs.\nOpen Scope R_scope.\n')


def oracle_tie(ctx, rng, pid):
    """Per-instance machine-checked goals: the floats returned by pairs.py are
    enclosed by the Coq terms the theorems of props/C01.v speak about.
      closed forms (gauss_proj, bump_proj, gauss, bump): `interval`, 2^-40 rel.
      ring projections (Abel2 (ring3 ...)): `integral`, 1e-9 relative to the
      ring's peak projection."""
    goals = []
    meta = []
    nclosed = 12 if ctx.quick else 40
    for i in range(nclosed):
        kind = i % 4
        if kind == 0:
            s = float(rng.choice([6.0, 9.0, 15.0, 30.0])) * float(rng.choice([1.0, 0.5, 2.5]))
            x = float(rng.integers(0, 120)) * 0.5
            v = float(pairs.Gauss([(1.0, s)]).proj(x))
            t = 'Rabs (gauss_proj %s %s - %s) <= %s' % (_rq(s), _rq(x), _rq(v), _rq(2.0 ** -40 * max(abs(v), 1e-30)))
            tac = 'unfold gauss_proj. interval with (i_prec 90).'
        elif kind == 1:
            p = 2 + (i // 4) % 3            # every p of the sweep in every run
            R = float(rng.choice([19.2, 40.0, 80.0, 160.0]))
            x = float(rng.integers(0, int(R)))
            v = float(pairs.Bump(R, p).proj(x))
            t = 'Rabs (bump_proj %s %d %s - %s) <= %s' % (_rq(R), p, _rq(x), _rq(v), _rq(2.0 ** -40 * abs(v)))
            tac = 'unfold bump_proj; simpl wallis. interval with (i_prec 90).'
        elif kind == 2:
            s = float(rng.choice([6.0, 9.0, 15.0, 30.0]))
            x = float(rng.integers(0, 100))
            v = float(pairs.Gauss([(1.0, s)]).source(x))
            t = 'Rabs (gauss %s %s - %s) <= %s' % (_rq(s), _rq(x), _rq(v), _rq(2.0 ** -40 * max(abs(v), 1e-30)))
            tac = 'unfold gauss. interval with (i_prec 90).'
        else:
            p = int(rng.integers(2, 5))
            R = float(rng.choice([19.2, 40.0, 80.0]))
            x = float(rng.integers(0, int(R)))
            v = float(pairs.Bump(R, p).source(x))
            t = 'Rabs (bump %s %d %s - %s) <= %s' % (_rq(R), p, _rq(x), _rq(v), _rq(2.0 ** -40 * abs(v)))
            tac = 'unfold bump. interval with (i_prec 90).'
        goals.append('Goal %s.\nProof. %s Qed.\n' % (t, tac))
        meta.append(t)
    texts = [('%s_oracle_closed' % pid, HEADER + '\n'.join(goals))]
    # ring projections: quadrature against Interval's integral
    nring = 3 if ctx.quick else 8
    rmeta = []
    for i in range(nring):
        n = int(rng.choice([51, 101]))
        w = float(rng.choice(sweep.RING_W[n]))
        k = int(rng.choice([0, 2, 4]))
        F = pairs.from_spec(sweep.ring(n, w, k))
        r = F.r0 + float(rng.integers(-8, 9)) * w / 8
        th = float(rng.choice([0.2, 0.6, 1.0, 1.3]))
        x, z = float(round(r * np.sin(th))), float(round(r * np.cos(th)))
        v = float(F.proj2(x, z))
        vq = float(F.proj2_quad(x, z))
        tol = 1e-9 * F.w * 2
        t = 'Rabs (Abel2 (ring3 %s %s %d) %s %s %s - %s) <= %s' % (_rq(F.r0), _rq(F.w), k, _rq(F.Rm), _rq(x), _rq(z),
                                                                  _rq(v), _rq(tol))
        texts.append(('%s_oracle_ring%d' % (pid, i),
                      HEADER + 'Goal %s.\nProof. unfold Abel2, ring3. integral with (i_prec 60, i_fuel 600, i_degree 12). Qed.\n' % t))
        rmeta.append(dict(goal=t, gl=v, quad=vq, agree=abs(v - vq) <= tol))
    outs = vlib.coq_eval_many(texts, timeout=600)
    failed = []
    for name, _ in texts:
        rc, out = outs[name]
        if rc != 0:
            failed.append((name, out[-600:]))
    quad_bad = [m for m in rmeta if not m['agree']]
    return dict(goals=len(goals) + nring, failed=failed, quad_bad=quad_bad,
                samples=[meta[0], meta[1]] + [m['goal'] for m in rmeta[:1]])


# ---------------------------------------------------------------------------
# the sweep
# ---------------------------------------------------------------------------

def classkey(cfg):
    return '%s|%s|%s' % (cfg['dir'], cfg['method'], sweep.optkey(cfg['opts']))


def choose(ctx, rng, direction, env, budget_factor=1):
    """the configurations of this run"""
    U = sweep.universe(direction)
    laws = env['laws']
    chosen = {}

    def add(c, via=None):
        c = sweep.assign(c, rng, via=via)
        chosen.setdefault(sweep.cfgkey(c), c)

    if ctx.quick:
        small = [c for c in U if c['n'] <= 101]
        # the tightest calibrated configuration of one law per option class
        byclass = {}
        for k, law in laws.items():
            if k.startswith(direction + '|') and law.get('tight_quick'):
                byclass.setdefault(classkey(law['tight_quick']), []).append(law['tight_quick'])
        for ck in sorted(byclass):
            lst = byclass[ck]
            add(lst[rng.integers(len(lst))])
        # whole-image methods: every (option class, size) once, with the most anisotropic admissible source
        # (errors of the angular machinery often need a particular size residue or angular order to show)
        groups = {}
        for c in small:
            if c['method'] in sweep.FULL_METHODS:
                groups.setdefault((classkey(c), c['n']), []).append(c)
        paths = ['full', 'Transform', 'quad']       # every public entry point in turn (quad: linbasex_transform)
        for gi, g in enumerate(sorted(groups)):
            lst = groups[g]
            kmax = max(c['fam'].get('k', -1) for c in lst)
            best = [c for c in lst if c['fam'].get('k', -1) == kmax]
            add(best[rng.integers(len(best))], via=paths[(gi + ctx.seed) % 3])
        total = max(len(chosen) + 100, (400 if direction == 'inverse' else 300)) * budget_factor
        idx = rng.permutation(len(small))
        for i in idx:
            if len(chosen) >= total:
                break
            add(small[i])
    else:
        for rep in range(3):         # three draws of rows / dr / image height / call path
            for c in U:
                add(c)
        for k, law in laws.items():
            if k.startswith(direction + '|'):
                add(law['tight'])
    return list(chosen.values())


def mk_hit(pid, clause, key, what, cfg, data, extra=None):
    d = dict(cfg=json.dumps(cfg), clause=clause, fine='null', lo=0, hi=0, lo1=0, hi1=0, bound_expr='0')
    d.update(extra or {})
    return Hit(clause, key, what, sweep.SNIPPET % d, data)


def run_sweep(ctx, rng, direction, pid, enlarged=False):
    env = sweep.load_envelopes()
    hits = []
    stats = dict(envelope=0, refinement=0, dr=0, uncalibrated=0, raised=0, worst_ratio=0.0, nontrivial=set(),
                 samples=[], dist={})
    t0 = time.time()
    cfgs = choose(ctx, rng, direction, env, budget_factor=3 if enlarged else 1)
    # keep configurations that share a basis set together
    cfgs.sort(key=lambda c: (c['method'], c['n'], c['via'], sweep.optkey(c['opts'])))
    for c in cfgs:
        E, law = sweep.envelope(c, env)
        if E is None:
            stats['uncalibrated'] += 1
            continue
        try:
            r = sweep.evaluate(c)
        except Exception as e:  # noqa
            stats['raised'] += 1
            hits.append(mk_hit(pid, 'envelope', '%s:raises:%s' % (pid, sweep.envkey(c)),
                               '%s %s options %s raises %s on a smooth %s input (n=%d)' % (
                                   c['dir'], c['method'], c['opts'], type(e).__name__, c['fam']['family'], c['n']),
                               c, dict(cfg=c, exception=repr(e)[:300])))
            continue
        stats['envelope'] += 1
        dk = '%s/%s' % (c['method'], sweep.famkind(c['fam']))
        stats['dist'][dk] = stats['dist'].get(dk, 0) + 1
        ratio = r['err'] / E
        stats['worst_ratio'] = max(stats['worst_ratio'], ratio)
        if r['err'] > 1e-9:
            stats['nontrivial'].add(sweep.envkey(c) + '|n=%d|' % c['n'] + json.dumps(c['fam'], sort_keys=True))
        if len(stats['samples']) < 5:
            stats['samples'].append(dict(config={k: c[k] for k in ('dir', 'method', 'via', 'opts', 'fam', 'n', 'rows', 'dr')},
                                         error=r['err'], envelope=E, pixel=r['pix']))
        if not (r['err'] <= E):
            what = ('%s %s (%s) options %s, %s n=%d rows=%d dr=%g: error %.3g of the peak at pixel %s exceeds the '
                    'envelope %.3g = 1.5*%.3g*(dr/scale)^%.3g' % (
                        c['dir'], c['method'], c['via'], c['opts'] or '{}', json.dumps(c['fam']), c['n'], c['rows'],
                        c['dr'], r['err'], r['pix'], E, law['K'], law['q']))
            hits.append(mk_hit(pid, 'envelope', '%s:envelope:%s' % (pid, sweep.envkey(c)), what, c,
                               dict(cfg=c, error=r['err'], envelope=E, pixel=r['pix'], got=r['got'], true=r['want'], law=law)))
    t1 = time.time()
    # refinement ------------------------------------------------------------
    for method, optl in sweep.OPTIONS[direction].items():
        for opts in optl:
            ck = '%s|%s|%s' % (direction, method, sweep.optkey(opts))
            bases = sweep.refine_bases(method, opts, thorough=not ctx.quick)
            if ctx.quick and not enlarged and method in sweep.FULL_METHODS and len(bases) > 1:
                bases = [bases[int(rng.integers(len(bases)))]]      # quick: one base per whole-image class
            for base in bases:
                # classes with a recorded error floor are always refined as far as the thorough tier
                # goes (the recorded growth of basex correction=False shows only between 201 and 301 px),
                # so that the KNOWN-FINDING line is printed by every run
                chain = sweep.refine_chain(direction, method, opts, base,
                                           thorough=(not ctx.quick) or (ck in FLOORS and base['n0'] == 26))
                amp = float(rng.choice([1.0, 3.0, 0.25]))
                prev = None
                for (c, lo, hi) in chain:
                    if opts.get('reg') in ('nonneg', 'pos') and c['n'] > 101:
                        continue
                    c = dict(c)
                    c['fam'] = _amp(c['fam'], amp)
                    try:
                        e = sweep.region_error(c, lo, hi)
                    except Exception as ex:  # noqa
                        stats['raised'] += 1
                        hits.append(mk_hit(pid, 'refinement', '%s:raises:%s' % (pid, ck),
                                           '%s %s options %s raises %s at n=%d' % (direction, method, opts, type(ex).__name__, c['n']),
                                           c, dict(cfg=c, exception=repr(ex)[:300])))
                        break
                    stats['refinement'] += 1
                    if prev is not None:
                        pc, pe, plo, phi = prev
                        literal = max(pe[0] * (1 + sweep.REFINE_SLACK), NOISE)
                        if not (e[0] <= literal):
                            floor = FLOORS.get(ck)
                            if floor is not None and e[0] <= sweep.FLOOR_FACTOR * floor:
                                key = '%s:refinement-floor:%s' % (pid, ck)
                                # the recorded finding is the literal violation: the replay shows it
                                bound_expr = 'max(e0[0] * (1 + %r), %r)' % (sweep.REFINE_SLACK, NOISE)
                                what = ('%s %s options %s sits on an error floor (%.3g of the peak): error %.4g at n=%d grows to '
                                        '%.4g at n=%d under %gx finer sampling of the same %s' % (
                                            direction, method, opts, floor, pe[0], pc['n'], e[0], c['n'],
                                            (c['n'] - 1) / (pc['n'] - 1), base['name']))
                            else:
                                key = '%s:refinement:%s' % (pid, ck)
                                bound_expr = 'max(e0[0] * (1 + %r), %r)' % (sweep.REFINE_SLACK, NOISE)
                                what = ('%s %s options %s: error %.4g of the peak at n=%d grows to %.4g at n=%d (pixel %s) when the same '
                                        '%s is sampled %gx finer' % (direction, method, opts, pe[0], pc['n'], e[0], c['n'], e[1],
                                                                     base['name'], (c['n'] - 1) / (pc['n'] - 1))
                                        + ('; above 1.25 x the recorded floor %.3g' % floor if floor is not None else ''))
                            hits.append(mk_hit(pid, 'refinement', key, what, pc,
                                               dict(coarse=pc, fine=c, error_coarse=pe[0], error_fine=e[0], pixel=e[1]),
                                               extra=dict(fine=json.dumps(c), lo=plo, hi=phi, lo1=lo, hi1=hi,
                                                          bound_expr=bound_expr)))
                    prev = (c, e, lo, hi)
    t2 = time.time()
    # dr --------------------------------------------------------------------
    for method, optl in sweep.OPTIONS[direction].items():
        if method in sweep.FULL_METHODS:
            continue
        for opts in optl:
            n = int(rng.choice([25, 51] if ctx.quick else [25, 51, 101]))
            fams = sweep.families_1d(n)
            fam = fams[int(rng.integers(len(fams)))]
            if 'r' in opts:
                # explicit radial grid: unit covariance T[s r] = s T[r] (inverse 1/s), every unit of the sweep
                for d in sweep.UNITS[1:] + [0.37]:
                    c = dict(dir=direction, method=method, via='func', opts=opts, fam=fam, n=n, rows=2, dr=d, pass_dr=True)
                    c1 = dict(c, dr=1.0)
                    try:
                        data = np.array(sweep.make_data(c1)[0], dtype=float)
                        a = sweep.run_method(c, data.copy())
                        b = sweep.run_method(c1, data.copy())
                    except Exception:  # noqa
                        stats['raised'] += 1
                        continue
                    sc = d if direction == 'forward' else 1.0 / d
                    dev = float(np.max(np.abs(a - sc * b)) / np.max(np.abs(sc * b)))
                    stats['dr'] += 1
                    if not (dev <= 1e-9):
                        hits.append(mk_hit(pid, 'dr-scale', '%s:dr-scale:%s|%s' % (pid, method, sweep.optkey(opts)),
                                           '%s %s options %s: the result on the grid %g*r is not %g times the result on the grid r '
                                           '(relative deviation %.3g)' % (direction, method, opts, d, sc, dev), c,
                                           dict(cfg=c, deviation=dev)))
                continue
            d = float(rng.choice([0.5, 0.1, 2.5, 0.37, 1e-3, 1e-6]))
            c = dict(dir=direction, method=method, via='func', opts=opts, fam=fam, n=n, rows=int(rng.choice(sweep.ROWS)),
                     dr=d, pass_dr=True)
            c1 = dict(c, dr=1.0)
            try:
                data = np.array(sweep.make_data(c1)[0], dtype=float)
                a = sweep.run_method(c, data.copy())
                b = sweep.run_method(c1, data.copy())
            except Exception:  # noqa
                stats['raised'] += 1
                continue
            s = d if direction == 'forward' else 1.0 / d
            dev = float(np.max(np.abs(a - s * b)) / np.max(np.abs(s * b)))
            stats['dr'] += 1
            if not (dev <= 1e-12):
                hits.append(mk_hit(pid, 'dr-scale', '%s:dr-scale:%s|%s' % (pid, method, sweep.optkey(opts)),
                                   '%s %s options %s: the result with dr=%g is not %g times the result with dr=1 (relative deviation %.3g)'
                                   % (direction, method, opts, d, s, dev), c, dict(cfg=c, deviation=dev)))
    stats['time'] = dict(envelope=round(t1 - t0, 1), refinement=round(t2 - t1, 1), dr=round(time.time() - t2, 1))
    return hits, stats


def _amp(fam, a):
    f = json.loads(json.dumps(fam))
    if f['family'] == 'gauss':
        f['terms'] = [[t[0] * a, t[1]] for t in f['terms']]
    return f


# ---------------------------------------------------------------------------

def run(ctx, pid, direction):
    rng = np.random.default_rng(ctx.seed)
    pr = vlib.coq_props(pid, translators=['formulas_basis'])   # exact-on-span theorems are about the regenerated daun formulas
    ctx.cov.update(theorems=pr['theorems'], axioms=pr['axioms'],
                   checker_cmd='make -C /verif/coq props/%s.vo (coqc 8.16.1, full .vo build) + Print Assumptions; '
                               'coqc cases/%s_oracle_*.v (Interval goals)' % (pid, pid))
    tie = oracle_tie(ctx, rng, pid)
    tie_ok = not tie['failed'] and not tie['quad_bad']
    ctx.cov.update(obligations=len(pr['theorems']) + tie['goals'],
                   discharged=pr['discharged'] + (tie['goals'] if not tie['failed'] else 0),
                   oracle_tie_goals=tie['goals'], oracle_tie_failed=[f[0] for f in tie['failed']])
    # stretch 2: the operator the convergence theorems speak about is the operator of the implementation
    optie = proved.operator_tie(ctx, rng, pid)
    ctx.cov['obligations'] += optie['goals']
    ctx.cov['discharged'] += optie['goals'] if not optie['failed'] else 0
    ctx.cov['operator_tie'] = dict(goals=optie['goals'], failed=bool(optie['failed']), left_inverse=optie['left_inverse'],
                                   samples=optie['samples'])
    broken = (not pr['ok']) or (not tie_ok) or (not optie['ok'])
    hits, st = run_sweep(ctx, rng, direction, pid, enlarged=broken and ctx.quick)
    if direction == 'forward':
        chits, cn, cworst = proved.forward_consequences(ctx, rng, pid)
    else:
        chits, cn, cworst = proved.inverse_consequences(ctx, rng, pid)
    hits += chits
    ctx.cov['proved_per_method'] = proved.PER_METHOD[pid]
    ctx.cov['theorem_consequences'] = dict(evaluations=cn, worst_error_over_proved_bound=round(cworst, 4),
                                           note='implied by the theorems + the operator tie; evaluated at every pixel')
    ctx.cov.update(
        evaluations=st['envelope'] + st['refinement'] + 2 * st['dr'] + cn,
        distinct_nontrivial=len(st['nontrivial']),
        traces_validated_against_impl=st['envelope'] + st['refinement'] + 2 * st['dr'],
        rule='a sweep configuration is distinct by (direction, method, option class, family and its parameters, rows/image path, size) '
             'and non-trivial when its error exceeds 1e-9 of the peak; refinement and dr evaluations are counted in '
             'evaluations only',
        samples=st['samples'],
        input_distribution=st['dist'],
        sweep=dict(envelope_configurations=st['envelope'], refinement_evaluations=st['refinement'],
                   dr_pairs=st['dr'], uncalibrated_skipped=st['uncalibrated'], raised=st['raised'],
                   worst_error_over_envelope=round(st['worst_ratio'], 4), seconds=st['time']),
        swept_only=['envelope (error <= 1.5*K*(dr/scale)^q per law of tools/oracle/envelopes.json)',
                    'refinement (error does not grow under finer sampling)',
                    'dr-scale (result scales exactly with dr)'],
        exhaustive=False,
        trusted_base=vlib.TRUSTED_COMMON + [
            'axioms reported by Print Assumptions: ' + ', '.join(pr['axioms']),
            'int_0^infinity exp(-t^2) dt = sqrt(pi)/2 (not proved; the Gaussian oracle of the sweep is the infinite-range '
            'closed form, the theorems enclose the finite-range integral)',
            'equivalence of the proper (line-of-sight) and the singular textbook form of the Abel integral',
            'Gauss-Legendre quadrature of the ring projections (numpy/scipy; enclosed by Interval at sampled pixels only)',
            'tools/oracle/envelopes.json: laws fitted on the unchanged tree (a calibration, not a derivation)',
        ])
    new = 0
    seen = set()
    for h in hits:
        if (h.key, h.clause) in seen:
            continue
        seen.add((h.key, h.clause))
        if ctx.report_hit(h):
            new += 1
    if not pr['ok'] and new == 0:
        ctx.report_broken('proof', pr['broken'] or 'props/%s.v' % pid, pr['error'] or '')
    if not tie_ok and new == 0:
        ctx.report_broken('oracle-tie', 'tools/oracle/pairs.py vs coq/model/AbelPairs.v',
                          json.dumps(dict(failed=tie['failed'][:2], quad_disagreements=tie['quad_bad'][:2]))[:3000])
    if not optie['ok'] and new == 0:
        ctx.report_broken('operator-tie', 'abel/daun.py forward operator vs gen/FormulasBasis.v daun_p0/daun_p1 '
                          '(and left-inverse property of the inverse operators)',
                          json.dumps(dict(failed=optie['failed'][:1], left_inverse=[x for x in optie['left_inverse'] if not x['ok']]))[:3000])
    ctx.assumptions += [
        'convergence theorems (props/C02.v C02_forward_daun0/1_*; C01 *_partial) hold for every n; they reach the implementation '
        'through the generated formulas (regenerated from abel/daun.py every run) whose entries are enclosed by Interval goals against '
        'the operator the implementation applies (n up to 51 quick / 201 thorough) and through the C09 entry theorems',
        'LEVEL proof applies to the oracle theorems only (the ground-truth pairs are true Abel pairs, the dr scaling law); '
        'the envelope, refinement and dr-scale clauses are decided by a numeric sweep of the implementation against those '
        'oracles and a sweep pass is not a proof',
        'envelopes are laws K*(dr/scale)^q fitted once on the unchanged tree (tools/oracle/calibrate.py), times 1.5, plus '
        '20*exp(-((n-1)/sigma)^2) for the part of a Gaussian cut off by the image edge',
        'judged pixels: |x| >= %d px from the axis, r <= n-1-max(3, n//10); linbasex image only for r >= 0.3(n-1)' % sweep.AXIS_EXCL,
        'refinement differences below %g of the peak are treated as binary64 noise' % NOISE,
        'adequately sampled is read as: smallest width >= 6 px, (n-1) >= 4 sigma_max for Gaussians, ring radius >= 4 widths',
    ]
