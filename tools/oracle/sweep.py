# sweep.py — the numeric sweep behind the envelope / refinement / dr clauses
# of C01 (inverse) and C02 (forward).  Shared by tools/props/C01.py, C02.py and
# tools/oracle/calibrate.py.
#
# A *configuration* is a dict
#   dir      'inverse' | 'forward'
#   method   one of the ten
#   via      'func'      half-image transform function, 1-D family replicated
#                        over `rows` rows with per-row amplitudes
#            'Transform' abel.Transform on a whole (H x (2n-1)) image of the 3-D
#                        family (isotropic families and anisotropic rings)
#            'full'      linbasex_transform_full / rbasex_transform directly
#   opts     dict of documented options of the method (without dr)
#   fam      family spec in *pixel units* (tools/oracle/pairs.py)
#   n        half-width in pixels (columns of the half image)
#   rows     number of rows (func) / image height (Transform, full)
#   dr       pixel size passed to the method; the family is then defined in
#            physical units (pixel-unit lengths times dr)
#
# Errors are relative to the peak of the truth and are taken over the pixels
#   AXIS_EXCL <= r/dr  and  r/dr <= n-1-edge(n),   edge(n) = max(3, n//10)
# (column index for row-wise data, polar radius for whole images).
import contextlib
import io
import json
import os
import warnings

import numpy as np

from oracle import pairs

AXIS_EXCL = 3           # pixels next to the symmetry axis that are not judged
ENV_FACTOR = 1.5        # safety factor on the fitted law
REFINE_SLACK = 1e-6     # err(finer) <= err(coarser) * (1 + REFINE_SLACK)
FLOOR_FACTOR = 1.25     # for configurations recorded as sitting on an error floor
ROUND_ABS = 1e-12       # errors below this (relative to the peak) are rounding noise

HALF_METHODS = ['basex', 'daun', 'direct', 'hansenlaw', 'onion_bordas',
                'onion_peeling', 'two_point', 'three_point']
FULL_METHODS = ['linbasex', 'rbasex']
FORWARD_METHODS = ['basex', 'daun', 'direct', 'hansenlaw', 'rbasex']

ENVELOPES = os.path.join(os.path.dirname(os.path.abspath(__file__)), 'envelopes.json')


def edge(n):
    return max(3, n // 10)


# ---------------------------------------------------------------------------
# option classes
# ---------------------------------------------------------------------------

def optkey(opts):
    """canonical text of an option dict (the "option class")"""
    if not opts:
        return '-'
    items = []
    for k in sorted(opts):
        v = opts[k]
        if isinstance(v, float):
            v = ('%g' % v)
        elif isinstance(v, (list, tuple)):
            v = '(' + ','.join(('%g' % x) if isinstance(x, float) else str(x) for x in v) + ')'
        items.append('%s=%s' % (k, v))
    return ','.join(items)


def famkind(fam):
    if fam['family'] == 'gauss':
        return 'gauss'
    if fam['family'] == 'bump':
        return 'bump%d' % fam['p']
    return 'ring%d' % fam['k']


def envkey(cfg):
    if cfg['method'] in HALF_METHODS:
        via = 'rows' if cfg['via'] == 'func' else 'image'
    else:
        via = 'image'
    return '%s|%s|%s|%s|%s' % (cfg['dir'], cfg['method'], optkey(cfg['opts']), famkind(cfg['fam']), via)


def cfgkey(cfg):
    return '%s|%s|n=%d|rows=%d|dr=%g|%s|%s' % (envkey(cfg), cfg['via'], cfg['n'], cfg['rows'], cfg['dr'],
                                              cfg.get('history'), json.dumps(cfg['fam'], sort_keys=True))


def hvar(cfg):
    """the resolution variable of the law: dr / (smallest length of the family)"""
    return 1.0 / pairs.from_spec(cfg['fam']).scale()


def trunc_allow(cfg):
    """allowance for the part of a Gaussian cut off by the image edge"""
    f = cfg['fam']
    if f['family'] != 'gauss':
        return 0.0
    s = max(t[1] for t in f['terms'])
    return 20.0 * float(np.exp(-((cfg['n'] - 1) / s) ** 2))


# ---------------------------------------------------------------------------
# running the implementation
# ---------------------------------------------------------------------------

def _quiet():
    return contextlib.redirect_stdout(io.StringIO())


def scaled_family(cfg):
    """family in physical units"""
    f = dict(cfg['fam'])
    d = cfg['dr']
    if f['family'] == 'gauss':
        f['terms'] = [(a, s * d) for a, s in f['terms']]
    elif f['family'] == 'bump':
        f['R'] = f['R'] * d
    else:
        f['r0'], f['w'], f['Rm'] = f['r0'] * d, f['w'] * d, f['Rm'] * d
    return pairs.from_spec(f)


def row_amps(rows):
    return 1.0 + 0.5 * np.arange(rows)


STRETCH = 0.002          # stretched mesh: g(i) = i (1 + STRETCH i): spacing grows by 0.4 % of a pixel per cell
UNITS = [1.0, 1e-3, 1e-6, 1e-9]


def mesh(cfg):
    """radial grid in pixel units: i, or the stretched mesh for the direct option r='stretched'"""
    i = np.arange(cfg['n'], dtype=float)
    if cfg['opts'].get('r') == 'stretched':
        return i * (1 + STRETCH * i)
    return i


def make_data(cfg):
    """(input, truth, rpix, xpix) for a configuration.  rpix / xpix: radius /
    distance from the symmetry axis, in pixels, of every element."""
    n, rows, d = cfg['n'], cfg['rows'], cfg['dr']
    F = scaled_family(cfg)
    if cfg['via'] == 'func':
        r = mesh(cfg) * d
        amp = row_amps(rows)[:, None]
        src = amp * F.source(r)[None, :]
        prj = amp * F.proj(r)[None, :]
        rpix = np.broadcast_to(np.arange(n, dtype=float)[None, :], (rows, n))
        xpix = rpix
    else:
        H, W = rows, 2 * n - 1
        off = offset_of(cfg)                     # (rows, columns) by which the origin is displaced from the centre
        if off != (0, 0):
            # off-centre origin: cut the window out of a larger centred image
            big = dict(cfg, n=n + OFFSET_MAX, rows=2 * (n + OFFSET_MAX) - 1, opts={})
            bi, bt, _, _ = make_data(big)
            r0, c0 = (H - 1) // 2 + off[0], n - 1 + off[1]
            rs, cs = (n + OFFSET_MAX - 1) - r0, (n + OFFSET_MAX - 1) - c0
            inp, tru = bi[rs:rs + H, cs:cs + W], bt[rs:rs + H, cs:cs + W]
            X, Z = np.meshgrid((np.arange(W) - c0) * d, (np.arange(H) - r0) * d)
            return inp, tru, np.hypot(X, Z) / d, np.abs(X) / d + 0 * Z
        zi = np.arange(H) - (H - 1) / 2.0
        xi = np.arange(W) - (n - 1)
        X, Z = np.meshgrid(xi * d, zi * d)
        key = (json.dumps(cfg['fam'], sort_keys=True), n, rows, d)
        if key not in _IMG_CACHE:
            if len(_IMG_CACHE) > 6:
                _IMG_CACHE.clear()
            # use the symmetry of the families: evaluate one quadrant
            hq, wq = (H + 1) // 2, n
            Xq, Zq = X[H - hq:, n - 1:], Z[H - hq:, n - 1:]
            sq, pq = F.source2(Xq, Zq), F.proj2(Xq, Zq)

            def unfold(q):
                right = np.vstack([q[::-1][:H - hq], q]) if H % 2 == 0 else np.vstack([q[:0:-1], q])
                return np.hstack([right[:, :0:-1], right])
            _IMG_CACHE[key] = (unfold(sq), unfold(pq))
        src, prj = _IMG_CACHE[key]
        xpix = np.abs(X) / d + 0 * Z
        rpix = np.hypot(X, Z) / d
        if cfg['method'] in HALF_METHODS:
            # row-wise methods: the judged region is defined per row
            rpix = xpix
    if cfg['dir'] == 'inverse':
        return prj, src, rpix, xpix
    return src, prj, rpix, xpix


_IMG_CACHE = {}
OFFSET_MAX = 3


def offset_of(cfg):
    """rbasex option origin='offset': the image origin is 2 rows above and 3 columns right of the centre"""
    return (-2, 3) if cfg['opts'].get('origin') == 'offset' else (0, 0)


def run_method(cfg, data):
    """apply the implementation; returns the transformed array"""
    import abel
    m, direction, opts, d = cfg['method'], cfg['dir'], dict(cfg['opts']), cfg['dr']
    pass_dr = cfg.get('pass_dr', True)
    if 'reg' in opts and isinstance(opts['reg'], list):
        opts['reg'] = tuple(opts['reg'])            # JSON round trip
    if opts.get('r') in ('grid', 'stretched'):      # direct: explicit radial grid (uniform / stretched) instead of dr
        opts['r'] = mesh(cfg) * d
        pass_dr, d = False, 1
    if opts.get('origin') == 'tuple':               # rbasex: explicit (row, column) of the centre
        opts['origin'] = ((cfg['rows'] - 1) // 2, cfg['n'] - 1)
    if opts.get('origin') == 'offset':              # rbasex: origin away from the image centre
        o = offset_of(cfg)
        opts['origin'] = ((cfg['rows'] - 1) // 2 + o[0], cfg['n'] - 1 + o[1])
    with warnings.catch_warnings(), np.errstate(all='ignore'), _quiet():
        warnings.simplefilter('ignore')
        if cfg['via'] == 'func':
            kw = dict(opts)
            if pass_dr or d != 1:
                kw['dr'] = d
            if m == 'basex':
                out = abel.basex.basex_transform(data, basis_dir=None, verbose=False, direction=direction, **kw)
            elif m == 'daun':
                out = abel.daun.daun_transform(data, basis_dir=None, verbose=False, direction=direction, **kw)
            elif m == 'direct':
                out = abel.direct.direct_transform(data, direction=direction, backend='python', **kw)
            elif m == 'hansenlaw':
                out = abel.hansenlaw.hansenlaw_transform(data, direction=direction, **kw)
            elif m == 'onion_bordas':
                out = abel.onion_bordas.onion_bordas_transform(data, direction=direction, **kw)
            elif m in ('onion_peeling', 'two_point', 'three_point'):
                fn = getattr(abel.dasch, m + '_transform')
                out = fn(data, basis_dir=None, verbose=False, direction=direction, **kw)
            else:
                raise ValueError(m)
            return np.atleast_2d(np.asarray(out, dtype=float))
        if cfg['via'] == 'Transform':
            kw = dict(opts)
            if m in ('basex', 'daun', 'onion_peeling', 'two_point', 'three_point', 'linbasex', 'rbasex'):
                kw['basis_dir'] = None
            if m in ('basex', 'daun', 'onion_peeling', 'two_point', 'three_point', 'linbasex', 'rbasex'):
                kw['verbose'] = False
            if m == 'direct':
                kw['backend'] = 'python'
            if m not in ('rbasex', 'linbasex') and (pass_dr or d != 1):
                kw['dr'] = d
            if m == 'linbasex':
                kw.pop('dr', None)
            T = abel.Transform(data, direction=direction, method=m, transform_options=kw, verbose=False)
            out = np.asarray(T.transform, dtype=float)
            return out, T
        if cfg['via'] == 'quad':                     # the half-image front end of linbasex on the Q0 quadrant
            n = cfg['n']
            out = abel.linbasex.linbasex_transform(data[:n, n - 1:], basis_dir=None, verbose=False, **opts)
            return np.asarray(out, dtype=float), None
        if cfg['via'] == 'full':
            if m == 'linbasex':
                res = abel.linbasex.linbasex_transform_full(data, basis_dir=None, verbose=False, **opts)
                return np.asarray(res[0], dtype=float), res
            if m == 'rbasex':
                rec, distr = abel.rbasex.rbasex_transform(data, direction=direction, basis_dir=None,
                                                          verbose=False, **opts)
                return np.asarray(rec, dtype=float), distr
        raise ValueError(cfg['via'])


def judged(cfg, rpix, xpix):
    """mask of the pixels that are judged ("away from the symmetry axis and the
    outer edge"): AXIS_EXCL <= |x| (distance from the axis), r <= n-1-edge(n);
    whole-image methods also r >= AXIS_EXCL; linbasex divides its Newton-sphere
    intensities by 4 pi r^2 when it draws the image, so its image is judged
    only for r >= 0.3 (n-1)."""
    n = cfg['n']
    m = (xpix >= AXIS_EXCL) & (rpix <= n - 1 - edge(n) - (OFFSET_MAX if offset_of(cfg) != (0, 0) else 0))
    if cfg['method'] in FULL_METHODS:
        m &= rpix >= AXIS_EXCL
    if cfg['method'] == 'linbasex':
        m &= rpix >= 0.3 * (n - 1)
    return m


HISTORIES = [None, 'SVD', 'L2', 'diff', 'pos', 'weights']


def run_history(cfg, data, truth):
    """rbasex: other calls in the same process, with the same image geometry, order and parity, before the
    judged call (regularised inverses, masked weights): the judged result must not depend on them"""
    import abel
    h = cfg.get('history')
    if not h or cfg['method'] != 'rbasex':
        return
    prj = truth if cfg['dir'] == 'forward' else data
    opts = dict(cfg['opts'])
    kw = dict(order=opts.get('order', 2), odd=opts.get('odd', False))
    if opts.get('origin') == 'tuple':
        kw['origin'] = ((cfg['rows'] - 1) // 2, cfg['n'] - 1)
    if opts.get('origin') == 'offset':
        o = offset_of(cfg)
        kw['origin'] = ((cfg['rows'] - 1) // 2 + o[0], cfg['n'] - 1 + o[1])
    with warnings.catch_warnings(), np.errstate(all='ignore'), _quiet():
        warnings.simplefilter('ignore')
        if h == 'weights':
            w = np.ones_like(prj)
            w[: prj.shape[0] // 3, : prj.shape[1] // 3] = 0
            abel.rbasex.rbasex_transform(np.array(prj, dtype=float), weights=w, out=None, verbose=False, **kw)
        else:
            reg = {'SVD': ('SVD', 0.05), 'L2': ('L2', 10.0), 'diff': ('diff', 10.0), 'pos': 'pos'}[h]
            if h == 'pos' and (kw['odd'] or kw['order'] % 2 == 1) and kw['order'] > 1:
                reg = ('L2', 1.0)                   # 'pos' is not implemented for odd orders > 1
            abel.rbasex.rbasex_transform(np.array(prj, dtype=float), reg=reg, out=None, verbose=False, **kw)


def _run(cfg):
    """-> (result, truth, rpix, xpix, extra) with result/truth of equal shape"""
    data, truth, rpix, xpix = make_data(cfg)
    run_history(cfg, data, truth)
    res = run_method(cfg, np.array(data, dtype=float, copy=True))
    extra = None
    if isinstance(res, tuple):
        res, extra = res
    if cfg['via'] == 'quad':
        n = cfg['n']
        truth, rpix, xpix = truth[:n, n - 1:], rpix[:n, n - 1:], xpix[:n, n - 1:]
    if cfg['opts'].get('out') == 'fold':
        n = cfg['n']
        h = (cfg['rows'] + 1) // 2
        truth, rpix, xpix = truth[:h, n - 1:], rpix[:h, n - 1:], xpix[:h, n - 1:]
    if cfg['opts'].get('out') == 'full' and offset_of(cfg) != (0, 0):
        # all radii up to rmax = the largest radius with one full quadrant of data, centred on the origin:
        # the truth there is the centred image of that half-size
        n, o = cfg['n'], offset_of(cfg)
        rm = n - 1 + min(abs(o[0]), abs(o[1]))
        big = make_data(dict(cfg, n=rm + 1, rows=2 * rm + 1, opts={}))
        truth, rpix, xpix = big[1], big[2], big[3]
    return res, truth, rpix, xpix, extra


def evaluate(cfg, want_arrays=False):
    """run one configuration; returns dict(err, pix, got, want, peak, ...)"""
    res, truth, rpix, xpix, extra = _run(cfg)
    if res.shape != truth.shape:
        return dict(err=float('inf'), pix=None, got=None, want=None, peak=None,
                    shape_mismatch=(list(res.shape), list(truth.shape)))
    peak = float(np.max(np.abs(truth)))
    mask = judged(cfg, rpix, xpix)
    E = np.where(mask, np.abs(res - truth), 0.0) / peak
    E = np.where(np.isfinite(E), E, np.inf)
    k = int(np.argmax(E))
    pix = np.unravel_index(k, E.shape)
    out = dict(err=float(E[pix]), pix=[int(pix[0]), int(pix[1])], got=float(res[pix]), want=float(truth[pix]),
               peak=peak, judged=int(mask.sum()))
    if want_arrays:
        out.update(res=res, truth=truth, mask=mask, rpix=rpix, extra=extra)
    return out


def region_error(cfg, lo_phys, hi_phys):
    """max relative error over the judged pixels with lo <= |x|, r <= hi in
    *physical* units — the refinement clause compares the same physical region
    on a coarse and a fine grid"""
    res, truth, rpix, xpix, extra = _run(cfg)
    if res.shape != truth.shape:
        return float('inf'), None, None, None
    peak = float(np.max(np.abs(truth)))
    d = cfg['dr']
    mask = judged(cfg, rpix, xpix) & (xpix * d >= lo_phys - 1e-9) & (rpix * d <= hi_phys + 1e-9)
    E = np.where(mask, np.abs(res - truth), 0.0) / peak
    E = np.where(np.isfinite(E), E, np.inf)
    k = int(np.argmax(E))
    pix = np.unravel_index(k, E.shape)
    return float(E[pix]), [int(pix[0]), int(pix[1])], float(res[pix]), float(truth[pix])


# ---------------------------------------------------------------------------
# the universe of configurations
# ---------------------------------------------------------------------------

A3 = [0.0, 0.9553166181245093, float(np.pi / 2)]     # 0, magic angle, 90 degrees
A4 = [0.0, float(np.pi / 6), float(np.pi / 3), float(np.pi / 2)]

OPTIONS = {
    'inverse': {
        'basex': [{}, {'sigma': 2.0}, {'sigma': 3.0}, {'reg': 1.0}, {'reg': 100.0}, {'correction': False},
                  {'sigma': 2.0, 'reg': 10.0}, {'sigma': 2.0, 'correction': False},
                  {'sigma': 0.7, 'reg': 1.0}, {'sigma': 0.5, 'reg': 1.0}],
        'daun': [{'degree': 0}, {'degree': 1}, {'degree': 2}, {'degree': 3},
                 {'degree': 0, 'reg': 1.0}, {'degree': 1, 'reg': ('diff', 1.0)}, {'degree': 1, 'reg': ('L2', 1.0)},
                 {'degree': 2, 'reg': ('L2c', 1.0)}, {'degree': 3, 'reg': ('diff', 10.0)},
                 {'degree': 1, 'reg': 'nonneg'}],
        'direct': [{}, {'correction': False}, {'r': 'grid'}, {'r': 'stretched'}, {'r': 'stretched', 'correction': False}],
        'hansenlaw': [{'hold_order': 0}, {'hold_order': 1}],
        'onion_bordas': [{}, {'shift_grid': False}],
        'onion_peeling': [{}], 'two_point': [{}], 'three_point': [{}],
        'linbasex': [{}, {'legendre_orders': [0, 2, 4], 'proj_angles': A3}, {'proj_angles': A3},
                     {'radial_step': 2}, {'legendre_orders': [0]}, {'radial_step': 3},
                     {'radial_step': 2, 'legendre_orders': [0, 2, 4], 'proj_angles': A3},
                     {'legendre_orders': [0, 2, 4], 'proj_angles': A4}, {'radial_step': 3, 'proj_angles': A3}],
        'rbasex': [{'order': 0}, {}, {'order': 4}, {'order': 2, 'odd': True}, {'reg': ('L2', 10.0)},
                   {'reg': ('diff', 10.0)}, {'reg': ('SVD', 0.05)}, {'reg': 'pos'}, {'origin': 'tuple'},
                   {'order': 6}, {'order': 3}, {'origin': 'offset'}, {'order': 4, 'origin': 'offset'},
                   {'order': 6, 'origin': 'offset'}, {'order': 3, 'origin': 'offset'}, {'order': 6, 'out': 'full'}],
    },
    'forward': {
        'basex': [{}, {'sigma': 2.0}, {'correction': False}, {'sigma': 2.0, 'correction': False},
                  {'reg': 1.0}, {'sigma': 0.7, 'reg': 1.0}, {'sigma': 0.5, 'reg': 1.0}, {'sigma': 2.0, 'reg': 10.0}],
        'daun': [{'degree': 0}, {'degree': 1}, {'degree': 2}, {'degree': 3}],
        'direct': [{}, {'correction': False}, {'r': 'grid'}, {'r': 'stretched'}, {'r': 'stretched', 'correction': False}],
        'hansenlaw': [{'hold_order': 0}, {'hold_order': 1}],
        'rbasex': [{'order': 0}, {}, {'order': 4}, {'order': 2, 'odd': True}, {'origin': 'tuple'}, {'out': 'fold'},
                   {'order': 6}, {'order': 3}, {'origin': 'offset'}, {'order': 4, 'origin': 'offset'},
                   {'order': 6, 'origin': 'offset'}, {'order': 3, 'origin': 'offset'}, {'order': 6, 'out': 'full'},
                   {'order': 4, 'origin': 'offset', 'out': 'full'}],
    },
}

SIZES = [25, 51, 101, 201, 300]
SIGMAS = [6.0, 9.0, 15.0, 30.0]
PAIRS2 = [(6.0, 9.0), (6.0, 15.0), (9.0, 30.0)]
DRS = [1.0, 0.5, 0.1, 2.5]
ROWS = [1, 2, 7]


def gauss(s):
    return dict(family='gauss', terms=[[1.0, float(s)]])


def gauss2(s1, s2):
    return dict(family='gauss', terms=[[1.0, float(s1)], [0.6, float(s2)]])


def bump(n, p, frac=0.8):
    return dict(family='bump', R=float(frac * (n - 1)), p=int(p))


def ring(n, w, k):
    return dict(family='ring', r0=0.5 * (n - 1), w=float(w), k=int(k), Rm=float(n - 1))


def admissible(fam, n):
    """adequately sampled and contained in the image"""
    F = pairs.from_spec(fam)
    if fam['family'] == 'gauss':
        return n - 1 >= 4 * F.extent()
    if fam['family'] == 'ring':
        return F.r0 >= 4 * F.w and F.r0 + 4 * F.w <= n - 1 + 1e-9
    return F.R <= n - 1


def families_1d(n):
    out = [gauss(s) for s in SIGMAS] + [gauss2(a, b) for a, b in PAIRS2] + [bump(n, p) for p in (2, 3, 4)]
    return [f for f in out if admissible(f, n)]


RING_W = {51: [6.0], 64: [6.0], 90: [6.0, 9.0], 101: [6.0, 9.0, 12.0], 201: [9.0, 15.0, 25.0], 300: [12.0, 25.0]}
SIZES_FULL = [25, 51, 64, 90, 101, 201, 300]     # whole-image methods: every residue of (n-1) mod 2 and mod 3


def families_2d(n, big=False):
    out = []
    adm = [s for s in SIGMAS if admissible(gauss(s), n)]
    if adm:
        out.append(gauss(adm[-1]))
        if len(adm) > 1 and not big:
            out.append(gauss(adm[0]))
    out.append(bump(n, 3))
    if not big:
        out.append(bump(n, 2))
    for w in RING_W.get(n, []):
        for k in (0, 2, 4):
            out.append(ring(n, w, k))
    return [f for f in out if admissible(f, n)]


def compatible(method, opts, fam):
    k = fam.get('k', 0)
    if method == 'rbasex':
        return opts.get('order', 2) >= k
    if method == 'linbasex':
        return max(opts.get('legendre_orders', [0, 2])) >= k
    return True


def small_only(method, opts):
    """option classes that are visited for n <= 101 only (cost)"""
    if method == 'rbasex':
        return opts.get('origin') == 'offset' or opts.get('order', 2) in (3, 6) or opts.get('out') == 'full'
    if method == 'linbasex':
        return opts.get('radial_step', 1) == 3 or opts.get('proj_angles') == A4 or \
            (opts.get('radial_step', 1) == 2 and 'legendre_orders' in opts)
    return False


def universe(direction, sizes=SIZES):
    """every configuration the sweeps may visit (rows, dr and via are filled in
    by assign()).  The calibration visits all of them."""
    out = []
    for method, optl in OPTIONS[direction].items():
        for opts in optl:
            for n in (SIZES_FULL if (method in FULL_METHODS and sizes is SIZES) else sizes):
                slow = ((opts.get('reg') in ('nonneg', 'pos')) and n > 101)
                if slow or (n > 101 and small_only(method, opts)):
                    continue
                if method in HALF_METHODS:
                    for fam in families_1d(n):
                        out.append(dict(dir=direction, method=method, via='func', opts=opts, fam=fam, n=n))
                    if n <= 201:
                        default_only = n >= 201
                        if default_only and opts != optl[0]:
                            continue
                        if opts.get('r') == 'stretched':
                            continue            # a whole image has one (uniform) column grid
                        for fam in families_2d(n, big=default_only):
                            out.append(dict(dir=direction, method=method, via='Transform', opts=opts, fam=fam, n=n))
                else:
                    if n > 201 and opts != optl[1 if method == 'rbasex' else 0]:
                        continue
                    for fam in families_2d(n, big=n > 201):
                        if compatible(method, opts, fam):
                            out.append(dict(dir=direction, method=method, via='img', opts=opts, fam=fam, n=n))
    return out


def assign(cfg, rng, via=None):
    """fill in the free choices (rows, dr / unit of an explicit r grid, call path for whole-image methods, the
    history of earlier rbasex calls, whether dr is passed when it is 1) — none of them changes the relative
    error beyond rounding (linearity, row independence, dr scaling, independence of earlier calls)."""
    c = dict(cfg)
    n = c['n']
    if c['method'] in FULL_METHODS:
        paths = ['full', 'Transform'] + (['quad'] if c['method'] == 'linbasex' else [])
        c['via'] = via if via in paths else paths[int(rng.integers(len(paths)))]
        c['rows'] = 2 * n - 1
        c['dr'] = 1.0
        if c['method'] == 'rbasex':
            h = HISTORIES[int(rng.integers(len(HISTORIES)))]
            if h == 'pos' and n > 64:
                h = 'SVD'
            c['history'] = h
    elif c['via'] == 'func':
        c['rows'] = int(ROWS[rng.integers(len(ROWS))])
        units = (DRS + UNITS) if 'r' in c['opts'] else DRS
        c['dr'] = float(units[rng.integers(len(units))])
    else:
        iso = c['fam']['family'] != 'ring'
        c['rows'] = 7 if (iso and rng.random() < 0.3) else 2 * n - 1
        units = (DRS + UNITS) if 'r' in c['opts'] else DRS
        c['dr'] = float(units[rng.integers(len(units))])
    c['pass_dr'] = bool(rng.random() < 0.5)
    return c


# ---------------------------------------------------------------------------
# refinement: the same distribution on successively finer grids
# ---------------------------------------------------------------------------

def scale_family(fam, k):
    f = json.loads(json.dumps(fam))
    if f['family'] == 'gauss':
        f['terms'] = [[a, s * k] for a, s in f['terms']]
    elif f['family'] == 'bump':
        f['R'] *= k
    else:
        f['r0'], f['w'], f['Rm'] = f['r0'] * k, f['w'] * k, f['Rm'] * k
    return f


def refine_bases(method, opts, thorough=True):
    """coarse configurations (name, n0, family in coarse pixels) whose physical
    distribution is then sampled k times finer"""
    if opts.get('r') == 'stretched':
        return []                                   # the stretched mesh has no "k times finer" counterpart here
    if method in HALF_METHODS:
        b = [dict(name='gauss6@26', n0=26, fam=gauss(6.0), via='func'),
             dict(name='bump3@26', n0=26, fam=dict(family='bump', R=20.0, p=3), via='func')]
        if thorough:
            b.append(dict(name='gauss6+9@51', n0=51, fam=gauss2(6.0, 9.0), via='func'))
        return b
    b = [dict(name='gauss6@26', n0=26, fam=gauss(6.0), via='full')]
    r = dict(name='ring2w6@51', n0=51, fam=ring(51, 6.0, 2), via='full')
    if compatible(method, opts, r['fam']):
        b.append(r)
    return b


def refine_chain(direction, method, opts, base, thorough):
    """[(cfg, lo, hi)]: the same physical distribution, pixel size 1, 1/2, 1/4, ...;
    lo/hi: the judged physical region of the *coarsest* grid"""
    n0 = base['n0']
    if n0 == 26:
        ks = [1, 2, 4, 8, 12] if thorough else [1, 2, 4]
    else:
        ks = [1, 2, 4, 6] if thorough else [1, 2]
    whole = method in FULL_METHODS
    out = []
    for k in ks:
        n = (n0 - 1) * k + 1
        c = dict(dir=direction, method=method, via=base['via'], opts=opts, fam=scale_family(base['fam'], k), n=n,
                 rows=(2 * n - 1 if whole else 2), dr=(1.0 if whole else 1.0 / k), pass_dr=True)
        # whole-image methods have no dr: their result is in pixel units and the
        # error is relative to the peak, so only the region has to be rescaled
        unit = k if whole else 1.0
        out.append((c, AXIS_EXCL * unit, (n0 - 1 - edge(n0)) * unit))
    return out


# ---------------------------------------------------------------------------
# envelopes
# ---------------------------------------------------------------------------

_ENV = None


def load_envelopes():
    global _ENV
    if _ENV is None:
        _ENV = json.load(open(ENVELOPES))
    return _ENV


def envelope(cfg, env=None):
    """(E, law) for a configuration, or (None, None) when its class was never calibrated"""
    env = env or load_envelopes()
    law = env['laws'].get(envkey(cfg))
    if law is None:
        return None, None
    h = hvar(cfg)
    return ENV_FACTOR * law['K'] * h ** law['q'] + trunc_allow(cfg) + ROUND_ABS, law


# ---------------------------------------------------------------------------
# replay snippet
# ---------------------------------------------------------------------------

SNIPPET = '''# stand-alone replay (needs /verif/tools on PYTHONPATH only for the oracle formulas)
import sys, json
sys.path.insert(0, '/verif/tools')
import numpy as np
from oracle import sweep
cfg = json.loads(%(cfg)r)
clause = %(clause)r
if clause == 'envelope':
    r = sweep.evaluate(cfg)
    E, law = sweep.envelope(cfg)
    ok = r['err'] <= E
    print('%%s %%s via %%s options %%s family %%s n=%%d rows=%%d dr=%%g' %% (cfg['dir'], cfg['method'], cfg['via'], cfg['opts'], cfg['fam'], cfg['n'], cfg['rows'], cfg['dr']))
    print('pixel', r['pix'], 'got', r['got'], 'true', r['want'], 'error/peak', r['err'], 'envelope', E, '= 1.5*K*(dr/scale)^q with K=%%g q=%%g' %% (law['K'], law['q']))
elif clause == 'refinement':
    fine = json.loads(%(fine)r)
    e0 = sweep.region_error(cfg, %(lo)r, %(hi)r); e1 = sweep.region_error(fine, %(lo1)r, %(hi1)r)
    bound = %(bound_expr)s
    ok = e1[0] <= bound
    print('%%s %%s options %%s family %%s: n=%%d error %%.6g  ->  n=%%d (sampled %%gx finer) error %%.6g at pixel %%s; allowed %%.6g' %% (cfg['dir'], cfg['method'], cfg['opts'], cfg['fam'], cfg['n'], e0[0], fine['n'], cfg['dr'] / fine['dr'], e1[0], e1[1], bound))
elif clause == 'dr-scale':
    c1 = dict(cfg, dr=1.0)
    a = sweep.run_method(cfg, np.array(sweep.make_data(c1)[0], dtype=float)); a = a[0] if isinstance(a, tuple) else a
    b = sweep.run_method(c1, np.array(sweep.make_data(c1)[0], dtype=float)); b = b[0] if isinstance(b, tuple) else b
    s = cfg['dr'] if cfg['dir'] == 'forward' else 1 / cfg['dr']
    dev = float(np.max(np.abs(a - s * b)) / np.max(np.abs(s * b)))
    ok = dev <= (1e-9 if 'r' in cfg['opts'] else 1e-12)
    print('%%s %%s options %%s dr=%%g: max |T(dr) - %%g*T(1)| / max|T(1)| = %%.3g' %% (cfg['dir'], cfg['method'], cfg['opts'], cfg['dr'], s, dev))
print('clause', clause, 'holds' if ok else 'FAILS')
sys.exit(0 if ok else 1)
'''
