# sweep.py — the numeric sweep behind the envelope / refinement / dr clauses
# of C01 (inverse) and C02 (forward).  Shared by tools/props/C01.py, C02.py and
# tools/oracle/calibrate.py.
#
# A *configuration* is a dict
#   dir      'inverse' | 'forward'
#   method   one of the ten
#   via      'func'      half-image transform function, 1-D family replicated
#                        over `rows` rows with per-row amplitudes
#            'Transform' abel.Transform on a whole (H x (2n-1)) image of the 3-D
#                        family (isotropic families and anisotropic rings)
#            'full'      linbasex_transform_full / rbasex_transform directly
#   opts     dict of documented options of the method (without dr)
#   fam      family spec in *pixel units* (tools/oracle/pairs.py)
#   n        half-width in pixels (columns of the half image)
#   rows     number of rows (func) / image height (Transform, full)
#   dr       pixel size passed to the method; the family is then defined in
#            physical units (pixel-unit lengths times dr)
#
# Errors are relative to the peak of the truth and are taken over the pixels
#   AXIS_EXCL <= r/dr  and  r/dr <= n-1-edge(n),   edge(n) = max(3, n//10)
# (column index for row-wise data, polar radius for whole images).
import contextlib
import io
import json
import os
import warnings

import numpy as np

from oracle import pairs

AXIS_EXCL = 3           # pixels next to the symmetry axis that are not judged
ENV_FACTOR = 1.5        # safety factor on the fitted law
REFINE_SLACK = 1e-6     # err(finer) <= err(coarser) * (1 + REFINE_SLACK)
FLOOR_FACTOR = 1.25     # for configurations recorded as sitting on an error floor
ROUND_ABS = 1e-12       # errors below this (relative to the peak) are rounding noise

HALF_METHODS = ['basex', 'daun', 'direct', 'hansenlaw', 'onion_bordas',
                'onion_peeling', 'two_point', 'three_point']
FULL_METHODS = ['linbasex', 'rbasex']
FORWARD_METHODS = ['basex', 'daun', 'direct', 'hansenlaw', 'rbasex']

ENVELOPES = os.path.join(os.path.dirname(os.path.abspath(__file__)), 'envelopes.json')


def edge(n):
    return max(3, n // 10)


# ---------------------------------------------------------------------------
# option classes
# ---------------------------------------------------------------------------

def optkey(opts):
    """canonical text of an option dict (the "option class")"""
    if not opts:
        return '-'
    items = []
    for k in sorted(opts):
        v = opts[k]
        if isinstance(v, float):
            v = ('%g' % v)
        elif isinstance(v, (list, tuple)):
            v = '(' + ','.join(('%g' % x) if isinstance(x, float) else str(x) for x in v) + ')'
        items.append('%s=%s' % (k, v))
    return ','.join(items)


def famkind(fam):
    if fam['family'] == 'gauss':
        return 'gauss'
    if fam['family'] == 'bump':
        return 'bump%d' % fam['p']
    return 'ring%d' % fam['k']


def envkey(cfg):
    via = 'row' if cfg['via'] in ('func', 'Transform') and cfg['method'] in HALF_METHODS else 'img'
    return '%s|%s|%s|%s|%s' % (cfg['dir'], cfg['method'], optkey(cfg['opts']), famkind(cfg['fam']), via)


def cfgkey(cfg):
    return '%s|%s|n=%d|rows=%d|dr=%g|%s' % (envkey(cfg), cfg['via'], cfg['n'], cfg['rows'], cfg['dr'],
                                           json.dumps(cfg['fam'], sort_keys=True))


def hvar(cfg):
    """the resolution variable of the law: dr / (smallest length of the family)"""
    return 1.0 / pairs.from_spec(cfg['fam']).scale()


def trunc_allow(cfg):
    """allowance for the part of a Gaussian cut off by the image edge"""
    f = cfg['fam']
    if f['family'] != 'gauss':
        return 0.0
    s = max(t[1] for t in f['terms'])
    return 20.0 * float(np.exp(-((cfg['n'] - 1) / s) ** 2))


# ---------------------------------------------------------------------------
# running the implementation
# ---------------------------------------------------------------------------

def _quiet():
    return contextlib.redirect_stdout(io.StringIO())


def scaled_family(cfg):
    """family in physical units"""
    f = dict(cfg['fam'])
    d = cfg['dr']
    if f['family'] == 'gauss':
        f['terms'] = [(a, s * d) for a, s in f['terms']]
    elif f['family'] == 'bump':
        f['R'] = f['R'] * d
    else:
        f['r0'], f['w'], f['Rm'] = f['r0'] * d, f['w'] * d, f['Rm'] * d
    return pairs.from_spec(f)


def row_amps(rows):
    return 1.0 + 0.5 * np.arange(rows)


def make_data(cfg):
    """(input, truth, rpix) for a configuration.  rpix: radius in pixels of
    every element (used for the judged region)."""
    n, rows, d = cfg['n'], cfg['rows'], cfg['dr']
    F = scaled_family(cfg)
    if cfg['via'] == 'func':
        r = np.arange(n) * d
        amp = row_amps(rows)[:, None]
        src = amp * F.source(r)[None, :]
        prj = amp * F.proj(r)[None, :]
        rpix = np.broadcast_to(np.arange(n, dtype=float)[None, :], (rows, n))
    else:
        H, W = rows, 2 * n - 1
        zi = np.arange(H) - (H - 1) / 2.0
        xi = np.arange(W) - (n - 1)
        X, Z = np.meshgrid(xi * d, zi * d)
        key = (json.dumps(cfg['fam'], sort_keys=True), n, rows, d)
        if key not in _IMG_CACHE:
            if len(_IMG_CACHE) > 6:
                _IMG_CACHE.clear()
            # use the symmetry of the families: evaluate one quadrant
            hq, wq = (H + 1) // 2, n
            Xq, Zq = X[H - hq:, n - 1:], Z[H - hq:, n - 1:]
            sq, pq = F.source2(Xq, Zq), F.proj2(Xq, Zq)

            def unfold(q):
                right = np.vstack([q[::-1][:H - hq], q]) if H % 2 == 0 else np.vstack([q[:0:-1], q])
                return np.hstack([right[:, :0:-1], right])
            _IMG_CACHE[key] = (unfold(sq), unfold(pq))
        src, prj = _IMG_CACHE[key]
        rpix = np.hypot(X, Z) / d
        if cfg['method'] in HALF_METHODS:
            # row-wise methods: the judged region is defined per row
            rpix = np.abs(X) / d + 0 * Z
    if cfg['dir'] == 'inverse':
        return prj, src, rpix
    return src, prj, rpix


_IMG_CACHE = {}


def run_method(cfg, data):
    """apply the implementation; returns the transformed array"""
    import abel
    m, direction, opts, d = cfg['method'], cfg['dir'], dict(cfg['opts']), cfg['dr']
    pass_dr = cfg.get('pass_dr', True)
    with warnings.catch_warnings(), np.errstate(all='ignore'), _quiet():
        warnings.simplefilter('ignore')
        if cfg['via'] == 'func':
            kw = dict(opts)
            if pass_dr or d != 1:
                kw['dr'] = d
            if m == 'basex':
                out = abel.basex.basex_transform(data, basis_dir=None, verbose=False, direction=direction, **kw)
            elif m == 'daun':
                out = abel.daun.daun_transform(data, basis_dir=None, verbose=False, direction=direction, **kw)
            elif m == 'direct':
                out = abel.direct.direct_transform(data, direction=direction, backend='python', **kw)
            elif m == 'hansenlaw':
                out = abel.hansenlaw.hansenlaw_transform(data, direction=direction, **kw)
            elif m == 'onion_bordas':
                out = abel.onion_bordas.onion_bordas_transform(data, direction=direction, **kw)
            elif m in ('onion_peeling', 'two_point', 'three_point'):
                fn = getattr(abel.dasch, m + '_transform')
                out = fn(data, basis_dir=None, verbose=False, direction=direction, **kw)
            else:
                raise ValueError(m)
            return np.atleast_2d(np.asarray(out, dtype=float))
        if cfg['via'] == 'Transform':
            kw = dict(opts)
            if m in ('basex', 'daun', 'onion_peeling', 'two_point', 'three_point', 'linbasex', 'rbasex'):
                kw['basis_dir'] = None
            if m in ('basex', 'daun', 'onion_peeling', 'two_point', 'three_point', 'linbasex', 'rbasex'):
                kw['verbose'] = False
            if m == 'direct':
                kw['backend'] = 'python'
            if m not in ('rbasex', 'linbasex') and (pass_dr or d != 1):
                kw['dr'] = d
            T = abel.Transform(data, direction=direction, method=m, transform_options=kw, verbose=False)
            out = np.asarray(T.transform, dtype=float)
            return out, T
        if cfg['via'] == 'full':
            if m == 'linbasex':
                res = abel.linbasex.linbasex_transform_full(data, basis_dir=None, verbose=False, **opts)
                return np.asarray(res[0], dtype=float), res
            if m == 'rbasex':
                rec, distr = abel.rbasex.rbasex_transform(data, direction=direction, basis_dir=None,
                                                          verbose=False, **opts)
                return np.asarray(rec, dtype=float), distr
        raise ValueError(cfg['via'])


def unit_scale(cfg):
    """rbasex and linbasex have no dr option: they work in pixel units, so the
    inverse of physical data is physical/dr... the sweep always gives them
    dr = 1."""
    return 1.0


def evaluate(cfg, want_arrays=False):
    """run one configuration; returns dict(err, pix, got, want, peak, shape)"""
    data, truth, rpix = make_data(cfg)
    res = run_method(cfg, np.array(data, dtype=float, copy=True))
    extra = None
    if isinstance(res, tuple):
        res, extra = res
    if res.shape != truth.shape:
        return dict(err=float('inf'), pix=None, got=None, want=None, peak=None,
                    shape_mismatch=(list(res.shape), list(truth.shape)))
    peak = float(np.max(np.abs(truth)))
    n = cfg['n']
    mask = (rpix >= AXIS_EXCL) & (rpix <= n - 1 - edge(n))
    E = np.where(mask, np.abs(res - truth), 0.0) / peak
    E = np.where(np.isfinite(E), E, np.inf)
    k = int(np.argmax(E))
    pix = np.unravel_index(k, E.shape)
    out = dict(err=float(E[pix]), pix=[int(pix[0]), int(pix[1])], got=float(res[pix]), want=float(truth[pix]),
               peak=peak, judged=int(mask.sum()))
    if want_arrays:
        out.update(res=res, truth=truth, mask=mask, rpix=rpix, extra=extra)
    return out


def region_error(cfg, lo_phys, hi_phys):
    """max relative error over lo <= r (physical) <= hi — for the refinement clause"""
    data, truth, rpix = make_data(cfg)
    res = run_method(cfg, np.array(data, dtype=float, copy=True))
    if isinstance(res, tuple):
        res = res[0]
    peak = float(np.max(np.abs(truth)))
    rp = rpix * cfg['dr']
    mask = (rp >= lo_phys - 1e-9) & (rp <= hi_phys + 1e-9)
    E = np.where(mask, np.abs(res - truth), 0.0) / peak
    E = np.where(np.isfinite(E), E, np.inf)
    k = int(np.argmax(E))
    pix = np.unravel_index(k, E.shape)
    return float(E[pix]), [int(pix[0]), int(pix[1])], float(res[pix]), float(truth[pix])


# ---------------------------------------------------------------------------
# envelopes
# ---------------------------------------------------------------------------

_ENV = None


def load_envelopes():
    global _ENV
    if _ENV is None:
        _ENV = json.load(open(ENVELOPES))
    return _ENV


def envelope(cfg, env=None):
    """(E, law) for a configuration, or (None, None) when its class was never calibrated"""
    env = env or load_envelopes()
    law = env['laws'].get(envkey(cfg))
    if law is None:
        return None, None
    h = hvar(cfg)
    return ENV_FACTOR * law['K'] * h ** law['q'] + trunc_allow(cfg) + ROUND_ABS, law


# ---------------------------------------------------------------------------
# replay snippet
# ---------------------------------------------------------------------------

SNIPPET = '''# stand-alone replay (needs /verif/tools on PYTHONPATH only for the oracle formulas)
import sys, json
sys.path.insert(0, '/verif/tools')
import numpy as np
from oracle import sweep
cfg = json.loads(%(cfg)r)
clause = %(clause)r
if clause == 'envelope':
    r = sweep.evaluate(cfg)
    E, law = sweep.envelope(cfg)
    ok = r['err'] <= E
    print('%%s %%s via %%s options %%s family %%s n=%%d rows=%%d dr=%%g' %% (cfg['dir'], cfg['method'], cfg['via'], cfg['opts'], cfg['fam'], cfg['n'], cfg['rows'], cfg['dr']))
    print('pixel', r['pix'], 'got', r['got'], 'true', r['want'], 'error/peak', r['err'], 'envelope', E, 'law', law)
elif clause == 'refinement':
    fine = json.loads(%(fine)r)
    lo, hi = %(lo)r, %(hi)r
    e0 = sweep.region_error(cfg, lo, hi); e1 = sweep.region_error(fine, lo, hi)
    bound = %(bound_expr)s
    ok = e1[0] <= bound
    print('%%s %%s options %%s family %%s: n=%%d error %%.6g  ->  n=%%d (sampled %%gx finer) error %%.6g at pixel %%s; allowed %%.6g' %% (cfg['dir'], cfg['method'], cfg['opts'], cfg['fam'], cfg['n'], e0[0], fine['n'], cfg['dr'] / fine['dr'], e1[0], e1[1], bound))
elif clause == 'dr-scale':
    c1 = dict(cfg, dr=1.0)
    a = sweep.run_method(cfg, np.array(sweep.make_data(c1)[0], dtype=float)); a = a[0] if isinstance(a, tuple) else a
    b = sweep.run_method(c1, np.array(sweep.make_data(c1)[0], dtype=float)); b = b[0] if isinstance(b, tuple) else b
    s = cfg['dr'] if cfg['dir'] == 'forward' else 1 / cfg['dr']
    dev = float(np.max(np.abs(a - s * b)) / np.max(np.abs(b)))
    ok = dev <= 1e-12
    print('%%s %%s options %%s dr=%%g: max |T(dr) - %%g*T(1)| / max|T(1)| = %%.3g' %% (cfg['dir'], cfg['method'], cfg['opts'], cfg['dr'], s, dev))
print('clause', clause, 'holds' if ok else 'FAILS')
sys.exit(0 if ok else 1)
'''
