# proved.py — what turns the convergence theorems of coq/proofs/Convergence.v
# (props/C02.v C02_forward_daun0_*/daun1_*, props/C01.v C01_inverse_*_partial)
# into statements about the implementation:
#
#   operator_tie   per-instance Interval goals: the entries of the operator the
#                  implementation really applies (forward daun transform of the
#                  identity, degree 0 and 1, several n) are enclosed by the
#                  generated formulas daun_p0 / daun_p1 the theorems speak about
#                  (same tactic as the C09 instances); and the inverse operators
#                  (daun degree 0, onion peeling) are numerically left inverses of
#                  that matrix (hypothesis of the *_partial theorems).
#   consequences   the theorem bounds evaluated for the bumps of the sweep and
#                  compared with the implementation at EVERY pixel (axis and edge
#                  included, all n of the tier).  With the operator tie this
#                  check is implied by the theorems; a failure means the
#                  correspondence is broken.
import json
import warnings

import numpy as np

import vlib
from vlib import Hit
from oracle import pairs, sweep

HEADER = '''From Coq Require Import Reals ZArith Bool.
From Coquelicot Require Import Coquelicot.
From Interval Require Import Tactic.
From PA Require Import gen.FormulasBasis.
Open Scope R_scope.
Ltac evalconds := repeat match goal with
  |- context [if ?c then _ else _] => let b := eval vm_compute in c in change c with b; cbv iota end.
Ltac evalz := repeat match goal with
  | |- context [IZR (?a - ?b)%Z] => let z := eval vm_compute in (a - b)%Z in change (a - b)%Z with z
  | |- context [IZR (?a + ?b)%Z] => let z := eval vm_compute in (a + b)%Z in change (a + b)%Z with z
  end.
Ltac tv := repeat autounfold with c09defs; evalconds; evalz; interval with (i_prec 90).
'''


def _rq(x):
    from fractions import Fraction
    f = Fraction(float(x))
    return '(%d)' % f.numerator if f.denominator == 1 else '(%d / %d)' % (f.numerator, f.denominator)


def forward_matrix(n, degree):
    """M[j, i] = (forward daun transform of the j-th unit row)[i]: the operator
    the implementation applies (dr = 1)"""
    import abel
    with warnings.catch_warnings():
        warnings.simplefilter('ignore')
        return np.asarray(abel.daun.daun_transform(np.eye(n), degree=degree, direction='forward',
                                                   basis_dir=None, verbose=False), dtype=float)


def inverse_matrix(n, method):
    import abel
    with warnings.catch_warnings():
        warnings.simplefilter('ignore')
        if method == 'daun0':
            return np.asarray(abel.daun.daun_transform(np.eye(n), degree=0, direction='inverse',
                                                       basis_dir=None, verbose=False), dtype=float)
        return np.asarray(abel.dasch.onion_peeling_transform(np.eye(n), basis_dir=None, verbose=False), dtype=float)


def operator_tie(ctx, rng, pid):
    sizes = [7, 25, 51] if ctx.quick else [7, 25, 51, 101, 201]
    per = 5 if ctx.quick else 8
    goals, meta = [], []
    mats = {}
    for n in sizes:
        for d in (0, 1):
            M = forward_matrix(n, d)
            mats[(n, d)] = M
            picks = [(0, 0), (n - 1, n - 1), (n - 1, 0)]
            while len(picks) < per:
                j = int(rng.integers(0, n))
                i = int(rng.integers(0, j + 1))
                picks.append((j, i))
            if n > 2:
                picks.append((1, 2))            # an entry above the diagonal (must be 0)
            for (j, i) in picks:
                v = float(M[j, i])
                tol = 2.0 ** -40 * max(abs(v), 1.0) if d == 0 else 1e-9 * max(abs(v), 1.0)
                # degree 1 subtracts terms of size n^2 log n: allow the cancellation of the float evaluation
                t = 'Rabs (daun_p%d %d %d - %s) <= %s' % (d, j, i, _rq(v), _rq(tol))
                goals.append('Goal %s.\nProof. tv. Qed.\n' % t)
                meta.append(dict(n=n, degree=d, j=j, i=i, impl=v))
    outs = vlib.coq_eval_many([('%s_operator' % pid, HEADER + '\n'.join(goals))], timeout=900)
    rc, out = outs['%s_operator' % pid]
    failed = [] if rc == 0 else [out[-800:]]
    # the inverse operators are left inverses of that matrix (hypothesis of the *_partial theorems)
    linv = []
    if pid == 'C01':
        for n in sizes:
            M = mats[(n, 0)]
            for meth in ('daun0', 'onion_peeling'):
                X = inverse_matrix(n, meth)         # row i of X = inverse transform of e_i: X[i, k]
                dev = float(np.max(np.abs(M @ X - np.eye(n))))
                linv.append(dict(n=n, method=meth, deviation=dev, ok=dev <= 1e-9))
    return dict(goals=len(goals), failed=failed, left_inverse=linv, samples=meta[:3],
                ok=not failed and all(x['ok'] for x in linv))


# ---------------------------------------------------------------------------
# Lipschitz constants of the bumps (pixel units), exact up to the grid of u
# ---------------------------------------------------------------------------

def bump_constants(R, p):
    u = np.linspace(0.0, 1.0, 20001)            # u = r^2 / R^2
    r = R * np.sqrt(u)
    f1 = -2 * p * r / R ** 2 * (1 - u) ** (p - 1)
    f2 = -2 * p / R ** 2 * (1 - u) ** (p - 1) + (4 * p * (p - 1) * r ** 2 / R ** 4 * (1 - u) ** (p - 2) if p >= 2 else 0)
    return float(np.max(np.abs(f1))) * 1.0001, float(np.max(np.abs(f2))) * 1.0001


SNIP = '''# replay: theorem bound of props/C02.v (C02_forward_daun%(d)d_phys) against the implementation
import sys
sys.path.insert(0, '/verif/tools')
import numpy as np, abel
from oracle import pairs, proved
n, R, p, h, d = %(n)d, %(R)r, %(p)d, %(h)r, %(d)d
F = pairs.Bump(R * h, p)
r = np.arange(n) * h
got = abel.daun.daun_transform(F.source(r), degree=d, dr=h, direction='forward', basis_dir=None, verbose=False)
L, L2 = proved.bump_constants(R, p)
chord = np.sqrt(np.maximum(n ** 2 - np.arange(n) ** 2, 0.0))
bound = (L if d == 0 else L2 / 2) * chord * h + 1e-12 * h * R
err = np.abs(got - F.proj(r))
k = int(np.argmax(err - bound))
print('daun degree', d, 'forward, bump p=%%d R=%%g px, n=%%d, dr=%%g: pixel %%d error %%.3g proved bound %%.3g' %% (p, R, n, h, k, err[k], bound[k]))
sys.exit(0 if np.all(err <= bound) else 1)
'''


def forward_consequences(ctx, rng, pid):
    """C02: |daun forward (degree 0/1, dr=h) of the samples - true projection| <= theorem bound, every pixel"""
    import abel
    hits, n_eval, worst = [], 0, 0.0
    sizes = [25, 51, 101] if ctx.quick else [25, 51, 101, 201, 300]
    for n in sizes:
        for p in (2, 3, 4):
            for d in (0, 1):
                for frac in (0.8, 1.0):
                    R = frac * (n - 1)
                    h = float(rng.choice(sweep.DRS))
                    F = pairs.Bump(R * h, p)
                    r = np.arange(n) * h
                    with warnings.catch_warnings():
                        warnings.simplefilter('ignore')
                        got = np.asarray(abel.daun.daun_transform(F.source(r), degree=d, dr=h, direction='forward',
                                                                  basis_dir=None, verbose=False), dtype=float)
                    L, L2 = bump_constants(R, p)
                    chord = np.sqrt(np.maximum(n ** 2 - np.arange(n) ** 2, 0.0))
                    bound = (L if d == 0 else L2 / 2) * chord * h + 1e-12 * h * R
                    err = np.abs(got - F.proj(r))
                    n_eval += 1
                    with np.errstate(all='ignore'):
                        worst = max(worst, float(np.max(err / bound)))
                    if not np.all(err <= bound):
                        k = int(np.argmax(err - bound))
                        hits.append(Hit('proved-envelope', '%s:proved-envelope:forward|daun|degree=%d' % (pid, d),
                                        'forward daun degree %d, bump p=%d R=%g px, n=%d, dr=%g: error %.3g at pixel %d exceeds the '
                                        'PROVED bound %.3g (C02_forward_daun%d_phys) - the operator no longer corresponds to the '
                                        'generated formulas' % (d, p, R, n, h, err[k], k, bound[k], d),
                                        SNIP % dict(n=n, R=R, p=p, h=h, d=d),
                                        dict(n=n, R=R, p=p, dr=h, degree=d, pixel=k, error=float(err[k]), bound=float(bound[k]))))
    return hits, n_eval, worst


SNIP_INV = '''# replay: stability bound of props/C01.v (C01_inverse_%(name)s_error_partial) against the implementation
import sys
sys.path.insert(0, '/verif/tools')
import numpy as np
from oracle import pairs, proved
n, R, p, meth = %(n)d, %(R)r, %(p)d, %(meth)r
F = pairs.Bump(R, p)
X = proved.inverse_matrix(n, meth)
got = F.proj(np.arange(n)) @ X
L, _ = proved.bump_constants(R, p)
bound = L * n * np.abs(X).sum(axis=0) + 1e-9
err = np.abs(got - F.source(np.arange(n)))
k = int(np.argmax(err - bound))
print(meth, 'inverse, bump p=%%d R=%%g, n=%%d: pixel %%d error %%.3g bound %%.3g' %% (p, R, n, k, err[k], bound[k]))
sys.exit(0 if np.all(err <= bound) else 1)
'''


def inverse_consequences(ctx, rng, pid):
    """C01: |X applied to the exact projection - f(k)| <= L n sum_i |X[i,k]| (daun degree 0, onion peeling)"""
    hits, n_eval, worst = [], 0, 0.0
    sizes = [25, 51, 101] if ctx.quick else [25, 51, 101, 201, 300]
    for n in sizes:
        for meth in ('daun0', 'onion_peeling'):
            X = inverse_matrix(n, meth)
            for p in (2, 3, 4):
                R = 0.8 * (n - 1)
                F = pairs.Bump(R, p)
                got = F.proj(np.arange(n)) @ X
                L, _ = bump_constants(R, p)
                bound = L * n * np.abs(X).sum(axis=0) + 1e-9
                err = np.abs(got - F.source(np.arange(n)))
                n_eval += 1
                worst = max(worst, float(np.max(err / bound)))
                if not np.all(err <= bound):
                    k = int(np.argmax(err - bound))
                    name = 'daun0' if meth == 'daun0' else 'onion_peeling'
                    hits.append(Hit('proved-envelope', '%s:proved-envelope:inverse|%s' % (pid, meth),
                                    '%s inverse, bump p=%d R=%g px, n=%d: error %.3g at pixel %d exceeds the PROVED stability bound %.3g'
                                    % (meth, p, R, n, err[k], k, bound[k]),
                                    SNIP_INV % dict(n=n, R=R, p=p, meth=meth, name=name),
                                    dict(n=n, R=R, p=p, method=meth, pixel=k, error=float(err[k]), bound=float(bound[k]))))
    return hits, n_eval, worst


PER_METHOD = {
    'C02': {
        'daun degree=0 (forward)': 'proved: |result - Abel f| <= L*R*h for every n, h, L-Lipschitz f (C02_forward_daun0_phys) + operator '
                                   'entries enclosed by Interval; the tighter fitted law and the literal monotone refinement stay swept',
        'daun degree=1 (forward)': 'proved: |result - Abel f| <= L2/2*R*h^2 for every n, h, f with L2-Lipschitz derivative '
                                   '(C02_forward_daun1_phys) + operator entries enclosed by Interval; fitted law / monotone refinement swept',
        'daun degree=2 (forward)': 'proved exact on its own span (C02_forward_exact_on_span_daun2); envelope swept',
        'daun degree=3, basex, direct, hansenlaw, rbasex (forward)': 'swept',
    },
    'C01': {
        'daun degree=0, onion_peeling (inverse)': 'proved exact on span + stability bound L*n*||X||_1 (C01_inverse_*_error_partial, no '
                                                  'convergence claim); envelope and refinement swept',
        'daun degree=1, 2 (inverse)': 'proved exact on its own span; envelope swept',
        'all other inverse methods': 'swept',
    },
}
