# Prints the markdown tables of DESIGN.md section 8.3 / 8.4 from KNOWN_FINDINGS.json
# and seeded/*/meta.json (run by hand; the result is pasted into DESIGN.md).
import glob
import json
import re

kf = json.load(open('/verif/KNOWN_FINDINGS.json'))
print('| commit | property | what failed (failing input) |')
print('|--------|----------|------------------------------|')
for f in kf['fixed']:
    m = re.match(r'fixed: property=(\S+) (\S+) (.*)', f)
    print('| %s | %s | %s |' % (m.group(2), m.group(1), m.group(3).replace('|', '\\|')))
print()
print('| key | property | what / why recorded |')
print('|-----|----------|---------------------|')
for f in kf['findings']:
    print('| `%s` | %s | %s — *%s* |' % (f['key'].replace('|', '\\|'), f['property'], f['what'].replace('|', '\\|')[:400],
                                      f.get('why_not_fixed', '').replace('|', '\\|')[:300]))
print()
print('| id | needs | caught by | first missed |')
print('|----|-------|-----------|--------------|')
for p in sorted(glob.glob('/verif/seeded/*/meta.json')):
    m = json.load(open(p))
    print('| %s | %s | %s | %s |' % (m['id'], m['needs_to_manifest'].replace('|', '\\|'),
                                    '; '.join(m['caught_by']).replace('|', '\\|'),
                                    'yes' if m.get('missed_before_strengthening') else 'no'))
