#!/bin/bash
# usage: try_seed.sh <seed dir with patch.diff and demo.py> <Cxx> [more Cxx ...]
# Applies the patch in a scratch worktree of /repo, runs the demo (must fail),
# the demo on the clean tree (must pass), optionally the test suite (RUN_TESTS=1),
# and the given checks with VERIF_REPO pointing at the worktree.
set -u
SEED=$(realpath "$1"); shift
WT=/var/tmp/wt-seed-$$
git -C /repo worktree add -q "$WT" HEAD || exit 2
trap 'git -C /repo worktree remove --force "$WT" >/dev/null 2>&1' EXIT
cd "$WT"
echo "== clean demo"; PYTHONPATH=$WT /venv/bin/python -W ignore "$SEED/demo.py" >/dev/null 2>&1; echo "demo on clean tree: rc=$?"
git apply "$SEED/patch.diff" || { echo "PATCH DOES NOT APPLY"; exit 3; }
PYTHONPATH=$WT /venv/bin/python -W ignore "$SEED/demo.py" >/dev/null 2>&1; echo "demo with change: rc=$?"
if [ "${RUN_TESTS:-0}" = 1 ]; then
  /venv/bin/python -m pytest -q -p no:cacheprovider --timeout=900 -x 2>&1 | tail -1
fi
for c in "$@"; do
  out=$(VERIF_REPO=$WT /verif/check $c --tier ${TIER:-quick} 2>&1 | grep -v "conda\|Cython\|Falling")
  n=$(echo "$out" | grep -c '^VIOLATION')
  echo "check $c: $n VIOLATION lines; last: $(echo "$out" | grep '^VIOLATION\|^OK' | head -2 | tr '\n' ' ')"
  echo "$out" | grep -A1 '^VIOLATION' | grep 'clause' | head -3
done
