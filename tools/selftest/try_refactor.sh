#!/bin/bash
# usage: try_refactor.sh <patch.diff> <Cxx> [Cxx ...]   -- a behaviour-preserving patch: every check should stay silent
set -u
P=$(realpath "$1"); shift
WT=/var/tmp/wt-refac-$$
git -C /repo worktree add -q "$WT" HEAD || exit 2
trap 'git -C /repo worktree remove --force "$WT" >/dev/null 2>&1' EXIT
cd "$WT" && git apply "$P" || { echo "PATCH DOES NOT APPLY"; exit 3; }
for c in "$@"; do
  out=$(VERIF_REPO=$WT /verif/check $c 2>&1 | grep "^VIOLATION\|^OK")
  echo "  $c: $(echo "$out" | head -1 | cut -c1-230)"
done
