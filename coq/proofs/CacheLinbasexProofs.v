(* Proofs about model/CacheLinbasex.v (fixed code): history independence and
   fault safety. *)
From Coq Require Import List Arith Bool Lia.
From PA Require Import base.Npy model.CacheCommon model.CacheLinbasex.
Import ListNotations.

(* ---- semantic reading: a basis is determined by exactly its parameters ------- *)
Inductive sem :=
  | SBasis (cols : nat) (orders angles : list nat) (step clip : nat)
  | SJunk | SExc (c : nat).

Definition den_l (c : lcont) : sem :=
  if l_junk c then SJunk else SBasis (l_cols c) (l_orders c) (l_angles c) (l_step c) (l_clip c).
Definition den_out (r : res lcont) : sem :=
  match r with Ret c => den_l c | Raise e => SExc (exc_code e) end.

Lemma str_eqb_eq : forall a b, str_eqb a b = true -> a = b.
Proof. intros a b H. unfold str_eqb in H. destruct (list_eq_dec Nat.eq_dec a b); [auto|discriminate]. Qed.

Lemma str_eqb_refl : forall a, str_eqb a a = true.
Proof. intros a. unfold str_eqb. destruct (list_eq_dec Nat.eq_dec a a); [auto|congruence]. Qed.

Lemma l_eqv_parts : forall a b, l_eqv a b = true ->
  l_cols a = l_cols b /\ l_orders a = l_orders b /\ l_angles a = l_angles b /\
  l_step a = l_step b /\ l_clip a = l_clip b /\ l_junk a = false /\ l_junk b = false.
Proof.
  intros a b H. unfold l_eqv in H.
  apply andb_true_iff in H. destruct H as [H H7].
  apply andb_true_iff in H. destruct H as [H H6].
  apply andb_true_iff in H. destruct H as [H H5].
  apply andb_true_iff in H. destruct H as [H H4].
  apply andb_true_iff in H. destruct H as [H H3].
  apply andb_true_iff in H. destruct H as [H1 H2].
  apply Nat.eqb_eq in H1. apply str_eqb_eq in H2. apply str_eqb_eq in H3.
  apply Nat.eqb_eq in H4. apply Nat.eqb_eq in H5.
  apply negb_true_iff in H6. apply negb_true_iff in H7. repeat split; auto.
Qed.

Lemma l_eqv_sound : forall a b, l_eqv a b = true -> den_l a = den_l b.
Proof.
  intros a b H. destruct (l_eqv_parts _ _ H) as (H1 & H2 & H3 & H4 & H5 & H6 & H7).
  unfold den_l. rewrite H1, H2, H3, H4, H5, H6, H7. reflexivity.
Qed.

Lemma out_eqv_sound : forall a b, out_eqv a b = true -> den_out a = den_out b.
Proof.
  intros [x|e1] [y|e2]; simpl; intros H; try discriminate.
  - apply l_eqv_sound; auto.
  - apply Nat.eqb_eq in H. rewrite H. reflexivity.
Qed.

(* ---- invariant --------------------------------------------------------------------- *)
Definition own (c : lcont) : lcont := ideal (l_cols c) (l_orders c) (l_angles c) (l_step c) (l_clip c).
Definition own_key (c : lcont) : key := key_of (l_orders c) (l_angles c) (l_step c) (l_clip c).

Definition honest (d : disk fkey lcont) : Prop :=
  forall di k c, In (di, k, c) d ->
    match c with
    | FGood x => x = own x /\ k = (l_cols x, own_key x)
    | FBad _ => True
    | FShape => True
    end.

(* the cached basis is exactly the one of its own parameters and sits under
   the key built from them *)
Definition Inv (s : st) : Prop :=
  match basis s with
  | Some c => c = own c /\ kprm s = Some (l_cols c, own_key c)
  | None => True
  end /\ honest (dk s).

Lemma Inv_init : Inv init.
Proof. unfold Inv, init, honest; simpl. split; auto. intros ? ? ? []. Qed.

Lemma honest_filter : forall d f, honest d -> honest (filter f d).
Proof. unfold honest. intros d f H di k c Hin. apply filter_In in Hin. destruct Hin. eapply H; eauto. Qed.

Lemma honest_put : forall d di k c, honest d ->
  match c with FGood x => x = own x /\ k = (l_cols x, own_key x) | FBad _ => True | FShape => True end ->
  honest (put_file fkey_eqb di k c d).
Proof.
  unfold honest, put_file, remove_file. intros d di k c H Hc di' k' c' [Hin|Hin].
  - inversion Hin; subst. exact Hc.
  - apply filter_In in Hin. destruct Hin. eapply H; eauto.
Qed.

Lemma key_eqb_eq : forall a b, key_eqb a b = true -> a = b.
Proof.
  intros [a1 a2 a3 a4] [b1 b2 b3 b4]. unfold key_eqb. simpl. intros H.
  apply andb_true_iff in H. destruct H as [H H4].
  apply andb_true_iff in H. destruct H as [H H3].
  apply andb_true_iff in H. destruct H as [H1 H2].
  apply str_eqb_eq in H1. apply str_eqb_eq in H2. apply Nat.eqb_eq in H3. apply Nat.eqb_eq in H4.
  subst. reflexivity.
Qed.

Lemma fkey_eqb_eq : forall a b, fkey_eqb a b = true -> a = b.
Proof.
  intros [a1 a2] [b1 b2]. unfold fkey_eqb. simpl. intros H.
  apply andb_true_iff in H. destruct H as [H1 H2].
  apply Nat.eqb_eq in H1. apply key_eqb_eq in H2. subst. reflexivity.
Qed.

Lemma find_file_In : forall (d : disk fkey lcont) di k c,
  find_file fkey_eqb di k d = Some c -> In (di, k, c) d.
Proof.
  intros d di k c H. unfold find_file in H.
  destruct (filter (same_file fkey_eqb di k) d) as [|e l] eqn:E; [discriminate|].
  inversion H; subst. assert (Hin : In e (filter (same_file fkey_eqb di k) d)) by (rewrite E; left; auto).
  apply filter_In in Hin. destruct Hin as [Hin Hs]. unfold same_file in Hs.
  apply andb_true_iff in Hs. destruct Hs as [H1 H2]. apply Nat.eqb_eq in H1.
  destruct e as [[d' k'] c']. simpl in *. apply fkey_eqb_eq in H2. subst. auto.
Qed.

Lemma own_ideal : forall cols o a s c, own (ideal cols o a s c) = ideal cols o a s c.
Proof. reflexivity. Qed.

(* a basis that is exactly the one of its own parameters, sits under the key
   k and was made for this image size IS the wanted one (the key is injective) *)
Lemma own_key_eq : forall c cols o a st cl,
  c = own c -> own_key c = key_of o a st cl -> l_cols c = cols -> c = ideal cols o a st cl.
Proof.
  intros c cols o a st cl Hc Hk Hcols. unfold own_key, key_of in Hk. inversion Hk as [[H1 H2 H3 H4]].
  rewrite Hc. unfold own. rewrite H1, H2, H3, H4, Hcols. reflexivity.
Qed.

(* `use` does not depend on the state *)
Definition use_res (c : lcont) (cols pol proj : nat) : res lcont :=
  if negb (l_rows c =? proj * cols) then Raise EOther
  else if (pol =? 0) || negb ((l_ncols c) mod pol =? 0) then Raise EValue
  else if (l_ncols c) / pol <? 2 then Raise EValue
  else Ret c.

Lemma use_split : forall s c cols pol proj, use s c cols pol proj = (s, use_res c cols pol proj).
Proof.
  intros. unfold use, use_res.
  destruct (negb (l_rows c =? proj * cols)); auto.
  destruct ((pol =? 0) || negb (l_ncols c mod pol =? 0)); auto.
  destruct (l_ncols c / pol <? 2); auto.
Qed.

Lemma fresh_expected : forall cols o a stp cl bd,
  match bd with BPath d => dir_writable d = true | _ => True end ->
  fresh (Call cols o a stp cl bd) = use_res (ideal cols o a stp cl) cols (length o) (length a).
Proof.
  intros cols o a stp cl bd Hw. unfold fresh, step_call.
  destruct bd as [| |d]; [| |rewrite Hw]; cbn -[use ideal key_of]; rewrite use_split; reflexivity.
Qed.

Lemma out_eqv_use_refl : forall c cols pol proj, l_junk c = false ->
  out_eqv (use_res c cols pol proj) (use_res c cols pol proj) = true.
Proof.
  intros c cols pol proj Hj. unfold use_res.
  destruct (negb (l_rows c =? proj * cols)); [reflexivity|].
  destruct ((pol =? 0) || negb (l_ncols c mod pol =? 0)); [reflexivity|].
  destruct (l_ncols c / pol <? 2); [reflexivity|].
  cbn. unfold l_eqv. rewrite !Nat.eqb_refl, !str_eqb_refl, Hj. reflexivity.
Qed.

(* ---- one step ------------------------------------------------------------------------ *)
Lemma step_good : forall s o s' r,
  Inv s -> hazard s o = false -> step s o = (s', r) ->
  Inv s' /\
  (is_call o = true ->
     out_eqv r (fresh o) = true \/
     exists e di k pe, r = Raise e /\ In (di, k, FBad pe) (dk s)).
Proof.
  intros s o s' r HI Hz Hs. pose proof HI as [HI0 Hh].
  destruct o as [cols o a stp cl bd| |bd|bd|d k c|d k].
  - cbn [step hazard] in *. pose proof Hz as Hbad.
    assert (Hbd : match bd with BPath d => dir_writable d = true | _ => True end).
    { destruct bd; auto. unfold uses_bad_dir in Hbad. simpl in Hbad. apply negb_false_iff in Hbad. auto. }
    rewrite fresh_expected by exact Hbd.
    set (want := ideal cols o a stp cl) in *. set (k := key_of o a stp cl) in *.
    unfold step_call in Hs. fold k want in Hs.
    destruct (mem_hit s cols k) as [c|] eqn:Eh.
    + (* memory hit: same key, same image size: it is the wanted basis *)
      assert (Hc : c = want).
      { unfold mem_hit in Eh. destruct (basis s) as [c0|]; [|discriminate].
        destruct (kprm s) as [[kc k0]|]; [|discriminate].
        destruct ((l_rows c0 =? 2 * cols) && (l_ncols c0 =? cols + 1) && (kc =? cols) && key_eqb k0 k) eqn:Et; [|discriminate].
        inversion Eh; subst c0. destruct HI0 as [Hown Hk0]. inversion Hk0; subst kc k0.
        apply andb_true_iff in Et. destruct Et as [Et Ek]. apply andb_true_iff in Et. destruct Et as [_ Ec].
        apply key_eqb_eq in Ek. apply Nat.eqb_eq in Ec.
        apply own_key_eq; auto. }
      rewrite Hc in Hs. rewrite use_split in Hs. inversion Hs; subst s' r. split; auto. intros _. left.
      apply out_eqv_use_refl. reflexivity.
    + destruct (resolve (gdir s) bd) as [g dir] eqn:Er.
      unfold uses_bad_dir in Hbad. rewrite Er in Hbad. cbn [snd] in Hbad.
      assert (Hgen : forall d', honest d' -> Inv (mk (Some want) (Some (cols, k)) g d')).
      { intros d' Hd'. unfold Inv, mk. cbn [basis kprm dk]. split; auto. }
      assert (Hgenerate : forall s2 r2,
                match dir with
                | Some d =>
                    if dir_writable d
                    then use (mk (Some want) (Some (cols, k)) g (put_file fkey_eqb d (cols, k) (FGood want) (dk s)))
                             want cols (length o) (length a)
                    else (mk (Some want) (Some (cols, k)) g (dk s), Raise EOther)
                | None => use (mk (Some want) (Some (cols, k)) g (dk s)) want cols (length o) (length a)
                end = (s2, r2) ->
                Inv s2 /\ out_eqv r2 (use_res want cols (length o) (length a)) = true).
      { intros s2 r2 E. destruct dir as [di|].
        - apply negb_false_iff in Hbad. rewrite Hbad in E. rewrite use_split in E. inversion E; subst. split.
          + apply Hgen. apply honest_put; auto.
          + apply out_eqv_use_refl. reflexivity.
        - rewrite use_split in E. inversion E; subst. split; [apply Hgen; auto|].
          apply out_eqv_use_refl. reflexivity. }
      destruct dir as [di|]; [|destruct (Hgenerate _ _ Hs); split; auto].
      destruct (find_file fkey_eqb di (cols, k) (dk s)) as [[c|pe|]|] eqn:Ef;
        try (destruct (Hgenerate _ _ Hs); split; auto; fail).
      * apply find_file_In in Ef. pose proof (Hh _ _ _ Ef) as [Hown Hk].
        assert (Hc : c = want).
        { injection Hk as Hcols Ho Ha Hst Hcl. apply own_key_eq; auto.
          unfold own_key, key_of. rewrite <- Ho, <- Ha, <- Hst, <- Hcl. reflexivity. }
        rewrite Hc in Hs.
        replace ((l_rows want =? length a * cols) && (l_ncols want =? length o * np_count cols stp cl))
          with true in Hs by (unfold want; cbn; rewrite !Nat.eqb_refl; reflexivity).
        rewrite use_split in Hs. inversion Hs; subst. split; [apply Hgen; auto|].
        intros _. left. apply out_eqv_use_refl. reflexivity.
      * inversion Hs; subst. split; [exact HI|]. intros _. right. apply find_file_In in Ef.
        exists (load_exc pe), di, (cols, k), pe. auto.
  - inversion Hs; subst. split; [|discriminate]. unfold Inv, mk. cbn. auto.
  - cbn [step] in Hs. destruct (resolve (gdir s) bd) as [g dir].
    destruct dir as [di|]; inversion Hs; subst; (split; [|discriminate]);
      unfold Inv, mk; cbn [basis kprm dk]; split; auto. apply honest_filter; auto.
  - inversion Hs; subst. split; [|discriminate]. exact HI.
  - inversion Hs; subst. split; [|discriminate].
    unfold Inv, mk. cbn [basis kprm dk]. split; auto.
    apply honest_put; auto. cbn [hazard] in Hz.
    destruct c as [x|e|]; auto.
    apply negb_false_iff in Hz. apply andb_true_iff in Hz. destruct Hz as [Hk Hx].
    apply fkey_eqb_eq in Hk. split; auto.
    unfold lcont_exact in Hx. apply andb_true_iff in Hx. destruct Hx as [Hx H3].
    apply andb_true_iff in Hx. destruct Hx as [H1 H2].
    apply Nat.eqb_eq in H2. apply Nat.eqb_eq in H3.
    destruct (l_eqv_parts _ _ H1) as (_ & _ & _ & _ & _ & Hj & _).
    destruct x as [xc xo xa xs xl xr xn xj]. cbn in *. subst. unfold own, ideal. cbn. reflexivity.
  - inversion Hs; subst. split; [|discriminate].
    unfold Inv, mk. cbn [basis kprm dk]. split; auto. apply honest_filter; auto.
Qed.

(* ---- no damaged file ------------------------------------------------------------------- *)
Definition clean (s : st) : Prop := forall di k c, In (di, k, c) (dk s) -> forall pe, c <> FBad pe.

Lemma step_dk : forall s o s' r, step s o = (s', r) ->
  forall di k c, In (di, k, c) (dk s') ->
    In (di, k, c) (dk s) \/ (exists x, c = FGood x) \/ (exists d0 k0, o = Seed d0 k0 c).
Proof.
  intros s o s' r Hs di k c Hin. destruct o as [cols o a stp cl bd| |bd|bd|d k0 c0|d k0].
  - cbn [step] in Hs. unfold step_call in Hs. revert Hs.
    repeat match goal with
           | |- context [use ?a ?b ?c ?d ?e] => rewrite (use_split a b c d e)
           end.
    repeat match goal with
           | |- context [if ?c then _ else _] => destruct c
           | |- context [match ?x with _ => _ end] => destruct x
           end; rewrite ?use_split; intros E; inversion E; subst; cbn [dk mk] in Hin;
      first [ left; exact Hin
            | destruct Hin as [Hi|Hi];
              [inversion Hi; subst; right; left; eauto
              |apply filter_In in Hi; destruct Hi; left; assumption] ].
  - inversion Hs; subst. auto.
  - cbn [step] in Hs. destruct (resolve (gdir s) bd) as [g dir].
    destruct dir; inversion Hs; subst; cbn [dk mk] in Hin; auto.
    apply filter_In in Hin. destruct Hin; auto.
  - inversion Hs; subst. auto.
  - inversion Hs; subst. cbn [dk mk] in Hin. destruct Hin as [Hi|Hi].
    + inversion Hi; subst. right. right. eauto.
    + apply filter_In in Hi. destruct Hi; auto.
  - inversion Hs; subst. cbn [dk mk] in Hin. apply filter_In in Hin. destruct Hin; auto.
Qed.

Lemma step_clean : forall s o s' r, clean s -> damage o = false -> hazard s o = false ->
  step s o = (s', r) -> clean s'.
Proof.
  intros s o s' r Hc Hd Hz Hs di k c Hin pe.
  destruct (step_dk _ _ _ _ Hs _ _ _ Hin) as [H|[[x ->]|(d0 & k0 & ->)]]; [eauto|discriminate|].
  cbn [damage] in Hd. destruct c; try discriminate.
Qed.

(* ---- theorems ------------------------------------------------------------------------------ *)
Lemma history_independent_from : forall ops s,
  Inv s -> clean s -> no_hazard s ops = true -> no_damage ops = true -> all_agree s ops = true.
Proof.
  induction ops as [|o ops IH]; intros s HI Hc Hz Hd; [reflexivity|].
  cbn [no_hazard no_damage all_agree] in *.
  apply andb_true_iff in Hz. destruct Hz as [Hz1 Hz2]. apply negb_true_iff in Hz1.
  apply andb_true_iff in Hd. destruct Hd as [Hd1 Hd2]. apply negb_true_iff in Hd1.
  destruct (step s o) as [s' r] eqn:Es. cbn [fst] in Hz2.
  destruct (step_good _ _ _ _ HI Hz1 Es) as [HI' Hr].
  pose proof (step_clean _ _ _ _ Hc Hd1 Hz1 Es) as Hc'.
  apply andb_true_iff. split; [|apply IH; auto].
  destruct (is_call o) eqn:Eo; [|reflexivity].
  destruct (Hr eq_refl) as [Hok|(e & di & k & pe & _ & Hin)]; [exact Hok|].
  exfalso. exact (Hc _ _ _ Hin pe eq_refl).
Qed.

(* C07 for linbasex *)
Theorem history_independent : forall ops,
  no_hazard init ops = true -> no_damage ops = true -> all_agree init ops = true.
Proof.
  intros. apply history_independent_from; auto.
  - apply Inv_init.
  - intros di k c [].
Qed.

Lemma fault_safe_from : forall ops s,
  Inv s -> no_hazard s ops = true -> all_safe s ops = true.
Proof.
  induction ops as [|o ops IH]; intros s HI Hz; [reflexivity|].
  cbn [no_hazard all_safe] in *.
  apply andb_true_iff in Hz. destruct Hz as [Hz1 Hz2]. apply negb_true_iff in Hz1.
  destruct (step s o) as [s' r] eqn:Es. cbn [fst] in Hz2.
  destruct (step_good _ _ _ _ HI Hz1 Es) as [HI' Hr].
  apply andb_true_iff. split; [|apply IH; auto].
  destruct (is_call o) eqn:Eo; [|reflexivity].
  destruct (Hr eq_refl) as [Hok|(e & di & k & pe & -> & Hin)].
  - rewrite Hok. reflexivity.
  - apply orb_true_iff. right. destruct e; reflexivity.
Qed.

Theorem fault_safe : forall ops, no_hazard init ops = true -> all_safe init ops = true.
Proof. intros. apply fault_safe_from; auto. apply Inv_init. Qed.

(* ---- formerly failing histories (fixed) and the remaining one ------------------------------- *)
(* d879963: angle lists closer than 1 % of pi, and [1, 2] / [12], no longer share a key *)
Example angle_keys_distinct :
  out_eqv (last_result [Call 11 [0; 2] [0; 201] 1 0 BNone] (Call 11 [0; 2] [0; 202] 1 0 BNone))
          (fresh (Call 11 [0; 2] [0; 202] 1 0 BNone)) = true.
Proof. vm_compute. reflexivity. Qed.

Example order_keys_distinct :
  out_eqv (last_result [Call 11 [1; 2] [0; 202] 1 0 (BPath 1); Cleanup] (Call 11 [12] [0; 202] 1 0 (BPath 1)))
          (fresh (Call 11 [12] [0; 202] 1 0 (BPath 1))) = true.
Proof. vm_compute. reflexivity. Qed.

(* 0e05e8d: a raising load leaves the cache untouched *)
Definition poison_hist : list op :=
  [Call 11 [0; 2] [0; 202] 1 0 BNone;
   Seed 1 (11, key_of [0; 2] [0; 102] 1 0) (FBad PValue);
   Call 11 [0; 2] [0; 102] 1 0 (BPath 1);
   Remove 1 (11, key_of [0; 2] [0; 102] 1 0)].
Definition poison_call : op := Call 11 [0; 2] [0; 102] 1 0 (BPath 1).
Example failed_load_harmless :
  out_eqv (last_result poison_hist poison_call) (fresh poison_call) = true.
Proof. vm_compute. reflexivity. Qed.

(* 7ce4ac5: a valid file of another shape is ignored and replaced *)
Example wrong_shape_regenerated :
  out_eqv (last_result [Seed 1 (11, key_of [0; 2] [0; 202] 1 0) FShape] (Call 11 [0; 2] [0; 202] 1 0 (BPath 1)))
          (fresh (Call 11 [0; 2] [0; 202] 1 0 (BPath 1))) = true.
Proof. vm_compute. reflexivity. Qed.

(* 8cabaad: the memory test compares the image size too.  6 angles and 5 orders
   on a 3x3 image give an (18, 10) basis = (2*9, 9+1); the same lists on a 9x9
   image no longer hit it *)
Definition six : list nat := [10; 60; 110; 160; 210; 260].
Definition five : list nat := [0; 1; 2; 3; 4].
Example size_test_fixed :
  out_eqv (last_result [Call 3 five six 1 0 BNone] (Call 9 five six 1 0 BNone)) (fresh (Call 9 five six 1 0 BNone)) = true.
Proof. vm_compute. reflexivity. Qed.
