(* PolarProofs.v — lemmas behind props/C19.v.
   Part 1 proves the definitions *generated from the current sources*
   (gen/FormulasPolar.v) equal to the reference forms of model/Polar.v — these
   are the obligations a source mutation breaks; the tactics tolerate
   algebraically equivalent rewritings of the source expressions.
   Part 2 proves the property on the reference forms and transfers it. *)
From Coq Require Import Reals ZArith List Lra Lia.
From Coquelicot Require Import Coquelicot.
From PA Require Import model.Polar gen.FormulasPolar proofs.PolarAtan2.
Import ListNotations.
Open Scope R_scope.

(* ================================================================== *)
(* Part 1: generated = reference                                       *)

Ltac pair_ring := cbn [fst snd]; repeat (f_equal; try reflexivity; try ring).

Lemma cart2polar_gen x y : cart2polar x y = cart2polar_m x y.
Proof. unfold cart2polar, cart2polar_m. pair_ring. Qed.

Lemma polar2cart_gen r t : polar2cart r t = polar2cart_m r t.
Proof. unfold polar2cart, polar2cart_m. pair_ring. Qed.

Lemma index_x_gen ny nx o0 o1 i j : index_coords_x_oG ny nx o0 o1 i j = index_x_m nx o1 j.
Proof. unfold index_coords_x_oG, index_x_m, wrap_origin. try reflexivity; ring. Qed.

Lemma index_y_gen ny nx o0 o1 i j : index_coords_y_oG ny nx o0 o1 i j = index_y_m ny o0 i.
Proof. unfold index_coords_y_oG, index_y_m, wrap_origin. try reflexivity; ring. Qed.

Lemma index_x_none_gen ny nx i j : index_coords_x_oN ny nx i j = j - IZR (nx / 2).
Proof. unfold index_coords_x_oN. try reflexivity; ring. Qed.

Lemma index_y_none_gen ny nx i j : index_coords_y_oN ny nx i j = IZR (ny / 2) - i.
Proof. unfold index_coords_y_oN. try reflexivity; ring. Qed.

(* reproject_image_into_polar: the four configurations (origin given / None,
   dt None / given) all sample  (o0' - r_k cos t_l, o1' + r_k sin t_l)  on the
   linspace-without-endpoint grids. *)
Ltac reproj :=
  intros; unfold sample_row, sample_col, grid_r, grid_t, model_nr, model_nt_dt, model_nt_default, wrap_origin;
  rewrite ?polar2cart_gen; unfold polar2cart_m; cbn [fst snd]; try reflexivity; ring.

Lemma reproject_row_oG_tN_gen ny nx o0 o1 rmin rmax tmin tmax dr dt k l :
  reproject_row_oG_tN ny nx o0 o1 rmin rmax tmin tmax dr dt k l =
  sample_row (wrap_origin o0 ny) (grid_r rmin rmax (model_nr rmin rmax dr) k)
             (grid_t tmin tmax (model_nt_default ny nx) l).
Proof. unfold reproject_row_oG_tN. reproj. Qed.

Lemma reproject_col_oG_tN_gen ny nx o0 o1 rmin rmax tmin tmax dr dt k l :
  reproject_col_oG_tN ny nx o0 o1 rmin rmax tmin tmax dr dt k l =
  sample_col (wrap_origin o1 nx) (grid_r rmin rmax (model_nr rmin rmax dr) k)
             (grid_t tmin tmax (model_nt_default ny nx) l).
Proof. unfold reproject_col_oG_tN. reproj. Qed.

Lemma reproject_row_oG_tG_gen ny nx o0 o1 rmin rmax tmin tmax dr dt k l :
  reproject_row_oG_tG ny nx o0 o1 rmin rmax tmin tmax dr dt k l =
  sample_row (wrap_origin o0 ny) (grid_r rmin rmax (model_nr rmin rmax dr) k)
             (grid_t tmin tmax (model_nt_dt tmin tmax dt) l).
Proof. unfold reproject_row_oG_tG. reproj. Qed.

Lemma reproject_col_oG_tG_gen ny nx o0 o1 rmin rmax tmin tmax dr dt k l :
  reproject_col_oG_tG ny nx o0 o1 rmin rmax tmin tmax dr dt k l =
  sample_col (wrap_origin o1 nx) (grid_r rmin rmax (model_nr rmin rmax dr) k)
             (grid_t tmin tmax (model_nt_dt tmin tmax dt) l).
Proof. unfold reproject_col_oG_tG. reproj. Qed.

Lemma reproject_row_oN_tN_gen ny nx o0 o1 rmin rmax tmin tmax dr dt k l :
  reproject_row_oN_tN ny nx o0 o1 rmin rmax tmin tmax dr dt k l =
  sample_row (IZR (ny / 2)) (grid_r rmin rmax (model_nr rmin rmax dr) k)
             (grid_t tmin tmax (model_nt_default ny nx) l).
Proof. unfold reproject_row_oN_tN. reproj. Qed.

Lemma reproject_col_oN_tN_gen ny nx o0 o1 rmin rmax tmin tmax dr dt k l :
  reproject_col_oN_tN ny nx o0 o1 rmin rmax tmin tmax dr dt k l =
  sample_col (IZR (nx / 2)) (grid_r rmin rmax (model_nr rmin rmax dr) k)
             (grid_t tmin tmax (model_nt_default ny nx) l).
Proof. unfold reproject_col_oN_tN. reproj. Qed.

Lemma reproject_row_oN_tG_gen ny nx o0 o1 rmin rmax tmin tmax dr dt k l :
  reproject_row_oN_tG ny nx o0 o1 rmin rmax tmin tmax dr dt k l =
  sample_row (IZR (ny / 2)) (grid_r rmin rmax (model_nr rmin rmax dr) k)
             (grid_t tmin tmax (model_nt_dt tmin tmax dt) l).
Proof. unfold reproject_row_oN_tG. reproj. Qed.

Lemma reproject_col_oN_tG_gen ny nx o0 o1 rmin rmax tmin tmax dr dt k l :
  reproject_col_oN_tG ny nx o0 o1 rmin rmax tmin tmax dr dt k l =
  sample_col (IZR (nx / 2)) (grid_r rmin rmax (model_nr rmin rmax dr) k)
             (grid_t tmin tmax (model_nt_dt tmin tmax dt) l).
Proof. unfold reproject_col_oN_tG. reproj. Qed.

(* the returned r_grid / theta_grid are the grids the positions are built from,
   and the origin handed to index_coords is the one used for the positions *)
Lemma reproject_RT_gen ny nx o0 o1 rmin rmax tmin tmax dr dt k l :
  reproject_R_oG_tN ny nx o0 o1 rmin rmax tmin tmax dr dt k l = grid_r rmin rmax (model_nr rmin rmax dr) k /\
  reproject_T_oG_tN ny nx o0 o1 rmin rmax tmin tmax dr dt k l = grid_t tmin tmax (model_nt_default ny nx) l /\
  reproject_R_oG_tG ny nx o0 o1 rmin rmax tmin tmax dr dt k l = grid_r rmin rmax (model_nr rmin rmax dr) k /\
  reproject_T_oG_tG ny nx o0 o1 rmin rmax tmin tmax dr dt k l = grid_t tmin tmax (model_nt_dt tmin tmax dt) l /\
  reproject_R_oN_tN ny nx o0 o1 rmin rmax tmin tmax dr dt k l = grid_r rmin rmax (model_nr rmin rmax dr) k /\
  reproject_T_oN_tN ny nx o0 o1 rmin rmax tmin tmax dr dt k l = grid_t tmin tmax (model_nt_default ny nx) l /\
  reproject_R_oN_tG ny nx o0 o1 rmin rmax tmin tmax dr dt k l = grid_r rmin rmax (model_nr rmin rmax dr) k /\
  reproject_T_oN_tG ny nx o0 o1 rmin rmax tmin tmax dr dt k l = grid_t tmin tmax (model_nt_dt tmin tmax dt) l.
Proof.
  unfold reproject_R_oG_tN, reproject_T_oG_tN, reproject_R_oG_tG, reproject_T_oG_tG,
    reproject_R_oN_tN, reproject_T_oN_tN, reproject_R_oN_tG, reproject_T_oN_tG,
    grid_r, grid_t, model_nr, model_nt_dt, model_nt_default.
  repeat split; try reflexivity; ring.
Qed.

Lemma reproject_origin_gen ny nx o0 o1 rmin rmax tmin tmax dr dt :
  reproject_o0_oG_tN ny nx o0 o1 rmin rmax tmin tmax dr dt = wrap_origin o0 ny /\
  reproject_o1_oG_tN ny nx o0 o1 rmin rmax tmin tmax dr dt = wrap_origin o1 nx /\
  reproject_o0_oG_tG ny nx o0 o1 rmin rmax tmin tmax dr dt = wrap_origin o0 ny /\
  reproject_o1_oG_tG ny nx o0 o1 rmin rmax tmin tmax dr dt = wrap_origin o1 nx /\
  reproject_o0_oN_tN ny nx o0 o1 rmin rmax tmin tmax dr dt = IZR (ny / 2) /\
  reproject_o1_oN_tN ny nx o0 o1 rmin rmax tmin tmax dr dt = IZR (nx / 2) /\
  reproject_o0_oN_tG ny nx o0 o1 rmin rmax tmin tmax dr dt = IZR (ny / 2) /\
  reproject_o1_oN_tG ny nx o0 o1 rmin rmax tmin tmax dr dt = IZR (nx / 2).
Proof.
  unfold reproject_o0_oG_tN, reproject_o1_oG_tN, reproject_o0_oG_tG, reproject_o1_oG_tG,
    reproject_o0_oN_tN, reproject_o1_oN_tN, reproject_o0_oN_tG, reproject_o1_oN_tG, wrap_origin.
  repeat split; try reflexivity; ring.
Qed.

(* radial_intensity *)
Lemma ang_reduce_gen row a b : ang_reduce row a b = ang_reduce_m row (b - a).
Proof. unfold ang_reduce, ang_reduce_m. try reflexivity; ring. Qed.

Lemma w_int2D_gen v r t : w_int2D v r t = v * r.
Proof. unfold w_int2D. try reflexivity; ring. Qed.
Lemma w_int3D_gen v r t : w_int3D v r t = v * (PI * (r * r) * Rabs (sin t)).
Proof. unfold w_int3D. try reflexivity; ring. Qed.
Lemma w_avg2D_gen v r t : w_avg2D v r t = v / (2 * PI).
Proof. unfold w_avg2D. try reflexivity; field; apply PI_neq0. Qed.
Lemma w_avg3D_gen v r t : w_avg3D v r t = v * (Rabs (sin t) / 4).
Proof. unfold w_avg3D. try reflexivity; field. Qed.

(* toPES *)
Lemma toPES_E_gen r I c hv V z :
  toPES_E_nn r I c hv V z = r * r * c /\
  toPES_E_nP r I c hv V z = hv - r * r * c /\
  toPES_E_Vn r I c hv V z = r * r * (c * (Rabs V / (z * z))) /\
  toPES_E_VP r I c hv V z = hv - r * r * (c * (Rabs V / (z * z))).
Proof.
  unfold toPES_E_nn, toPES_E_nP, toPES_E_Vn, toPES_E_VP.
  repeat split; try reflexivity; cbn [pow]; rewrite ?Rmult_1_r; try reflexivity; ring.
Qed.

Lemma toPES_I_gen r I c hv V z :
  toPES_I_nt r I c hv V z = I / (2 * r) / c /\
  toPES_I_nf r I c hv V z = I / (2 * r) /\
  toPES_I_Vt r I c hv V z = I / (2 * r) / (c * (Rabs V / (z * z))) /\
  toPES_I_Vf r I c hv V z = I / (2 * r) /\
  toPES_I0_nt r I c hv V z = I / c /\
  toPES_I0_nf r I c hv V z = I /\
  toPES_I0_Vt r I c hv V z = I / (c * (Rabs V / (z * z))) /\
  toPES_I0_Vf r I c hv V z = I.
Proof.
  unfold toPES_I_nt, toPES_I_nf, toPES_I_Vt, toPES_I_Vf, toPES_I0_nt, toPES_I0_nf, toPES_I0_Vt, toPES_I0_Vf.
  repeat split; try reflexivity; cbn [pow]; rewrite ?Rmult_1_r; reflexivity.
Qed.

(* circularize *)
Lemma circ_ref_gen f ref nrow ncol i j :
  circ_row_ref f ref nrow ncol i j = circ_row_m f (f ref) nrow ncol i j /\
  circ_col_ref f ref nrow ncol i j = circ_col_m f (f ref) nrow ncol i j.
Proof.
  unfold circ_row_ref, circ_col_ref, circ_row_m, circ_col_m, circ_theta_m, circ_X, circ_Y.
  split; reflexivity.
Qed.

Definition circ_mean_factor (f : R -> R) (pixels : list (R * R)) (nrow ncol : Z) : R :=
  mean_list (map (fun p : R * R => f (circ_theta_m nrow ncol (fst p) (snd p))) pixels).

Lemma circ_mean_gen f pixels nrow ncol i j :
  circ_row_mean f pixels nrow ncol i j = circ_row_m f (circ_mean_factor f pixels nrow ncol) nrow ncol i j /\
  circ_col_mean f pixels nrow ncol i j = circ_col_m f (circ_mean_factor f pixels nrow ncol) nrow ncol i j.
Proof.
  unfold circ_row_mean, circ_col_mean, circ_row_m, circ_col_m, circ_mean_factor, circ_theta_m, circ_X, circ_Y.
  split; reflexivity.
Qed.

(* ================================================================== *)
(* Part 2: the property                                                *)

(* ---- round trip ---- *)
Lemma L_polar_roundtrip : forall x y : R,
  polar2cart (fst (cart2polar x y)) (snd (cart2polar x y)) = (x, y).
Proof.
  intros x y. rewrite cart2polar_gen, polar2cart_gen. unfold cart2polar_m, polar2cart_m. cbn [fst snd].
  rewrite atan2_sin, atan2_cos. reflexivity.
Qed.

Lemma L_polar_roundtrip_inv : forall r t : R, 0 < r -> - PI < t <= PI ->
  cart2polar (fst (polar2cart r t)) (snd (polar2cart r t)) = (r, t).
Proof.
  intros r t Hr Ht. rewrite polar2cart_gen, cart2polar_gen. unfold cart2polar_m, polar2cart_m. cbn [fst snd].
  rewrite hyp_polar by lra. rewrite atan2_polar by assumption. reflexivity.
Qed.

(* r = 0 maps to the origin whatever the angle, and the origin maps to (0, 0) *)
Lemma L_polar_origin : forall t : R, polar2cart 0 t = (0, 0) /\ cart2polar 0 0 = (0, 0).
Proof.
  intros t. rewrite polar2cart_gen, cart2polar_gen. unfold polar2cart_m, cart2polar_m. split.
  - f_equal; ring.
  - rewrite atan2_0_0 by reflexivity. f_equal. replace (0 * 0 + 0 * 0) with 0 by ring. apply sqrt_0.
Qed.

(* ---- angle convention ---- *)
Lemma L_angle_convention : forall x y : R,
  (0 < y -> snd (cart2polar 0 y) = 0) /\
  (0 < x -> 0 < snd (cart2polar x y)) /\
  (x < 0 -> snd (cart2polar x y) < 0) /\
  (0 < x -> snd (cart2polar x 0) = PI / 2) /\
  (x < 0 -> snd (cart2polar x 0) = - PI / 2) /\
  (y < 0 -> snd (cart2polar 0 y) = PI) /\
  - PI < snd (cart2polar x y) <= PI /\
  0 <= fst (cart2polar x y).
Proof.
  intros x y. rewrite !cart2polar_gen. unfold cart2polar_m. cbn [fst snd].
  repeat split.
  - apply atan2_up.
  - apply atan2_gt_0.
  - apply atan2_lt_0.
  - intros H. now apply atan2_0_pos.
  - intros H. now apply atan2_0_neg.
  - apply atan2_down.
  - apply atan2_range.
  - apply atan2_range.
  - apply sqrt_pos.
Qed.

(* ---- index_coords ---- *)
Lemma L_index_coords_origin : forall (ny nx : Z) (o0 o1 i j : R),
  (* (0, 0) exactly at the (wrapped) origin pixel *)
  index_coords_x_oG ny nx o0 o1 (wrap_origin o0 ny) (wrap_origin o1 nx) = 0 /\
  index_coords_y_oG ny nx o0 o1 (wrap_origin o0 ny) (wrap_origin o1 nx) = 0 /\
  (* non-negative origins are used as they are, negative ones count from the end *)
  (0 <= o0 -> wrap_origin o0 ny = o0) /\ (o0 < 0 -> wrap_origin o0 ny = IZR ny + o0) /\
  (0 <= o1 -> wrap_origin o1 nx = o1) /\ (o1 < 0 -> wrap_origin o1 nx = IZR nx + o1) /\
  (* x grows to the right (with the column index), y grows upwards (against the row index) *)
  index_coords_x_oG ny nx o0 o1 i (j + 1) - index_coords_x_oG ny nx o0 o1 i j = 1 /\
  index_coords_y_oG ny nx o0 o1 (i + 1) j - index_coords_y_oG ny nx o0 o1 i j = - 1 /\
  index_coords_x_oG ny nx o0 o1 (i + 1) j = index_coords_x_oG ny nx o0 o1 i j /\
  index_coords_y_oG ny nx o0 o1 i (j + 1) = index_coords_y_oG ny nx o0 o1 i j /\
  (* origin None = (ny // 2, nx // 2) *)
  index_coords_x_oN ny nx (IZR (ny / 2)) (IZR (nx / 2)) = 0 /\
  index_coords_y_oN ny nx (IZR (ny / 2)) (IZR (nx / 2)) = 0 /\
  index_coords_x_oN ny nx i (j + 1) - index_coords_x_oN ny nx i j = 1 /\
  index_coords_y_oN ny nx (i + 1) j - index_coords_y_oN ny nx i j = - 1.
Proof.
  intros. rewrite !index_x_gen, !index_y_gen, !index_x_none_gen, !index_y_none_gen.
  unfold index_x_m, index_y_m, wrap_origin.
  destruct (Rlt_dec o0 0), (Rlt_dec o1 0); repeat split; intros; lra.
Qed.

(* ---- reproject_image_into_polar ---- *)
(* position of sample (k, l) and its polar coordinates relative to the origin,
   stated once for an arbitrary origin (o0', o1') and arbitrary grid values *)
Lemma sample_polar : forall o0 o1 r t : R, 0 < r -> - PI < t <= PI ->
  cart2polar (sample_col o1 r t - o1) (o0 - sample_row o0 r t) = (r, t).
Proof.
  intros o0 o1 r t Hr Ht. unfold sample_col, sample_row.
  replace (o1 + r * sin t - o1) with (r * sin t) by ring.
  replace (o0 - (o0 - r * cos t)) with (r * cos t) by ring.
  pose proof (L_polar_roundtrip_inv r t Hr Ht) as H.
  rewrite polar2cart_gen in H. unfold polar2cart_m in H. cbn [fst snd] in H. exact H.
Qed.

Lemma L_reproject_positions_given :
  forall (ny nx : Z) (o0 o1 rmin rmax tmin tmax dr dt k l : R),
  let r_k := reproject_R_oG_tN ny nx o0 o1 rmin rmax tmin tmax dr dt k l in
  let t_l := reproject_T_oG_tN ny nx o0 o1 rmin rmax tmin tmax dr dt k l in
  let row := reproject_row_oG_tN ny nx o0 o1 rmin rmax tmin tmax dr dt k l in
  let col := reproject_col_oG_tN ny nx o0 o1 rmin rmax tmin tmax dr dt k l in
  (* grids: linspace without endpoint *)
  r_k = rmin + k * ((rmax - rmin) / IZR (ceilZ ((rmax - rmin) / dr))) /\
  t_l = tmin + l * ((tmax - tmin) / IZR (Z.max nx ny)) /\
  (* sampled position *)
  row = wrap_origin o0 ny - r_k * cos t_l /\
  col = wrap_origin o1 nx + r_k * sin t_l /\
  (* its polar coordinates in the frame of index_coords are exactly (r_k, t_l) *)
  (0 < r_k -> - PI < t_l <= PI ->
   cart2polar (index_coords_x_oG ny nx o0 o1 row col) (index_coords_y_oG ny nx o0 o1 row col) = (r_k, t_l)).
Proof.
  intros. subst r_k t_l row col.
  destruct (reproject_RT_gen ny nx o0 o1 rmin rmax tmin tmax dr dt k l) as (HR & HT & _).
  rewrite reproject_row_oG_tN_gen, reproject_col_oG_tN_gen, HR, HT.
  rewrite index_x_gen, index_y_gen. unfold index_x_m, index_y_m.
  repeat split.
  - intros Hr Ht. now apply sample_polar.
Qed.

Lemma L_reproject_positions_dt :
  forall (ny nx : Z) (o0 o1 rmin rmax tmin tmax dr dt k l : R),
  let r_k := reproject_R_oG_tG ny nx o0 o1 rmin rmax tmin tmax dr dt k l in
  let t_l := reproject_T_oG_tG ny nx o0 o1 rmin rmax tmin tmax dr dt k l in
  let row := reproject_row_oG_tG ny nx o0 o1 rmin rmax tmin tmax dr dt k l in
  let col := reproject_col_oG_tG ny nx o0 o1 rmin rmax tmin tmax dr dt k l in
  r_k = rmin + k * ((rmax - rmin) / IZR (ceilZ ((rmax - rmin) / dr))) /\
  t_l = tmin + l * ((tmax - tmin) / IZR (ceilZ ((tmax - tmin) / dt))) /\
  row = wrap_origin o0 ny - r_k * cos t_l /\
  col = wrap_origin o1 nx + r_k * sin t_l /\
  (0 < r_k -> - PI < t_l <= PI ->
   cart2polar (index_coords_x_oG ny nx o0 o1 row col) (index_coords_y_oG ny nx o0 o1 row col) = (r_k, t_l)).
Proof.
  intros. subst r_k t_l row col.
  destruct (reproject_RT_gen ny nx o0 o1 rmin rmax tmin tmax dr dt k l) as (_ & _ & HR & HT & _).
  rewrite reproject_row_oG_tG_gen, reproject_col_oG_tG_gen, HR, HT.
  rewrite index_x_gen, index_y_gen. unfold index_x_m, index_y_m.
  repeat split.
  - intros Hr Ht. now apply sample_polar.
Qed.

Lemma L_reproject_positions_none :
  forall (ny nx : Z) (o0 o1 rmin rmax tmin tmax dr dt k l : R),
  (let r_k := reproject_R_oN_tN ny nx o0 o1 rmin rmax tmin tmax dr dt k l in
   let t_l := reproject_T_oN_tN ny nx o0 o1 rmin rmax tmin tmax dr dt k l in
   let row := reproject_row_oN_tN ny nx o0 o1 rmin rmax tmin tmax dr dt k l in
   let col := reproject_col_oN_tN ny nx o0 o1 rmin rmax tmin tmax dr dt k l in
   r_k = rmin + k * ((rmax - rmin) / IZR (ceilZ ((rmax - rmin) / dr))) /\
   t_l = tmin + l * ((tmax - tmin) / IZR (Z.max nx ny)) /\
   row = IZR (ny / 2) - r_k * cos t_l /\
   col = IZR (nx / 2) + r_k * sin t_l /\
   (0 < r_k -> - PI < t_l <= PI ->
    cart2polar (index_coords_x_oN ny nx row col) (index_coords_y_oN ny nx row col) = (r_k, t_l))) /\
  (let r_k := reproject_R_oN_tG ny nx o0 o1 rmin rmax tmin tmax dr dt k l in
   let t_l := reproject_T_oN_tG ny nx o0 o1 rmin rmax tmin tmax dr dt k l in
   let row := reproject_row_oN_tG ny nx o0 o1 rmin rmax tmin tmax dr dt k l in
   let col := reproject_col_oN_tG ny nx o0 o1 rmin rmax tmin tmax dr dt k l in
   r_k = rmin + k * ((rmax - rmin) / IZR (ceilZ ((rmax - rmin) / dr))) /\
   t_l = tmin + l * ((tmax - tmin) / IZR (ceilZ ((tmax - tmin) / dt))) /\
   row = IZR (ny / 2) - r_k * cos t_l /\
   col = IZR (nx / 2) + r_k * sin t_l /\
   (0 < r_k -> - PI < t_l <= PI ->
    cart2polar (index_coords_x_oN ny nx row col) (index_coords_y_oN ny nx row col) = (r_k, t_l))).
Proof.
  intros.
  destruct (reproject_RT_gen ny nx o0 o1 rmin rmax tmin tmax dr dt k l) as (_ & _ & _ & _ & HR & HT & HR' & HT').
  split; cbv zeta.
  - rewrite reproject_row_oN_tN_gen, reproject_col_oN_tN_gen, HR, HT.
    rewrite index_x_none_gen, index_y_none_gen.
    repeat split. intros Hr Ht. now apply sample_polar.
  - rewrite reproject_row_oN_tG_gen, reproject_col_oN_tG_gen, HR', HT'.
    rewrite index_x_none_gen, index_y_none_gen.
    repeat split. intros Hr Ht. now apply sample_polar.
Qed.

(* the origin handed to index_coords (whose r, theta extrema define the grids)
   is the origin used for the sampling positions *)
Lemma L_reproject_same_origin : forall (ny nx : Z) (o0 o1 rmin rmax tmin tmax dr dt : R),
  reproject_o0_oG_tN ny nx o0 o1 rmin rmax tmin tmax dr dt = wrap_origin o0 ny /\
  reproject_o1_oG_tN ny nx o0 o1 rmin rmax tmin tmax dr dt = wrap_origin o1 nx /\
  reproject_o0_oG_tG ny nx o0 o1 rmin rmax tmin tmax dr dt = wrap_origin o0 ny /\
  reproject_o1_oG_tG ny nx o0 o1 rmin rmax tmin tmax dr dt = wrap_origin o1 nx /\
  reproject_o0_oN_tN ny nx o0 o1 rmin rmax tmin tmax dr dt = IZR (ny / 2) /\
  reproject_o1_oN_tN ny nx o0 o1 rmin rmax tmin tmax dr dt = IZR (nx / 2) /\
  reproject_o0_oN_tG ny nx o0 o1 rmin rmax tmin tmax dr dt = IZR (ny / 2) /\
  reproject_o1_oN_tG ny nx o0 o1 rmin rmax tmin tmax dr dt = IZR (nx / 2).
Proof. exact reproject_origin_gen. Qed.

(* ---- the angular grid ---- *)
Lemma L_theta_span : forall (a b a' b' : R) (nt : Z) (ny nx : Z) (o0 o1 rmin rmax dr dt k l : R),
  let tmin := atan2 a b in
  let tmax := atan2 a' b' in
  let th := fun l => reproject_T_oG_tN ny nx o0 o1 rmin rmax tmin tmax dr dt k l in
  let n := IZR (Z.max nx ny) in
  0 < n -> tmin <= tmax ->
  th 0 = tmin /\
  th (l + 1) - th l = (tmax - tmin) / n /\
  th n = tmax /\
  (0 <= l < n -> tmin <= th l < tmax \/ tmin = tmax) /\
  n * ((tmax - tmin) / n) = tmax - tmin /\
  tmax - tmin < 2 * PI.
Proof.
  intros a b a' b' nt ny nx o0 o1 rmin rmax dr dt k l tmin tmax th n Hn Hle.
  assert (Hth : forall l, th l = tmin + l * ((tmax - tmin) / n)).
  { intros l0. subst th. cbv beta.
    destruct (reproject_RT_gen ny nx o0 o1 rmin rmax tmin tmax dr dt k l0) as (_ & HT & _).
    rewrite HT. reflexivity. }
  rewrite !Hth.
  pose proof (atan2_range a b) as H1. pose proof (atan2_range a' b') as H2.
  fold tmin in H1. fold tmax in H2.
  repeat split.
  - ring.
  - field. lra.
  - field. lra.
  - intros [Hl0 Hl1]. destruct (Req_dec tmin tmax) as [E | NE]; [right; exact E | left].
    assert (0 < (tmax - tmin) / n) by (apply Rdiv_lt_0_compat; lra).
    split.
    + assert (0 <= l * ((tmax - tmin) / n)) by (apply Rmult_le_pos; lra). lra.
    + assert (l * ((tmax - tmin) / n) < n * ((tmax - tmin) / n)) by (apply Rmult_lt_compat_r; lra).
      replace (n * ((tmax - tmin) / n)) with (tmax - tmin) in * by (field; lra). lra.
  - field. lra.
  - lra.
Qed.

(* ---- radial_intensity: exact relations between the kinds ---- *)
Lemma sum_list_scale c (f g : R * R -> R) (l : list (R * R)) :
  (forall p, In p l -> f p = c * g p) -> sum_list (map f l) = c * sum_list (map g l).
Proof.
  induction l as [| p l IH]; intros H; cbn [map sum_list fold_right].
  - ring.
  - change (fold_right Rplus 0 (map f l)) with (sum_list (map f l)).
    change (fold_right Rplus 0 (map g l)) with (sum_list (map g l)).
    rewrite IH, (H p) by (intros; try apply H; cbn; auto). ring.
Qed.

Lemma L_int2D_avg2D : forall (r T00 T01 : R) (samples : list (R * R)),
  ri_int2D r T00 T01 samples = 2 * PI * r * ri_avg2D r T00 T01 samples /\
  angular_integration_2D r T00 T01 samples = 2 * PI * r * average_radial_intensity_2D r T00 T01 samples /\
  (forall R_ T_, jac_int2D R_ T_ = 2 * PI * R_ * jac_avg2D R_ T_).
Proof.
  intros. unfold angular_integration_2D, average_radial_intensity_2D.
  assert (H : ri_int2D r T00 T01 samples = 2 * PI * r * ri_avg2D r T00 T01 samples).
  { unfold ri_int2D, ri_avg2D. rewrite !ang_reduce_gen. unfold ang_reduce_m.
    rewrite (sum_list_scale (2 * PI * r) _ (fun p => w_avg2D (fst p) r (snd p))).
    - ring.
    - intros p _. rewrite w_int2D_gen, w_avg2D_gen. field. apply PI_neq0. }
  repeat split; try exact H.
  intros. unfold jac_int2D, jac_avg2D. rewrite w_int2D_gen, w_avg2D_gen. field. apply PI_neq0.
Qed.

Lemma L_int3D_avg3D : forall (r T00 T01 : R) (samples : list (R * R)),
  ri_int3D r T00 T01 samples = 4 * PI * r ^ 2 * ri_avg3D r T00 T01 samples /\
  angular_integration_3D r T00 T01 samples = 4 * PI * r ^ 2 * average_radial_intensity_3D r T00 T01 samples /\
  (forall R_ T_, jac_int3D R_ T_ = 4 * PI * R_ ^ 2 * jac_avg3D R_ T_).
Proof.
  intros. unfold angular_integration_3D, average_radial_intensity_3D.
  assert (H : ri_int3D r T00 T01 samples = 4 * PI * r ^ 2 * ri_avg3D r T00 T01 samples).
  { unfold ri_int3D, ri_avg3D. rewrite !ang_reduce_gen. unfold ang_reduce_m.
    rewrite (sum_list_scale (4 * PI * r ^ 2) _ (fun p => w_avg3D (fst p) r (snd p))).
    - ring.
    - intros p _. rewrite w_int3D_gen, w_avg3D_gen. field. }
  repeat split; try exact H.
  intros. unfold jac_int3D, jac_avg3D. rewrite w_int3D_gen, w_avg3D_gen. field.
Qed.

(* the four Jacobians and the Riemann sum, spelled out:
   int2D = sum v r dt, int3D = sum v pi r^2 |sin T| dt,
   avg2D = sum v dt / 2pi, avg3D = sum v |sin T| dt / 4 *)
Lemma L_kinds_spelled : forall (r T00 T01 v t : R) (rest : list (R * R)),
  ri_int2D r T00 T01 ((v, t) :: rest) = v * r * (T01 - T00) + ri_int2D r T00 T01 rest /\
  ri_int3D r T00 T01 ((v, t) :: rest) = v * (PI * r ^ 2 * Rabs (sin t)) * (T01 - T00) + ri_int3D r T00 T01 rest /\
  ri_avg2D r T00 T01 ((v, t) :: rest) = v / (2 * PI) * (T01 - T00) + ri_avg2D r T00 T01 rest /\
  ri_avg3D r T00 T01 ((v, t) :: rest) = v * (Rabs (sin t) / 4) * (T01 - T00) + ri_avg3D r T00 T01 rest /\
  ri_int2D r T00 T01 [] = 0.
Proof.
  intros. unfold ri_int2D, ri_int3D, ri_avg2D, ri_avg3D. rewrite !ang_reduce_gen. unfold ang_reduce_m.
  cbn [map sum_list fold_right fst snd].
  rewrite w_int2D_gen, w_int3D_gen, w_avg2D_gen, w_avg3D_gen.
  repeat split; unfold sum_list; ring.
Qed.

(* ---- toPES ---- *)
Lemma L_toPES_jacobian : forall r I c hv V z : R, 0 < r -> c <> 0 ->
  (* per_energy_scaling = True: PES(r) dE/dr = I(r) (kinetic energy), = -I(r)
     (binding energy E = hv - c r^2, whose axis is then sorted ascending) *)
  toPES_I_nt r I c hv V z * Derive (fun x => toPES_E_nn x I c hv V z) r = I /\
  toPES_I_nt r I c hv V z * Derive (fun x => toPES_E_nP x I c hv V z) r = - I /\
  (0 < c -> toPES_I_nt r I c hv V z * Rabs (Derive (fun x => toPES_E_nn x I c hv V z) r) = I /\
            toPES_I_nt r I c hv V z * Rabs (Derive (fun x => toPES_E_nP x I c hv V z) r) = I) /\
  (* per_energy_scaling = False: only the 2 r of d(r^2)/dr *)
  toPES_I_nf r I c hv V z * (2 * r) = I /\
  toPES_I_nt r I c hv V z * c = toPES_I_nf r I c hv V z /\
  (* element 0 (r = 0) is only divided by the calibration factor *)
  toPES_I0_nt r I c hv V z * c = I /\ toPES_I0_nf r I c hv V z = I /\
  (* Vrep / zoom: the same formulas with the factor c |Vrep| / zoom^2 *)
  (V <> 0 -> z <> 0 ->
   let c' := c * (Rabs V / z ^ 2) in
   toPES_E_Vn r I c hv V z = toPES_E_nn r I c' hv V z /\
   toPES_E_VP r I c hv V z = toPES_E_nP r I c' hv V z /\
   toPES_I_Vt r I c hv V z = toPES_I_nt r I c' hv V z /\
   toPES_I_Vf r I c hv V z = toPES_I_nf r I c' hv V z /\
   c' <> 0 /\
   toPES_I_Vt r I c hv V z * Derive (fun x => toPES_E_Vn x I c hv V z) r = I /\
   toPES_I_Vt r I c hv V z * Derive (fun x => toPES_E_VP x I c hv V z) r = - I).
Proof.
  intros r I c hv V z Hr Hc.
  assert (D1 : forall c0, Derive (fun x => toPES_E_nn x I c0 hv V z) r = 2 * c0 * r).
  { intros c0. apply is_derive_unique.
    apply (is_derive_ext (fun x => x * x * c0)).
    - intros t. symmetry. apply (toPES_E_gen t I c0 hv V z).
    - auto_derive; [exact Logic.I | ring]. }
  assert (D2 : forall c0, Derive (fun x => toPES_E_nP x I c0 hv V z) r = - (2 * c0 * r)).
  { intros c0. apply is_derive_unique.
    apply (is_derive_ext (fun x => hv - x * x * c0)).
    - intros t. symmetry. apply (toPES_E_gen t I c0 hv V z).
    - auto_derive; [exact Logic.I | ring]. }
  assert (D3 : Derive (fun x => toPES_E_Vn x I c hv V z) r = 2 * (c * (Rabs V / (z * z))) * r).
  { apply is_derive_unique.
    apply (is_derive_ext (fun x => x * x * (c * (Rabs V / (z * z))))).
    - intros t. symmetry. apply (toPES_E_gen t I c hv V z).
    - auto_derive; [exact Logic.I | ring]. }
  assert (D4 : Derive (fun x => toPES_E_VP x I c hv V z) r = - (2 * (c * (Rabs V / (z * z))) * r)).
  { apply is_derive_unique.
    apply (is_derive_ext (fun x => hv - x * x * (c * (Rabs V / (z * z))))).
    - intros t. symmetry. apply (toPES_E_gen t I c hv V z).
    - auto_derive; [exact Logic.I | ring]. }
  destruct (toPES_I_gen r I c hv V z) as (I1 & I2 & I3 & I4 & I5 & I6 & I7 & I8).
  rewrite D1, D2, I1, I2, I5, I6.
  split; [field; lra |]. split; [field; lra |].
  split.
  { intros Hc0. rewrite Rabs_Ropp, Rabs_right by nra. split; field; lra. }
  split; [field; lra |]. split; [field; lra |]. split; [field; lra |]. split; [reflexivity |].
  intros HV Hz c'.
  assert (Hc' : c' <> 0).
  { subst c'. apply Rmult_integral_contrapositive_currified; [assumption |].
    apply Rmult_integral_contrapositive_currified.
    - now apply Rabs_no_R0.
    - apply Rinv_neq_0_compat. now apply pow_nonzero. }
  destruct (toPES_E_gen r I c hv V z) as (E1 & E2 & E3 & E4).
  destruct (toPES_E_gen r I c' hv V z) as (E1' & E2' & _).
  destruct (toPES_I_gen r I c' hv V z) as (I1' & I2' & _).
  assert (Ec : c * (Rabs V / (z * z)) = c') by (subst c'; cbn [pow]; rewrite Rmult_1_r; reflexivity).
  rewrite E3, E4, E1', E2', I3, I4, I1', I2', D3, D4, Ec.
  repeat split; try reflexivity; try assumption; field; lra.
Qed.

(* ---- circularize ---- *)
Lemma sum_list_const c (l : list (R * R)) (g : R * R -> R) :
  (forall p, g p = c) -> sum_list (map g l) = INR (length l) * c.
Proof.
  intros H. induction l as [| p l IH].
  - cbn. ring.
  - cbn [map sum_list fold_right]. change (fold_right Rplus 0 (map g l)) with (sum_list (map g l)).
    rewrite IH, H. change (length (p :: l)) with (S (length l)). rewrite S_INR. ring.
Qed.

Lemma circ_mean_factor_const c pixels nrow ncol : pixels <> [] ->
  circ_mean_factor (fun _ => c) pixels nrow ncol = c.
Proof.
  intros Hne. unfold circ_mean_factor, mean_list.
  rewrite (sum_list_const c) by reflexivity. rewrite map_length.
  field. destruct pixels; [congruence |]. apply not_0_INR. discriminate.
Qed.

Lemma circ_m_const c nrow ncol i j : c <> 0 ->
  circ_row_m (fun _ => c) c nrow ncol i j = i /\ circ_col_m (fun _ => c) c nrow ncol i j = j.
Proof. intros Hc. unfold circ_row_m, circ_col_m, circ_X, circ_Y. split; field; assumption. Qed.

Lemma L_circularize_const : forall (c ref : R) (pixels : list (R * R)) (nrow ncol : Z) (i j : R),
  c <> 0 -> pixels <> [] ->
  let f := fun _ : R => c in
  (* ref_angle = None: factor = mean of the correction over the pixels *)
  circ_row_mean f pixels nrow ncol i j = i /\ circ_col_mean f pixels nrow ncol i j = j /\
  (* ref_angle given *)
  circ_row_ref f ref nrow ncol i j = i /\ circ_col_ref f ref nrow ncol i j = j.
Proof.
  intros c ref pixels nrow ncol i j Hc Hne f.
  destruct (circ_mean_gen f pixels nrow ncol i j) as [A B].
  destruct (circ_ref_gen f ref nrow ncol i j) as [C D].
  rewrite A, B, C, D. subst f. rewrite circ_mean_factor_const by assumption.
  destruct (circ_m_const c nrow ncol i j Hc). cbv beta. auto.
Qed.

(* general form of the map: radial scaling by factor / f(theta) about the
   centre (ncol // 2, nrow // 2), angle unchanged in direction *)
Lemma L_circularize_map : forall (f : R -> R) (ref : R) (nrow ncol : Z) (i j : R),
  let X := j - IZR (ncol / 2) in
  let Y := IZR (nrow / 2) - i in
  let s := f ref / f (atan2 X Y) in
  f (atan2 X Y) <> 0 ->
  circ_col_ref f ref nrow ncol i j - IZR (ncol / 2) = X * s /\
  IZR (nrow / 2) - circ_row_ref f ref nrow ncol i j = Y * s.
Proof.
  intros f ref nrow ncol i j X Y s Hf.
  destruct (circ_ref_gen f ref nrow ncol i j) as [C D]. rewrite C, D.
  unfold circ_row_m, circ_col_m, circ_theta_m, circ_X, circ_Y. subst X Y s. cbv zeta in *.
  split; field; assumption.
Qed.
