(* SymmetryProofs.v — lemmas behind props/C06.v, over an arbitrary carrier
   satisfying the few laws of averaging that the statements need. *)
From Coq Require Import List Arith Lia Bool ZArith ZifyBool ZifyNat.
From PA Require Import base.Arr base.Px model.Symmetry proofs.SymmetryPx.
Import ListNotations.

Ltac Zify.zify_post_hook ::= Z.to_euclidean_division_equations.
Set Implicit Arguments.

Section SymProofs.
  Variable A : Type.
  Variable zero : A.
  Variable add : A -> A -> A.
  Variable divn : A -> nat -> A.
  Notation img := (list (list A)).
  Notation px := (px zero).
  Notation getq := (get_quadrants zero add divn).
  Notation sym := (symmetrize zero add divn).
  Notation imadd := (imadd add).
  Notation imdiv := (imdiv divn).

  (* laws of the carrier used by sym_fix / sym_idem (all hold in any field of
     characteristic 0, in particular in R) *)
  Definition mean_laws : Prop :=
    (forall x, add x zero = x) /\ (forall x, add zero x = x) /\
    (forall x, divn x 1 = x) /\ (forall x, divn (add x x) 2 = x) /\
    (forall x, divn (add (add x x) x) 3 = x) /\
    (forall x, divn (add (add (add x x) x) x) 4 = x).

  Lemma Ok_inj (T : Type) (a b : T) : Ok a = Ok b -> a = b.
  Proof. intros H. injection H. auto. Qed.

  (* ---- shapes of pointwise combinations --------------------------------- *)
  Lemma wf_imadd n m (X Y : img) : wf n m X -> wf n m Y -> wf n m (imadd X Y).
  Proof. apply wf_imap2. Qed.
  Lemma wf_imdiv n m k (X : img) : wf n m X -> wf n m (imdiv k X).
  Proof. apply wf_imap. Qed.
  Lemma px_imadd n m (X Y : img) i j : wf n m X -> wf n m Y -> i < n -> j < m ->
    px (imadd X Y) i j = add (px X i j) (px Y i j).
  Proof. intros. unfold Symmetry.imadd. rewrite px_imap2 with (n:=n) (m:=m); auto. Qed.
  Lemma px_imdiv n m k (X : img) i j : wf n m X -> i < n -> j < m ->
    px (imdiv k X) i j = divn (px X i j) k.
  Proof. intros. unfold Symmetry.imdiv. rewrite px_imap with (n:=n) (m:=m); auto. Qed.

  Section Fixed.
    Variables n m : nat.
    Variable IM : img.
    Hypothesis HIM : wf n m IM.
    Hypothesis Hn : 1 <= n.
    Hypothesis Hm : 1 <= m.
    Let nc := ceil2 n.
    Let mc := ceil2 m.
    Notation Q0 := (Q0r zero n m IM).
    Notation Q1 := (Q1r zero n m IM).
    Notation Q2 := (Q2r zero n m IM).
    Notation Q3 := (Q3r zero n m IM).

    Lemma shape_IM : nrows IM = n /\ ncols IM = m.
    Proof. split; [apply (wf_nrows HIM)|apply (wf_ncols HIM); lia]. Qed.

    (* ---- what get_quadrants returns, per symmetry_axis (average) --------- *)
    Definition Q01 (u : mask) : img := imdiv (b2n (u0 u) + b2n (u1 u)) (imadd (Q0 (u0 u)) (Q1 (u1 u))).
    Definition Q23 (u : mask) : img := imdiv (b2n (u2 u) + b2n (u3 u)) (imadd (Q2 (u2 u)) (Q3 (u3 u))).
    Definition Q12 (u : mask) : img := imdiv (b2n (u1 u) + b2n (u2 u)) (imadd (Q1 (u1 u)) (Q2 (u2 u))).
    Definition Q03 (u : mask) : img := imdiv (b2n (u0 u) + b2n (u3 u)) (imadd (Q0 (u0 u)) (Q3 (u3 u))).
    Definition Qall (u : mask) : img :=
      imdiv (mask_count u) (imadd (imadd (imadd (Q0 (u0 u)) (Q1 (u1 u))) (Q2 (u2 u))) (Q3 (u3 u))).

    Lemma get_None u :
      getq IM true ax_None u Average =
      if rejects ax_None u then ValueError else Ok (Q0 (u0 u), Q1 (u1 u), Q2 (u2 u), Q3 (u3 u)).
    Proof.
      unfold get_quadrants. destruct shape_IM as [-> ->].
      destruct (rejects ax_None u); reflexivity.
    Qed.

    Lemma get_None_fourier :
      getq IM true ax_None mask_all Fourier = Ok (Q0 true, Q1 true, Q2 true, Q3 true).
    Proof. unfold get_quadrants. destruct shape_IM as [-> ->]. reflexivity. Qed.

    Lemma get_0 u :
      getq IM true ax_0 u Average =
      if rejects ax_0 u then ValueError else Ok (Q01 u, Q01 u, Q23 u, Q23 u).
    Proof.
      unfold get_quadrants. destruct shape_IM as [-> ->].
      destruct (rejects ax_0 u); reflexivity.
    Qed.

    Lemma get_1 u :
      getq IM true ax_1 u Average =
      if rejects ax_1 u then ValueError else Ok (Q03 u, Q12 u, Q12 u, Q03 u).
    Proof.
      unfold get_quadrants. destruct shape_IM as [-> ->].
      destruct (rejects ax_1 u); reflexivity.
    Qed.

    (* the spellings of "both axes": (0, 1), [0, 1], (1, 0) *)
    Definition both_spellings : list axis := [ax_both; ax_list01; ax_tuple10].

    Lemma get_both a u : In a both_spellings ->
      getq IM true a u Average =
      if rejects a u then ValueError else Ok (Qall u, Qall u, Qall u, Qall u).
    Proof.
      intros [<-|[<-|[<-|[]]]]; unfold get_quadrants; destruct shape_IM as [-> ->];
        match goal with |- context [rejects ?a u] => destruct (rejects a u) end; reflexivity.
    Qed.

    Lemma wf_Q01 u : wf nc mc (Q01 u).
    Proof. apply wf_imdiv, wf_imadd; [apply wf_Q0r|apply wf_Q1r]; exact HIM. Qed.
    Lemma wf_Q23 u : wf nc mc (Q23 u).
    Proof. apply wf_imdiv, wf_imadd; [apply wf_Q2r|apply wf_Q3r]; exact HIM. Qed.
    Lemma wf_Q12 u : wf nc mc (Q12 u).
    Proof. apply wf_imdiv, wf_imadd; [apply wf_Q1r|apply wf_Q2r]; exact HIM. Qed.
    Lemma wf_Q03 u : wf nc mc (Q03 u).
    Proof. apply wf_imdiv, wf_imadd; [apply wf_Q0r|apply wf_Q3r]; exact HIM. Qed.
    Lemma wf_Qall u : wf nc mc (Qall u).
    Proof.
      apply wf_imdiv, wf_imadd; [apply wf_imadd; [apply wf_imadd|]|];
        [apply wf_Q0r|apply wf_Q1r|apply wf_Q2r|apply wf_Q3r]; exact HIM.
    Qed.

    (* ---- put with a symmetry axis = put_plain on copied quadrants ---------- *)
    Lemma put_ax0 (a b c d : img) :
      put_quadrants (a, b, c, d) n m ax_0 = put_plain n m b b c c.
    Proof. reflexivity. Qed.
    Lemma put_ax1 (a b c d : img) :
      put_quadrants (a, b, c, d) n m ax_1 = put_plain n m a b b a.
    Proof. reflexivity. Qed.
    Lemma put_axboth ax (a b c d : img) : In ax both_spellings ->
      put_quadrants (a, b, c, d) n m ax = put_plain n m b b b b.
    Proof. intros [<-|[<-|[<-|[]]]]; reflexivity. Qed.

    (* ---- T1: split / join is lossless ------------------------------------- *)
    Lemma put_get_id meth : meth <> OtherMethod -> sym ax_None mask_all meth IM = Ok IM.
    Proof.
      intros Hmeth. unfold symmetrize.
      assert (G : getq IM true ax_None mask_all meth = Ok (Q0 true, Q1 true, Q2 true, Q3 true)).
      { destruct meth; [rewrite get_None; reflexivity|apply get_None_fourier|congruence]. }
      rewrite G.
      destruct shape_IM as [-> ->]. f_equal. cbn [u0 u1 u2 u3 mask_all].
      change (put_quadrants (Q0 true, Q1 true, Q2 true, Q3 true) n m ax_None)
        with (put_plain n m (Q0 true) (Q1 true) (Q2 true) (Q3 true)).
      pose proof (wf_Q0r zero HIM true) as W0. pose proof (wf_Q1r zero HIM true) as W1.
      pose proof (wf_Q2r zero HIM true) as W2. pose proof (wf_Q3r zero HIM true) as W3.
      apply img_ext with (zero:=zero) (n:=n) (m:=m); [apply wf_put_plain; assumption|exact HIM|].
      intros i j Hi Hj. rewrite (px_put_plain zero W0 W1 W2 W3 Hi Hj).
      pose proof (ceil2_half n) as En. pose proof (ceil2_half m) as Em.
      destruct (Nat.ltb_spec i (n / 2)), (Nat.ltb_spec j (m / 2)).
      - rewrite (px_Q1r zero HIM) by lia. f_equal. lia.
      - rewrite (px_Q0r zero HIM) by lia. f_equal. lia.
      - rewrite (px_Q2r zero HIM) by lia. f_equal; lia.
      - rewrite (px_Q3r zero HIM) by lia. f_equal; lia.
    Qed.

    (* ---- T2: mirror symmetry of the reassembled image -------------------- *)
    Lemma put_lr_symmetric (b c : img) : wf nc mc b -> wf nc mc c ->
      fliplr (put_plain n m b b c c) = put_plain n m b b c c.
    Proof.
      intros Wb Wc. pose proof (wf_put_plain n m Wb Wb Wc Wc) as WP.
      apply img_ext with (zero:=zero) (n:=n) (m:=m); [apply wf_fliplr; exact WP|exact WP|].
      intros i j Hi Hj. rewrite px_fliplr with (n:=n) (m:=m); [|exact WP|exact Hi|exact Hj].
      rewrite !(px_put_plain zero Wb Wb Wc Wc) by lia.
      pose proof (ceil2_half m) as Em. fold mc in Em.
      destruct (Nat.ltb_spec i (n / 2));
        destruct (Nat.ltb_spec j (m / 2)); destruct (Nat.ltb_spec (m - 1 - j) (m / 2));
        try (f_equal; lia); unfold mc, ceil2 in *; exfalso; lia.
    Qed.

    Lemma put_ud_symmetric (a b : img) : wf nc mc a -> wf nc mc b ->
      flipud (put_plain n m a b b a) = put_plain n m a b b a.
    Proof.
      intros Wa Wb. pose proof (wf_put_plain n m Wa Wb Wb Wa) as WP.
      apply img_ext with (zero:=zero) (n:=n) (m:=m); [apply wf_flipud; exact WP|exact WP|].
      intros i j Hi Hj. rewrite px_flipud with (n:=n) (m:=m); [|exact WP|exact Hi].
      rewrite !(px_put_plain zero Wa Wb Wb Wa) by lia.
      pose proof (ceil2_half n) as En. fold nc in En.
      destruct (Nat.ltb_spec j (m / 2));
        destruct (Nat.ltb_spec i (n / 2)); destruct (Nat.ltb_spec (n - 1 - i) (n / 2));
        try (f_equal; lia); unfold nc, ceil2 in *; exfalso; lia.
    Qed.

    (* well-formedness of whatever get_quadrants returns *)
    Definition wfq (Q : quads A) : Prop :=
      let '(a, b, c, d) := Q in wf nc mc a /\ wf nc mc b /\ wf nc mc c /\ wf nc mc d.

    Lemma sym_mirror_0 u S : sym ax_0 u Average IM = Ok S -> fliplr S = S.
    Proof.
      unfold symmetrize. rewrite get_0. destruct (rejects ax_0 u); [discriminate|].
      destruct shape_IM as [-> ->]. intros HS; apply Ok_inj in HS; subst S. rewrite put_ax0.
      apply put_lr_symmetric; [apply wf_Q01|apply wf_Q23].
    Qed.

    Lemma sym_mirror_1 u S : sym ax_1 u Average IM = Ok S -> flipud S = S.
    Proof.
      unfold symmetrize. rewrite get_1. destruct (rejects ax_1 u); [discriminate|].
      destruct shape_IM as [-> ->]. intros HS; apply Ok_inj in HS; subst S. rewrite put_ax1.
      apply put_ud_symmetric; [apply wf_Q03|apply wf_Q12].
    Qed.

    Lemma sym_mirror_both a u S : In a both_spellings ->
      sym a u Average IM = Ok S -> fliplr S = S /\ flipud S = S.
    Proof.
      intros Ha. unfold symmetrize. rewrite (get_both u Ha). destruct (rejects a u); [discriminate|].
      destruct shape_IM as [-> ->]. intros HS; apply Ok_inj in HS; subst S. rewrite (put_axboth _ _ _ _ Ha). split.
      - apply put_lr_symmetric; apply wf_Qall.
      - apply put_ud_symmetric; apply wf_Qall.
    Qed.

    Lemma sym_wf_0 u S : sym ax_0 u Average IM = Ok S -> wf n m S.
    Proof.
      unfold symmetrize. rewrite get_0. destruct (rejects ax_0 u); [discriminate|].
      destruct shape_IM as [-> ->]. intros HS; apply Ok_inj in HS; subst S. rewrite put_ax0.
      apply wf_put_plain; first [apply wf_Q01|apply wf_Q23].
    Qed.
    Lemma sym_wf_1 u S : sym ax_1 u Average IM = Ok S -> wf n m S.
    Proof.
      unfold symmetrize. rewrite get_1. destruct (rejects ax_1 u); [discriminate|].
      destruct shape_IM as [-> ->]. intros HS; apply Ok_inj in HS; subst S. rewrite put_ax1.
      apply wf_put_plain; first [apply wf_Q03|apply wf_Q12].
    Qed.
    Lemma sym_wf_both a u S : In a both_spellings -> sym a u Average IM = Ok S -> wf n m S.
    Proof.
      intros Ha. unfold symmetrize. rewrite (get_both u Ha). destruct (rejects a u); [discriminate|].
      destruct shape_IM as [-> ->]. intros HS; apply Ok_inj in HS; subst S. rewrite (put_axboth _ _ _ _ Ha).
      apply wf_put_plain; apply wf_Qall.
    Qed.

    (* ---- pixel formulas of the averaged quadrants ------------------------ *)
    Definition sel (b : bool) (x : A) : A := if b then x else zero.

    Lemma px_Q01 u i j : i < nc -> j < mc ->
      px (Q01 u) i j = divn (add (sel (u0 u) (px IM i (m - mc + j))) (sel (u1 u) (px IM i (mc - 1 - j))))
                            (b2n (u0 u) + b2n (u1 u)).
    Proof.
      intros Hi Hj. unfold Q01.
      rewrite px_imdiv with (n:=nc) (m:=mc);
        [|apply wf_imadd; [apply wf_Q0r|apply wf_Q1r]; exact HIM|exact Hi|exact Hj].
      rewrite px_imadd with (n:=nc) (m:=mc); [|apply wf_Q0r; exact HIM|apply wf_Q1r; exact HIM|exact Hi|exact Hj].
      rewrite (px_Q0r zero HIM), (px_Q1r zero HIM) by assumption. reflexivity.
    Qed.

    Lemma px_Q23 u i j : i < nc -> j < mc ->
      px (Q23 u) i j = divn (add (sel (u2 u) (px IM (n - 1 - i) (mc - 1 - j)))
                                 (sel (u3 u) (px IM (n - 1 - i) (m - mc + j))))
                            (b2n (u2 u) + b2n (u3 u)).
    Proof.
      intros Hi Hj. unfold Q23.
      rewrite px_imdiv with (n:=nc) (m:=mc);
        [|apply wf_imadd; [apply wf_Q2r|apply wf_Q3r]; exact HIM|exact Hi|exact Hj].
      rewrite px_imadd with (n:=nc) (m:=mc); [|apply wf_Q2r; exact HIM|apply wf_Q3r; exact HIM|exact Hi|exact Hj].
      rewrite (px_Q2r zero HIM), (px_Q3r zero HIM) by assumption. reflexivity.
    Qed.

    Lemma px_Q12 u i j : i < nc -> j < mc ->
      px (Q12 u) i j = divn (add (sel (u1 u) (px IM i (mc - 1 - j)))
                                 (sel (u2 u) (px IM (n - 1 - i) (mc - 1 - j))))
                            (b2n (u1 u) + b2n (u2 u)).
    Proof.
      intros Hi Hj. unfold Q12.
      rewrite px_imdiv with (n:=nc) (m:=mc);
        [|apply wf_imadd; [apply wf_Q1r|apply wf_Q2r]; exact HIM|exact Hi|exact Hj].
      rewrite px_imadd with (n:=nc) (m:=mc); [|apply wf_Q1r; exact HIM|apply wf_Q2r; exact HIM|exact Hi|exact Hj].
      rewrite (px_Q1r zero HIM), (px_Q2r zero HIM) by assumption. reflexivity.
    Qed.

    Lemma px_Q03 u i j : i < nc -> j < mc ->
      px (Q03 u) i j = divn (add (sel (u0 u) (px IM i (m - mc + j)))
                                 (sel (u3 u) (px IM (n - 1 - i) (m - mc + j))))
                            (b2n (u0 u) + b2n (u3 u)).
    Proof.
      intros Hi Hj. unfold Q03.
      rewrite px_imdiv with (n:=nc) (m:=mc);
        [|apply wf_imadd; [apply wf_Q0r|apply wf_Q3r]; exact HIM|exact Hi|exact Hj].
      rewrite px_imadd with (n:=nc) (m:=mc); [|apply wf_Q0r; exact HIM|apply wf_Q3r; exact HIM|exact Hi|exact Hj].
      rewrite (px_Q0r zero HIM), (px_Q3r zero HIM) by assumption. reflexivity.
    Qed.

    Lemma px_Qall u i j : i < nc -> j < mc ->
      px (Qall u) i j =
      divn (add (add (add (sel (u0 u) (px IM i (m - mc + j))) (sel (u1 u) (px IM i (mc - 1 - j))))
                     (sel (u2 u) (px IM (n - 1 - i) (mc - 1 - j))))
                (sel (u3 u) (px IM (n - 1 - i) (m - mc + j))))
           (mask_count u).
    Proof.
      intros Hi Hj. unfold Qall.
      pose proof (wf_Q0r zero HIM (u0 u)) as W0. pose proof (wf_Q1r zero HIM (u1 u)) as W1.
      pose proof (wf_Q2r zero HIM (u2 u)) as W2. pose proof (wf_Q3r zero HIM (u3 u)) as W3.
      rewrite px_imdiv with (n:=nc) (m:=mc);
        [|apply wf_imadd; [apply wf_imadd; [apply wf_imadd|]|]; assumption|exact Hi|exact Hj].
      rewrite px_imadd with (n:=nc) (m:=mc);
        [|apply wf_imadd; [apply wf_imadd|]; assumption|assumption|exact Hi|exact Hj].
      rewrite px_imadd with (n:=nc) (m:=mc); [|apply wf_imadd; assumption|assumption|exact Hi|exact Hj].
      rewrite px_imadd with (n:=nc) (m:=mc); [|assumption|assumption|exact Hi|exact Hj].
      rewrite (px_Q0r zero HIM), (px_Q1r zero HIM), (px_Q2r zero HIM), (px_Q3r zero HIM) by assumption.
      reflexivity.
    Qed.

    (* mean of k copies of one value, under any mask *)
    Hypothesis LAWS : mean_laws.

    Lemma mean2_sel b c x : b || c = true ->
      divn (add (sel b x) (sel c x)) (b2n b + b2n c) = x.
    Proof.
      destruct LAWS as (Lz & Lzl & L1 & L2 & L3 & L4).
      destruct b, c; simpl; intros H; try discriminate; rewrite ?Lz, ?Lzl; auto.
    Qed.

    Lemma mean4_sel b c d e x : b || c || d || e = true ->
      divn (add (add (add (sel b x) (sel c x)) (sel d x)) (sel e x))
           (b2n b + b2n c + b2n d + b2n e) = x.
    Proof.
      destruct LAWS as (Lz & Lzl & L1 & L2 & L3 & L4).
      destruct b, c, d, e; simpl; intros H; try discriminate; rewrite ?Lz, ?Lzl; auto.
    Qed.

    (* ---- T3: an already symmetric image is left unchanged ----------------- *)
    Definition lr_sym_px : Prop := forall i j, i < n -> j < m -> px IM i (m - 1 - j) = px IM i j.
    Definition ud_sym_px : Prop := forall i j, i < n -> j < m -> px IM (n - 1 - i) j = px IM i j.

    Lemma lr_sym_of_flip : fliplr IM = IM -> lr_sym_px.
    Proof.
      intros H i j Hi Hj. rewrite <- H at 2.
      rewrite px_fliplr with (n:=n) (m:=m); [reflexivity|exact HIM|exact Hi|exact Hj].
    Qed.
    Lemma ud_sym_of_flip : flipud IM = IM -> ud_sym_px.
    Proof.
      intros H i j Hi Hj. rewrite <- H at 2.
      rewrite px_flipud with (n:=n) (m:=m); [reflexivity|exact HIM|exact Hi].
    Qed.

    Lemma rejects_0_false u : rejects ax_0 u = false ->
      u0 u || u1 u = true /\ u2 u || u3 u = true.
    Proof. destruct u as [[] [] [] []]; cbv; intuition congruence. Qed.
    Lemma rejects_1_false u : rejects ax_1 u = false ->
      u1 u || u2 u = true /\ u0 u || u3 u = true.
    Proof. destruct u as [[] [] [] []]; cbv; intuition congruence. Qed.
    Lemma rejects_both_false a u : In a both_spellings -> rejects a u = false ->
      u0 u || u1 u || u2 u || u3 u = true.
    Proof. intros [<-|[<-|[<-|[]]]]; destruct u as [[] [] [] []]; cbv; intuition congruence. Qed.

    Lemma sym_fix_0 u : fliplr IM = IM -> rejects ax_0 u = false -> sym ax_0 u Average IM = Ok IM.
    Proof.
      intros Hs Hr. apply lr_sym_of_flip in Hs. destruct (rejects_0_false _ Hr) as [Ht Hb].
      unfold symmetrize. rewrite get_0, Hr. destruct shape_IM as [-> ->]. f_equal.
      rewrite put_ax0.
      pose proof (wf_Q01 u) as W1. pose proof (wf_Q23 u) as W2.
      apply img_ext with (zero:=zero) (n:=n) (m:=m); [apply wf_put_plain; assumption|exact HIM|].
      intros i j Hi Hj. rewrite (px_put_plain zero W1 W1 W2 W2 Hi Hj).
      pose proof (ceil2_half n) as En. pose proof (ceil2_half m) as Em.
      destruct (Nat.ltb_spec i (n / 2)), (Nat.ltb_spec j (m / 2)).
      - rewrite px_Q01 by lia. unfold nc, mc.
        replace (m - ceil2 m + (ceil2 m - 1 - j)) with (m - 1 - j) by lia.
        replace (ceil2 m - 1 - (ceil2 m - 1 - j)) with j by lia.
        rewrite Hs by lia. apply mean2_sel; exact Ht.
      - rewrite px_Q01 by lia. unfold nc, mc.
        replace (m - ceil2 m + (j - m / 2)) with j by lia.
        replace (ceil2 m - 1 - (j - m / 2)) with (m - 1 - j) by lia.
        rewrite Hs by lia. apply mean2_sel; exact Ht.
      - rewrite px_Q23 by lia. unfold nc, mc.
        replace (n - 1 - (n - 1 - i)) with i by lia.
        replace (m - ceil2 m + (ceil2 m - 1 - j)) with (m - 1 - j) by lia.
        replace (ceil2 m - 1 - (ceil2 m - 1 - j)) with j by lia.
        rewrite Hs by lia. apply mean2_sel; exact Hb.
      - rewrite px_Q23 by lia. unfold nc, mc.
        replace (n - 1 - (n - 1 - i)) with i by lia.
        replace (m - ceil2 m + (j - m / 2)) with j by lia.
        replace (ceil2 m - 1 - (j - m / 2)) with (m - 1 - j) by lia.
        rewrite Hs by lia. apply mean2_sel; exact Hb.
    Qed.

    Lemma sym_fix_1 u : flipud IM = IM -> rejects ax_1 u = false -> sym ax_1 u Average IM = Ok IM.
    Proof.
      intros Hs Hr. apply ud_sym_of_flip in Hs. destruct (rejects_1_false _ Hr) as [Hl Hrr].
      unfold symmetrize. rewrite get_1, Hr. destruct shape_IM as [-> ->]. f_equal.
      rewrite put_ax1.
      pose proof (wf_Q03 u) as W1. pose proof (wf_Q12 u) as W2.
      apply img_ext with (zero:=zero) (n:=n) (m:=m); [apply wf_put_plain; assumption|exact HIM|].
      intros i j Hi Hj. rewrite (px_put_plain zero W1 W2 W2 W1 Hi Hj).
      pose proof (ceil2_half n) as En. pose proof (ceil2_half m) as Em.
      destruct (Nat.ltb_spec i (n / 2)), (Nat.ltb_spec j (m / 2)).
      - rewrite px_Q12 by lia. unfold nc, mc.
        replace (ceil2 m - 1 - (ceil2 m - 1 - j)) with j by lia.
        rewrite Hs by lia. apply mean2_sel; exact Hl.
      - rewrite px_Q03 by lia. unfold nc, mc.
        replace (m - ceil2 m + (j - m / 2)) with j by lia.
        rewrite Hs by lia. apply mean2_sel; exact Hrr.
      - rewrite px_Q12 by lia. unfold nc, mc.
        replace (n - 1 - (n - 1 - i)) with i by lia.
        replace (ceil2 m - 1 - (ceil2 m - 1 - j)) with j by lia.
        rewrite (Hs i j) by lia. apply mean2_sel; exact Hl.
      - rewrite px_Q03 by lia. unfold nc, mc.
        replace (n - 1 - (n - 1 - i)) with i by lia.
        replace (m - ceil2 m + (j - m / 2)) with j by lia.
        rewrite (Hs i j) by lia. apply mean2_sel; exact Hrr.
    Qed.

    Lemma sym_fix_both a u : In a both_spellings ->
      fliplr IM = IM -> flipud IM = IM -> rejects a u = false ->
      sym a u Average IM = Ok IM.
    Proof.
      intros Ha Hs1 Hs2 Hr. apply lr_sym_of_flip in Hs1. apply ud_sym_of_flip in Hs2.
      pose proof (rejects_both_false _ Ha Hr) as Hu.
      unfold symmetrize. rewrite (get_both u Ha), Hr. destruct shape_IM as [-> ->]. f_equal.
      rewrite (put_axboth _ _ _ _ Ha).
      pose proof (wf_Qall u) as W.
      apply img_ext with (zero:=zero) (n:=n) (m:=m); [apply wf_put_plain; assumption|exact HIM|].
      intros i j Hi Hj. rewrite (px_put_plain zero W W W W Hi Hj).
      pose proof (ceil2_half n) as En. pose proof (ceil2_half m) as Em.
      assert (Hall : forall i' j', i' < ceil2 n -> j' < ceil2 m ->
                 px (Qall u) i' j' = px IM i' (ceil2 m - 1 - j')).
      { intros i' j' Hi' Hj'. rewrite px_Qall by assumption. unfold nc, mc in *.
        replace (m - ceil2 m + j') with (m - 1 - (ceil2 m - 1 - j')) by lia.
        rewrite (Hs1 i' (ceil2 m - 1 - j')) by lia.
        rewrite (Hs1 (n - 1 - i') (ceil2 m - 1 - j')) by lia.
        rewrite (Hs2 i' (ceil2 m - 1 - j')) by lia.
        apply mean4_sel. exact Hu. }
      destruct (Nat.ltb_spec i (n / 2)), (Nat.ltb_spec j (m / 2)); rewrite Hall by lia.
      - f_equal; lia.
      - replace (ceil2 m - 1 - (j - m / 2)) with (m - 1 - j) by lia. apply Hs1; lia.
      - replace (ceil2 m - 1 - (ceil2 m - 1 - j)) with j by lia. apply Hs2; lia.
      - replace (ceil2 m - 1 - (j - m / 2)) with (m - 1 - j) by lia.
        rewrite Hs2 by lia. apply Hs1; lia.
    Qed.

    (* ---- T5': pixel formula for every mask: the mean over the ENABLED quadrants
            of the pixel and its mirror image(s).  Rows i < n/2 belong to the upper
            quadrants (Q0 right, Q1 left), the others (central row included) to
            the lower ones (Q3 right, Q2 left); columns j < m/2 to the left-hand
            quadrants, the others (central column included) to the right-hand ones. *)
    Definition mean2 (ua ub : bool) (a b : A) : A := divn (add (sel ua a) (sel ub b)) (b2n ua + b2n ub).

    Lemma sym_px_0 u S i j : sym ax_0 u Average IM = Ok S -> i < n -> j < m ->
      px S i j =
        if i <? n / 2
        then (if j <? m / 2 then mean2 (u0 u) (u1 u) (px IM i (m - 1 - j)) (px IM i j)
              else mean2 (u0 u) (u1 u) (px IM i j) (px IM i (m - 1 - j)))
        else (if j <? m / 2 then mean2 (u2 u) (u3 u) (px IM i j) (px IM i (m - 1 - j))
              else mean2 (u2 u) (u3 u) (px IM i (m - 1 - j)) (px IM i j)).
    Proof.
      unfold symmetrize. rewrite get_0. destruct (rejects ax_0 u); [discriminate|].
      destruct shape_IM as [-> ->]. intros HS Hi Hj; apply Ok_inj in HS; subst S. rewrite put_ax0.
      pose proof (wf_Q01 u) as W1. pose proof (wf_Q23 u) as W2.
      rewrite (px_put_plain zero W1 W1 W2 W2 Hi Hj).
      pose proof (ceil2_half n) as En. pose proof (ceil2_half m) as Em. unfold mean2.
      destruct (Nat.ltb_spec i (n / 2)), (Nat.ltb_spec j (m / 2)).
      - rewrite px_Q01 by lia. unfold nc, mc.
        replace (m - ceil2 m + (ceil2 m - 1 - j)) with (m - 1 - j) by lia.
        replace (ceil2 m - 1 - (ceil2 m - 1 - j)) with j by lia. reflexivity.
      - rewrite px_Q01 by lia. unfold nc, mc.
        replace (m - ceil2 m + (j - m / 2)) with j by lia.
        replace (ceil2 m - 1 - (j - m / 2)) with (m - 1 - j) by lia. reflexivity.
      - rewrite px_Q23 by lia. unfold nc, mc.
        replace (n - 1 - (n - 1 - i)) with i by lia.
        replace (m - ceil2 m + (ceil2 m - 1 - j)) with (m - 1 - j) by lia.
        replace (ceil2 m - 1 - (ceil2 m - 1 - j)) with j by lia. reflexivity.
      - rewrite px_Q23 by lia. unfold nc, mc.
        replace (n - 1 - (n - 1 - i)) with i by lia.
        replace (m - ceil2 m + (j - m / 2)) with j by lia.
        replace (ceil2 m - 1 - (j - m / 2)) with (m - 1 - j) by lia. reflexivity.
    Qed.

    Lemma sym_px_1 u S i j : sym ax_1 u Average IM = Ok S -> i < n -> j < m ->
      px S i j =
        if j <? m / 2
        then (if i <? n / 2 then mean2 (u1 u) (u2 u) (px IM i j) (px IM (n - 1 - i) j)
              else mean2 (u1 u) (u2 u) (px IM (n - 1 - i) j) (px IM i j))
        else (if i <? n / 2 then mean2 (u0 u) (u3 u) (px IM i j) (px IM (n - 1 - i) j)
              else mean2 (u0 u) (u3 u) (px IM (n - 1 - i) j) (px IM i j)).
    Proof.
      unfold symmetrize. rewrite get_1. destruct (rejects ax_1 u); [discriminate|].
      destruct shape_IM as [-> ->]. intros HS Hi Hj; apply Ok_inj in HS; subst S. rewrite put_ax1.
      pose proof (wf_Q03 u) as W1. pose proof (wf_Q12 u) as W2.
      rewrite (px_put_plain zero W1 W2 W2 W1 Hi Hj).
      pose proof (ceil2_half n) as En. pose proof (ceil2_half m) as Em. unfold mean2.
      destruct (Nat.ltb_spec i (n / 2)), (Nat.ltb_spec j (m / 2)).
      - rewrite px_Q12 by lia. unfold nc, mc.
        replace (ceil2 m - 1 - (ceil2 m - 1 - j)) with j by lia. reflexivity.
      - rewrite px_Q03 by lia. unfold nc, mc.
        replace (m - ceil2 m + (j - m / 2)) with j by lia. reflexivity.
      - rewrite px_Q12 by lia. unfold nc, mc.
        replace (n - 1 - (n - 1 - i)) with i by lia.
        replace (ceil2 m - 1 - (ceil2 m - 1 - j)) with j by lia. reflexivity.
      - rewrite px_Q03 by lia. unfold nc, mc.
        replace (n - 1 - (n - 1 - i)) with i by lia.
        replace (m - ceil2 m + (j - m / 2)) with j by lia. reflexivity.
    Qed.

    (* both axes: all four mirror images, enabled ones only; the four positions
       are (rt, cr) in Q0, (rt, cl) in Q1, (rb, cl) in Q2, (rb, cr) in Q3 with
       rt/rb the upper/lower and cl/cr the left/right member of the mirror pair *)
    Definition mean4 (u : mask) (a b c d : A) : A :=
      divn (add (add (add (sel (u0 u) a) (sel (u1 u) b)) (sel (u2 u) c)) (sel (u3 u) d)) (mask_count u).

    Lemma sym_px_both a u S i j : In a both_spellings -> sym a u Average IM = Ok S -> i < n -> j < m ->
      let rt := Nat.min i (n - 1 - i) in let rb := Nat.max i (n - 1 - i) in
      let cl := Nat.min j (m - 1 - j) in let cr := Nat.max j (m - 1 - j) in
      px S i j = mean4 u (px IM rt cr) (px IM rt cl) (px IM rb cl) (px IM rb cr).
    Proof.
      intros Ha. unfold symmetrize. rewrite (get_both u Ha). destruct (rejects a u); [discriminate|].
      destruct shape_IM as [-> ->]. intros HS Hi Hj; apply Ok_inj in HS; subst S.
      rewrite (put_axboth _ _ _ _ Ha).
      pose proof (wf_Qall u) as W.
      rewrite (px_put_plain zero W W W W Hi Hj).
      pose proof (ceil2_half n) as En. pose proof (ceil2_half m) as Em. unfold mean4. cbv zeta.
      destruct (Nat.ltb_spec i (n / 2)), (Nat.ltb_spec j (m / 2));
        rewrite px_Qall by lia; unfold nc, mc.
      - replace (Nat.min i (n - 1 - i)) with i by lia. replace (Nat.max i (n - 1 - i)) with (n - 1 - i) by lia.
        replace (Nat.min j (m - 1 - j)) with j by lia. replace (Nat.max j (m - 1 - j)) with (m - 1 - j) by lia.
        replace (m - ceil2 m + (ceil2 m - 1 - j)) with (m - 1 - j) by lia.
        replace (ceil2 m - 1 - (ceil2 m - 1 - j)) with j by lia. reflexivity.
      - replace (Nat.min i (n - 1 - i)) with i by lia. replace (Nat.max i (n - 1 - i)) with (n - 1 - i) by lia.
        replace (Nat.min j (m - 1 - j)) with (m - 1 - j) by lia. replace (Nat.max j (m - 1 - j)) with j by lia.
        replace (m - ceil2 m + (j - m / 2)) with j by lia.
        replace (ceil2 m - 1 - (j - m / 2)) with (m - 1 - j) by lia. reflexivity.
      - replace (Nat.min i (n - 1 - i)) with (n - 1 - i) by lia. replace (Nat.max i (n - 1 - i)) with i by lia.
        replace (Nat.min j (m - 1 - j)) with j by lia. replace (Nat.max j (m - 1 - j)) with (m - 1 - j) by lia.
        replace (n - 1 - (n - 1 - i)) with i by lia.
        replace (m - ceil2 m + (ceil2 m - 1 - j)) with (m - 1 - j) by lia.
        replace (ceil2 m - 1 - (ceil2 m - 1 - j)) with j by lia. reflexivity.
      - replace (Nat.min i (n - 1 - i)) with (n - 1 - i) by lia. replace (Nat.max i (n - 1 - i)) with i by lia.
        replace (Nat.min j (m - 1 - j)) with (m - 1 - j) by lia. replace (Nat.max j (m - 1 - j)) with j by lia.
        replace (n - 1 - (n - 1 - i)) with i by lia.
        replace (m - ceil2 m + (j - m / 2)) with j by lia.
        replace (ceil2 m - 1 - (j - m / 2)) with (m - 1 - j) by lia. reflexivity.
    Qed.

    (* ---- T5: with all quadrants enabled the result is the mean of the image
            and its mirror image(s) --------------------------------------------- *)
    Hypothesis add_comm : forall x y, add x y = add y x.

    Lemma sym_mean_0 :
      sym ax_0 mask_all Average IM = Ok (imdiv 2 (imadd IM (fliplr IM))).
    Proof.
      unfold symmetrize. rewrite get_0. change (rejects ax_0 mask_all) with false. cbv iota.
      destruct shape_IM as [-> ->]. f_equal. rewrite put_ax0.
      pose proof (wf_Q01 mask_all) as W1. pose proof (wf_Q23 mask_all) as W2.
      assert (WR : wf n m (imdiv 2 (imadd IM (fliplr IM))))
        by (apply wf_imdiv, wf_imadd; [exact HIM|apply wf_fliplr; exact HIM]).
      apply img_ext with (zero:=zero) (n:=n) (m:=m); [apply wf_put_plain; assumption|exact WR|].
      intros i j Hi Hj. rewrite (px_put_plain zero W1 W1 W2 W2 Hi Hj).
      rewrite px_imdiv with (n:=n) (m:=m); [|apply wf_imadd; [exact HIM|apply wf_fliplr; exact HIM]|exact Hi|exact Hj].
      rewrite px_imadd with (n:=n) (m:=m); [|exact HIM|apply wf_fliplr; exact HIM|exact Hi|exact Hj].
      rewrite px_fliplr with (n:=n) (m:=m); [|exact HIM|exact Hi|exact Hj].
      pose proof (ceil2_half n) as En. pose proof (ceil2_half m) as Em.
      destruct (Nat.ltb_spec i (n / 2)), (Nat.ltb_spec j (m / 2)).
      - rewrite px_Q01 by lia. unfold nc, mc. cbn [sel u0 u1 u2 u3 mask_all b2n Nat.add].
        replace (m - ceil2 m + (ceil2 m - 1 - j)) with (m - 1 - j) by lia.
        replace (ceil2 m - 1 - (ceil2 m - 1 - j)) with j by lia. f_equal. apply add_comm.
      - rewrite px_Q01 by lia. unfold nc, mc. cbn [sel u0 u1 u2 u3 mask_all b2n Nat.add].
        replace (m - ceil2 m + (j - m / 2)) with j by lia.
        replace (ceil2 m - 1 - (j - m / 2)) with (m - 1 - j) by lia. reflexivity.
      - rewrite px_Q23 by lia. unfold nc, mc. cbn [sel u0 u1 u2 u3 mask_all b2n Nat.add].
        replace (n - 1 - (n - 1 - i)) with i by lia.
        replace (m - ceil2 m + (ceil2 m - 1 - j)) with (m - 1 - j) by lia.
        replace (ceil2 m - 1 - (ceil2 m - 1 - j)) with j by lia. reflexivity.
      - rewrite px_Q23 by lia. unfold nc, mc. cbn [sel u0 u1 u2 u3 mask_all b2n Nat.add].
        replace (n - 1 - (n - 1 - i)) with i by lia.
        replace (m - ceil2 m + (j - m / 2)) with j by lia.
        replace (ceil2 m - 1 - (j - m / 2)) with (m - 1 - j) by lia. f_equal. apply add_comm.
    Qed.

    Lemma sym_mean_1 :
      sym ax_1 mask_all Average IM = Ok (imdiv 2 (imadd IM (flipud IM))).
    Proof.
      unfold symmetrize. rewrite get_1. change (rejects ax_1 mask_all) with false. cbv iota.
      destruct shape_IM as [-> ->]. f_equal. rewrite put_ax1.
      pose proof (wf_Q03 mask_all) as W1. pose proof (wf_Q12 mask_all) as W2.
      assert (WR : wf n m (imdiv 2 (imadd IM (flipud IM))))
        by (apply wf_imdiv, wf_imadd; [exact HIM|apply wf_flipud; exact HIM]).
      apply img_ext with (zero:=zero) (n:=n) (m:=m); [apply wf_put_plain; assumption|exact WR|].
      intros i j Hi Hj. rewrite (px_put_plain zero W1 W2 W2 W1 Hi Hj).
      rewrite px_imdiv with (n:=n) (m:=m); [|apply wf_imadd; [exact HIM|apply wf_flipud; exact HIM]|exact Hi|exact Hj].
      rewrite px_imadd with (n:=n) (m:=m); [|exact HIM|apply wf_flipud; exact HIM|exact Hi|exact Hj].
      rewrite px_flipud with (n:=n) (m:=m); [|exact HIM|exact Hi].
      pose proof (ceil2_half n) as En. pose proof (ceil2_half m) as Em.
      destruct (Nat.ltb_spec i (n / 2)), (Nat.ltb_spec j (m / 2)).
      - rewrite px_Q12 by lia. unfold nc, mc. cbn [sel u0 u1 u2 u3 mask_all b2n Nat.add].
        replace (ceil2 m - 1 - (ceil2 m - 1 - j)) with j by lia. reflexivity.
      - rewrite px_Q03 by lia. unfold nc, mc. cbn [sel u0 u1 u2 u3 mask_all b2n Nat.add].
        replace (m - ceil2 m + (j - m / 2)) with j by lia. reflexivity.
      - rewrite px_Q12 by lia. unfold nc, mc. cbn [sel u0 u1 u2 u3 mask_all b2n Nat.add].
        replace (n - 1 - (n - 1 - i)) with i by lia.
        replace (ceil2 m - 1 - (ceil2 m - 1 - j)) with j by lia. apply f_equal2; [apply add_comm|reflexivity].
      - rewrite px_Q03 by lia. unfold nc, mc. cbn [sel u0 u1 u2 u3 mask_all b2n Nat.add].
        replace (n - 1 - (n - 1 - i)) with i by lia.
        replace (m - ceil2 m + (j - m / 2)) with j by lia. apply f_equal2; [apply add_comm|reflexivity].
    Qed.
  End Fixed.

  (* ---- the Fourier method (symmetry.py real_components) -------------------- *)
  Section RawSym.
    (* reassembling the quadrants of an image that is already symmetric, with the
       copies put_image_quadrants makes for a symmetry axis, returns the image *)
    Variables n m : nat.
    Variable X : img.
    Hypothesis HX : wf n m X.

    Lemma raw_put_lr : lr_sym_px n m X ->
      put_plain n m (Q1r zero n m X true) (Q1r zero n m X true)
                    (Q2r zero n m X true) (Q2r zero n m X true) = X.
    Proof.
      intros Hs.
      pose proof (wf_Q1r zero HX true) as W1. pose proof (wf_Q2r zero HX true) as W2.
      apply img_ext with (zero:=zero) (n:=n) (m:=m); [apply wf_put_plain; assumption|exact HX|].
      intros i j Hi Hj. rewrite (px_put_plain zero W1 W1 W2 W2 Hi Hj).
      pose proof (ceil2_half n) as En. pose proof (ceil2_half m) as Em.
      destruct (Nat.ltb_spec i (n / 2)), (Nat.ltb_spec j (m / 2)).
      - rewrite (px_Q1r zero HX) by lia. f_equal. lia.
      - rewrite (px_Q1r zero HX) by lia.
        replace (ceil2 m - 1 - (j - m / 2)) with (m - 1 - j) by lia. apply Hs; lia.
      - rewrite (px_Q2r zero HX) by lia. f_equal; lia.
      - rewrite (px_Q2r zero HX) by lia.
        replace (n - 1 - (n - 1 - i)) with i by lia.
        replace (ceil2 m - 1 - (j - m / 2)) with (m - 1 - j) by lia. apply Hs; lia.
    Qed.

    Lemma raw_put_ud : ud_sym_px n m X ->
      put_plain n m (Q0r zero n m X true) (Q1r zero n m X true)
                    (Q1r zero n m X true) (Q0r zero n m X true) = X.
    Proof.
      intros Hs.
      pose proof (wf_Q0r zero HX true) as W0. pose proof (wf_Q1r zero HX true) as W1.
      apply img_ext with (zero:=zero) (n:=n) (m:=m); [apply wf_put_plain; assumption|exact HX|].
      intros i j Hi Hj. rewrite (px_put_plain zero W0 W1 W1 W0 Hi Hj).
      pose proof (ceil2_half n) as En. pose proof (ceil2_half m) as Em.
      destruct (Nat.ltb_spec i (n / 2)), (Nat.ltb_spec j (m / 2)).
      - rewrite (px_Q1r zero HX) by lia. f_equal. lia.
      - rewrite (px_Q0r zero HX) by lia. f_equal. lia.
      - rewrite (px_Q1r zero HX) by lia.
        replace (ceil2 m - 1 - (ceil2 m - 1 - j)) with j by lia. apply Hs; lia.
      - rewrite (px_Q0r zero HX) by lia.
        replace (m - ceil2 m + (j - m / 2)) with j by lia. apply Hs; lia.
    Qed.

    Lemma raw_put_both : lr_sym_px n m X -> ud_sym_px n m X ->
      put_plain n m (Q1r zero n m X true) (Q1r zero n m X true)
                    (Q1r zero n m X true) (Q1r zero n m X true) = X.
    Proof.
      intros Hs1 Hs2.
      pose proof (wf_Q1r zero HX true) as W1.
      apply img_ext with (zero:=zero) (n:=n) (m:=m); [apply wf_put_plain; assumption|exact HX|].
      intros i j Hi Hj. rewrite (px_put_plain zero W1 W1 W1 W1 Hi Hj).
      pose proof (ceil2_half n) as En. pose proof (ceil2_half m) as Em.
      destruct (Nat.ltb_spec i (n / 2)), (Nat.ltb_spec j (m / 2));
        rewrite (px_Q1r zero HX) by lia.
      - f_equal. lia.
      - replace (ceil2 m - 1 - (j - m / 2)) with (m - 1 - j) by lia. apply Hs1; lia.
      - replace (ceil2 m - 1 - (ceil2 m - 1 - j)) with j by lia. apply Hs2; lia.
      - replace (ceil2 m - 1 - (j - m / 2)) with (m - 1 - j) by lia.
        rewrite Hs2 by lia. apply Hs1; lia.
    Qed.

    Lemma flip_of_lr_sym : lr_sym_px n m X -> fliplr X = X.
    Proof.
      intros Hs. apply img_ext with (zero:=zero) (n:=n) (m:=m); [apply wf_fliplr; exact HX|exact HX|].
      intros i j Hi Hj. rewrite px_fliplr with (n:=n) (m:=m); [|exact HX|exact Hi|exact Hj]. apply Hs; lia.
    Qed.
    Lemma flip_of_ud_sym : ud_sym_px n m X -> flipud X = X.
    Proof.
      intros Hs. apply img_ext with (zero:=zero) (n:=n) (m:=m); [apply wf_flipud; exact HX|exact HX|].
      intros i j Hi Hj. rewrite px_flipud with (n:=n) (m:=m); [|exact HX|exact Hi]. apply Hs; lia.
    Qed.
  End RawSym.

  Section FourierSec.
    Variables n m : nat.
    Variable IM : img.
    Hypothesis HIM : wf n m IM.
    Hypothesis Hn : 1 <= n.
    Hypothesis Hm : 1 <= m.
    Hypothesis add_comm : forall x y, add x y = add y x.

    Notation flr := (fourier_lr add divn).
    Notation fud := (fourier_ud add divn).

    Lemma wf_flr (X : img) : wf n m X -> wf n m (flr X).
    Proof. intros H. apply wf_imdiv, wf_imadd; [exact H|apply wf_fliplr; exact H]. Qed.
    Lemma wf_fud (X : img) : wf n m X -> wf n m (fud X).
    Proof. intros H. apply wf_imdiv, wf_imadd; [exact H|apply wf_flipud; exact H]. Qed.

    Lemma px_flr (X : img) i j : wf n m X -> i < n -> j < m ->
      px (flr X) i j = divn (add (px X i j) (px X i (m - 1 - j))) 2.
    Proof.
      intros H Hi Hj. unfold fourier_lr.
      rewrite px_imdiv with (n:=n) (m:=m); [|apply wf_imadd; [exact H|apply wf_fliplr; exact H]|exact Hi|exact Hj].
      rewrite px_imadd with (n:=n) (m:=m); [|exact H|apply wf_fliplr; exact H|exact Hi|exact Hj].
      rewrite px_fliplr with (n:=n) (m:=m); [reflexivity|exact H|exact Hi|exact Hj].
    Qed.
    Lemma px_fud (X : img) i j : wf n m X -> i < n -> j < m ->
      px (fud X) i j = divn (add (px X i j) (px X (n - 1 - i) j)) 2.
    Proof.
      intros H Hi Hj. unfold fourier_ud.
      rewrite px_imdiv with (n:=n) (m:=m); [|apply wf_imadd; [exact H|apply wf_flipud; exact H]|exact Hi|exact Hj].
      rewrite px_imadd with (n:=n) (m:=m); [|exact H|apply wf_flipud; exact H|exact Hi|exact Hj].
      rewrite px_flipud with (n:=n) (m:=m); [reflexivity|exact H|exact Hi].
    Qed.

    Lemma flr_lr_sym (X : img) : wf n m X -> lr_sym_px n m (flr X).
    Proof.
      intros H i j Hi Hj. rewrite !px_flr by (try exact H; lia).
      replace (m - 1 - (m - 1 - j)) with j by lia. f_equal. apply add_comm.
    Qed.
    Lemma fud_ud_sym (X : img) : wf n m X -> ud_sym_px n m (fud X).
    Proof.
      intros H i j Hi Hj. rewrite !px_fud by (try exact H; lia).
      replace (n - 1 - (n - 1 - i)) with i by lia. f_equal. apply add_comm.
    Qed.
    Lemma fud_keeps_lr_sym (X : img) : wf n m X -> lr_sym_px n m X -> lr_sym_px n m (fud X).
    Proof.
      intros H Hs i j Hi Hj. rewrite !px_fud by (try exact H; lia).
      rewrite !Hs by lia. reflexivity.
    Qed.

    (* the mask is reset to all-true for the Fourier method *)
    Lemma fourier_mask u :
      (if Nat.ltb (mask_count u) 4 then mask_all else u) = mask_all.
    Proof. destruct u as [[] [] [] []]; reflexivity. Qed.

    Lemma get_fourier_0 u : rejects ax_0 u = false ->
      getq IM true ax_0 u Fourier =
      Ok (Q0r zero n m (flr IM) true, Q1r zero n m (flr IM) true,
          Q2r zero n m (flr IM) true, Q3r zero n m (flr IM) true).
    Proof.
      intros Hr. unfold get_quadrants. rewrite Hr.
      destruct (shape_IM HIM Hn Hm) as [-> ->].
      rewrite fourier_mask. reflexivity.
    Qed.
    Lemma get_fourier_1 u : rejects ax_1 u = false ->
      getq IM true ax_1 u Fourier =
      Ok (Q0r zero n m (fud IM) true, Q1r zero n m (fud IM) true,
          Q2r zero n m (fud IM) true, Q3r zero n m (fud IM) true).
    Proof.
      intros Hr. unfold get_quadrants. rewrite Hr.
      destruct (shape_IM HIM Hn Hm) as [-> ->].
      rewrite fourier_mask. reflexivity.
    Qed.
    Lemma get_fourier_both a u : In a both_spellings -> rejects a u = false ->
      getq IM true a u Fourier =
      Ok (Q0r zero n m (fud (flr IM)) true, Q1r zero n m (fud (flr IM)) true,
          Q2r zero n m (fud (flr IM)) true, Q3r zero n m (fud (flr IM)) true).
    Proof.
      intros Ha Hr. unfold get_quadrants. rewrite Hr.
      destruct (shape_IM HIM Hn Hm) as [-> ->].
      rewrite fourier_mask. destruct Ha as [<-|[<-|[<-|[]]]]; reflexivity.
    Qed.

    (* what the Fourier symmetrisation returns *)
    Lemma sym_fourier_0 u : rejects ax_0 u = false -> sym ax_0 u Fourier IM = Ok (flr IM).
    Proof.
      intros Hr. unfold symmetrize. rewrite (get_fourier_0 u Hr).
      destruct (shape_IM HIM Hn Hm) as [-> ->]. f_equal.
      rewrite (put_ax0 n m). apply raw_put_lr; [apply wf_flr; exact HIM|apply flr_lr_sym; exact HIM].
    Qed.
    Lemma sym_fourier_1 u : rejects ax_1 u = false -> sym ax_1 u Fourier IM = Ok (fud IM).
    Proof.
      intros Hr. unfold symmetrize. rewrite (get_fourier_1 u Hr).
      destruct (shape_IM HIM Hn Hm) as [-> ->]. f_equal.
      rewrite (put_ax1 n m). apply raw_put_ud; [apply wf_fud; exact HIM|apply fud_ud_sym; exact HIM].
    Qed.
    Lemma sym_fourier_both a u : In a both_spellings -> rejects a u = false ->
      sym a u Fourier IM = Ok (fud (flr IM)).
    Proof.
      intros Ha Hr. unfold symmetrize. rewrite (get_fourier_both u Ha Hr).
      destruct (shape_IM HIM Hn Hm) as [-> ->]. f_equal.
      rewrite (put_axboth n m _ _ _ _ Ha). apply raw_put_both.
      - apply wf_fud, wf_flr; exact HIM.
      - apply fud_keeps_lr_sym; [apply wf_flr; exact HIM|apply flr_lr_sym; exact HIM].
      - apply fud_ud_sym. apply wf_flr; exact HIM.
    Qed.

    (* the Fourier method gives the same image as 'average' with all quadrants *)
    Lemma fourier_eq_average_0 u : rejects ax_0 u = false ->
      sym ax_0 u Fourier IM = sym ax_0 mask_all Average IM.
    Proof. intros Hr. rewrite (sym_fourier_0 u Hr). symmetry. apply (sym_mean_0 HIM Hn Hm add_comm). Qed.
    Lemma fourier_eq_average_1 u : rejects ax_1 u = false ->
      sym ax_1 u Fourier IM = sym ax_1 mask_all Average IM.
    Proof. intros Hr. rewrite (sym_fourier_1 u Hr). symmetry. apply (sym_mean_1 HIM Hn Hm add_comm). Qed.

    (* mirror symmetry of the result *)
    Lemma fourier_mirror_0 u S : sym ax_0 u Fourier IM = Ok S -> fliplr S = S.
    Proof.
      destruct (rejects ax_0 u) eqn:Hr.
      - unfold symmetrize, get_quadrants. rewrite Hr. discriminate.
      - rewrite (sym_fourier_0 u Hr). intros HS; apply Ok_inj in HS; subst S.
        apply flip_of_lr_sym with (n:=n) (m:=m); [apply wf_flr; exact HIM|apply flr_lr_sym; exact HIM].
    Qed.
    Lemma fourier_mirror_1 u S : sym ax_1 u Fourier IM = Ok S -> flipud S = S.
    Proof.
      destruct (rejects ax_1 u) eqn:Hr.
      - unfold symmetrize, get_quadrants. rewrite Hr. discriminate.
      - rewrite (sym_fourier_1 u Hr). intros HS; apply Ok_inj in HS; subst S.
        apply flip_of_ud_sym with (n:=n) (m:=m); [apply wf_fud; exact HIM|apply fud_ud_sym; exact HIM].
    Qed.
    Lemma fourier_mirror_both a u S : In a both_spellings ->
      sym a u Fourier IM = Ok S -> fliplr S = S /\ flipud S = S.
    Proof.
      intros Ha. destruct (rejects a u) eqn:Hr.
      - unfold symmetrize, get_quadrants. rewrite Hr. discriminate.
      - rewrite (sym_fourier_both u Ha Hr). intros HS; apply Ok_inj in HS; subst S. split.
        + apply flip_of_lr_sym with (n:=n) (m:=m); [apply wf_fud, wf_flr; exact HIM|].
          apply fud_keeps_lr_sym; [apply wf_flr; exact HIM|apply flr_lr_sym; exact HIM].
        + apply flip_of_ud_sym with (n:=n) (m:=m); [apply wf_fud, wf_flr; exact HIM|].
          apply fud_ud_sym. apply wf_flr; exact HIM.
    Qed.

    (* an already symmetric image is left unchanged *)
    Hypothesis LAWS : mean_laws.

    Lemma flr_fix (X : img) : wf n m X -> lr_sym_px n m X -> flr X = X.
    Proof.
      intros H Hs. destruct LAWS as (_ & _ & _ & L2 & _).
      apply img_ext with (zero:=zero) (n:=n) (m:=m); [apply wf_flr; exact H|exact H|].
      intros i j Hi Hj. rewrite px_flr by assumption. rewrite Hs by lia. apply L2.
    Qed.
    Lemma fud_fix (X : img) : wf n m X -> ud_sym_px n m X -> fud X = X.
    Proof.
      intros H Hs. destruct LAWS as (_ & _ & _ & L2 & _).
      apply img_ext with (zero:=zero) (n:=n) (m:=m); [apply wf_fud; exact H|exact H|].
      intros i j Hi Hj. rewrite px_fud by assumption. rewrite Hs by lia. apply L2.
    Qed.

    Lemma fourier_fix_0 u : fliplr IM = IM -> rejects ax_0 u = false -> sym ax_0 u Fourier IM = Ok IM.
    Proof.
      intros Hs Hr. rewrite (sym_fourier_0 u Hr). f_equal.
      apply flr_fix; [exact HIM|apply (lr_sym_of_flip HIM Hs)].
    Qed.
    Lemma fourier_fix_1 u : flipud IM = IM -> rejects ax_1 u = false -> sym ax_1 u Fourier IM = Ok IM.
    Proof.
      intros Hs Hr. rewrite (sym_fourier_1 u Hr). f_equal.
      apply fud_fix; [exact HIM|apply (ud_sym_of_flip HIM Hs)].
    Qed.
    Lemma fourier_fix_both a u : In a both_spellings -> fliplr IM = IM -> flipud IM = IM ->
      rejects a u = false -> sym a u Fourier IM = Ok IM.
    Proof.
      intros Ha Hs1 Hs2 Hr. rewrite (sym_fourier_both u Ha Hr). f_equal.
      rewrite (flr_fix HIM (lr_sym_of_flip HIM Hs1)).
      apply fud_fix; [exact HIM|apply (ud_sym_of_flip HIM Hs2)].
    Qed.
  End FourierSec.

  (* idempotence of the Fourier method *)
  Lemma fourier_idem n m (IM S : img) a u :
    mean_laws -> (forall x y, add x y = add y x) -> wf n m IM -> 1 <= n -> 1 <= m ->
    In a (ax_0 :: ax_1 :: both_spellings) ->
    sym a u Fourier IM = Ok S -> sym a u Fourier S = Ok S.
  Proof.
    intros L C H Hn Hm Ha HS.
    assert (Hr : rejects a u = false).
    { destruct (rejects a u) eqn:E; [|reflexivity].
      unfold symmetrize, get_quadrants in HS. rewrite E in HS. discriminate. }
    destruct Ha as [<-|[<-|Ha]].
    - pose proof (fourier_mirror_0 H Hn Hm C u HS) as M.
      rewrite (sym_fourier_0 H Hn Hm C u Hr) in HS. apply Ok_inj in HS. subst S.
      apply fourier_fix_0 with (n:=n) (m:=m); try assumption. apply wf_flr; exact H.
    - pose proof (fourier_mirror_1 H Hn Hm C u HS) as M.
      rewrite (sym_fourier_1 H Hn Hm C u Hr) in HS. apply Ok_inj in HS. subst S.
      apply fourier_fix_1 with (n:=n) (m:=m); try assumption. apply wf_fud; exact H.
    - destruct (fourier_mirror_both H Hn Hm C u Ha HS) as [M1 M2].
      rewrite (sym_fourier_both H Hn Hm C u Ha Hr) in HS. apply Ok_inj in HS. subst S.
      apply fourier_fix_both with (n:=n) (m:=m); try assumption. apply wf_fud, wf_flr; exact H.
  Qed.

  (* ---- T4: idempotence ------------------------------------------------- *)
  Lemma sym_idem_0 n m (IM S : img) u :
    mean_laws -> wf n m IM -> 1 <= n -> 1 <= m ->
    sym ax_0 u Average IM = Ok S -> sym ax_0 u Average S = Ok S.
  Proof.
    intros L H Hn Hm HS.
    assert (Hr : rejects ax_0 u = false).
    { unfold symmetrize in HS. rewrite (get_0 H Hn Hm) in HS.
      destruct (rejects ax_0 u); [discriminate|reflexivity]. }
    apply (sym_fix_0 (sym_wf_0 H Hn Hm u HS) Hn Hm L); [|exact Hr].
    apply (sym_mirror_0 H Hn Hm u HS).
  Qed.

  Lemma sym_idem_1 n m (IM S : img) u :
    mean_laws -> wf n m IM -> 1 <= n -> 1 <= m ->
    sym ax_1 u Average IM = Ok S -> sym ax_1 u Average S = Ok S.
  Proof.
    intros L H Hn Hm HS.
    assert (Hr : rejects ax_1 u = false).
    { unfold symmetrize in HS. rewrite (get_1 H Hn Hm) in HS.
      destruct (rejects ax_1 u); [discriminate|reflexivity]. }
    apply (sym_fix_1 (sym_wf_1 H Hn Hm u HS) Hn Hm L); [|exact Hr].
    apply (sym_mirror_1 H Hn Hm u HS).
  Qed.

  Lemma sym_idem_both n m (IM S : img) a u :
    mean_laws -> wf n m IM -> 1 <= n -> 1 <= m -> In a both_spellings ->
    sym a u Average IM = Ok S -> sym a u Average S = Ok S.
  Proof.
    intros L H Hn Hm Ha HS.
    assert (Hr : rejects a u = false).
    { unfold symmetrize in HS. rewrite (get_both H Hn Hm u Ha) in HS.
      destruct (rejects a u); [discriminate|reflexivity]. }
    destruct (sym_mirror_both H Hn Hm u Ha HS) as [M1 M2].
    pose proof (sym_wf_both H Hn Hm u Ha HS) as WS.
    apply sym_fix_both with (n:=n) (m:=m); assumption.
  Qed.
End SymProofs.

(* ---- T6: rejection is exactly "some output quadrant would be undefined" ---- *)
Definition undefined_quadrant (a : axis) (u : mask) : bool :=
  if ax_is_list [None] a then negb (u0 u && u1 u && u2 u && u3 u)
  else if both_axes a then negb (u0 u || u1 u || u2 u || u3 u)
  else if ax_has 0 a then negb (u0 u || u1 u) || negb (u2 u || u3 u)
  else if ax_has 1 a then negb (u1 u || u2 u) || negb (u0 u || u3 u)
  else false.

Lemma reject_iff_undefined a u :
  In a [ax_None; ax_0; ax_1; ax_both; ax_list01; ax_tuple10] -> rejects a u = undefined_quadrant a u.
Proof.
  intros [<-|[<-|[<-|[<-|[<-|[<-|[]]]]]]]; destruct u as [[] [] [] []]; reflexivity.
Qed.
