(* proofs/ExactOnSpan.v — "exact on its own span" (DESIGN §3 C01 / C02), built on
   the C09 entry theorems.

   For the daun bases of degree 0, 1, 2 (piecewise constant / linear /
   quadratic functions on the pixel grid), every size n and every coefficient
   vector c:
     forward:  the Abel projection of f = sum_j c_j basis_j at pixel i is
               sum_j c_j * daun_p<deg> j i  — the generated matrix of abel/daun.py
               applied to the coefficients gives the exact projection;
     inverse:  if the data row is that exact projection and X is a left inverse
               of the matrix (sum_i B[j][i] X[i][k] = delta_jk), then
               sum_i data_i X[i][k] = c_k: the coefficients are recovered exactly.
   The same for Dasch's onion peeling through onion_W = transposed degree-0 matrix.

   Finite sums are sumn n F = F 0 + ... + F (n-1); basis centres are the pixel
   positions zc j = IZR (Z.of_nat j); the integration range is zc n. *)
From Coq Require Import Reals ZArith Bool Lra Lia Arith.
From Coquelicot Require Import Coquelicot.
From PA Require Import model.Abel proofs.AbelLemmas proofs.C09Daun proofs.C09Daun2 gen.FormulasBasis.
Open Scope R_scope.

(* ---- finite sums ---------------------------------------------------------- *)
Fixpoint sumn (n : nat) (F : nat -> R) : R :=
  match n with O => 0 | S k => sumn k F + F k end.

Lemma sumn_ext n F G : (forall j, (j < n)%nat -> F j = G j) -> sumn n F = sumn n G.
Proof.
  induction n as [|n IH]; intros H; simpl; [reflexivity|].
  rewrite IH by (intros; apply H; lia). rewrite H by lia. reflexivity.
Qed.

Lemma sumn_plus n F G : sumn n (fun j => F j + G j) = sumn n F + sumn n G.
Proof. induction n as [|n IH]; simpl; [ring|]. rewrite IH. ring. Qed.

Lemma sumn_scal_l n a F : sumn n (fun j => a * F j) = a * sumn n F.
Proof. induction n as [|n IH]; simpl; [ring|]. rewrite IH. ring. Qed.

Lemma sumn_scal_r n a F : sumn n (fun j => F j * a) = sumn n F * a.
Proof. induction n as [|n IH]; simpl; [ring|]. rewrite IH. ring. Qed.

Lemma sumn_zero n : sumn n (fun _ => 0) = 0.
Proof. induction n as [|n IH]; simpl; [ring|]. rewrite IH. ring. Qed.

Lemma sumn_swap n m (G : nat -> nat -> R) :
  sumn n (fun i => sumn m (fun j => G i j)) = sumn m (fun j => sumn n (fun i => G i j)).
Proof.
  induction n as [|n IH]; simpl.
  - rewrite sumn_zero. reflexivity.
  - rewrite IH. rewrite <- sumn_plus. reflexivity.
Qed.

Definition delta (j k : nat) : R := if Nat.eqb j k then 1 else 0.

Lemma sumn_delta n c k : (k < n)%nat -> sumn n (fun j => c j * delta j k) = c k.
Proof.
  induction n as [|n IH]; intros H; [lia|]. simpl.
  destruct (Nat.eq_dec k n) as [E|E].
  - subst k. unfold delta at 2. rewrite Nat.eqb_refl.
    rewrite (sumn_ext n _ (fun _ => 0)).
    + rewrite sumn_zero. ring.
    + intros j Hj. unfold delta. destruct (Nat.eqb_spec j n); [lia|ring].
  - rewrite IH by lia. unfold delta. destruct (Nat.eqb_spec n k); [lia|ring].
Qed.

(* ---- linear combinations of basis functions ------------------------------- *)
Definition lin_comb (b : nat -> R -> R) (c : nat -> R) (n : nat) (r : R) : R :=
  sumn n (fun j => c j * b j r).

Definition zc (j : nat) : R := IZR (Z.of_nat j).

Lemma zc_nonneg j : 0 <= zc j.
Proof. unfold zc. apply IZR_le. lia. Qed.
Lemma zc_lt j n : (j < n)%nat -> zc j + 1 <= zc n.
Proof. intros H. unfold zc. rewrite <- plus_IZR. apply IZR_le. lia. Qed.

(* the functions of the span of the daun bases: piecewise constant, linear, quadratic *)
Definition span_daun0 (c : nat -> R) (n : nat) : R -> R := lin_comb (fun j => rect (zc j)) c n.
Definition span_daun1 (c : nat -> R) (n : nat) : R -> R := lin_comb (fun j => tri (zc j)) c n.
Definition span_daun2 (c : nat -> R) (n : nat) : R -> R := lin_comb (fun j => quad2 (zc j)) c n.

Lemma lin_comb_is_RInt (b : nat -> R -> R) (c V : nat -> R) n (g : R -> R) Y :
  (forall j, (j < n)%nat -> is_RInt (fun y => b j (g y)) 0 Y (V j)) ->
  is_RInt (fun y => lin_comb b c n (g y)) 0 Y (sumn n (fun j => c j * V j)).
Proof.
  unfold lin_comb. induction n as [|n IH]; intros H; simpl.
  - replace 0 with ((Y - 0) * 0) at 2 by ring. apply (is_RInt_const 0 Y 0).
  - apply (is_RInt_plus (fun y => sumn n (fun j => c j * b j (g y))) (fun y => c n * b n (g y))).
    + apply IH. intros; apply H; lia.
    + apply (is_RInt_scal (fun y => b n (g y)) 0 Y (c n)). apply H. lia.
Qed.

(* ---- forward: projection of a linear combination -------------------------- *)
Lemma forward_generic (b : nat -> R -> R) (e V : nat -> R) n c x Rm :
  0 <= x -> 0 <= Rm ->
  (forall j, (j < n)%nat -> e j <= Rm) ->
  (forall j, (j < n)%nat -> forall s, e j <= s -> b j s = 0) ->
  (forall j, (j < n)%nat -> is_RInt (fun y => b j (sqrt (x * x + y * y))) 0 (ylos x (e j)) (V j)) ->
  Abel (lin_comb b c n) Rm x = sumn n (fun j => c j * (2 * V j)).
Proof.
  intros Hx HR He Hz HI. unfold Abel. rewrite abel_upper by assumption.
  rewrite (is_RInt_unique _ _ _ _
            (lin_comb_is_RInt b c V n (fun y => sqrt (x * x + y * y)) (ylos x Rm)
               (fun j Hj => los_extend (b j) x (e j) Rm (V j) Hx (He j Hj) (Hz j Hj) (HI j Hj)))).
  rewrite <- sumn_scal_l. apply sumn_ext. intros; ring.
Qed.

Lemma rect_beyond c s : c + 1 / 2 <= s -> rect c s = 0.
Proof.
  intros H. unfold rect. destruct (Rle_dec (c - 1 / 2) s); [|reflexivity].
  destruct (Rlt_dec s (c + 1 / 2)); [lra|reflexivity].
Qed.
Lemma quad2_beyond c s : c + 1 <= s -> quad2 c s = 0.
Proof. intros H. apply quad2_out. rewrite Rabs_pos_eq by lra. lra. Qed.

(* the forward matrix of abel/daun.py (degree 0) applied to the coefficients is
   the exact Abel projection of the piecewise-constant function, at every pixel *)
Theorem forward_exact_on_span_daun0 (n : nat) (c : nat -> R) (i : Z) : (0 <= i)%Z ->
  Abel (span_daun0 c n) (zc n) (IZR i) = sumn n (fun j => c j * daun_p0 (Z.of_nat j) i).
Proof.
  intros Hi. assert (Hx : 0 <= IZR i) by (apply IZR_le; lia).
  unfold span_daun0.
  rewrite (forward_generic (fun j => rect (zc j)) (fun j => zc j + 1 / 2)
             (fun j => ylos (IZR i) (zc j + 1 / 2) - ylos (IZR i) (zc j - 1 / 2)) n c (IZR i) (zc n) Hx (zc_nonneg n)).
  - apply sumn_ext. intros j Hj. f_equal.
    rewrite daun0_entry by lia. fold (zc j). symmetry. apply Abel_rect; [assumption|apply zc_nonneg].
  - intros j Hj. pose proof (zc_lt j n Hj). lra.
  - intros j Hj s Hs. apply rect_beyond; assumption.
  - intros j Hj. apply rect_is_RInt; [assumption|apply zc_nonneg].
Qed.

Theorem forward_exact_on_span_daun1 (n : nat) (c : nat -> R) (i : Z) : (0 <= i)%Z ->
  Abel (span_daun1 c n) (zc n) (IZR i) = sumn n (fun j => c j * daun_p1 (Z.of_nat j) i).
Proof.
  intros Hi. assert (Hx : 0 <= IZR i) by (apply IZR_le; lia).
  unfold span_daun1.
  rewrite (forward_generic (fun j => tri (zc j)) (fun j => zc j + 1)
             (fun j => tri_RInt_value (IZR i) (zc j)) n c (IZR i) (zc n) Hx (zc_nonneg n)).
  - apply sumn_ext. intros j Hj. f_equal.
    rewrite daun1_entry by lia. fold (zc j). unfold Abel. rewrite abel_upper by (pose proof (zc_nonneg j); lra).
    f_equal. symmetry. apply is_RInt_unique. apply tri_is_RInt; [assumption|apply zc_nonneg].
  - intros j Hj. apply zc_lt; assumption.
  - intros j Hj s Hs. apply tri_above; assumption.
  - intros j Hj. apply tri_is_RInt; [assumption|apply zc_nonneg].
Qed.

Theorem forward_exact_on_span_daun2 (n : nat) (c : nat -> R) (i : Z) : (0 <= i)%Z ->
  Abel (span_daun2 c n) (zc n) (IZR i) = sumn n (fun j => c j * daun_p2 (Z.of_nat j) i).
Proof.
  intros Hi. assert (Hx : 0 <= IZR i) by (apply IZR_le; lia).
  unfold span_daun2.
  rewrite (forward_generic (fun j => quad2 (zc j)) (fun j => zc j + 1)
             (fun j => quad2_RInt_value (IZR i) (zc j)) n c (IZR i) (zc n) Hx (zc_nonneg n)).
  - apply sumn_ext. intros j Hj. f_equal.
    rewrite daun2_entry by lia. fold (zc j). unfold Abel. rewrite abel_upper by (pose proof (zc_nonneg j); lra).
    f_equal. symmetry. apply is_RInt_unique. apply quad2_is_RInt; [assumption|apply zc_nonneg].
  - intros j Hj. apply zc_lt; assumption.
  - intros j Hj s Hs. apply quad2_beyond; assumption.
  - intros j Hj. apply quad2_is_RInt; [assumption|apply zc_nonneg].
Qed.

(* ---- inverse: a left inverse of the matrix returns the coefficients ------- *)
Lemma inverse_from_left_inverse (B X : nat -> nat -> R) n (c P : nat -> R) :
  (forall i, (i < n)%nat -> P i = sumn n (fun j => c j * B j i)) ->
  (forall j k, (j < n)%nat -> (k < n)%nat -> sumn n (fun i => B j i * X i k) = delta j k) ->
  forall k, (k < n)%nat -> sumn n (fun i => P i * X i k) = c k.
Proof.
  intros HP HX k Hk.
  rewrite (sumn_ext n _ (fun i => sumn n (fun j => c j * (B j i * X i k)))).
  - rewrite sumn_swap.
    rewrite (sumn_ext n _ (fun j => c j * delta j k)).
    + apply sumn_delta; assumption.
    + intros j Hj. rewrite sumn_scal_l. f_equal. apply HX; assumption.
  - intros i Hi. rewrite HP by assumption. rewrite <- sumn_scal_r. apply sumn_ext. intros; ring.
Qed.

(* if the data row is the exact projection of a function of the span and the
   (transposed projected-basis) matrix is inverted, the coefficients come back *)
Theorem exact_on_span_daun0 (n : nat) (c : nat -> R) (X : nat -> nat -> R) :
  (forall j k, (j < n)%nat -> (k < n)%nat ->
     sumn n (fun i => daun_p0 (Z.of_nat j) (Z.of_nat i) * X i k) = delta j k) ->
  forall k, (k < n)%nat ->
    sumn n (fun i => Abel (span_daun0 c n) (zc n) (zc i) * X i k) = c k.
Proof.
  intros HX. apply (inverse_from_left_inverse (fun j i => daun_p0 (Z.of_nat j) (Z.of_nat i)) X n c); [|exact HX].
  intros i Hi. unfold zc at 2. apply forward_exact_on_span_daun0. lia.
Qed.

Theorem exact_on_span_daun1 (n : nat) (c : nat -> R) (X : nat -> nat -> R) :
  (forall j k, (j < n)%nat -> (k < n)%nat ->
     sumn n (fun i => daun_p1 (Z.of_nat j) (Z.of_nat i) * X i k) = delta j k) ->
  forall k, (k < n)%nat ->
    sumn n (fun i => Abel (span_daun1 c n) (zc n) (zc i) * X i k) = c k.
Proof.
  intros HX. apply (inverse_from_left_inverse (fun j i => daun_p1 (Z.of_nat j) (Z.of_nat i)) X n c); [|exact HX].
  intros i Hi. unfold zc at 2. apply forward_exact_on_span_daun1. lia.
Qed.

Theorem exact_on_span_daun2 (n : nat) (c : nat -> R) (X : nat -> nat -> R) :
  (forall j k, (j < n)%nat -> (k < n)%nat ->
     sumn n (fun i => daun_p2 (Z.of_nat j) (Z.of_nat i) * X i k) = delta j k) ->
  forall k, (k < n)%nat ->
    sumn n (fun i => Abel (span_daun2 c n) (zc n) (zc i) * X i k) = c k.
Proof.
  intros HX. apply (inverse_from_left_inverse (fun j i => daun_p2 (Z.of_nat j) (Z.of_nat i)) X n c); [|exact HX].
  intros i Hi. unfold zc at 2. apply forward_exact_on_span_daun2. lia.
Qed.

(* Dasch onion peeling: the operator D is the inverse of W (abel/dasch.py
   `D = inv(W)`, applied as result_k = sum_i D[k][i] data_i); W is the transposed
   degree-0 matrix, so D returns the ring values of a piecewise-constant source *)
Theorem exact_on_span_onion_peeling (n : nat) (c : nat -> R) (D : nat -> nat -> R) :
  (forall k j, (k < n)%nat -> (j < n)%nat ->
     sumn n (fun i => D k i * onion_W (Z.of_nat n) (Z.of_nat i) (Z.of_nat j)) = delta j k) ->
  forall k, (k < n)%nat ->
    sumn n (fun i => D k i * Abel (span_daun0 c n) (zc n) (zc i)) = c k.
Proof.
  intros HD k Hk.
  rewrite (sumn_ext n _ (fun i => Abel (span_daun0 c n) (zc n) (zc i) * D k i)) by (intros; ring).
  apply (exact_on_span_daun0 n c (fun i k => D k i)); [|assumption].
  intros j k' Hj Hk'. rewrite <- (HD k' j Hk' Hj). apply sumn_ext. intros i Hi.
  rewrite onion_W_eq_daun0 by lia. ring.
Qed.

(* the left-inverse hypothesis is satisfiable (n = 1: the 1x1 matrix is [1]) *)
Lemma daun_p0_00 : daun_p0 0 0 = 1.
Proof.
  unfold daun_p0. change (0 <? 0 + 1)%Z with true. change (0 <? 0)%Z with false. cbn [andb].
  replace ((0 + 1 / 2) ^ 2 - 0 ^ 2) with (1 / 2 * (1 / 2)) by field.
  rewrite sqrt_square by lra. field.
Qed.

Lemma left_inverse_exists_n1 :
  exists X : nat -> nat -> R, forall j k, (j < 1)%nat -> (k < 1)%nat ->
    sumn 1 (fun i => daun_p0 (Z.of_nat j) (Z.of_nat i) * X i k) = delta j k.
Proof.
  exists (fun _ _ => 1). intros j k Hj Hk.
  assert (j = 0%nat) by lia. assert (k = 0%nat) by lia. subst. simpl.
  rewrite daun_p0_00. unfold delta. simpl. ring.
Qed.
