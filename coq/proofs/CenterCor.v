(* CenterCor.v — the clauses of C12 for whole-pixel centring, derived from
   set_center_int_spec (proofs/CenterProofs.v). *)
From Coq Require Import List Arith Lia Bool ZArith ZifyBool ZifyNat.
From PA Require Import base.Arr base.Px model.Center proofs.CenterAxis proofs.CenterProofs.
Import ListNotations.

Ltac Zify.zify_post_hook ::= Z.to_euclidean_division_equations.
Set Implicit Arguments.
Local Open Scope nat_scope.

Definition inside (k : Z) (n : nat) : bool := (0 <=? k)%Z && (k <? Z.of_nat n)%Z.

Section Cor.
  Variable A : Type.
  Variable zero : A.
  Notation img := (list (list A)).
  Notation px := (px zero).

  Section Both.
    Variables n m : nat.
    Variable data : img.
    Variables o0 o1 : Z.
    Hypothesis Hwf : wf n m data.
    Hypothesis Hn : 0 < n.
    Hypothesis Hm : 0 < m.
    Hypothesis H0 : (0 <= o0 < Z.of_nat n)%Z.
    Hypothesis H1 : (0 <= o1 < Z.of_nat m)%Z.

    (* 'maintain_size': same shape; out[i][j] = data[i - d0][j - d1] with
       d = len//2 - origin inside the frame, 0 outside; the origin pixel lands
       on (rows//2, cols//2) *)
    Lemma maintain_size_spec :
      exists out,
        set_center_int zero data (Some o0) (Some o1) MaintainSize = Some out /\
        wf n m out /\
        (forall i j, i < n -> j < m ->
           let a := (Z.of_nat i - (Z.of_nat (n / 2) - o0))%Z in
           let b := (Z.of_nat j - (Z.of_nat (m / 2) - o1))%Z in
           px out i j = if inside a n && inside b m then px data (Z.to_nat a) (Z.to_nat b) else zero) /\
        px out (n / 2) (m / 2) = px data (Z.to_nat o0) (Z.to_nat o1).
    Proof.
      destruct (@set_center_int_spec A zero MaintainSize n m data (Some o0) (Some o1))
        as [out [E [W P]]]; try assumption; try discriminate.
      exists out. split; [exact E|]. split; [exact W|]. cbn [out_len crop_len] in P. split.
      - intros i j Hi Hj a b. rewrite (P i j Hi Hj). unfold shown, src_idx, tr_idx, crop_len, inside.
        subst a b.
        replace (Z.of_nat i - Z.of_nat (n / 2) + o0)%Z with (Z.of_nat i - (Z.of_nat (n / 2) - o0))%Z by lia.
        replace (Z.of_nat j - Z.of_nat (m / 2) + o1)%Z with (Z.of_nat j - (Z.of_nat (m / 2) - o1))%Z by lia.
        destruct ((0 <=? Z.of_nat i - (Z.of_nat (n / 2) - o0))%Z && (Z.of_nat i - (Z.of_nat (n / 2) - o0) <? Z.of_nat n)%Z);
          destruct ((0 <=? Z.of_nat j - (Z.of_nat (m / 2) - o1))%Z && (Z.of_nat j - (Z.of_nat (m / 2) - o1) <? Z.of_nat m)%Z);
          reflexivity.
      - rewrite P by lia. unfold shown.
        pose proof (@src_idx_centre MaintainSize n o0 H0) as C0. pose proof (@src_idx_centre MaintainSize m o1 H1) as C1.
        cbn [crop_len] in C0, C1. rewrite C0, C1. reflexivity.
    Qed.

    (* 'valid_region': the block data[o-d .. o+d] per axis, d = min(o, len-1-o):
       only original pixels, centred on the origin pixel *)
    Lemma valid_region_spec :
      let d0 := Z.min o0 (Z.of_nat n - 1 - o0) in
      let d1 := Z.min o1 (Z.of_nat m - 1 - o1) in
      exists out,
        set_center_int zero data (Some o0) (Some o1) ValidRegion = Some out /\
        wf (Z.to_nat (2 * d0 + 1)) (Z.to_nat (2 * d1 + 1)) out /\
        (forall i j, i < Z.to_nat (2 * d0 + 1) -> j < Z.to_nat (2 * d1 + 1) ->
           px out i j = px data (Z.to_nat (o0 - d0) + i) (Z.to_nat (o1 - d1) + j)) /\
        px out (Z.to_nat d0) (Z.to_nat d1) = px data (Z.to_nat o0) (Z.to_nat o1) /\
        Z.to_nat (2 * d0 + 1) / 2 = Z.to_nat d0 /\ Z.to_nat (2 * d1 + 1) / 2 = Z.to_nat d1.
    Proof.
      intros d0 d1.
      destruct (@set_center_int_spec A zero ValidRegion n m data (Some o0) (Some o1))
        as [out [E [W P]]]; try assumption; try discriminate.
      exists out. split; [exact E|]. cbn [out_len crop_len] in W, P. fold d0 d1 in W, P.
      split; [exact W|].
      assert (Q : forall i j, i < Z.to_nat (2 * d0 + 1) -> j < Z.to_nat (2 * d1 + 1) ->
                px out i j = px data (Z.to_nat (o0 - d0) + i) (Z.to_nat (o1 - d1) + j)).
      { intros i j Hi Hj. rewrite (P i j Hi Hj). unfold shown, src_idx, tr_idx, crop_len. fold d0 d1.
        destruct (Z.leb_spec 0 (Z.of_nat i - Z.of_nat (Z.to_nat (2 * d0 + 1) / 2) + o0)); [|lia].
        destruct (Z.ltb_spec (Z.of_nat i - Z.of_nat (Z.to_nat (2 * d0 + 1) / 2) + o0) (Z.of_nat n)); [|lia].
        destruct (Z.leb_spec 0 (Z.of_nat j - Z.of_nat (Z.to_nat (2 * d1 + 1) / 2) + o1)); [|lia].
        destruct (Z.ltb_spec (Z.of_nat j - Z.of_nat (Z.to_nat (2 * d1 + 1) / 2) + o1) (Z.of_nat m)); [|lia].
        cbn [andb]. f_equal; lia. }
      split; [exact Q|]. split; [|lia].
      rewrite Q by lia. f_equal; lia.
    Qed.

    (* 'maintain_data': every original pixel is kept (at its translated
       position), everything else is zero, the padding makes the frame
       symmetric about the origin pixel *)
    Lemma maintain_data_spec :
      let d0 := Z.max o0 (Z.of_nat n - 1 - o0) in
      let d1 := Z.max o1 (Z.of_nat m - 1 - o1) in
      exists out,
        set_center_int zero data (Some o0) (Some o1) MaintainData = Some out /\
        wf (Z.to_nat (2 * d0 + 1)) (Z.to_nat (2 * d1 + 1)) out /\
        (forall a b, a < n -> b < m ->
           px out (a + Z.to_nat (d0 - o0)) (b + Z.to_nat (d1 - o1)) = px data a b) /\
        (forall i j, i < Z.to_nat (2 * d0 + 1) -> j < Z.to_nat (2 * d1 + 1) ->
           negb (inside (Z.of_nat i - (d0 - o0)) n && inside (Z.of_nat j - (d1 - o1)) m) = true ->
           px out i j = zero) /\
        px out (Z.to_nat d0) (Z.to_nat d1) = px data (Z.to_nat o0) (Z.to_nat o1) /\
        Z.to_nat (2 * d0 + 1) / 2 = Z.to_nat d0 /\ Z.to_nat (2 * d1 + 1) / 2 = Z.to_nat d1.
    Proof.
      intros d0 d1.
      destruct (@set_center_int_spec A zero MaintainData n m data (Some o0) (Some o1))
        as [out [E [W P]]]; try assumption; try discriminate.
      exists out. split; [exact E|]. cbn [out_len crop_len] in W, P. fold d0 d1 in W, P.
      split; [exact W|].
      assert (Q : forall a b, a < n -> b < m ->
                px out (a + Z.to_nat (d0 - o0)) (b + Z.to_nat (d1 - o1)) = px data a b).
      { intros a b Ha Hb. rewrite P by lia. unfold shown, src_idx, tr_idx, crop_len. fold d0 d1.
        destruct (Z.leb_spec 0 (Z.of_nat (a + Z.to_nat (d0 - o0)) - Z.of_nat (Z.to_nat (2 * d0 + 1) / 2) + o0)); [|lia].
        destruct (Z.ltb_spec (Z.of_nat (a + Z.to_nat (d0 - o0)) - Z.of_nat (Z.to_nat (2 * d0 + 1) / 2) + o0) (Z.of_nat n)); [|lia].
        destruct (Z.leb_spec 0 (Z.of_nat (b + Z.to_nat (d1 - o1)) - Z.of_nat (Z.to_nat (2 * d1 + 1) / 2) + o1)); [|lia].
        destruct (Z.ltb_spec (Z.of_nat (b + Z.to_nat (d1 - o1)) - Z.of_nat (Z.to_nat (2 * d1 + 1) / 2) + o1) (Z.of_nat m)); [|lia].
        cbn [andb]. f_equal; lia. }
      split; [exact Q|]. split; [|split; [|lia]].
      - intros i j Hi Hj Hout. rewrite (P i j Hi Hj). unfold shown, src_idx, tr_idx, crop_len. fold d0 d1.
        unfold inside in Hout.
        replace (Z.of_nat i - Z.of_nat (Z.to_nat (2 * d0 + 1) / 2) + o0)%Z with (Z.of_nat i - (d0 - o0))%Z by lia.
        replace (Z.of_nat j - Z.of_nat (Z.to_nat (2 * d1 + 1) / 2) + o1)%Z with (Z.of_nat j - (d1 - o1))%Z by lia.
        destruct ((0 <=? Z.of_nat i - (d0 - o0))%Z && (Z.of_nat i - (d0 - o0) <? Z.of_nat n)%Z);
          destruct ((0 <=? Z.of_nat j - (d1 - o1))%Z && (Z.of_nat j - (d1 - o1) <? Z.of_nat m)%Z);
          try reflexivity. discriminate Hout.
      - replace (Z.to_nat d0) with (Z.to_nat o0 + Z.to_nat (d0 - o0)) by lia.
        replace (Z.to_nat d1) with (Z.to_nat o1 + Z.to_nat (d1 - o1)) by lia.
        apply Q; lia.
    Qed.
  End Both.

  (* an axis that is not centred is untouched: same length, same index *)
  Lemma axes_untouched_none cr n m (data : img) :
    wf n m data -> 0 < n -> 0 < m -> cr <> OtherCrop ->
    set_center_int zero data None None cr = Some data.
  Proof.
    intros Hwf Hn Hm Hcr.
    destruct (@set_center_int_spec A zero cr n m data None None) as [out [E [W P]]]; try assumption;
      try exact I.
    rewrite E. f_equal. cbn [out_len] in W, P.
    apply (img_ext zero W Hwf). intros i j Hi Hj. rewrite (P i j Hi Hj). reflexivity.
  Qed.

  Lemma axes_untouched_axis1 cr n m (data : img) o0 :
    wf n m data -> 0 < n -> 0 < m -> cr <> OtherCrop -> (0 <= o0 < Z.of_nat n)%Z ->
    exists out,
      set_center_int zero data (Some o0) None cr = Some out /\
      wf (crop_len cr n o0) m out /\
      forall i j, i < crop_len cr n o0 -> j < m ->
        px out i j = match tr_idx n (crop_len cr n o0) o0 i with Some a => px data a j | None => zero end.
  Proof.
    intros Hwf Hn Hm Hcr H0.
    destruct (@set_center_int_spec A zero cr n m data (Some o0) None) as [out [E [W P]]]; try assumption;
      try exact I.
    exists out. split; [exact E|]. split; [exact W|]. exact P.
  Qed.

  Lemma axes_untouched_axis0 cr n m (data : img) o1 :
    wf n m data -> 0 < n -> 0 < m -> cr <> OtherCrop -> (0 <= o1 < Z.of_nat m)%Z ->
    exists out,
      set_center_int zero data None (Some o1) cr = Some out /\
      wf n (crop_len cr m o1) out /\
      forall i j, i < n -> j < crop_len cr m o1 ->
        px out i j = match tr_idx m (crop_len cr m o1) o1 j with Some b => px data i b | None => zero end.
  Proof.
    intros Hwf Hn Hm Hcr H1.
    destruct (@set_center_int_spec A zero cr n m data None (Some o1)) as [out [E [W P]]]; try assumption;
      try exact I.
    exists out. split; [exact E|]. split; [exact W|]. exact P.
  Qed.
End Cor.

(* no larger block symmetric about the origin fits into the axis *)
Lemma valid_region_maximal (n : nat) (o d' : Z) :
  (0 <= o - d')%Z -> (o + d' <= Z.of_nat n - 1)%Z ->
  (2 * d' + 1 <= Z.of_nat (crop_len ValidRegion n o))%Z.
Proof. unfold crop_len. lia. Qed.

Lemma c12_example :
  wf 2 3 [[1; 2; 3]; [4; 5; 6]] /\ in_axis 2 (Some 1%Z) /\ in_axis 3 None /\
  set_center_int 0 [[1; 2; 3]; [4; 5; 6]] (Some 0%Z) (Some 2%Z) MaintainSize = Some [[0; 0; 0]; [2; 3; 0]].
Proof.
  split; [|split; [|split]].
  - apply wfb_wf. reflexivity.
  - cbn. lia.
  - exact I.
  - reflexivity.
Qed.
