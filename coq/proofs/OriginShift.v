(* OriginShift.v — translation equivariance of the convolution method for ANY
   profile (no symmetry): the autoconvolution of a profile translated by a
   whole pixels is the autoconvolution translated by 2a (zero outside), and
   the first argmax follows such an index shift as soon as the maximum is
   positive (profile not identically zero). *)
From Coq Require Import List Arith Lia Bool ZArith Reals Lra ZifyBool ZifyNat.
From PA Require Import base.Arr base.Px model.Origin proofs.OriginSums proofs.OriginProofs
  proofs.OriginConv proofs.OriginImage proofs.OriginTop.
Import ListNotations.

Local Open Scope R_scope.

(* ---- specification of the first argmax -------------------------------------------- *)
Definition is_first_max (l : list R) (k : nat) : Prop :=
  (k < length l)%nat /\
  (forall j, (j < k)%nat -> nth j l 0 < nth k l 0) /\
  (forall j, (j < length l)%nat -> nth j l 0 <= nth k l 0).

Lemma first_max_unique l k1 k2 : is_first_max l k1 -> is_first_max l k2 -> k1 = k2.
Proof.
  intros [L1 [S1 M1]] [L2 [S2 M2]].
  destruct (lt_eq_lt_dec k1 k2) as [[H|H]|H]; [|exact H|].
  - specialize (S2 k1 H). specialize (M1 k2 L2). lra.
  - specialize (S1 k2 H). specialize (M2 k1 L1). lra.
Qed.

Lemma Rltb_false a b : Rltb a b = false <-> b <= a.
Proof. unfold Rltb. destruct (Rlt_dec a b); split; intros; try discriminate; try reflexivity; lra. Qed.

Lemma argmax_from_spec t : forall pre b bv,
  (b < length pre)%nat -> bv = nth b pre 0 ->
  (forall j, (j < b)%nat -> nth j pre 0 < bv) ->
  (forall j, (j < length pre)%nat -> nth j pre 0 <= bv) ->
  is_first_max (pre ++ t) (argmax_from Rltb b bv (length pre) t).
Proof.
  induction t as [|x t IH]; intros pre b bv Hb Hbv Hs Hm.
  - cbn [argmax_from]. rewrite app_nil_r. subst bv. split; [exact Hb|]. split; assumption.
  - cbn [argmax_from].
    replace (pre ++ x :: t) with ((pre ++ [x]) ++ t) by (rewrite <- app_assoc; reflexivity).
    replace (S (length pre)) with (length (pre ++ [x])) by (rewrite app_length; cbn; lia).
    assert (Nx : nth (length pre) (pre ++ [x]) 0 = x) by (rewrite app_nth2 by lia; rewrite Nat.sub_diag; reflexivity).
    assert (Nj : forall j, (j < length pre)%nat -> nth j (pre ++ [x]) 0 = nth j pre 0) by (intros; apply app_nth1; assumption).
    destruct (Rltb bv x) eqn:E.
    + apply Rltb_true in E. apply IH.
      * rewrite app_length. cbn. lia.
      * symmetry. exact Nx.
      * intros j Hj. rewrite Nj by exact Hj. specialize (Hm j Hj). lra.
      * intros j Hj. rewrite app_length in Hj. cbn [length] in Hj.
        destruct (Nat.eq_dec j (length pre)) as [->|Hne]; [rewrite Nx; lra|].
        rewrite Nj by lia. specialize (Hm j ltac:(lia)). lra.
    + apply Rltb_false in E. apply IH.
      * rewrite app_length. cbn. lia.
      * rewrite Nj by exact Hb. exact Hbv.
      * intros j Hj. rewrite Nj by lia. apply Hs. exact Hj.
      * intros j Hj. rewrite app_length in Hj. cbn [length] in Hj.
        destruct (Nat.eq_dec j (length pre)) as [->|Hne]; [rewrite Nx; exact E|].
        rewrite Nj by lia. apply Hm. lia.
Qed.

Lemma argmax_spec l : l <> [] -> is_first_max l (argmaxR l).
Proof.
  destruct l as [|x t]; [congruence|]. intros _. unfold argmaxR, argmax.
  change (x :: t) with ([x] ++ t). change 1%nat with (length [x]).
  apply argmax_from_spec; cbn [length nth].
  - lia.
  - reflexivity.
  - intros j Hj. lia.
  - intros j Hj. replace j with 0%nat by lia. cbn. lra.
Qed.

(* two lists sampling the same finitely supported function F, the second one
   translated by d: the first argmax moves by d *)
Lemma argmax_shift (l l' : list R) (F : Z -> R) (d : Z) (N : nat) :
  length l = N -> length l' = N ->
  (forall j, (j < N)%nat -> nth j l 0 = F (Z.of_nat j)) ->
  (forall j, (j < N)%nat -> nth j l' 0 = F (Z.of_nat j - d)%Z) ->
  (forall k, (k < 0 \/ Z.of_nat N <= k)%Z -> F k = 0) ->
  (forall k, (k + d < 0 \/ Z.of_nat N <= k + d)%Z -> F k = 0) ->
  (exists k, 0 < F k) ->
  Z.of_nat (argmaxR l') = (Z.of_nat (argmaxR l) + d)%Z.
Proof.
  intros Hl Hl' Hn Hn' Hout Hout' [k0 Hk0].
  assert (HN : (0 < N)%nat).
  { destruct N; [|lia]. exfalso. rewrite (Hout k0) in Hk0 by lia. lra. }
  assert (Lne : l <> []) by (intros ->; cbn in Hl; lia).
  assert (Lne' : l' <> []) by (intros ->; cbn in Hl'; lia).
  destruct (argmax_spec l Lne) as [K1 [K2 K3]]. set (K := argmaxR l) in *.
  rewrite Hl in K1, K3.
  assert (Kpos : 0 < F (Z.of_nat K)).
  { destruct (Z_lt_ge_dec k0 0); [rewrite (Hout k0) in Hk0 by lia; lra|].
    destruct (Z_lt_ge_dec k0 (Z.of_nat N)); [|rewrite (Hout k0) in Hk0 by lia; lra].
    specialize (K3 (Z.to_nat k0) ltac:(lia)). rewrite !Hn in K3 by lia. rewrite Z2Nat.id in K3 by lia. lra. }
  assert (Kr : (0 <= Z.of_nat K + d < Z.of_nat N)%Z).
  { destruct (Z_lt_ge_dec (Z.of_nat K + d) 0); [rewrite (Hout' (Z.of_nat K)) in Kpos by lia; lra|].
    destruct (Z_lt_ge_dec (Z.of_nat K + d) (Z.of_nat N)); [lia|rewrite (Hout' (Z.of_nat K)) in Kpos by lia; lra]. }
  assert (Fle : forall k, F k <= F (Z.of_nat K)).
  { intros k. destruct (Z_lt_ge_dec k 0); [rewrite (Hout k) by lia; lra|].
    destruct (Z_lt_ge_dec k (Z.of_nat N)); [|rewrite (Hout k) by lia; lra].
    specialize (K3 (Z.to_nat k) ltac:(lia)). rewrite !Hn in K3 by lia. rewrite Z2Nat.id in K3 by lia. exact K3. }
  assert (Flt : forall k, (k < Z.of_nat K)%Z -> F k < F (Z.of_nat K)).
  { intros k Hk. destruct (Z_lt_ge_dec k 0); [rewrite (Hout k) by lia; lra|].
    specialize (K2 (Z.to_nat k) ltac:(lia)). rewrite !Hn in K2 by lia. rewrite Z2Nat.id in K2 by lia. exact K2. }
  assert (S' : is_first_max l' (Z.to_nat (Z.of_nat K + d))).
  { split; [rewrite Hl'; lia|]. split.
    - intros j Hj. rewrite !Hn' by lia. rewrite Z2Nat.id by lia.
      replace (Z.of_nat K + d - d)%Z with (Z.of_nat K) by lia. apply Flt. lia.
    - intros j Hj. rewrite Hl' in Hj. rewrite !Hn' by lia. rewrite Z2Nat.id by lia.
      replace (Z.of_nat K + d - d)%Z with (Z.of_nat K) by lia. apply Fle. }
  rewrite (first_max_unique l' _ _ (argmax_spec l' Lne') S'). lia.
Qed.

(* ---- the autoconvolution of a translated profile ------------------------------------ *)
Section Shift1.
  Variables p p' : list R.
  Variable a : Z.
  Hypothesis Hlen : length p' = length p.
  Hypothesis Htr : forall k, pz p' k = pz p (k - a).

  Lemma Cz_translated k : Cz p' k = Cz p (k - 2 * a).
  Proof.
    unfold Cz. rewrite Hlen. set (n := length p).
    set (h := fun j => pz p j * pz p (k - 2 * a - j)).
    rewrite (zs_ext _ (fun i => h (i + - a)%Z)).
    2:{ intros i _. unfold h. rewrite !Htr. f_equal; f_equal; lia. }
    rewrite (zs_shift h (- a) 0 n).
    apply zs_two_windows.
    - intros j Hj. unfold h. replace (pz p j) with (pz p' (j + a)) by (rewrite Htr; f_equal; lia).
      rewrite pz_out by (rewrite Hlen; fold n; lia). lra.
    - intros j Hj. unfold h. rewrite pz_out by (fold n; lia). lra.
  Qed.

  Lemma Cz_out (q : list R) k : (k < 0 \/ 2 * Z.of_nat (length q) - 1 <= k)%Z -> Cz q k = 0.
  Proof.
    intros H. unfold Cz. apply zs_zero. intros i Hi.
    rewrite (pz_out q (k - i)) by lia. lra.
  Qed.

  Lemma first_nonzero (q : list R) : (exists i, pz q i <> 0) ->
    exists i0, (0 <= i0 < Z.of_nat (length q))%Z /\ pz q i0 <> 0 /\ forall j, (j < i0)%Z -> pz q j = 0.
  Proof.
    induction q as [|x t IH]; intros [i Hi].
    - exfalso. apply Hi. apply pz_out. cbn [length]. lia.
    - destruct (Req_EM_T x 0) as [Hx|Hx].
      + destruct IH as [i0 [R0 [N0 Z0]]].
        { assert (0 <= i)%Z by (destruct (Z_lt_ge_dec i 0); [exfalso; apply Hi; apply pz_out; lia|lia]).
          destruct (Z.eq_dec i 0) as [->|Hne]; [exfalso; apply Hi; rewrite pz_cons0; exact Hx|].
          exists (i - 1)%Z. rewrite <- pz_cons with (x:=x) by lia. exact Hi. }
        exists (i0 + 1)%Z. split; [cbn [length]; lia|]. split.
        * rewrite pz_cons by lia. replace (i0 + 1 - 1)%Z with i0 by lia. exact N0.
        * intros j Hj. destruct (Z_lt_ge_dec j 0); [apply pz_out; lia|].
          destruct (Z.eq_dec j 0) as [->|Hne]; [rewrite pz_cons0; exact Hx|].
          rewrite pz_cons by lia. apply Z0. lia.
      + exists 0%Z. split; [cbn [length]; lia|]. split; [rewrite pz_cons0; exact Hx|].
        intros j Hj. apply pz_out. lia.
  Qed.

  (* the autoconvolution of a non-zero profile is positive somewhere *)
  Lemma Cz_positive (q : list R) : (exists i, pz q i <> 0) -> exists k, 0 < Cz q k.
  Proof.
    intros H. destruct (first_nonzero q H) as [i0 [R0 [N0 Z0]]].
    exists (2 * i0)%Z. unfold Cz.
    set (n := length q) in *.
    replace n with (Z.to_nat i0 + (1 + (n - Z.to_nat i0 - 1)))%nat by lia.
    rewrite !zs_split.
    rewrite (zs_zero _ 0 (Z.to_nat i0)) by (intros j Hj; rewrite (Z0 j) by lia; lra).
    rewrite (zs_zero _ (0 + Z.of_nat (Z.to_nat i0) + Z.of_nat 1)) by (intros j Hj; rewrite (Z0 (2 * i0 - j)%Z) by lia; lra).
    cbn [zs]. replace (0 + Z.of_nat (Z.to_nat i0))%Z with i0 by lia.
    replace (2 * i0 - i0)%Z with i0 by lia.
    pose proof (sq_nonneg (pz q i0)) as Q.
    assert (pz q i0 * pz q i0 <> 0) by (intros E; apply sq_zero in E; contradiction). lra.
  Qed.

  (* convolution method, one axis, any profile that is not identically zero *)
  Theorem conv_shift_1d : (exists i, pz p i <> 0) -> conv_axisR p' = conv_axisR p + IZR a.
  Proof.
    intros Hnz. set (n := length p) in *.
    assert (E : Z.of_nat (argmaxR (autoconvR p')) = (Z.of_nat (argmaxR (autoconvR p)) + 2 * a)%Z).
    { apply (argmax_shift (autoconvR p) (autoconvR p') (Cz p) (2 * a) (2 * n - 1)).
      - unfold autoconvR, autoconv. rewrite map_length, seq_length. reflexivity.
      - unfold autoconvR, autoconv. rewrite map_length, seq_length, Hlen. reflexivity.
      - intros j Hj. apply nth_autoconv. exact Hj.
      - intros j Hj. rewrite nth_autoconv by (rewrite Hlen; exact Hj). apply Cz_translated.
      - intros k Hk. apply Cz_out. fold n. lia.
      - intros k Hk. replace k with (k + 2 * a - 2 * a)%Z by lia. rewrite <- Cz_translated.
        apply Cz_out. rewrite Hlen. fold n. lia.
      - apply Cz_positive. exact Hnz. }
    unfold conv_axisR, conv_axis. fold (autoconvR p') (autoconvR p).
    fold (argmaxR (autoconvR p')) (argmaxR (autoconvR p)).
    rewrite !INR_IZR_INZ, E. rewrite plus_IZR, mult_IZR. cbn [INR Z.of_nat]. 
    replace (IZR (Z.pos (Pos.of_succ_nat 1))) with 2 by (cbn; lra). lra.
  Qed.
End Shift1.

(* ---- images: any image whose projections are not identically zero --------------------- *)
Theorem conv_shift n m (IM IM' : imgR) a b :
  wf n m IM -> wf n m IM' -> (0 < n)%nat -> translated IM IM' a b ->
  (exists i, pz (proj0R IM) i <> 0) -> (exists j, pz (proj1R IM) j <> 0) ->
  find_originR Convolution IM' true true =
  (fst (find_originR Convolution IM true true) + IZR a, snd (find_originR Convolution IM true true) + IZR b).
Proof.
  intros Hwf Hwf' Hn Htr H0 H1. unfold find_originR, find_origin. cbn [fst snd].
  fold (proj0R IM') (proj0R IM) (proj1R IM') (proj1R IM). fold conv_axisR. f_equal.
  - apply conv_shift_1d.
    + rewrite (length_proj0 n m IM' Hwf'), (length_proj0 n m IM Hwf). reflexivity.
    + apply (proj0_translated n m IM Hwf Hn IM' a b Hwf' Htr).
    + exact H0.
  - apply conv_shift_1d.
    + rewrite (length_proj1 n m IM' Hwf' Hn), (length_proj1 n m IM Hwf Hn). reflexivity.
    + apply (proj1_translated n m IM Hwf Hn IM' a b Hwf' Htr).
    + exact H1.
Qed.

(* total intensity non-zero is enough for both projections *)
Lemma total_projections n m (IM : imgR) : wf n m IM -> (0 < n)%nat -> total IM <> 0 ->
  (exists i, pz (proj0R IM) i <> 0) /\ (exists j, pz (proj1R IM) j <> 0).
Proof.
  intros Hwf Hn Ht. split; apply nonzero_sum_witness; [exact Ht|].
  rewrite (total_proj1 n m IM Hwf Hn). exact Ht.
Qed.
