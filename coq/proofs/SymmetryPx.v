(* SymmetryPx.v — pixel-level characterisation of the quadrant model:
   what each oriented quadrant contains, and what put_quadrants assembles. *)
From Coq Require Import List Arith Lia Bool ZArith ZifyBool ZifyNat.
From PA Require Import base.Arr base.Px model.Symmetry.
Import ListNotations.

Ltac Zify.zify_post_hook ::= Z.to_euclidean_division_equations.
Set Implicit Arguments.

Section SymPx.
  Variable A : Type.
  Variable zero : A.
  Notation img := (list (list A)).
  Notation px := (px zero).

  Lemma ceil2_half n : ceil2 n + n / 2 = n.
  Proof. unfold ceil2. lia. Qed.
  Lemma ceil2_le n : ceil2 n <= n.
  Proof. unfold ceil2. lia. Qed.

  (* ---- masks ------------------------------------------------------- *)
  Lemma wf_immask n m b (X : img) : wf n m X -> wf n m (immask zero b X).
  Proof. intros H. destruct b; simpl; [exact H|]. apply wf_imap; exact H. Qed.

  Lemma px_immask n m b (X : img) i j : wf n m X -> i < n -> j < m ->
    px (immask zero b X) i j = if b then px X i j else zero.
  Proof.
    intros H Hi Hj. destruct b; simpl; [reflexivity|].
    unfold imzero. rewrite px_imap with (n:=n) (m:=m); [reflexivity|exact H|exact Hi|exact Hj].
  Qed.

  (* ---- the four oriented quadrants -------------------------------------- *)
  Section Quadrants.
    Variables n m : nat.
    Variable IM : img.
    Hypothesis HIM : wf n m IM.
    Let nc := ceil2 n.
    Let mc := ceil2 m.

    Definition Q0r (b : bool) : img := immask zero b (cols_last mc (rows_first nc IM)).
    Definition Q1r (b : bool) : img := fliplr (immask zero b (cols_first mc (rows_first nc IM))).
    Definition Q2r (b : bool) : img := fliplr (flipud (immask zero b (cols_first mc (rows_last nc IM)))).
    Definition Q3r (b : bool) : img := flipud (immask zero b (cols_last mc (rows_last nc IM))).

    Let Hnc : nc <= n := ceil2_le n.
    Let Hmc : mc <= m := ceil2_le m.

    Lemma wf_top : wf nc m (rows_first nc IM).
    Proof. eapply wf_rows_first; [exact HIM|exact Hnc|reflexivity]. Qed.
    Lemma wf_bot : wf nc m (rows_last nc IM).
    Proof. eapply wf_rows_last; [exact HIM|exact Hnc|reflexivity]. Qed.

    Lemma wf_Q0r b : wf nc mc (Q0r b).
    Proof. apply wf_immask. eapply wf_cols_last; [exact wf_top|exact Hmc|reflexivity]. Qed.
    Lemma wf_Q1r b : wf nc mc (Q1r b).
    Proof. apply wf_fliplr, wf_immask. eapply wf_cols_first; [exact wf_top|exact Hmc|reflexivity]. Qed.
    Lemma wf_Q2r b : wf nc mc (Q2r b).
    Proof. apply wf_fliplr, wf_flipud, wf_immask. eapply wf_cols_first; [exact wf_bot|exact Hmc|reflexivity]. Qed.
    Lemma wf_Q3r b : wf nc mc (Q3r b).
    Proof. apply wf_flipud, wf_immask. eapply wf_cols_last; [exact wf_bot|exact Hmc|reflexivity]. Qed.

    Lemma wf_c0 : wf nc mc (cols_last mc (rows_first nc IM)).
    Proof. eapply wf_cols_last; [exact wf_top|exact Hmc|reflexivity]. Qed.
    Lemma wf_c1 : wf nc mc (cols_first mc (rows_first nc IM)).
    Proof. eapply wf_cols_first; [exact wf_top|exact Hmc|reflexivity]. Qed.
    Lemma wf_c2 : wf nc mc (cols_first mc (rows_last nc IM)).
    Proof. eapply wf_cols_first; [exact wf_bot|exact Hmc|reflexivity]. Qed.
    Lemma wf_c3 : wf nc mc (cols_last mc (rows_last nc IM)).
    Proof. eapply wf_cols_last; [exact wf_bot|exact Hmc|reflexivity]. Qed.

    Lemma px_Q0r b i j : i < nc -> j < mc ->
      px (Q0r b) i j = if b then px IM i (m - mc + j) else zero.
    Proof.
      intros Hi Hj. unfold Q0r.
      rewrite px_immask with (n:=nc) (m:=mc); [|exact wf_c0|exact Hi|exact Hj].
      destruct b; [|reflexivity].
      rewrite px_cols_last with (n:=nc) (m:=m); [|exact wf_top|exact Hi|exact Hmc].
      rewrite px_rows_first with (n:=n) (m:=m); [reflexivity|exact HIM|exact Hi].
    Qed.

    Lemma px_Q1r b i j : i < nc -> j < mc ->
      px (Q1r b) i j = if b then px IM i (mc - 1 - j) else zero.
    Proof.
      intros Hi Hj. unfold Q1r.
      rewrite px_fliplr with (n:=nc) (m:=mc); [|apply wf_immask; exact wf_c1|exact Hi|exact Hj].
      rewrite px_immask with (n:=nc) (m:=mc); [|exact wf_c1|exact Hi|lia].
      destruct b; [|reflexivity].
      rewrite px_cols_first with (n:=nc) (m:=m); [|exact wf_top|exact Hi|lia].
      rewrite px_rows_first with (n:=n) (m:=m); [reflexivity|exact HIM|exact Hi].
    Qed.

    Lemma px_Q2r b i j : i < nc -> j < mc ->
      px (Q2r b) i j = if b then px IM (n - 1 - i) (mc - 1 - j) else zero.
    Proof.
      intros Hi Hj. unfold Q2r.
      rewrite px_fliplr with (n:=nc) (m:=mc);
        [|apply wf_flipud, wf_immask; exact wf_c2|exact Hi|exact Hj].
      rewrite px_flipud with (n:=nc) (m:=mc); [|apply wf_immask; exact wf_c2|exact Hi].
      rewrite px_immask with (n:=nc) (m:=mc); [|exact wf_c2|lia|lia].
      destruct b; [|reflexivity].
      rewrite px_cols_first with (n:=nc) (m:=m); [|exact wf_bot|lia|lia].
      rewrite px_rows_last with (n:=n) (m:=m); [|exact HIM|exact Hnc].
      f_equal. lia.
    Qed.

    Lemma px_Q3r b i j : i < nc -> j < mc ->
      px (Q3r b) i j = if b then px IM (n - 1 - i) (m - mc + j) else zero.
    Proof.
      intros Hi Hj. unfold Q3r.
      rewrite px_flipud with (n:=nc) (m:=mc); [|apply wf_immask; exact wf_c3|exact Hi].
      rewrite px_immask with (n:=nc) (m:=mc); [|exact wf_c3|lia|lia].
      destruct b; [|reflexivity].
      rewrite px_cols_last with (n:=nc) (m:=m); [|exact wf_bot|lia|exact Hmc].
      rewrite px_rows_last with (n:=n) (m:=m); [|exact HIM|exact Hnc].
      f_equal. lia.
    Qed.
  End Quadrants.

  (* ---- reassembly ---------------------------------------------------- *)
  Section Put.
    Variables n m : nat.
    Let nc := ceil2 n.
    Let mc := ceil2 m.
    Variables Q0 Q1 Q2 Q3 : img.
    Hypothesis H0 : wf nc mc Q0.
    Hypothesis H1 : wf nc mc Q1.
    Hypothesis H2 : wf nc mc Q2.
    Hypothesis H3 : wf nc mc Q3.

    Definition put_plain : img := put_quadrants (Q0, Q1, Q2, Q3) n m ax_None.

    (* unfolded form of put for symmetry_axis = None *)
    Definition trim_r (X : img) := if Nat.eqb (n mod 2) 1 then rows_droplast 1 X else X.
    Definition trim_c (X : img) := if Nat.eqb (m mod 2) 1 then cols_dropfirst 1 X else X.

    Lemma put_plain_eq :
      put_plain = vcat (hcat (fliplr (trim_c (trim_r Q1))) (trim_r Q0))
                       (flipud (hcat (fliplr (trim_c Q2)) Q3)).
    Proof.
      unfold put_plain, put_quadrants, trim_r, trim_c.
      cbv beta iota zeta delta [ax_has ax_None ax_elems existsb oz_eqb orb].
      destruct (Nat.eqb (n mod 2) 1), (Nat.eqb (m mod 2) 1); reflexivity.
    Qed.

    Lemma wf_trim_r X : wf nc mc X -> wf (n / 2) mc (trim_r X).
    Proof.
      intros H. unfold trim_r. destruct (Nat.eqb_spec (n mod 2) 1) as [E|E].
      - eapply wf_rows_droplast; [exact H|]. unfold nc, ceil2. lia.
      - replace (n / 2) with nc; [exact H|]. unfold nc, ceil2. lia.
    Qed.

    Lemma wf_trim_c k X : wf k mc X -> wf k (m / 2) (trim_c X).
    Proof.
      intros H. unfold trim_c. destruct (Nat.eqb_spec (m mod 2) 1) as [E|E].
      - eapply wf_cols_dropfirst; [exact H|]. unfold mc, ceil2. lia.
      - replace (m / 2) with mc; [exact H|]. unfold mc, ceil2. lia.
    Qed.

    Lemma px_trim_r X i j : wf nc mc X -> i < n / 2 -> px (trim_r X) i j = px X i j.
    Proof.
      intros H Hi. unfold trim_r. destruct (Nat.eqb_spec (n mod 2) 1) as [E|E]; [|reflexivity].
      rewrite px_rows_droplast with (n:=nc) (m:=mc); [reflexivity|exact H|]. unfold nc, ceil2. lia.
    Qed.

    Lemma px_trim_c k X i j : wf k mc X -> i < k -> px (trim_c X) i j = px X i (m mod 2 + j).
    Proof.
      intros H Hi. unfold trim_c. destruct (Nat.eqb_spec (m mod 2) 1) as [E|E].
      - rewrite E. rewrite px_cols_dropfirst with (n:=k) (m:=mc); [reflexivity|exact H|exact Hi].
      - replace (m mod 2) with 0 by lia. reflexivity.
    Qed.

    Lemma wf_put_plain : wf n m put_plain.
    Proof.
      rewrite put_plain_eq.
      eapply wf_vcat with (n1 := n / 2) (n2 := nc).
      - eapply wf_hcat with (m1 := m / 2) (m2 := mc).
        + apply wf_fliplr, wf_trim_c, wf_trim_r, H1.
        + apply wf_trim_r, H0.
        + pose proof (ceil2_half m). unfold mc. lia.
      - apply wf_flipud. eapply wf_hcat with (m1 := m / 2) (m2 := mc).
        + apply wf_fliplr, wf_trim_c, H2.
        + exact H3.
        + pose proof (ceil2_half m). unfold mc. lia.
      - pose proof (ceil2_half n). unfold nc. lia.
    Qed.

    (* The assembled image, pixel by pixel.  Where quadrants overlap (odd
       sizes) the central column j = m/2 is column 0 of the right-hand
       quadrants Q0/Q3 and the central row i = n/2 is the last row of the lower
       quadrants Q2/Q3. *)
    Lemma px_put_plain i j : i < n -> j < m ->
      px put_plain i j =
        if i <? n / 2
        then (if j <? m / 2 then px Q1 i (mc - 1 - j) else px Q0 i (j - m / 2))
        else (if j <? m / 2 then px Q2 (n - 1 - i) (mc - 1 - j) else px Q3 (n - 1 - i) (j - m / 2)).
    Proof.
      intros Hi Hj. rewrite put_plain_eq.
      pose proof (ceil2_half n) as En. pose proof (ceil2_half m) as Em.
      fold nc in En. fold mc in Em.
      assert (WT1 : wf (n / 2) (m / 2) (fliplr (trim_c (trim_r Q1))))
        by (apply wf_fliplr, wf_trim_c, wf_trim_r, H1).
      assert (WT0 : wf (n / 2) mc (trim_r Q0)) by (apply wf_trim_r, H0).
      assert (WB2 : wf nc (m / 2) (fliplr (trim_c Q2))) by (apply wf_fliplr, wf_trim_c, H2).
      assert (WTop : wf (n / 2) m (hcat (fliplr (trim_c (trim_r Q1))) (trim_r Q0)))
        by (eapply wf_hcat; [exact WT1|exact WT0|lia]).
      assert (WBot : wf nc m (hcat (fliplr (trim_c Q2)) Q3))
        by (eapply wf_hcat; [exact WB2|exact H3|lia]).
      rewrite px_vcat with (n1:=n / 2) (m:=m); [|exact WTop].
      destruct (Nat.ltb_spec i (n / 2)) as [Hi'|Hi'].
      - rewrite px_hcat with (n:=n / 2) (m1:=m / 2) (m2:=mc); [|exact WT1|exact WT0|exact Hi'].
        destruct (Nat.ltb_spec j (m / 2)) as [Hj'|Hj'].
        + rewrite px_fliplr with (n:=n / 2) (m:=m / 2);
            [|apply wf_trim_c, wf_trim_r, H1|exact Hi'|exact Hj'].
          rewrite px_trim_c with (k:=n / 2); [|apply wf_trim_r, H1|exact Hi'].
          rewrite px_trim_r; [|exact H1|exact Hi']. f_equal. unfold mc, ceil2. lia.
        + rewrite px_trim_r; [reflexivity|exact H0|exact Hi'].
      - assert (Hi2 : i - n / 2 < nc) by lia.
        rewrite px_flipud with (n:=nc) (m:=m); [|exact WBot|exact Hi2].
        assert (Hi3 : nc - 1 - (i - n / 2) < nc) by lia.
        rewrite px_hcat with (n:=nc) (m1:=m / 2) (m2:=mc); [|exact WB2|exact H3|exact Hi3].
        replace (nc - 1 - (i - n / 2)) with (n - 1 - i) in * by lia.
        destruct (Nat.ltb_spec j (m / 2)) as [Hj'|Hj'].
        + rewrite px_fliplr with (n:=nc) (m:=m / 2); [|apply wf_trim_c, H2|exact Hi3|exact Hj'].
          rewrite px_trim_c with (k:=nc); [|exact H2|exact Hi3]. f_equal. unfold mc, ceil2. lia.
        + reflexivity.
    Qed.
  End Put.
End SymPx.
