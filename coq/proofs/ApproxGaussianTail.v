(* ApproxGaussianTail.v — outside the outermost nodes the approximation is 0
   and the Gaussian is below its value at the node. *)
From Coq Require Import Reals Lra Psatz.
Open Scope R_scope.

Lemma gauss_tail : forall xN x, 0 <= xN <= Rabs x -> exp (- (x * x) / 2) <= exp (- (xN * xN) / 2).
Proof.
  intros xN x [H0 H1].
  assert (xN * xN <= x * x).
  { replace (x * x) with (Rabs x * Rabs x) by (unfold Rabs; destruct (Rcase_abs x); ring).
    apply Rmult_le_compat; lra. }
  destruct (Rle_lt_or_eq_dec _ _ H).
  - left. apply exp_increasing. lra.
  - right. f_equal. lra.
Qed.
