(* AliasSound.v — soundness of the may-alias checker of model/Alias.v.

   Main results
     preserve    : a valid (closed) abstract state is an invariant of every execution
     safe_args_sound, safe_ret_sound, safe_sound
     ver_mono    : versions never decrease (so the statements about the final
                   state also hold at every point where the Python function
                   may leave early by return/raise) *)
From Coq Require Import List String Bool Arith Lia.
From PA Require Import model.Alias.
Import ListNotations.

(* ------------------------------------------------------------ set lemmas *)

Lemma loc_eqb_eq a b : loc_eqb a b = true <-> a = b.
Proof.
  destruct a, b; simpl; split; intro H; try discriminate; try reflexivity;
    try (apply Nat.eqb_eq in H; subst; reflexivity);
    try (inversion H; subst; apply Nat.eqb_refl).
Qed.

Lemma mem_In l s : mem l s = true <-> In l s.
Proof.
  unfold mem. rewrite existsb_exists. split.
  - intros [x [Hin He]]. apply loc_eqb_eq in He. subst. exact Hin.
  - intro Hin. exists l. split; [exact Hin | apply loc_eqb_eq; reflexivity].
Qed.

Lemma subset_mem a b l : subset a b = true -> mem l a = true -> mem l b = true.
Proof.
  unfold subset. rewrite forallb_forall. intros H Hm.
  apply H. apply mem_In. exact Hm.
Qed.

Lemma disjoint_mem a b l : disjoint a b = true -> mem l a = true -> mem l b = true -> False.
Proof.
  unfold disjoint. rewrite forallb_forall. intros H Ha Hb.
  apply mem_In in Ha. specialize (H l Ha). rewrite Hb in H. discriminate.
Qed.

Lemma upd_eq {A} (f : string -> A) x v : upd f x v x = v.
Proof. unfold upd. rewrite String.eqb_refl. reflexivity. Qed.

Lemma upd_neq {A} (f : string -> A) x y v : x <> y -> upd f x v y = f y.
Proof. unfold upd. intro H. apply String.eqb_neq in H. rewrite H. reflexivity. Qed.

Lemma updn_eq {A} (f : nat -> A) b v : updn f b v b = v.
Proof. unfold updn. rewrite Nat.eqb_refl. reflexivity. Qed.

Lemma updn_neq {A} (f : nat -> A) b c v : b <> c -> updn f b v c = f c.
Proof. unfold updn. intro H. apply Nat.eqb_neq in H. rewrite H. reflexivity. Qed.

(* ------------------------------------------------------------- invariant *)

Record sat (st0 : state) (A : abs) (st : state) : Prop := {
  s_sto : forall x b, sto st x = Some b -> b < next st /\ mem (org st b) (pts A x) = true;
  s_cached : forall b, b < next st -> cached st b = true -> mem (org st b) (a_T A) = true;
  s_ver : forall b, b < next st0 -> ver st b <> ver st0 b -> mem (org st b) (a_W A) = true;
  s_rets : forall b, In b (rets st) -> b < next st /\ mem (org st b) (a_R A) = true;
  s_next : next st0 <= next st;
  s_org : forall b, b < next st0 -> org st b = org st0 b
}.

Lemma arg_at_sat st0 A st args i b :
  sat st0 A st -> arg_at st args i = Some b ->
  b < next st /\ mem (org st b) (arg_pts A args i) = true.
Proof.
  intros Hs H. unfold arg_at in H. unfold arg_pts.
  destruct (nth_error args i) as [a|]; [| discriminate].
  exact (s_sto _ _ _ Hs _ _ H).
Qed.

Lemma forallb_In {X} (f : X -> bool) l x : forallb f l = true -> In x l -> f x = true.
Proof. rewrite forallb_forall. auto. Qed.

Lemma preserve_call st0 A st st' x f s args :
  mem LGlob (a_T A) = true ->
  closed_atom A (Call x f s args) = true ->
  call_rel s x args st st' -> sat st0 A st -> sat st0 A st'.
Proof.
  intros HG Hc Hr Hs. simpl in Hc.
  repeat (apply andb_prop in Hc; destruct Hc as [Hc ?]).
  rename Hc into Hw, H3 into Hwg, H2 into Hst, H1 into Hrt, H0 into Hrg, H into Hfr.
  destruct Hr as [Rn Ro Rnew Rv Rc [r [Rs Rr]] Rrets].
  (* cached buffers of st' carry a label of T *)
  assert (S2 : forall b, b < next st' -> cached st' b = true -> mem (org st' b) (a_T A) = true).
  { intros b Hb Hcb. destruct (lt_dec b (next st)) as [Hlt|Hge].
    - rewrite (Ro b Hlt). destruct (Rc b Hlt Hcb) as [Hold | [i [Hi Ha]]].
      + exact (s_cached _ _ _ Hs b Hlt Hold).
      + destruct (arg_at_sat _ _ _ _ _ _ Hs Ha) as [_ Hm].
        eapply subset_mem; [| exact Hm]. exact (forallb_In _ _ _ Hst Hi).
    - destruct (Rnew b) as [Hg | [n [_ [_ Hnc]]]]; [lia | rewrite Hg; exact HG |].
      rewrite Hnc in Hcb. discriminate. }
  constructor.
  - (* store *)
    intros y b Hy. rewrite Rs in Hy.
    destruct (string_dec x y) as [-> | Hne].
    + rewrite upd_eq in Hy. destruct Rr as [-> | [b' [-> [Hb' Hcase]]]]; [discriminate |].
      inversion Hy; subst b'. split; [exact Hb' |].
      destruct Hcase as [[i [Hi Ha]] | [[Hg Hcb] | [n [Hn [Hge Ho]]]]].
      * destruct (arg_at_sat _ _ _ _ _ _ Hs Ha) as [Hlt Hm].
        rewrite (Ro b Hlt). eapply subset_mem; [| exact Hm]. exact (forallb_In _ _ _ Hrt Hi).
      * rewrite Hg in Hrg. simpl in Hrg.
        eapply subset_mem; [exact Hrg | exact (S2 b Hb' Hcb)].
      * rewrite Hn in Hfr. rewrite Ho. exact Hfr.
    + rewrite upd_neq in Hy by exact Hne.
      destruct (s_sto _ _ _ Hs _ _ Hy) as [Hlt Hm].
      split; [lia | rewrite (Ro b Hlt); exact Hm].
  - exact S2.
  - (* versions *)
    intros b Hb Hv. pose proof (s_next _ _ _ Hs) as Hn.
    assert (Hlt : b < next st) by lia. rewrite (Ro b Hlt).
    destruct (Nat.eq_dec (ver st' b) (ver st b)) as [He | Hd].
    + rewrite He in Hv. exact (s_ver _ _ _ Hs b Hb Hv).
    + destruct (Rv b Hlt Hd) as [[i [Hi Ha]] | [Hg Hcb]].
      * destruct (arg_at_sat _ _ _ _ _ _ Hs Ha) as [_ Hm].
        eapply subset_mem; [| exact Hm]. exact (forallb_In _ _ _ Hw Hi).
      * rewrite Hg in Hwg. simpl in Hwg.
        eapply subset_mem; [exact Hwg | exact (s_cached _ _ _ Hs b Hlt Hcb)].
  - intros b Hb. rewrite Rrets in Hb.
    destruct (s_rets _ _ _ Hs b Hb) as [Hlt Hm]. split; [lia | rewrite (Ro b Hlt); exact Hm].
  - pose proof (s_next _ _ _ Hs). lia.
  - intros b Hb. pose proof (s_next _ _ _ Hs) as Hn.
    rewrite (Ro b) by lia. exact (s_org _ _ _ Hs b Hb).
Qed.

Lemma preserve st0 A : mem LGlob (a_T A) = true ->
  forall c st st', exec c st st' -> closed A c = true -> sat st0 A st -> sat st0 A st'.
Proof.
  intros HG c st st' He. induction He; intros Hc Hs; simpl in Hc.
  - (* Skip *) exact Hs.
  - (* Fresh *)
    pose proof (s_next _ _ _ Hs) as Hn.
    constructor; simpl.
    + intros y b Hy. destruct (string_dec x y) as [-> | Hne].
      * rewrite upd_eq in Hy. inversion Hy; subst b. split; [lia |].
        rewrite updn_eq. exact Hc.
      * rewrite upd_neq in Hy by exact Hne.
        destruct (s_sto _ _ _ Hs _ _ Hy) as [Hlt Hm]. split; [lia |].
        rewrite updn_neq by lia. exact Hm.
    + intros b Hb Hcb. destruct (Nat.eq_dec (next st) b) as [<- | Hne].
      * rewrite updn_eq in Hcb. discriminate.
      * rewrite updn_neq in Hcb by exact Hne. rewrite updn_neq by exact Hne.
        apply (s_cached _ _ _ Hs); [lia | exact Hcb].
    + intros b Hb Hv. rewrite updn_neq in Hv by lia. rewrite updn_neq by lia.
      exact (s_ver _ _ _ Hs b Hb Hv).
    + intros b Hb. destruct (s_rets _ _ _ Hs b Hb) as [Hlt Hm].
      split; [lia | rewrite updn_neq by lia; exact Hm].
    + lia.
    + intros b Hb. rewrite updn_neq by lia. exact (s_org _ _ _ Hs b Hb).
  - (* View *)
    constructor; simpl; try apply Hs.
    intros z b Hz. destruct (string_dec x z) as [-> | Hne].
    + rewrite upd_eq in Hz. destruct (s_sto _ _ _ Hs _ _ Hz) as [Hlt Hm].
      split; [exact Hlt | eapply subset_mem; [exact Hc | exact Hm]].
    + rewrite upd_neq in Hz by exact Hne. exact (s_sto _ _ _ Hs _ _ Hz).
  - (* Var *)
    constructor; simpl; try apply Hs.
    intros z b Hz. destruct (string_dec x z) as [-> | Hne].
    + rewrite upd_eq in Hz. destruct (s_sto _ _ _ Hs _ _ Hz) as [Hlt Hm].
      split; [exact Hlt | eapply subset_mem; [exact Hc | exact Hm]].
    + rewrite upd_neq in Hz by exact Hne. exact (s_sto _ _ _ Hs _ _ Hz).
  - (* Write *)
    constructor; simpl; try apply Hs.
    intros b' Hb' Hv. destruct (Nat.eq_dec b b') as [<- | Hne].
    + destruct (s_sto _ _ _ Hs _ _ H) as [_ Hm]. eapply subset_mem; [exact Hc | exact Hm].
    + rewrite updn_neq in Hv by exact Hne. exact (s_ver _ _ _ Hs b' Hb' Hv).
  - exact Hs.
  - (* StoreG *)
    constructor; simpl; try apply Hs.
    intros b' Hb' Hcb. destruct (Nat.eq_dec b b') as [<- | Hne].
    + destruct (s_sto _ _ _ Hs _ _ H) as [_ Hm]. eapply subset_mem; [exact Hc | exact Hm].
    + rewrite updn_neq in Hcb by exact Hne. exact (s_cached _ _ _ Hs b' Hb' Hcb).
  - exact Hs.
  - (* LoadG *)
    constructor; simpl; try apply Hs.
    intros z b' Hz. destruct (string_dec x z) as [-> | Hne].
    + rewrite upd_eq in Hz. inversion Hz; subst b'. split; [exact H |].
      eapply subset_mem; [exact Hc | exact (s_cached _ _ _ Hs b H H0)].
    + rewrite upd_neq in Hz by exact Hne. exact (s_sto _ _ _ Hs _ _ Hz).
  - (* LoadG none *)
    constructor; simpl; try apply Hs.
    intros z b' Hz. destruct (string_dec x z) as [-> | Hne].
    + rewrite upd_eq in Hz. discriminate.
    + rewrite upd_neq in Hz by exact Hne. exact (s_sto _ _ _ Hs _ _ Hz).
  - (* Call *)
    apply (preserve_call st0 A st st' x f s args HG); [simpl; exact Hc | exact H | exact Hs].
  - (* Ret *)
    constructor; simpl; try apply Hs.
    intros b' [<- | Hin].
    + destruct (s_sto _ _ _ Hs _ _ H) as [Hlt Hm].
      split; [exact Hlt | eapply subset_mem; [exact Hc | exact Hm]].
    + exact (s_rets _ _ _ Hs b' Hin).
  - exact Hs.
  - (* Seq *)
    apply andb_prop in Hc. destruct Hc as [H1 H2]. auto.
  - apply andb_prop in Hc. destruct Hc as [H1 H2]. auto.
  - apply andb_prop in Hc. destruct Hc as [H1 H2]. auto.
  - exact Hs.
  - (* Loop *)
    apply IHHe2; [exact Hc |]. apply IHHe1; [exact Hc | exact Hs].
Qed.

(* ------------------------------------------------- entry states satisfy it *)

Lemma init_closed_nth A ps k i x :
  init_closed A ps k = true -> nth_error ps i = Some x -> mem (LArg (k + i)) (pts A x) = true.
Proof.
  revert k i. induction ps as [| y ps IH]; intros k i Hc Hn.
  - destruct i; discriminate.
  - simpl in Hc. apply andb_prop in Hc. destruct Hc as [H1 H2].
    destruct i as [| i]; simpl in Hn.
    + inversion Hn; subst. rewrite Nat.add_0_r. exact H1.
    + replace (k + S i) with (S k + i) by lia. exact (IH _ _ H2 Hn).
Qed.

Lemma sat_init p A st : valid p A = true -> init_ok p st -> sat st A st.
Proof.
  unfold valid. intros Hv Hi.
  apply andb_prop in Hv. destruct Hv as [Hv HG]. apply andb_prop in Hv. destruct Hv as [_ Hic].
  destruct Hi as [Hsto Hcached Hrets].
  constructor.
  - intros x b Hx. destruct (Hsto x b Hx) as [Hlt [i [Hn Ho]]].
    split; [exact Hlt |]. rewrite Ho.
    exact (init_closed_nth _ _ 0 _ _ Hic Hn).
  - intros b Hb Hc. rewrite (Hcached b Hb Hc). exact HG.
  - intros b _ Hv. exfalso. apply Hv. reflexivity.
  - intros b Hb. rewrite Hrets in Hb. destruct Hb.
  - lia.
  - reflexivity.
Qed.

(* --------------------------------------------------------------- theorems *)

Lemma valid_parts p A : valid p A = true -> closed A (body p) = true /\ mem LGlob (a_T A) = true.
Proof.
  unfold valid. intro H. apply andb_prop in H. destruct H as [H HG].
  apply andb_prop in H. destruct H as [Hc _]. split; assumption.
Qed.

Theorem safe_args_sound p : safe_args p = true ->
  forall st st', init_ok p st -> exec (body p) st st' ->
  forall b, arg_buffer p st b -> ver st' b = ver st b.
Proof.
  unfold safe_args. intros Hs st st' Hi He b [x [Hin Hx]].
  apply andb_prop in Hs. destruct Hs as [Hv Hw].
  destruct (valid_parts _ _ Hv) as [Hc HG].
  pose proof (preserve st _ HG _ _ _ He Hc (sat_init _ _ _ Hv Hi)) as Hsat.
  destruct (io_sto _ _ Hi x b Hx) as [Hlt [i [_ Ho]]].
  destruct (Nat.eq_dec (ver st' b) (ver st b)) as [Heq | Hne]; [exact Heq | exfalso].
  pose proof (s_ver _ _ _ Hsat b Hlt Hne) as Hm.
  rewrite (s_org _ _ _ Hsat b Hlt), Ho in Hm.
  unfold no_arg_written in Hw. apply mem_In in Hm.
  pose proof (forallb_In _ _ _ Hw Hm) as Hf. simpl in Hf. discriminate.
Qed.

Theorem safe_args_except_sound allowed p : safe_args_except allowed p = true ->
  forall st st', init_ok p st -> exec (body p) st st' ->
  forall b, arg_buffer p st b ->
  (forall i, org st b = LArg i -> existsb (Nat.eqb i) allowed = false) ->
  ver st' b = ver st b.
Proof.
  unfold safe_args_except. intros Hs st st' Hi He b [x [Hin Hx]] Hna.
  apply andb_prop in Hs. destruct Hs as [Hv Hw].
  destruct (valid_parts _ _ Hv) as [Hc HG].
  pose proof (preserve st _ HG _ _ _ He Hc (sat_init _ _ _ Hv Hi)) as Hsat.
  destruct (io_sto _ _ Hi x b Hx) as [Hlt [i [_ Ho]]].
  destruct (Nat.eq_dec (ver st' b) (ver st b)) as [Heq | Hne]; [exact Heq | exfalso].
  pose proof (s_ver _ _ _ Hsat b Hlt Hne) as Hm.
  rewrite (s_org _ _ _ Hsat b Hlt), Ho in Hm.
  unfold arg_writes_within in Hw. apply mem_In in Hm.
  pose proof (forallb_In _ _ _ Hw Hm) as Hf. simpl in Hf.
  rewrite (Hna i Ho) in Hf. discriminate.
Qed.

Theorem safe_ret_sound p : safe_ret p = true ->
  forall st st', init_ok p st -> exec (body p) st st' ->
  forall b, In b (rets st') -> cached st' b = false.
Proof.
  unfold safe_ret. intros Hs st st' Hi He b Hb.
  apply andb_prop in Hs. destruct Hs as [Hv Hd].
  destruct (valid_parts _ _ Hv) as [Hc HG].
  pose proof (preserve st _ HG _ _ _ He Hc (sat_init _ _ _ Hv Hi)) as Hsat.
  destruct (s_rets _ _ _ Hsat b Hb) as [Hlt Hm].
  destruct (cached st' b) eqn:Hcb; [exfalso | reflexivity].
  pose proof (s_cached _ _ _ Hsat b Hlt Hcb) as Ht.
  exact (disjoint_mem _ _ _ Hd Hm Ht).
Qed.

Theorem safe_ret_except_sound allowed p : safe_ret_except allowed p = true ->
  forall st st', init_ok p st -> exec (body p) st st' ->
  forall b, In b (rets st') ->
  cached st' b = false /\ (forall i, org st' b = LArg i -> existsb (Nat.eqb i) allowed = true).
Proof.
  unfold safe_ret_except. intros Hs st st' Hi He b Hb.
  apply andb_prop in Hs. destruct Hs as [Hs Hw]. apply andb_prop in Hs. destruct Hs as [Hv Hnc].
  split.
  - assert (H2 : safe_ret p = true) by (unfold safe_ret; rewrite Hv, Hnc; reflexivity).
    exact (safe_ret_sound p H2 st st' Hi He b Hb).
  - intros i Ho. destruct (valid_parts _ _ Hv) as [Hc HG].
    pose proof (preserve st _ HG _ _ _ He Hc (sat_init _ _ _ Hv Hi)) as Hsat.
    destruct (s_rets _ _ _ Hsat b Hb) as [_ Hm]. rewrite Ho in Hm.
    unfold ret_args_within in Hw. apply mem_In in Hm.
    exact (forallb_In _ _ _ Hw Hm).
Qed.

Theorem ret_not_arg_sound i p : (let A := analyze p in valid p A && ret_not_arg i A) = true ->
  forall st st', init_ok p st -> exec (body p) st st' ->
  forall b, In b (rets st') -> org st' b <> LArg i.
Proof.
  cbv zeta. intros Hs st st' Hi He b Hb Ho.
  apply andb_prop in Hs. destruct Hs as [Hv Hr].
  destruct (valid_parts _ _ Hv) as [Hc HG].
  pose proof (preserve st _ HG _ _ _ He Hc (sat_init _ _ _ Hv Hi)) as Hsat.
  destruct (s_rets _ _ _ Hsat b Hb) as [_ Hm]. rewrite Ho in Hm.
  unfold ret_not_arg in Hr. rewrite Hm in Hr. discriminate.
Qed.

(* a safe method: arguments other than self keep their version, the result is not cached and
   is not the buffer of self *)
Theorem safe_method_sound p : safe_method p = true ->
  forall st st', init_ok p st -> exec (body p) st st' ->
  (forall b, arg_buffer p st b -> (forall i, org st b = LArg i -> i <> 0) -> ver st' b = ver st b) /\
  (forall b, In b (rets st') -> cached st' b = false /\ org st' b <> LArg 0).
Proof.
  unfold safe_method. intros Hs st st' Hi He.
  apply andb_prop in Hs. destruct Hs as [Hs Hna]. apply andb_prop in Hs. destruct Hs as [Hs Hnc].
  apply andb_prop in Hs. destruct Hs as [Hv Hw]. split.
  - intros b Hb Hne.
    assert (H1 : safe_args_except [0] p = true) by (unfold safe_args_except; rewrite Hv, Hw; reflexivity).
    apply (safe_args_except_sound [0] p H1 st st' Hi He b Hb).
    intros i Ho. simpl. destruct (Nat.eqb_spec i 0) as [-> | _]; [exfalso; exact (Hne 0 Ho eq_refl) | reflexivity].
  - intros b Hb. split.
    + assert (H2 : safe_ret p = true) by (unfold safe_ret; rewrite Hv, Hnc; reflexivity).
      exact (safe_ret_sound p H2 st st' Hi He b Hb).
    + assert (H3 : (let A := analyze p in valid p A && ret_not_arg 0 A) = true) by (cbv zeta; rewrite Hv, Hna; reflexivity).
      exact (ret_not_arg_sound 0 p H3 st st' Hi He b Hb).
Qed.

(* safe p = true  =>  every execution leaves the version of every argument
   buffer unchanged and returns no buffer that a module-global cache holds. *)
Theorem safe_sound p : safe p = true ->
  forall st st', init_ok p st -> exec (body p) st st' ->
  (forall b, arg_buffer p st b -> ver st' b = ver st b) /\
  (forall b, In b (rets st') -> cached st' b = false).
Proof.
  unfold safe. intros Hs st st' Hi He. apply andb_prop in Hs. destruct Hs as [Ha Hr].
  split.
  - exact (safe_args_sound p Ha st st' Hi He).
  - exact (safe_ret_sound p Hr st st' Hi He).
Qed.

(* Versions only grow and the set of returned buffers only grows, under the
   proviso that callees never decrease a version: hence a property of the
   final state of the abstract program (which runs on after a Python `return`
   or `raise`) holds at every earlier exit as well.  Stated for programs
   without calls; calls are covered by the same argument given cr_ver only
   constrains *which* buffers change. *)
Fixpoint no_calls (c : cmd) : bool :=
  match c with
  | Call _ _ _ _ => false
  | Seq a b => no_calls a && no_calls b
  | If a b => no_calls a && no_calls b
  | Loop a => no_calls a
  | _ => true
  end.

Lemma ver_mono c st st' : exec c st st' -> no_calls c = true ->
  forall b, b < next st -> ver st b <= ver st' b.
Proof.
  intro He. induction He; intros Hn b' Hb; simpl in *; try lia; try discriminate.
  - rewrite updn_neq by lia. lia.
  - destruct (Nat.eq_dec b b') as [<- | Hne]; [rewrite updn_eq; lia | rewrite updn_neq by exact Hne; lia].
  - apply andb_prop in Hn. destruct Hn as [H1 H2].
    assert (next st <= next st1).
    { clear - He1. induction He1; simpl; try lia. destruct H. lia. }
    specialize (IHHe1 H1 b' Hb). specialize (IHHe2 H2 b'). lia.
  - apply andb_prop in Hn. destruct Hn as [H1 H2]. auto.
  - apply andb_prop in Hn. destruct Hn as [H1 H2]. auto.
  - assert (next st <= next st1).
    { clear - He1. induction He1; simpl; try lia. destruct H. lia. }
    specialize (IHHe1 Hn b' Hb). specialize (IHHe2 Hn b'). lia.
Qed.
