(* OriginRound.v — the option values of the origin finders: round_output
   (Python round(): nearest integer, ties to even) over R, and what
   find_origin_opt returns with it. *)
From Coq Require Import List Arith Lia Bool ZArith Reals Lra ZifyBool ZifyNat.
From PA Require Import base.Arr model.Origin proofs.OriginSums proofs.OriginProofs proofs.OriginConv
  proofs.OriginImage proofs.OriginTop.
Import ListNotations.

Local Open Scope R_scope.

(* Python round() on the reals *)
Definition Rround (x : R) : R :=
  let f := Int_part x in
  let r := frac_part x in
  if Rlt_dec r (1 / 2) then IZR f
  else if Rlt_dec (1 / 2) r then IZR (f + 1)
  else if Z.even f then IZR f else IZR (f + 1).

Lemma Rround_near x : Rabs (Rround x - x) <= 1 / 2.
Proof.
  unfold Rround. pose proof (base_fp x) as [F0 F1].
  assert (E : x = IZR (Int_part x) + frac_part x) by (unfold frac_part; lra).
  set (f := Int_part x) in *. set (r := frac_part x) in *.
  apply Rabs_le.
  destruct (Rlt_dec r (1 / 2)); [lra|].
  destruct (Rlt_dec (1 / 2) r); [rewrite plus_IZR; lra|].
  destruct (Z.even f); [lra|rewrite plus_IZR; lra].
Qed.

Lemma Rround_is_int x : exists k : Z, Rround x = IZR k.
Proof.
  unfold Rround. destruct (Rlt_dec (frac_part x) (1 / 2)); [eexists; reflexivity|].
  destruct (Rlt_dec (1 / 2) (frac_part x)); [eexists; reflexivity|].
  destruct (Z.even (Int_part x)); eexists; reflexivity.
Qed.

Lemma Int_part_IZR k : Int_part (IZR k) = k.
Proof.
  unfold Int_part.
  assert (H : (k + 1)%Z = up (IZR k)) by (apply up_tech; [lra|rewrite plus_IZR; lra]).
  lia.
Qed.

Lemma Rround_int k : Rround (IZR k) = IZR k.
Proof.
  unfold Rround, frac_part. rewrite Int_part_IZR.
  destruct (Rlt_dec (IZR k - IZR k) (1 / 2)); [reflexivity|lra].
Qed.

Definition find_origin_optR := find_origin_opt 0 Rplus Rmult Rdiv INR Rltb Rround.

(* round_output=False (the default) changes nothing; the methods other than
   com ignore the option *)
Theorem round_output_off meth (IM : imgR) ax0 ax1 :
  find_origin_optR meth IM ax0 ax1 false = find_originR meth IM ax0 ax1.
Proof. destruct meth; reflexivity. Qed.

Theorem round_output_ignored meth (IM : imgR) ax0 ax1 r :
  meth <> Com -> find_origin_optR meth IM ax0 ax1 r = find_originR meth IM ax0 ax1.
Proof. destruct meth; intros H; try reflexivity. congruence. Qed.

(* com with round_output=True: both coordinates are integers within 1/2 of
   the unrounded centre of mass *)
Theorem com_round_near (IM : imgR) ax0 ax1 :
  let o := find_originR Com IM ax0 ax1 in
  let q := find_origin_optR Com IM ax0 ax1 true in
  Rabs (fst q - fst o) <= 1 / 2 /\ Rabs (snd q - snd o) <= 1 / 2 /\
  (exists k : Z, fst q = IZR k) /\ (exists k : Z, snd q = IZR k).
Proof.
  cbv zeta. unfold find_origin_optR, find_origin_opt. fold (find_originR Com IM ax0 ax1). cbn [fst snd].
  repeat split; try apply Rround_near; apply Rround_is_int.
Qed.

(* an image point-symmetric about a pixel centre (k0, k1): exactly that pixel *)
Theorem com_round_symmetric n m (IM : imgR) (k0 k1 : Z) :
  wf n m IM -> (0 < n)%nat -> psym IM (2 * k0) (2 * k1) -> total IM <> 0 ->
  find_origin_optR Com IM true true true = (IZR k0, IZR k1).
Proof.
  intros Hwf Hn Hs Ht. unfold find_origin_optR, find_origin_opt. fold (find_originR Com IM true true).
  rewrite (com_symmetric n m IM Hwf Hn _ _ Hs Ht). cbn [fst snd].
  replace (IZR (2 * k0) / 2) with (IZR k0) by (rewrite mult_IZR; lra).
  replace (IZR (2 * k1) / 2) with (IZR k1) by (rewrite mult_IZR; lra).
  rewrite !Rround_int. reflexivity.
Qed.

(* a coordinate that is not requested stays the image centre after rounding *)
Theorem com_round_default_centre (IM : imgR) ax0 ax1 :
  (ax0 = false -> fst (find_origin_optR Com IM ax0 ax1 true) = INR (nrows IM / 2)) /\
  (ax1 = false -> snd (find_origin_optR Com IM ax0 ax1 true) = INR (ncols IM / 2)).
Proof.
  split; intros ->; unfold find_origin_optR, find_origin_opt, find_origin; cbn [fst snd];
    rewrite INR_IZR_INZ; apply Rround_int.
Qed.
