(* PairsProfile4.v — profile 4: the published projection constants are rounded;
   exact closed form of the deviation, its bound, and a point where it exceeds 1e-6. *)
From Coq Require Import Reals List Arith Bool ZArith QArith Qreals Lia Lra Psatz.
From Coquelicot Require Import Coquelicot.
From PA Require Import model.Poly model.AbelPoly proofs.AbelPolyAlg proofs.AbelPolyInt proofs.PolyTop proofs.PolyPiecewise proofs.PairsClosed gen.FormulasPairs.
Import ListNotations.
Open Scope R_scope.

(* ---- profile 4: the published projection has rounded constants ---- *)
Definition p4c1 : list R := [1 / 10; 0; 551 / 100; - (21 / 4)].
Definition p4c2 : list R := [- (2037 / 50); 3889 / 25; - (18889 / 100); 7407 / 100].

Lemma prof4_src1 : forall r, 0 < r < 7 / 10 -> prof4_source r = pevalR p4c1 r.
Proof.
  intros. unfold prof4_source, prof4_brk. destruct (Rle_dec r (7 / 10)); [|lra].
  unfold prof4_source_l, pevalR, p4c1. cbn [peval]. ring.
Qed.
Lemma prof4_src2 : forall r, 7 / 10 < r < 1 -> prof4_source r = pevalR p4c2 r.
Proof.
  intros. unfold prof4_source, prof4_brk. destruct (Rle_dec r (7 / 10)); [lra|].
  unfold prof4_source_r, pevalR, p4c2. cbn [peval]. ring.
Qed.

(* exact projection of the code's own source (closed form of C10) *)
Definition prof4_exact_l (x : R) : R :=
  let a1 := sqrt (1 * 1 - x * x) in let a7 := sqrt (7 / 10 * (7 / 10) - x * x) in
  2 * (PB p4c1 0 x a7 (7 / 10) - PB p4c1 0 x 0 x) + 2 * (PB p4c2 0 x a1 1 - PB p4c2 0 x a7 (7 / 10)).
Definition prof4_exact_r (x : R) : R :=
  let a1 := sqrt (1 * 1 - x * x) in
  2 * (PB p4c2 0 x a1 1 - PB p4c2 0 x 0 x).
Definition prof4_exact (x : R) : R :=
  if Rle_dec x (7 / 10) then prof4_exact_l x else prof4_exact_r x.

Theorem profile4_exact : forall x, 0 < x < 1 -> Abel prof4_source 1 x = prof4_exact x.
Proof.
  intros x Hx.
  rewrite (two_piece_closed prof4_source p4c1 p4c2 (7 / 10) x ltac:(lra) ltac:(lra) prof4_src1 prof4_src2).
  rewrite ylim_0, (Rmax_right 0 x), (Rmax_left 1 x) by lra.
  unfold prof4_exact. destruct (Rle_dec x (7 / 10)).
  - rewrite (Rmax_left (7 / 10) x) by lra. reflexivity.
  - rewrite (ylim_above (7 / 10) x), (Rmax_right (7 / 10) x) by lra.
    unfold prof4_exact_r, ylim. cbv zeta. ring.
Qed.

(* the published constants -14.811667 and -196.30083 are the exact
   -14.8116666... and -196.3008333... rounded: the deviation in closed form *)
Definition prof4_dev (x : R) : R := sqrt (1 * 1 - x * x) * (10 * x ^ 2 - 1) / 3000000.

Theorem profile4_deviation : forall x, 0 < x < 1 ->
  prof4_proj x - Abel prof4_source 1 x = prof4_dev x.
Proof.
  intros x Hx. rewrite profile4_exact by auto.
  pose proof (a1_pos x ltac:(lra)) as Ha.
  unfold prof4_proj, prof4_exact, prof4_brk, prof4_dev. destruct (Rle_dec x (7 / 10)).
  - unfold prof4_proj_l, prof4_exact_l, p4c1, p4c2. cbv zeta.
    assert (Hb : 0 <= sqrt (7 / 10 * (7 / 10) - x * x)) by apply sqrt_pos.
    set (a1 := sqrt (1 * 1 - x * x)) in *. set (a7 := sqrt (7 / 10 * (7 / 10) - x * x)) in *.
    rewrite !ln_quot by lra.
    cbn [PB BB Nat.add]. simpl INR.
    rewrite (Rplus_comm 1 a1), (Rplus_comm (7 / 10) a7), Rplus_0_l. field.
  - unfold prof4_proj_r, prof4_exact_r, p4c2. cbv zeta.
    set (a1 := sqrt (1 * 1 - x * x)) in *.
    rewrite ln_quot by lra.
    cbn [PB BB Nat.add]. simpl INR.
    rewrite (Rplus_comm 1 a1), Rplus_0_l. field.
Qed.

Lemma dev_bound_aux : forall a, 0 <= a <= 1 -> -36/10 <= a * (9 - 10 * (a * a)) <= 36/10.
Proof.
  intros a [H0 H1]. split.
  - assert (0 <= a * a <= 1) by nra. nra.
  - pose proof (Rle_0_sqr (a - 11/20)) as S. unfold Rsqr in S.
    assert (T : 0 <= 10 * a + 11) by lra.
    pose proof (Rmult_le_pos _ _ S T) as H.
    replace ((a - 11 / 20) * (a - 11 / 20) * (10 * a + 11))
      with (10 * (a * (a * a)) - 9075/1000 * a + 33275/10000) in H by field.
    lra.
Qed.

Lemma prof4_dev_bound : forall x, 0 <= x <= 1 -> Rabs (prof4_dev x) <= 12 / 10000000.
Proof.
  intros x Hx. unfold prof4_dev.
  assert (Hs : 0 <= 1 * 1 - x * x) by nra.
  pose proof (sqrt_pos (1 * 1 - x * x)) as Ha0.
  pose proof (sqrt_sqrt _ Hs) as Ha2.
  set (a := sqrt (1 * 1 - x * x)) in *.
  assert (Ha1 : a <= 1) by nra.
  replace (a * (10 * x ^ 2 - 1) / 3000000) with (a * (9 - 10 * (a * a)) / 3000000)
    by (rewrite Ha2; field).
  pose proof (dev_bound_aux a (conj Ha0 Ha1)).
  apply Rabs_le. lra.
Qed.

Theorem profile4_pair_tol : forall x, 0 < x < 1 ->
  Rabs (prof4_proj x - Abel prof4_source 1 x) <= 12 / 10000000.
Proof. intros. rewrite profile4_deviation by auto. apply prof4_dev_bound. lra. Qed.

Theorem profile4_exact_refuted : exists x, 0 < x < 1 /\
  Rabs (prof4_proj x - Abel prof4_source 1 x) > 1 / 1000000.
Proof.
  exists (167 / 200). split. lra. rewrite profile4_deviation by lra. unfold prof4_dev.
  assert (L : 11 / 20 <= sqrt (1 * 1 - 167 / 200 * (167 / 200))).
  { replace (11 / 20) with (sqrt (11 / 20 * (11 / 20))) by (apply sqrt_square; lra).
    apply sqrt_le_1_alt. lra. }
  set (a := sqrt (1 * 1 - 167 / 200 * (167 / 200))) in *.
  rewrite Rabs_right.
  - assert (597225 / 100000 <= 10 * (167 / 200) ^ 2 - 1) by (simpl; lra).
    assert (11 / 20 * (597225 / 100000) <= a * (10 * (167 / 200) ^ 2 - 1)) by (apply Rmult_le_compat; lra).
    lra.
  - assert (0 <= 10 * (167 / 200) ^ 2 - 1) by (simpl; lra).
    assert (0 <= a * (10 * (167 / 200) ^ 2 - 1)) by (apply Rmult_le_pos; lra). lra.
Qed.
