(* CenterProofs.v — pixel-level specification of whole-pixel centring
   (model/Center.v: set_center_int) for every shape, every origin inside the
   image, every selection of axes and the three crop modes. *)
From Coq Require Import List Arith Lia Bool ZArith ZifyBool ZifyNat.
From PA Require Import base.Arr base.Px model.Center proofs.CenterAxis.
Import ListNotations.

Ltac Zify.zify_post_hook ::= Z.to_euclidean_division_equations.
Set Implicit Arguments.
Local Open Scope nat_scope.

(* o = None: the axis is not centred (not in axes, or origin component None) *)
Definition out_len (cr : crop) (n : nat) (o : option Z) : nat :=
  match o with None => n | Some k => crop_len cr n k end.

Definition src_idx (cr : crop) (n : nat) (o : option Z) (i : nat) : option nat :=
  match o with None => Some i | Some k => tr_idx n (crop_len cr n k) k i end.

Definition in_axis (n : nat) (o : option Z) : Prop :=
  match o with None => True | Some k => (0 <= k < Z.of_nat n)%Z end.

Lemma some_inj (T : Type) (x y : T) : Some x = Some y -> x = y.
Proof. congruence. Qed.

Lemma tr_idx_lt n len' o i a : tr_idx n len' o i = Some a -> a < n.
Proof.
  unfold tr_idx.
  destruct (Z.leb_spec 0 (Z.of_nat i - Z.of_nat (len' / 2) + o));
    destruct (Z.ltb_spec (Z.of_nat i - Z.of_nat (len' / 2) + o) (Z.of_nat n)); cbn [andb]; intros E;
    try discriminate. apply some_inj in E. lia.
Qed.

Lemma src_idx_lt cr n o i a : i < out_len cr n o -> src_idx cr n o i = Some a -> a < n.
Proof.
  destruct o as [k|]; cbn [src_idx out_len].
  - intros _. apply tr_idx_lt.
  - intros H E. apply some_inj in E. subst a. exact H.
Qed.

(* the origin pixel is shown by the centre index len'/2, in every mode *)
Lemma src_idx_centre cr n k : (0 <= k < Z.of_nat n)%Z ->
  src_idx cr n (Some k) (crop_len cr n k / 2) = Some (Z.to_nat k).
Proof.
  intros H. cbn [src_idx]. unfold tr_idx.
  replace (Z.of_nat (crop_len cr n k / 2) - Z.of_nat (crop_len cr n k / 2) + k)%Z with k by lia.
  destruct (Z.leb_spec 0 k); destruct (Z.ltb_spec k (Z.of_nat n)); try lia. reflexivity.
Qed.

Section OptAxis.
  Variable X : Type.

  Definition axis_spec_opt (z : X) (cr : crop) (n : nat) (o : option Z) (l l' : list X) : Prop :=
    length l' = out_len cr n o /\
    forall i d, i < out_len cr n o ->
      nth i l' d = match src_idx cr n o i with Some k => nth k l d | None => z end.

  Lemma ax_opt_ms (z : X) o (l : list X) : in_axis (length l) o ->
    axis_spec_opt z MaintainSize (length l) o l (ax_opt (ms_axis z) o l).
  Proof.
    destruct o as [k|]; cbn [in_axis ax_opt]; intros H.
    - apply (ms_axis_spec z l H).
    - split; [reflexivity|]. intros; reflexivity.
  Qed.

  Lemma ax_opt_vr (z : X) o (l : list X) : in_axis (length l) o ->
    axis_spec_opt z ValidRegion (length l) o l (ax_opt (@vr_axis X) o l).
  Proof.
    destruct o as [k|]; cbn [in_axis ax_opt]; intros H.
    - apply (vr_axis_spec z l H).
    - split; [reflexivity|]. intros; reflexivity.
  Qed.

  Lemma ax_opt_md (z : X) o (l : list X) : in_axis (length l) o ->
    axis_spec_opt z MaintainData (length l) o l (ax_opt (md_axis z) o l).
  Proof.
    destruct o as [k|]; cbn [in_axis ax_opt]; intros H.
    - apply (md_axis_spec z l H).
    - split; [reflexivity|]. intros; reflexivity.
  Qed.
End OptAxis.

Section TwoD.
  Variable A : Type.
  Variable zero : A.
  Notation img := (list (list A)).
  Notation px := (px zero).

  (* the pixel the output shows at (i, j): an input pixel or the fill value *)
  Definition shown (cr : crop) (n m : nat) (o0 o1 : option Z) (data : img) (i j : nat) : A :=
    match src_idx cr n o0 i, src_idx cr m o1 j with
    | Some a, Some b => px data a b
    | _, _ => zero
    end.

  Lemma sep2 cr n m (data : img) o0 o1 (g : list A -> list A) (f : img -> img) :
    wf n m data ->
    (forall r, length r = m -> axis_spec_opt zero cr m o1 r (g r)) ->
    (forall L : img, length L = n -> axis_spec_opt (repeat zero (out_len cr m o1)) cr n o0 L (f L)) ->
    wf (out_len cr n o0) (out_len cr m o1) (f (map g data)) /\
    forall i j, i < out_len cr n o0 -> j < out_len cr m o1 ->
      px (f (map g data)) i j = shown cr n m o0 o1 data i j.
  Proof.
    intros Hwf Hg Hf.
    assert (Hn : length data = n) by (destruct Hwf; assumption).
    assert (HL : length (map g data) = n) by (rewrite map_length; exact Hn).
    destruct (Hf _ HL) as [Hlen Hnth].
    assert (Hrow : forall i, i < out_len cr n o0 ->
              nth i (f (map g data)) [] =
              match src_idx cr n o0 i with
              | Some a => g (row data a)
              | None => repeat zero (out_len cr m o1)
              end).
    { intros i Hi. rewrite (Hnth i [] Hi).
      destruct (src_idx cr n o0 i) as [a|] eqn:E; [|reflexivity].
      apply src_idx_lt in E; [|exact Hi].
      change (row (map g data) a = g (row data a)). apply row_map. lia. }
    split.
    - split; [exact Hlen|].
      apply Forall_forall. intros r Hr. apply In_nth with (d:=[]) in Hr.
      destruct Hr as [i [Hi <-]]. rewrite Hlen in Hi. rewrite (Hrow i Hi).
      destruct (src_idx cr n o0 i) as [a|] eqn:E.
      + apply src_idx_lt in E; [|exact Hi].
        apply (Hg (row data a)). apply (wf_row Hwf E).
      + apply repeat_length.
    - intros i j Hi Hj. unfold shown, Px.px, row at 1. rewrite (Hrow i Hi).
      destruct (src_idx cr n o0 i) as [a|] eqn:E.
      + apply src_idx_lt in E; [|exact Hi].
        destruct (Hg (row data a) (wf_row Hwf E)) as [_ Hg2].
        rewrite (Hg2 j zero Hj). destruct (src_idx cr m o1 j); reflexivity.
      + apply nth_repeat_lt. exact Hj.
  Qed.

  Lemma ncols_map_hd n m (data : img) (g : list A -> list A) m' :
    wf n m data -> 0 < n -> (forall r, length r = m -> length (g r) = m') -> ncols (map g data) = m'.
  Proof.
    intros [H1 H2] Hn Hg. destruct data as [|r data]; cbn in *; [lia|].
    apply Hg. inversion H2; assumption.
  Qed.

  (* whole-pixel centring: result shape and every pixel, all three modes *)
  Theorem set_center_int_spec cr n m (data : img) o0 o1 :
    wf n m data -> 0 < n -> 0 < m -> cr <> OtherCrop -> in_axis n o0 -> in_axis m o1 ->
    exists out,
      set_center_int zero data o0 o1 cr = Some out /\
      wf (out_len cr n o0) (out_len cr m o1) out /\
      forall i j, i < out_len cr n o0 -> j < out_len cr m o1 ->
        px out i j = shown cr n m o0 o1 data i j.
  Proof.
    intros Hwf Hn Hm Hcr H0 H1.
    assert (En : nrows data = n) by (apply (wf_nrows Hwf)).
    assert (Em : ncols data = m) by (apply (wf_ncols Hwf Hn)).
    unfold set_center_int. rewrite En, Em.
    destruct cr; [| | |congruence].
    - assert (Hok : opt_ok ms_ok n o0 && opt_ok ms_ok m o1 = true).
      { apply andb_true_iff; split; [destruct o0|destruct o1]; cbn [opt_ok in_axis] in *;
          try reflexivity; apply ms_ok_in; assumption. }
      rewrite Hok. eexists; split; [reflexivity|].
      replace (repeat zero m) with (repeat zero (out_len MaintainSize m o1))
        by (destruct o1; reflexivity).
      apply sep2 with (g := ax_opt (ms_axis zero) o1)
                      (f := ax_opt (ms_axis (repeat zero (out_len MaintainSize m o1))) o0); [exact Hwf| |].
      + intros r Hr. rewrite <- Hr in *. apply ax_opt_ms; assumption.
      + intros L HL. rewrite <- HL in *. apply ax_opt_ms; assumption.
    - eexists; split; [reflexivity|].
      apply sep2 with (g := ax_opt (@vr_axis A) o1) (f := ax_opt (@vr_axis (list A)) o0); [exact Hwf| |].
      + intros r Hr. rewrite <- Hr in *. apply ax_opt_vr; assumption.
      + intros L HL. rewrite <- HL in *. apply ax_opt_vr; assumption.
    - eexists; split; [reflexivity|].
      assert (Hnc : ncols (map (ax_opt (md_axis zero) o1) data) = out_len MaintainData m o1).
      { apply (ncols_map_hd (n:=n) (m:=m)); [exact Hwf|exact Hn|].
        intros r Hr. rewrite <- Hr in *. apply (ax_opt_md zero o1 r). assumption. }
      rewrite Hnc.
      apply sep2 with (g := ax_opt (md_axis zero) o1)
                      (f := ax_opt (md_axis (repeat zero (out_len MaintainData m o1))) o0); [exact Hwf| |].
      + intros r Hr. rewrite <- Hr in *. apply ax_opt_md; assumption.
      + intros L HL. rewrite <- HL in *. apply ax_opt_md; assumption.
  Qed.
End TwoD.
