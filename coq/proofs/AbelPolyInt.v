(* AbelPolyInt.v — analysis: AA k x is an antiderivative of sqrt(x^2+y^2)^k in
   y (all k, induction in steps of 2); line-of-sight integral of a function
   that is a polynomial in r on (rmin, rmax) and zero outside. *)
From Coq Require Import Reals List Arith Bool ZArith QArith Qreals Lia Lra Psatz.
From Coquelicot Require Import Coquelicot.
From PA Require Import model.Poly model.AbelPoly proofs.AbelPolyAlg.
Import ListNotations.
Open Scope R_scope.

Lemma rr_pos : forall x y, 0 < x -> 0 < rr x y.
Proof. intros. unfold rr. apply sqrt_lt_R0. nra. Qed.

Lemma rr_sq : forall x y, rr x y * rr x y = x * x + y * y.
Proof. intros. unfold rr. apply sqrt_sqrt. nra. Qed.

Lemma rr_gt_y : forall x y, 0 < x -> 0 < y + rr x y.
Proof.
  intros. pose proof (rr_pos x y H). pose proof (rr_sq x y).
  destruct (Rle_lt_dec 0 y); [lra|]. nra.
Qed.

Lemma AA_deriv : forall k x y, 0 < x -> is_derive (fun y => AA k x y) y (rr x y ^ k).
Proof.
  intros k x y Hx. revert y. induction k as [| |k IH] using nat_ind2; intros y.
  - unfold AA, BB. simpl. auto_derive; auto.
  - unfold AA, BB.
    pose proof (rr_pos x y Hx). pose proof (rr_gt_y x y Hx). pose proof (rr_sq x y).
    assert (Hp : 0 < x * x + y * y) by nra.
    unfold rr in *. auto_derive.
    + repeat split; auto.
    + set (s := sqrt (x * x + y * y)) in *.
      replace (x * x) with (s * s - y * y) by lra. field. lra.
  - apply (is_derive_ext (fun y => (y * rr x y ^ (k + 2) + INR (k + 2) * (x * x) * AA k x y) / INR (k + 3))).
    { intros; reflexivity. }
    pose proof (rr_pos x y Hx). pose proof (rr_sq x y).
    pose proof (INR_pos3 k).
    assert (Hp : 0 < x * x + y * y) by nra.
    set (f := AA k x) in *.
    unfold rr in *.
    auto_derive.
    + split; auto. split; auto. exists (sqrt (x*x+y*y) ^ k). apply IH.
    + replace (Derive (fun x0 : R => f x0) y) with (sqrt (x * x + y * y) ^ k)
        by (symmetry; apply is_derive_unique; apply IH).
      set (s := sqrt (x * x + y * y)) in *.
      replace (Init.Nat.pred (k + 2)) with (S k) by lia.
      replace (k + 2)%nat with (S (S k)) by lia.
      replace (k + 3)%nat with (S (S (S k))) in * by lia.
      rewrite !S_INR in *. simpl pow.
      replace (x * x) with (s * s - y * y) by lra.
      field. split; lra.
Qed.

Lemma rrpow_continuous : forall k x y, 0 < x -> continuous (fun y => rr x y ^ k) y.
Proof.
  intros. apply (ex_derive_continuous (fun y => rr x y ^ k)).
  assert (0 < x * x + y * y) by nra. unfold rr. auto_derive. auto.
Qed.

Lemma rr_continuous : forall x y, 0 < x -> continuous (fun y => rr x y) y.
Proof.
  intros. apply (ex_derive_continuous (fun y => rr x y)).
  assert (0 < x * x + y * y) by nra. unfold rr. auto_derive. auto.
Qed.

Lemma peval_continuous : forall c (g : R -> R) y,
  continuous g y -> continuous (fun y => pevalR c (g y)) y.
Proof.
  induction c; intros; simpl.
  - apply continuous_const.
  - apply (continuous_plus (fun _ => a) (fun y => g y * pevalR c (g y))).
    apply continuous_const.
    apply (continuous_mult g (fun y => pevalR c (g y))); auto.
Qed.

Lemma PA_deriv : forall c k0 x y, 0 < x ->
  is_derive (fun y => PA c k0 x y) y (rr x y ^ k0 * pevalR c (rr x y)).
Proof.
  induction c; intros; simpl.
  - replace (rr x y ^ k0 * 0) with 0 by ring. apply @is_derive_const.
  - replace (rr x y ^ k0 * (a + rr x y * pevalR c (rr x y)))
      with (plus (scal a (rr x y ^ k0)) (rr x y ^ S k0 * pevalR c (rr x y)))
      by (unfold plus, scal; simpl; unfold mult; simpl; ring).
    apply (is_derive_plus (fun y => a * AA k0 x y) (fun y => PA c (S k0) x y)).
    + apply (is_derive_scal (fun y => AA k0 x y)). apply AA_deriv; auto.
    + apply IHc; auto.
Qed.

(* line integral of a polynomial in r over a piece of the line of sight, x > 0 *)
Lemma seg_RInt_pos : forall c x a b, 0 < x ->
  is_RInt (fun y => pevalR c (rr x y)) a b (PA c 0 x b - PA c 0 x a).
Proof.
  intros. apply (is_RInt_derive (fun y => PA c 0 x y) (fun y => pevalR c (rr x y))).
  - intros y _. replace (pevalR c (rr x y)) with (rr x y ^ 0 * pevalR c (rr x y)) by (simpl; ring).
    apply PA_deriv; auto.
  - intros y _. apply peval_continuous. apply rr_continuous; auto.
Qed.

(* ---- x = 0: the line of sight through the centre ---- *)
Fixpoint PQ (c : list R) (k0 : nat) (y : R) : R :=
  match c with [] => 0 | a :: c' => a * (y ^ S k0 / INR (S k0)) + PQ c' (S k0) y end.

Lemma rr_0 : forall y, 0 <= y -> rr 0 y = y.
Proof. intros. unfold rr. replace (0 * 0 + y * y) with (y * y) by ring. apply sqrt_square; auto. Qed.

Lemma AA_x0 : forall k y, 0 <= y -> AA k 0 y = y ^ S k / INR (S k).
Proof.
  intros k y Hy. unfold AA. rewrite rr_0 by auto.
  induction k as [| |k IH] using nat_ind2.
  - simpl. field.
  - simpl. field.
  - cbn [BB]. rewrite IH. pose proof (INR_pos3 k).
    replace (k + 3)%nat with (S (S (S k))) in * by lia.
    replace (k + 2)%nat with (S (S k)) in * by lia.
    assert (INR (S k) <> 0) by (apply not_0_INR; lia).
    simpl pow. field. auto.
Qed.

Lemma PA_x0 : forall c k0 y, 0 <= y -> PA c k0 0 y = PQ c k0 y.
Proof. induction c; intros; simpl; auto. rewrite AA_x0, IHc by auto. reflexivity. Qed.

Lemma PQ_deriv : forall c k0 y, is_derive (fun y => PQ c k0 y) y (y ^ k0 * pevalR c y).
Proof.
  induction c; intros; simpl.
  - replace (y ^ k0 * 0) with 0 by ring. apply @is_derive_const.
  - replace (y ^ k0 * (a + y * pevalR c y))
      with (plus (a * y ^ k0) (y ^ S k0 * pevalR c y))
      by (unfold plus; simpl; ring).
    apply (is_derive_plus (fun y => a * (y * y ^ k0 / INR (S k0))) (fun y => PQ c (S k0) y)).
    + assert (INR (S k0) <> 0) by (apply not_0_INR; lia).
      change (y * y ^ k0) with (y ^ S k0).
      apply (is_derive_ext (fun y => a * (y ^ S k0 / INR (S k0)))); [intros; reflexivity|].
      auto_derive; auto. simpl Init.Nat.pred. field. auto.
    + apply IHc.
Qed.

Lemma id_peval_continuous : forall c y, continuous (fun y => pevalR c y) y.
Proof. intros. apply (peval_continuous c (fun y => y)). apply continuous_id. Qed.

Lemma seg_RInt_0 : forall c a b, 0 <= a <= b ->
  is_RInt (fun y => pevalR c (rr 0 y)) a b (PA c 0 0 b - PA c 0 0 a).
Proof.
  intros. rewrite !PA_x0 by lra.
  apply (is_RInt_ext (fun y => pevalR c y)).
  - intros y Hy. rewrite Rmin_left, Rmax_right in Hy by lra. rewrite rr_0 by lra. reflexivity.
  - apply (is_RInt_derive (fun y => PQ c 0 y) (fun y => pevalR c y)).
    + intros y _. replace (pevalR c y) with (y ^ 0 * pevalR c y) by (simpl; ring). apply PQ_deriv.
    + intros y _. apply id_peval_continuous.
Qed.

Lemma seg_RInt : forall c x a b, 0 <= x -> 0 <= a <= b ->
  is_RInt (fun y => pevalR c (rr x y)) a b (PA c 0 x b - PA c 0 x a).
Proof.
  intros. destruct (Rle_lt_or_eq_dec 0 x H).
  - apply seg_RInt_pos; auto.
  - subst x. apply seg_RInt_0; auto.
Qed.

Definition ylim (rm x : R) : R := sqrt (rm * rm - x * x).

Lemma ylim_nonneg : forall rm x, 0 <= ylim rm x.
Proof. intros. apply sqrt_pos. Qed.

Lemma ylim_sq : forall rm x, 0 <= x <= rm -> ylim rm x * ylim rm x = rm * rm - x * x.
Proof. intros. apply sqrt_sqrt. nra. Qed.

Lemma ylim_mono : forall r1 r2 x, 0 <= x -> 0 <= r1 <= r2 -> ylim r1 x <= ylim r2 x.
Proof.
  intros. unfold ylim. destruct (Rle_lt_dec (r1 * r1 - x * x) 0).
  - rewrite (sqrt_neg_0 _ r). apply sqrt_pos.
  - apply sqrt_le_1; nra.
Qed.

(* r as a function of depth y, compared with a radius rm *)
Lemma rr_lt : forall x y rm, 0 <= x -> 0 <= y -> 0 <= rm -> y < ylim rm x -> rr x y < rm.
Proof.
  intros. pose proof (rr_sq x y). assert (0 <= rr x y) by apply sqrt_pos.
  assert (x <= rm).
  { destruct (Rle_lt_dec x rm); auto. unfold ylim in H2. rewrite sqrt_neg_0 in H2 by nra. lra. }
  pose proof (ylim_sq rm x (conj H H5)). pose proof (ylim_nonneg rm x). nra.
Qed.

Lemma rr_gt : forall x y rm, 0 <= x -> 0 <= rm -> ylim rm x < y -> rm < rr x y.
Proof.
  intros. pose proof (rr_sq x y). assert (0 <= rr x y) by apply sqrt_pos.
  pose proof (ylim_nonneg rm x).
  destruct (Rle_lt_dec x rm).
  - pose proof (ylim_sq rm x (conj H r)). nra.
  - nra.
Qed.

Lemma rr_nonneg : forall x y, 0 <= rr x y.
Proof. intros. apply sqrt_pos. Qed.

Lemma is_RInt_zero : forall a b : R, is_RInt (fun _ : R => 0) a b 0.
Proof.
  intros. generalize (@is_RInt_const R_CompleteNormedModule a b 0).
  match goal with |- is_RInt _ _ _ ?v -> _ =>
    replace v with 0 by (unfold scal; simpl; unfold mult; simpl; ring) end.
  auto.
Qed.

Section Segment.
Variables (F : R -> R) (c : list R) (rmin rmax Rm x : R).
Hypothesis Hx : 0 <= x.
Hypothesis Hr : 0 <= rmin /\ rmin <= rmax /\ rmax <= Rm.
Hypothesis Fin : forall r, rmin < r < rmax -> F r = pevalR c r.
Hypothesis Flo : forall r, 0 <= r < rmin -> F r = 0.
Hypothesis Fhi : forall r, rmax < r < Rm -> F r = 0.

Lemma zero_RInt : forall a b, a <= b ->
  (forall y, a < y < b -> F (rr x y) = 0) -> is_RInt (fun y => F (rr x y)) a b 0.
Proof.
  intros. apply (is_RInt_ext (fun _ => 0)).
  - intros y Hy. rewrite Rmin_left, Rmax_right in Hy by lra. symmetry; auto.
  - apply is_RInt_zero.
Qed.

(* the line-of-sight integral of F at height x *)
Theorem los_RInt :
  is_RInt (fun y => F (rr x y)) 0 (ylim Rm x)
          (PA c 0 x (ylim rmax x) - PA c 0 x (ylim rmin x)).
Proof.
  destruct Hr as (H0 & H1 & H2).
  pose proof (ylim_nonneg rmin x) as L0.
  pose proof (ylim_mono rmin rmax x Hx (conj H0 H1)) as L1.
  pose proof (ylim_mono rmax Rm x Hx (conj (Rle_trans _ _ _ H0 H1) H2)) as L2.
  assert (I1 : is_RInt (fun y => F (rr x y)) 0 (ylim rmin x) 0).
  { apply zero_RInt; auto. intros y Hy. apply Flo. split. apply rr_nonneg.
    apply rr_lt; lra. }
  assert (I2 : is_RInt (fun y => F (rr x y)) (ylim rmin x) (ylim rmax x)
                       (PA c 0 x (ylim rmax x) - PA c 0 x (ylim rmin x))).
  { apply (is_RInt_ext (fun y => pevalR c (rr x y))).
    - intros y Hy. rewrite Rmin_left, Rmax_right in Hy by lra. symmetry. apply Fin. split.
      + apply rr_gt; lra.
      + apply rr_lt; lra.
    - apply seg_RInt; auto. }
  assert (I3 : is_RInt (fun y => F (rr x y)) (ylim rmax x) (ylim Rm x) 0).
  { apply zero_RInt; auto. intros y Hy. apply Fhi. split.
    - apply rr_gt; lra.
    - apply rr_lt; lra. }
  pose proof (is_RInt_Chasles _ _ _ _ _ _ I1 I2) as I12.
  pose proof (is_RInt_Chasles _ _ _ _ _ _ I12 I3) as I.
  match type of I with is_RInt _ _ _ ?v =>
    replace v with (PA c 0 x (ylim rmax x) - PA c 0 x (ylim rmin x)) in I
      by (unfold plus; simpl; ring) end.
  exact I.
Qed.

Theorem los_Abel :
  Abel F Rm x = 2 * (PA c 0 x (ylim rmax x) - PA c 0 x (ylim rmin x)).
Proof.
  unfold Abel. f_equal. apply is_RInt_unique. apply los_RInt.
Qed.
End Segment.

(* the code's sum over k *)
Lemma abel_sum_PA : forall c sc k0 x rmin rmax, 0 <= x <= rmax -> 0 <= rmin ->
  abel_sumR (map (Rmult sc) c) k0 (fun k => a_code k x rmin rmax)
  = sc * (2 * (PA c k0 x (ylim rmax x) - PA c k0 x (ylim rmin x))).
Proof.
  induction c; intros; simpl.
  - ring.
  - unfold abel_sumR in IHc. rewrite IHc by auto. rewrite a_code_AA by auto. unfold ylim. ring.
Qed.

Theorem abel_pt_Abel : forall F c sc x rmin rmax Rm,
  0 <= x < rmax -> 0 <= rmin <= rmax -> rmax <= Rm ->
  (forall r, rmin < r < rmax -> F r = pevalR c r) ->
  (forall r, 0 <= r < rmin -> F r = 0) ->
  (forall r, rmax < r -> F r = 0) ->
  abel_pt c sc x rmin rmax = sc * Abel F Rm x.
Proof.
  intros. unfold abel_pt. rewrite abel_sum_PA by lra.
  rewrite (los_Abel F c rmin rmax Rm x); auto; try lra.
  intros r [Hr _]; auto.
Qed.

(* beyond r_max the transform vanishes *)
Theorem Abel_outside : forall F rmax Rm x, 0 <= rmax <= x ->
  (forall r, rmax < r -> F r = 0) -> Abel F Rm x = 0.
Proof.
  intros. unfold Abel.
  match goal with |- 2 * ?I = 0 => assert (E : I = 0); [|rewrite E; ring] end.
  apply is_RInt_unique. fold (ylim Rm x).
  apply (is_RInt_ext (fun _ => 0)).
  - intros y Hy. pose proof (ylim_nonneg Rm x). rewrite Rmin_left, Rmax_right in Hy by lra.
    symmetry. apply H0. pose proof (rr_sq x y). pose proof (rr_nonneg x y).
    destruct (Rlt_le_dec rmax (rr x y)); auto. exfalso.
    assert (rr x y * rr x y <= rmax * rmax) by (apply Rmult_le_compat; lra).
    assert (rmax * rmax <= x * x) by (apply Rmult_le_compat; lra).
    assert (0 < y * y) by (apply Rmult_lt_0_compat; lra). lra.
  - apply is_RInt_zero.
Qed.
