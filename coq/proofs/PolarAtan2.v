(* PolarAtan2.v — np.arctan2 (model/Polar.v atan2): case lemmas, range, the
   two projections sqrt(a^2+b^2) sin/cos (atan2 a b), and the inverse
   atan2 (r sin t) (r cos t) = t on (-PI, PI]. *)
From Coq Require Import Reals ZArith Lra.
From PA Require Import model.Polar.
Open Scope R_scope.

Lemma atan2_pos a b : 0 < b -> atan2 a b = atan (a / b).
Proof. intros H. unfold atan2. destruct (Rlt_dec 0 b); [reflexivity | lra]. Qed.

Lemma atan2_neg_nonneg a b : b < 0 -> 0 <= a -> atan2 a b = atan (a / b) + PI.
Proof.
  intros H Ha. unfold atan2. destruct (Rlt_dec 0 b); [lra |].
  destruct (Rlt_dec b 0); [| lra]. destruct (Rle_dec 0 a); [reflexivity | lra].
Qed.

Lemma atan2_neg_neg a b : b < 0 -> a < 0 -> atan2 a b = atan (a / b) - PI.
Proof.
  intros H Ha. unfold atan2. destruct (Rlt_dec 0 b); [lra |].
  destruct (Rlt_dec b 0); [| lra]. destruct (Rle_dec 0 a); [lra | reflexivity].
Qed.

Lemma atan2_0_pos a b : b = 0 -> 0 < a -> atan2 a b = PI / 2.
Proof.
  intros H Ha. unfold atan2. destruct (Rlt_dec 0 b); [lra |].
  destruct (Rlt_dec b 0); [lra |]. destruct (Rlt_dec 0 a); [reflexivity | lra].
Qed.

Lemma atan2_0_neg a b : b = 0 -> a < 0 -> atan2 a b = - PI / 2.
Proof.
  intros H Ha. unfold atan2. destruct (Rlt_dec 0 b); [lra |].
  destruct (Rlt_dec b 0); [lra |]. destruct (Rlt_dec 0 a); [lra |].
  destruct (Rlt_dec a 0); [reflexivity | lra].
Qed.

Lemma atan2_0_0 a b : b = 0 -> a = 0 -> atan2 a b = 0.
Proof.
  intros H Ha. unfold atan2. destruct (Rlt_dec 0 b); [lra |].
  destruct (Rlt_dec b 0); [lra |]. destruct (Rlt_dec 0 a); [lra |].
  destruct (Rlt_dec a 0); [lra | reflexivity].
Qed.

Lemma atan_pos x : 0 < x -> 0 < atan x.
Proof. intros H. rewrite <- atan_0. now apply atan_increasing. Qed.

Lemma atan_neg x : x < 0 -> atan x < 0.
Proof. intros H. rewrite <- atan_0. now apply atan_increasing. Qed.

Lemma atan_nonpos x : x <= 0 -> atan x <= 0.
Proof. intros [H | H]. - left; now apply atan_neg. - subst; rewrite atan_0; lra. Qed.

Lemma div_pos_neg a b : 0 < a -> b < 0 -> a / b < 0.
Proof.
  intros Ha Hb. unfold Rdiv. assert (/ b < 0) by now apply Rinv_lt_0_compat.
  rewrite <- (Rmult_0_r a). apply Rmult_lt_compat_l; assumption.
Qed.

Lemma div_neg_neg a b : a < 0 -> b < 0 -> 0 < a / b.
Proof.
  intros Ha Hb. replace (a / b) with ((- a) / (- b)) by (field; lra).
  apply Rdiv_lt_0_compat; lra.
Qed.

Lemma div_neg_pos a b : a < 0 -> 0 < b -> a / b < 0.
Proof.
  intros Ha Hb. replace (a / b) with (- ((- a) / b)) by (field; lra).
  assert (0 < (- a) / b) by (apply Rdiv_lt_0_compat; lra). lra.
Qed.

(* range of arctan2: (-PI, PI] *)
Lemma atan2_range a b : - PI < atan2 a b <= PI.
Proof.
  pose proof PI_RGT_0 as HPI.
  destruct (Rlt_dec 0 b) as [Hb | Hb].
  - rewrite atan2_pos by assumption. pose proof (atan_bound (a / b)). lra.
  - destruct (Rlt_dec b 0) as [Hb' | Hb'].
    + destruct (Rle_dec 0 a) as [Ha | Ha].
      * rewrite atan2_neg_nonneg by assumption.
        pose proof (atan_bound (a / b)).
        assert (atan (a / b) <= 0).
        { apply atan_nonpos. destruct Ha as [Ha | Ha].
          - left. now apply div_pos_neg.
          - subst a. unfold Rdiv. rewrite Rmult_0_l. lra. }
        lra.
      * rewrite atan2_neg_neg by lra.
        pose proof (atan_bound (a / b)).
        assert (0 < atan (a / b)) by (apply atan_pos, div_neg_neg; lra).
        lra.
    + assert (b = 0) by lra.
      destruct (Rlt_dec 0 a).
      * rewrite atan2_0_pos by assumption. lra.
      * destruct (Rlt_dec a 0).
        -- rewrite atan2_0_neg by assumption. lra.
        -- rewrite atan2_0_0 by lra. lra.
Qed.

(* sign of the angle = sign of the first ("sine-like") argument *)
Lemma atan2_gt_0 a b : 0 < a -> 0 < atan2 a b.
Proof.
  intros Ha. pose proof PI_RGT_0 as HPI.
  destruct (Rlt_dec 0 b) as [Hb | Hb].
  - rewrite atan2_pos by assumption. apply atan_pos. now apply Rdiv_lt_0_compat.
  - destruct (Rlt_dec b 0) as [Hb' | Hb'].
    + rewrite atan2_neg_nonneg by lra. pose proof (atan_bound (a / b)). lra.
    + rewrite atan2_0_pos by lra. lra.
Qed.

Lemma atan2_lt_0 a b : a < 0 -> atan2 a b < 0.
Proof.
  intros Ha. pose proof PI_RGT_0 as HPI.
  destruct (Rlt_dec 0 b) as [Hb | Hb].
  - rewrite atan2_pos by assumption. apply atan_neg. now apply div_neg_pos.
  - destruct (Rlt_dec b 0) as [Hb' | Hb'].
    + rewrite atan2_neg_neg by lra. pose proof (atan_bound (a / b)). lra.
    + rewrite atan2_0_neg by lra. lra.
Qed.

Lemma atan2_up b : 0 < b -> atan2 0 b = 0.
Proof. intros H. rewrite atan2_pos by assumption. unfold Rdiv. rewrite Rmult_0_l. apply atan_0. Qed.

Lemma atan2_down b : b < 0 -> atan2 0 b = PI.
Proof.
  intros H. rewrite atan2_neg_nonneg by lra. unfold Rdiv. rewrite Rmult_0_l, atan_0. lra.
Qed.

(* ------------------------------------------------------------------ *)
(* hypotenuse *)
Lemma one_plus_sqr_pos x : 0 < 1 + x².
Proof. pose proof (Rle_0_sqr x). lra. Qed.

Lemma hyp_pos a b : 0 < b -> sqrt (a * a + b * b) = b * sqrt (1 + (a / b)²).
Proof.
  intros Hb. replace (a * a + b * b) with (b² * (1 + (a / b)²)) by (unfold Rsqr; field; lra).
  rewrite sqrt_mult; [| apply Rle_0_sqr | left; apply one_plus_sqr_pos].
  rewrite sqrt_Rsqr by lra. reflexivity.
Qed.

Lemma hyp_neg a b : b < 0 -> sqrt (a * a + b * b) = - b * sqrt (1 + (a / b)²).
Proof.
  intros Hb. replace (a * a + b * b) with ((- b)² * (1 + (a / b)²)) by (unfold Rsqr; field; lra).
  rewrite sqrt_mult; [| apply Rle_0_sqr | left; apply one_plus_sqr_pos].
  rewrite sqrt_Rsqr by lra. reflexivity.
Qed.

Lemma hyp_0 a : sqrt (a * a + 0 * 0) = Rabs a.
Proof. replace (a * a + 0 * 0) with (a²) by (unfold Rsqr; ring). apply sqrt_Rsqr_abs. Qed.

(* sqrt(a^2+b^2) * sin (arctan2 a b) = a,  sqrt(a^2+b^2) * cos (arctan2 a b) = b *)
Lemma atan2_sin a b : sqrt (a * a + b * b) * sin (atan2 a b) = a.
Proof.
  destruct (Rlt_dec 0 b) as [Hb | Hb].
  - rewrite atan2_pos, sin_atan, hyp_pos by assumption.
    assert (0 < sqrt (1 + (a / b)²)) by apply sqrt_lt_R0, one_plus_sqr_pos.
    field. lra.
  - destruct (Rlt_dec b 0) as [Hb' | Hb'].
    + assert (0 < sqrt (1 + (a / b)²)) by apply sqrt_lt_R0, one_plus_sqr_pos.
      rewrite hyp_neg by assumption.
      destruct (Rle_dec 0 a) as [Ha | Ha].
      * rewrite atan2_neg_nonneg by assumption. rewrite neg_sin, sin_atan. field. lra.
      * rewrite atan2_neg_neg by lra.
        replace (atan (a / b) - PI) with (- (- atan (a / b) + PI)) by ring.
        rewrite sin_neg, neg_sin, sin_neg, sin_atan. field. lra.
    + assert (b = 0) by lra. subst b. rewrite hyp_0.
      destruct (Rlt_dec 0 a).
      * rewrite atan2_0_pos by lra. rewrite sin_PI2, Rabs_right by lra. ring.
      * destruct (Rlt_dec a 0).
        -- rewrite atan2_0_neg by lra. replace (- PI / 2) with (- (PI / 2)) by field.
           rewrite sin_neg, sin_PI2, Rabs_left by lra. ring.
        -- assert (a = 0) by lra. subst a. rewrite Rabs_R0. ring.
Qed.

Lemma atan2_cos a b : sqrt (a * a + b * b) * cos (atan2 a b) = b.
Proof.
  destruct (Rlt_dec 0 b) as [Hb | Hb].
  - rewrite atan2_pos, cos_atan, hyp_pos by assumption.
    assert (0 < sqrt (1 + (a / b)²)) by apply sqrt_lt_R0, one_plus_sqr_pos.
    field. lra.
  - destruct (Rlt_dec b 0) as [Hb' | Hb'].
    + assert (0 < sqrt (1 + (a / b)²)) by apply sqrt_lt_R0, one_plus_sqr_pos.
      rewrite hyp_neg by assumption.
      destruct (Rle_dec 0 a) as [Ha | Ha].
      * rewrite atan2_neg_nonneg by assumption. rewrite neg_cos, cos_atan. field. lra.
      * rewrite atan2_neg_neg by lra.
        replace (atan (a / b) - PI) with (- (- atan (a / b) + PI)) by ring.
        rewrite cos_neg, neg_cos, cos_neg, cos_atan. field. lra.
    + assert (b = 0) by lra. subst b. rewrite hyp_0.
      destruct (Rlt_dec 0 a).
      * rewrite atan2_0_pos by lra. rewrite cos_PI2. ring.
      * destruct (Rlt_dec a 0).
        -- rewrite atan2_0_neg by lra. replace (- PI / 2) with (- (PI / 2)) by field.
           rewrite cos_neg, cos_PI2. ring.
        -- assert (a = 0) by lra. subst a. rewrite Rabs_R0. ring.
Qed.

(* ------------------------------------------------------------------ *)
(* inverse direction *)
Lemma hyp_polar r t : 0 <= r -> sqrt (r * sin t * (r * sin t) + r * cos t * (r * cos t)) = r.
Proof.
  intros Hr. replace (r * sin t * (r * sin t) + r * cos t * (r * cos t)) with (r² * ((sin t)² + (cos t)²))
    by (unfold Rsqr; ring).
  rewrite sin2_cos2, Rmult_1_r. now apply sqrt_Rsqr.
Qed.

Lemma ratio_tan r t : 0 < r -> cos t <> 0 -> r * sin t / (r * cos t) = tan t.
Proof. intros Hr Hc. unfold tan. field. split; lra. Qed.

Lemma atan2_polar r t : 0 < r -> - PI < t <= PI -> atan2 (r * sin t) (r * cos t) = t.
Proof.
  intros Hr [Hlo Hhi]. pose proof PI_RGT_0 as HPI.
  destruct (Rlt_dec t (- (PI / 2))) as [HA | HA].
  - (* (-PI, -PI/2): third quadrant *)
    assert (Hc : cos t < 0).
    { rewrite <- cos_neg. apply cos_lt_0; lra. }
    assert (Hs : sin t < 0) by (apply sin_lt_0_var; lra).
    rewrite atan2_neg_neg by nra.
    rewrite ratio_tan by lra.
    replace (tan t) with (tan (t + PI)).
    + rewrite atan_tan by lra. ring.
    + unfold tan. rewrite neg_sin, neg_cos. field. lra.
  - destruct (Req_dec t (- (PI / 2))) as [HB | HB].
    + subst t. rewrite sin_neg, cos_neg, sin_PI2, cos_PI2.
      rewrite atan2_0_neg by lra. field.
    + destruct (Rlt_dec t (PI / 2)) as [HC | HC].
      * assert (Hc : 0 < cos t) by (apply cos_gt_0; lra).
        rewrite atan2_pos by nra. rewrite ratio_tan by lra. apply atan_tan. lra.
      * destruct (Req_dec t (PI / 2)) as [HD | HD].
        -- subst t. rewrite sin_PI2, cos_PI2. rewrite atan2_0_pos by lra. reflexivity.
        -- assert (Hc : cos t < 0) by (apply cos_lt_0; lra).
           assert (Hs : 0 <= sin t) by (apply sin_ge_0; lra).
           rewrite atan2_neg_nonneg by nra.
           rewrite ratio_tan by lra.
           replace (tan t) with (tan (t - PI)).
           ++ rewrite atan_tan by lra. ring.
           ++ unfold tan. replace t with ((t - PI) + PI) at 3 4 by ring.
              rewrite neg_sin, neg_cos. field.
              intros E. replace t with ((t - PI) + PI) in Hc by ring. rewrite neg_cos in Hc. lra.
Qed.
