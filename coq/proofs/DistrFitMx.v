(* DistrFitMx.v — the coefficient solve of Distributions for an arbitrary number
   N of angular terms, stated with mathcomp matrices over an arbitrary field:
   K pixels with weights w, abscissae x (cos or cos^2 of the polar angle) and
   weighted data q; the code forms the Hankel matrix H[i][j] = sum_k w_k
   x_k^(i+j) (scipy.linalg.hankel of the integrals pc), the vector p[i] =
   sum_k q_k x_k^i and returns inv(H) p  (vmi.py:1159, 1494; for N = 2, 3 the
   inverse is hand-written, see gen/VmiInv.v and proofs/VmiInvProofs.v). *)
From mathcomp Require Import all_ssreflect all_algebra.
Set Implicit Arguments.
Unset Strict Implicit.
Unset Printing Implicit Defensive.
Import GRing.Theory.
Local Open Scope ring_scope.

Section General.
  Variable F : fieldType.
  Variables (K N : nat).
  Variables (w x q : 'I_K -> F) (c : 'I_N -> F).

  Definition hankelM : 'M[F]_N := \matrix_(i, j) \sum_k w k * x k ^+ (i + j).
  Definition dataV : 'cV[F]_N := \col_i \sum_k q k * x k ^+ i.
  Definition coefV : 'cV[F]_N := \col_m c m.

  Hypothesis exact : forall k, q k = w k * \sum_m c m * x k ^+ m.

  Lemma data_eq : dataV = hankelM *m coefV.
  Proof.
    apply/colP => i. rewrite !mxE.
    under eq_bigr => k _ do rewrite exact.
    under [RHS]eq_bigr => m _ do rewrite !mxE mulr_suml.
    rewrite exchange_big /=. apply: eq_bigr => k _.
    rewrite mulrC mulr_sumr mulr_sumr. apply: eq_bigr => m _.
    by rewrite exprD mulrCA mulrA [c m * _]mulrC !mulrA.
  Qed.

  (* the solve returns the model coefficients whenever the Hankel matrix is invertible *)
  Theorem fit_exact_general : hankelM \in unitmx -> invmx hankelM *m dataV = coefV.
  Proof. by move=> U; rewrite data_eq mulmxA mulVmx // mul1mx. Qed.
End General.
