(* DistrFitMx.v — the coefficient solve of Distributions for an arbitrary number
   N of angular terms, stated with mathcomp matrices over an arbitrary field:
   K pixels with weights w, abscissae x (cos or cos^2 of the polar angle) and
   weighted data q; the code forms the Hankel matrix H[i][j] = sum_k w_k
   x_k^(i+j) (scipy.linalg.hankel of the integrals pc), the vector p[i] =
   sum_k q_k x_k^i and returns inv(H) p  (vmi.py:1159, 1494; for N = 2, 3 the
   inverse is hand-written, see gen/VmiInv.v and proofs/VmiInvProofs.v). *)
From mathcomp Require Import all_ssreflect all_algebra.
Set Implicit Arguments.
Unset Strict Implicit.
Unset Printing Implicit Defensive.
Import GRing.Theory Num.Theory.
Local Open Scope ring_scope.

Section General.
  Variable F : fieldType.
  Variables (K N : nat).
  Variables (w x q : 'I_K -> F) (c : 'I_N -> F).

  Definition hankelM : 'M[F]_N := \matrix_(i, j) \sum_k w k * x k ^+ (i + j).
  Definition dataV : 'cV[F]_N := \col_i \sum_k q k * x k ^+ i.
  Definition coefV : 'cV[F]_N := \col_m c m.

  Hypothesis exact : forall k, q k = w k * \sum_m c m * x k ^+ m.

  Lemma data_eq : dataV = hankelM *m coefV.
  Proof.
    apply/colP => i. rewrite !mxE.
    under eq_bigr => k _ do rewrite exact.
    under [RHS]eq_bigr => m _ do rewrite !mxE mulr_suml.
    rewrite exchange_big /=. apply: eq_bigr => k _.
    rewrite mulrC mulr_sumr mulr_sumr. apply: eq_bigr => m _.
    by rewrite exprD mulrCA mulrA [c m * _]mulrC !mulrA.
  Qed.

  (* the solve returns the model coefficients whenever the Hankel matrix is invertible *)
  Theorem fit_exact_general : hankelM \in unitmx -> invmx hankelM *m dataV = coefV.
  Proof. by move=> U; rewrite data_eq mulmxA mulVmx // mul1mx. Qed.
End General.

(* hankel_nonsingular: "the full angular range the orders need and at least a
   few pixels" made precise -- non-negative weights, and N pixels of positive
   weight with pairwise different abscissae (cos or cos^2 of the polar angle)
   make the N x N Hankel matrix invertible (it is V^T diag(w) V, V Vandermonde:
   a polynomial of degree < N with N roots vanishes). *)
Section Nonsingular.
  Variable F : realFieldType.
  Variables (K N : nat) (w x : 'I_K -> F).
  Hypothesis wge0 : forall k, 0 <= w k.
  (* N pixels with positive weight and pairwise different abscissae *)
  Variable f : 'I_N -> 'I_K.
  Hypothesis wpos : forall i, 0 < w (f i).
  Hypothesis xinj : injective (x \o f).

  Lemma horner_rVpolyE (v : 'rV[F]_N) (t : F) : (rVpoly v).[t] = \sum_(i < N) v 0 i * t ^+ i.
  Proof.
    rewrite /rVpoly horner_poly. apply: eq_bigr => i _. by rewrite valK.
  Qed.

  Lemma shuffle (a b c d e : F) : a * (b * (c * d)) * e = b * (a * c) * (e * d).
  Proof. rewrite mulrCA. rewrite [a * (c * d)]mulrA. rewrite -!mulrA. by rewrite [d * e]mulrC. Qed.

  Lemma quad_form (v : 'rV[F]_N) :
    (v *m hankelM N w x *m v^T) 0 0 = \sum_k w k * ((rVpoly v).[x k]) ^+ 2.
  Proof.
    rewrite !mxE.
    transitivity (\sum_j \sum_j0 \sum_k w k * (v 0 j0 * x k ^+ j0) * (v 0 j * x k ^+ j)).
      apply: eq_bigr => j _. rewrite !mxE mulr_suml. apply: eq_bigr => j0 _.
      rewrite !mxE mulr_sumr mulr_suml. apply: eq_bigr => k _. by rewrite exprD shuffle.
    rewrite exchange_big /= (eq_bigr (fun j0 => \sum_k \sum_j w k * (v 0 j0 * x k ^+ j0) * (v 0 j * x k ^+ j))); last first.
      by move=> j0 _; rewrite exchange_big.
    rewrite exchange_big /=. apply: eq_bigr => k _.
    rewrite horner_rVpolyE expr2 big_distrlr /= mulr_sumr. apply: eq_bigr => j0 _.
    rewrite mulr_sumr. apply: eq_bigr => j _. by rewrite -mulrA.
  Qed.

  Theorem hankel_nonsingular : hankelM N w x \in unitmx.
  Proof.
    rewrite -row_free_unit -kermx_eq0. apply/rowV0P => v /sub_kermxP vH0.
    have q0 : \sum_k w k * ((rVpoly v).[x k]) ^+ 2 = 0.
      by rewrite -quad_form vH0 mul0mx mxE.
    have term0 k : w k * ((rVpoly v).[x k]) ^+ 2 = 0.
      apply: (psumr_eq0P (P := predT) _ q0) => // i _. by rewrite mulr_ge0 // sqr_ge0.
    have roots i : root (rVpoly v) (x (f i)).
      rewrite /root. have := term0 (f i). move/eqP. rewrite mulf_eq0 (negbTE (lt0r_neq0 (wpos i))) /=.
      by rewrite sqrf_eq0.
    have P0 : rVpoly v = 0.
      apply: (@roots_geq_poly_eq0 _ _ (map (x \o f) (enum 'I_N))).
      - apply/allP => t /mapP [i _ ->]. exact: roots.
      - by rewrite (map_inj_uniq xinj) enum_uniq.
      - rewrite size_map size_enum_ord. exact: size_poly.
    by rewrite -(rVpolyK v) P0 linear0.
  Qed.
End Nonsingular.
