(* C15Prefix.v — a larger rmax gives the same coefficients at the common radii:
   both methods ('nearest', 'linear'), even orders only and with odd orders,
   every N, any weights or none, sin weighting on or off; no conditioning
   hypothesis (the pixel lists of a common radius are literally equal). *)
From Coq Require Import List Arith Lia Bool ZArith Reals Lra.
From Coq Require Import ZifyBool ZifyNat.
From PA Require Import base.Arr base.Px base.MatL model.DistrGeom gen.VmiInv model.DistrFit
  proofs.VmiInvProofs proofs.DistrGeomProofs proofs.DistrFitProofs proofs.C14R proofs.C15R proofs.C15Inv.
Import ListNotations.
Open Scope nat_scope.

Lemma flat_map_seq_restrict_off {T : Type} (F2 F1 : nat -> list T) n1 n2 d : d + n1 <= n2 ->
  (forall a, a < n1 -> F2 (d + a) = F1 a) ->
  (forall a, a < n2 -> (a < d \/ d + n1 <= a) -> F2 a = []) ->
  flat_map F2 (seq 0 n2) = flat_map F1 (seq 0 n1).
Proof.
  intros Hle Hin Hout.
  replace n2 with (d + (n1 + (n2 - d - n1))) by lia. rewrite !seq_app, !flat_map_app.
  rewrite (flat_map_nil_in F2 (seq 0 d)) by (intros a Ha; apply in_seq in Ha; apply Hout; lia).
  rewrite (flat_map_nil_in F2 (seq (0 + d + n1) (n2 - d - n1)))
    by (intros a Ha; apply in_seq in Ha; apply Hout; lia).
  rewrite app_nil_r. cbn [app Nat.add].
  rewrite (flat_map_concat_map F2 (seq d n1)), (map_seq_shift F2 d n1), <- flat_map_concat_map.
  apply flat_map_ext_in'. intros a Ha. apply in_seq in Ha. apply Hin. lia.
Qed.

Lemma fam_restrict_off n1 m1 n2 m2 d c1 c2 p1 p2 : d + n1 <= n2 -> m1 <= m2 ->
  (forall a b, a < n1 -> b < m1 -> c2 (d + a) b = c1 a b /\ (c1 a b = true -> p2 (d + a) b = p1 a b)) ->
  (forall a b, a < n2 -> b < m2 -> (a < d \/ d + n1 <= a \/ m1 <= b) -> c2 a b = false) ->
  fam n2 m2 c2 p2 = fam n1 m1 c1 p1.
Proof.
  intros Hn Hm Hin Hout. rewrite !fam_rows. apply (flat_map_seq_restrict_off _ _ n1 n2 d); [exact Hn| |].
  - intros a Ha. unfold famrow. apply flat_map_seq_restrict; [exact Hm| |].
    + intros b Hb. destruct (Hin a b Ha Hb) as [Ec Ep]. rewrite Ec. destruct (c1 a b); [rewrite Ep; reflexivity|reflexivity].
    + intros b Hb. rewrite Hout by lia. reflexivity.
  - intros a Ha Ho. unfold famrow. apply flat_map_nil_in. intros b Hb. apply in_seq in Hb.
    rewrite Hout by lia. reflexivity.
Qed.

(* clipping of the bin at rmax + 1 does not matter for radii <= r1 <= r2 *)
Definition clip (rmax k : nat) : nat := if rmax <? k then rmax + 1 else k.
Lemma clip_eqb r r1 r2 k : r <= r1 -> r1 <= r2 -> Nat.eqb (clip r2 k) r = Nat.eqb (clip r1 k) r.
Proof.
  intros H1 H2. unfold clip. destruct (Nat.le_gt_cases k r1) as [Hk|Hk].
  - destruct (Nat.ltb_spec r2 k); [lia|]. destruct (Nat.ltb_spec r1 k); [lia|]. reflexivity.
  - destruct (Nat.ltb_spec r1 k); [|lia]. transitivity false; [|symmetry]; apply Nat.eqb_neq; [|lia].
    destruct (Nat.ltb_spec r2 k); lia.
Qed.
Lemma clip_S_eqb r r1 r2 k : r <= r1 -> r1 <= r2 -> Nat.eqb (Datatypes.S (clip r2 k)) r = Nat.eqb (Datatypes.S (clip r1 k)) r.
Proof.
  intros H1 H2. unfold clip. destruct (Nat.le_gt_cases k r1) as [Hk|Hk].
  - destruct (Nat.ltb_spec r2 k); [lia|]. destruct (Nat.ltb_spec r1 k); [lia|]. reflexivity.
  - destruct (Nat.ltb_spec r1 k); [|lia]. transitivity false; [|symmetry]; apply Nat.eqb_neq; [|lia].
    destruct (Nat.ltb_spec r2 k); lia.
Qed.
Lemma clip_small r1 r2 k : r1 <= r2 -> clip r1 k <= r1 -> clip r2 k = clip r1 k.
Proof.
  intros H Hc. unfold clip in *. destruct (Nat.ltb_spec r1 k); [lia|]. destruct (Nat.ltb_spec r2 k); lia.
Qed.

Lemma sqrt_ge n m : m * m <= n -> m <= Nat.sqrt n.
Proof. intros H. pose proof (Nat.sqrt_le_mono _ _ H) as S1. rewrite Nat.sqrt_square in S1. exact S1. Qed.

Lemma bin_clip meth g a b :
  bin meth g a b = clip (g_rmax g) (match meth with Nearest => round_sqrt (r2n g a b) | Linear => Nat.sqrt (r2n g a b) end).
Proof. reflexivity. Qed.

Lemma rawbin_ge meth n m : m * m <= n ->
  m <= match meth with Nearest => round_sqrt n | Linear => Nat.sqrt n end.
Proof. intros H. destruct meth; [apply round_sqrt_ge|apply sqrt_ge]; exact H. Qed.

Open Scope R_scope.
Notation foldR := (fold_image 0 Rplus).
Notation pxR := (px 0).

Section Prefix.
  Variables (h w row col r1 r2 : nat) (odd : bool) (N : nat).
  Hypothesis Hr : (row < h)%nat.
  Hypothesis Hc : (col < w)%nat.
  Hypothesis Hr2 : (r1 <= r2)%nat.
  Let g1 := quad_geom h w row col r1 odd N.
  Let g2 := quad_geom h w row col r2 odd N.
  (* rows of the larger quadrant above the smaller one (odd orders: y0 = min(row, rmax)) *)
  Let d := if odd then (min row r2 - min row r1)%nat else 0%nat.

  Lemma pf_Q1h : g_Qh g1 = if odd then (min row r1 + 1 + min (h - 1 - row) r1)%nat
                          else (min (max row (h - 1 - row)) r1 + 1)%nat.
  Proof. unfold g1; apply qg_Qh. Qed.
  Lemma pf_Q2h : g_Qh g2 = if odd then (min row r2 + 1 + min (h - 1 - row) r2)%nat
                          else (min (max row (h - 1 - row)) r2 + 1)%nat.
  Proof. unfold g2; apply qg_Qh. Qed.
  Lemma pf_Q1w : g_Qw g1 = (min (max col (w - 1 - col)) r1 + 1)%nat.
  Proof. unfold g1; apply qg_Qw. Qed.
  Lemma pf_Q2w : g_Qw g2 = (min (max col (w - 1 - col)) r2 + 1)%nat.
  Proof. unfold g2; apply qg_Qw. Qed.
  Lemma pf_Y1 : g_y0 g1 = if odd then min row r1 else 0%nat.
  Proof. unfold g1; apply qg_y0. Qed.
  Lemma pf_Y2 : g_y0 g2 = (g_y0 g1 + d)%nat.
  Proof. unfold g2. rewrite qg_y0, pf_Y1. unfold d. clear - Hr2. destruct odd; lia. Qed.
  Lemma pf_Yrow : (g_y0 g2 <= row)%nat.
  Proof. rewrite pf_Y2, pf_Y1. unfold d. clear - Hr2. destruct odd; lia. Qed.
  Lemma pf_Lh : (d + g_Qh g1 <= g_Qh g2)%nat.
  Proof. rewrite pf_Q1h, pf_Q2h; unfold d; clear - Hr2; destruct odd; lia. Qed.
  Lemma pf_Lw : (g_Qw g1 <= g_Qw g2)%nat.
  Proof. rewrite pf_Q1w, pf_Q2w; clear - Hr2; lia. Qed.

  Lemma pf_Oa a : (a < g_Qh g2)%nat -> (a < d \/ d + g_Qh g1 <= a)%nat -> (r1 + 1 <= dist a (g_y0 g2))%nat.
  Proof.
    intros Ha Ho. rewrite pf_Y2, pf_Y1. rewrite pf_Q1h in Ho. rewrite pf_Q2h in Ha. unfold d in *. clear - Ha Ho Hr2.
    destruct odd.
    - set (A1 := min row r1) in *. set (A2 := min row r2) in *.
      set (B1 := min (h - 1 - row) r1) in *. set (B2 := min (h - 1 - row) r2) in *.
      assert (F1 : (A1 <= A2)%nat) by (unfold A1, A2; lia).
      assert (F2 : (A1 < A2 -> A1 = r1)%nat) by (unfold A1, A2; lia).
      assert (F3 : (B1 < B2 -> B1 = r1)%nat) by (unfold B1, B2; lia).
      clearbody A1 A2 B1 B2. unfold dist. destruct (Nat.leb_spec a (A1 + (A2 - A1))); lia.
    - set (V1 := min (max row (h - 1 - row)) r1) in *. set (V2 := min (max row (h - 1 - row)) r2) in *.
      assert (F3 : (V1 < V2 -> V1 = r1)%nat) by (unfold V1, V2; lia).
      clearbody V1 V2. unfold dist. destruct (Nat.leb_spec a (0 + 0)); lia.
  Qed.

  Lemma pf_Ob b : (g_Qw g1 <= b)%nat -> (b < g_Qw g2)%nat -> (r1 + 1 <= b)%nat.
  Proof.
    intros H1 H2. rewrite pf_Q1w in H1. rewrite pf_Q2w in H2. clear - H1 H2 Hr2.
    set (V1 := min (max col (w - 1 - col)) r1) in *. set (V2 := min (max col (w - 1 - col)) r2) in *.
    assert (F3 : (V1 < V2 -> V1 = r1)%nat) by (unfold V1, V2; lia). clearbody V1 V2. lia.
  Qed.

  Lemma pf_EF X a b : (a < g_Qh g1)%nat -> (b < g_Qw g1)%nat ->
    pxR (foldR g2 X) (d + a)%nat b = pxR (foldR g1 X) a b.
  Proof.
    intros Ha Hb. pose proof pf_Lh as Lh. pose proof pf_Lw as Lw. pose proof pf_Y2 as Y2. pose proof pf_Yrow as Yrow.
    unfold g1, g2 in *. clearbody d. destruct odd.
    - pose proof (fold_spec_odd_R h w row col r2 N X (d + a)%nat b Hr Hc) as E2.
      pose proof (fold_spec_odd_R h w row col r1 N X a b Hr Hc) as E1.
      cbv zeta in E1, E2. rewrite E2, E1 by lia. unfold spec_odd. rewrite Y2.
      replace (row - (g_y0 (quad_geom h w row col r1 true N) + d) + (d + a))%nat
        with (row - g_y0 (quad_geom h w row col r1 true N) + a)%nat by lia. reflexivity.
    - assert (d0 : d = 0%nat).
      { rewrite !qg_y0 in Y2. lia. }
      subst d.
      pose proof (fold_spec_even_R h w row col r2 N X (0 + a)%nat b Hr Hc) as E2.
      pose proof (fold_spec_even_R h w row col r1 N X a b Hr Hc) as E1.
      cbv zeta in E1, E2. rewrite E2, E1 by lia. reflexivity.
  Qed.

  Lemma pf_dist a : dist (d + a) (g_y0 g2) = dist a (g_y0 g1).
  Proof.
    rewrite pf_Y2. unfold dist. destruct (Nat.leb_spec (d + a) (g_y0 g1 + d)); destruct (Nat.leb_spec a (g_y0 g1)); lia.
  Qed.
  Lemma pf_ER a b : r2n g2 (d + a)%nat b = r2n g1 a b.
  Proof. unfold r2n. rewrite pf_dist. reflexivity. Qed.
  Lemma pf_EY a : yA Rops g2 (d + a)%nat = yA Rops g1 a.
  Proof.
    unfold yA. rewrite pf_Y2.
    destruct (Nat.leb_spec (d + a) (g_y0 g1 + d)); destruct (Nat.leb_spec a (g_y0 g1)); try lia;
      [f_equal; lia | f_equal; f_equal; lia].
  Qed.
  Lemma pf_EC a b : cos1 Rops sqrtR g2 (d + a)%nat b = cos1 Rops sqrtR g1 a b.
  Proof.
    unfold cos1. rewrite pf_ER, pf_EY, pf_dist.
    replace (g_odd g2) with (g_odd g1) by (unfold g1, g2; rewrite !qg_odd; reflexivity). reflexivity.
  Qed.
  Lemma pf_ES a b : qsin Rops sqrtR g2 (d + a)%nat b = qsin Rops sqrtR g1 a b.
  Proof. unfold qsin; rewrite pf_ER; reflexivity. Qed.
  Lemma pf_EB m a b : bin m g2 (d + a)%nat b
    = clip r2 (match m with Nearest => round_sqrt (r2n g1 a b) | Linear => Nat.sqrt (r2n g1 a b) end).
  Proof. rewrite bin_clip, pf_ER. unfold g2 at 1. rewrite qg_rmax. reflexivity. Qed.
  Lemma pf_EB1 m a b : bin m g1 a b
    = clip r1 (match m with Nearest => round_sqrt (r2n g1 a b) | Linear => Nat.sqrt (r2n g1 a b) end).
  Proof. rewrite bin_clip. unfold g1 at 1. rewrite qg_rmax. reflexivity. Qed.
  Lemma pf_EU a b : (bin Linear g1 a b <= r1)%nat -> wu Rops sqrtR g2 (d + a)%nat b = wu Rops sqrtR g1 a b.
  Proof.
    intros Hb. unfold wu. rewrite pf_ER, pf_EB. rewrite pf_EB1 in Hb |- *.
    rewrite (clip_small r1 r2 _ Hr2 Hb). reflexivity.
  Qed.
  Lemma pf_EL a b : (bin Linear g1 a b <= r1)%nat -> wl Rops sqrtR g2 (d + a)%nat b = wl Rops sqrtR g1 a b.
  Proof. intros; unfold wl; rewrite pf_EU by assumption; reflexivity. Qed.

  Lemma pf_OUT m a b : (a < g_Qh g2)%nat -> (b < g_Qw g2)%nat ->
    (a < d \/ d + g_Qh g1 <= a \/ g_Qw g1 <= b)%nat -> (r1 + 1 <= bin m g2 a b)%nat.
  Proof.
    intros Ha Hb Ho. rewrite bin_clip. replace (g_rmax g2) with r2 by (unfold g2; rewrite qg_rmax; reflexivity).
    assert (G : (r1 + 1 <= match m with Nearest => round_sqrt (r2n g2 a b) | Linear => Nat.sqrt (r2n g2 a b) end)%nat).
    { apply rawbin_ge. unfold r2n.
      destruct Ho as [Ho|[Ho|Ho]].
      - pose proof (pf_Oa a Ha (or_introl Ho)) as G1. pose proof (Nat.mul_le_mono _ _ _ _ G1 G1). lia.
      - pose proof (pf_Oa a Ha (or_intror Ho)) as G1. pose proof (Nat.mul_le_mono _ _ _ _ G1 G1). lia.
      - pose proof (pf_Ob b Ho Hb) as G1. pose proof (Nat.mul_le_mono _ _ _ _ G1 G1). lia. }
    unfold clip. destruct (Nat.ltb_spec r2 (match m with Nearest => round_sqrt (r2n g2 a b) | Linear => Nat.sqrt (r2n g2 a b) end)); lia.
  Qed.

  Theorem rmax_prefix meth use_sin (W : option (list (list R))) IM r : (r <= r1)%nat ->
    nth r (distr_cos Rops sqrtR meth g2 use_sin W IM) None
    = nth r (distr_cos Rops sqrtR meth g1 use_sin W IM) None.
  Proof.
    intros Hr1. unfold distr_cos. cbv zeta.
    replace (g_rmax g1) with r1 by (unfold g1; rewrite qg_rmax; reflexivity).
    replace (g_rmax g2) with r2 by (unfold g2; rewrite qg_rmax; reflexivity).
    replace (g_N g1) with N by (unfold g1; rewrite qg_N; reflexivity).
    replace (g_N g2) with N by (unfold g2; rewrite qg_N; reflexivity).
    rewrite !nth_map_seq_opt by lia. f_equal.
    set (wq1 := QW Rops sqrtR g1 use_sin W). set (dq1 := QD Rops sqrtR g1 use_sin W IM).
    set (wq2 := QW Rops sqrtR g2 use_sin W). set (dq2 := QD Rops sqrtR g2 use_sin W IM).
    assert (Ewq : forall a b, (a < g_Qh g1)%nat -> (b < g_Qw g1)%nat -> wq2 (d + a)%nat b = wq1 a b).
    { intros a b Ha Hb. unfold wq2, wq1, QW. cbv zeta. cbn [Rops f0 fadd fmul].
      replace (g_h g2) with (g_h g1) by (unfold g1, g2; rewrite !qg_h; reflexivity).
      replace (g_w g2) with (g_w g1) by (unfold g1, g2; rewrite !qg_w; reflexivity).
      rewrite pf_ES, pf_EF by assumption. reflexivity. }
    assert (Edq : forall a b, (a < g_Qh g1)%nat -> (b < g_Qw g1)%nat -> dq2 (d + a)%nat b = dq1 a b).
    { intros a b Ha Hb. unfold dq2, dq1, QD. cbv zeta. cbn [Rops f0 fadd fmul].
      rewrite pf_ES, pf_EF by assumption. reflexivity. }
    destruct meth.
    - rewrite !pixels_nearest_fam. apply (fam_restrict_off _ _ _ _ d); [exact pf_Lh|exact pf_Lw| |].
      + intros a b Ha Hb. split.
        * rewrite pf_EB, pf_EB1. apply clip_eqb; assumption.
        * intros _. rewrite pf_EC, Ewq, Edq by assumption. reflexivity.
      + intros a b Ha Hb Ho. apply Nat.eqb_neq. pose proof (pf_OUT Nearest a b Ha Hb Ho). lia.
    - rewrite !pixels_linear_fam. apply f_equal2.
      + apply (fam_restrict_off _ _ _ _ d); [exact pf_Lh|exact pf_Lw| |].
        * intros a b Ha Hb. split.
          -- rewrite pf_EB, pf_EB1. apply clip_eqb; assumption.
          -- intros Hc1. apply Nat.eqb_eq in Hc1. rewrite pf_EC, Ewq, Edq, pf_EL by (try assumption; lia). reflexivity.
        * intros a b Ha Hb Ho. apply Nat.eqb_neq. pose proof (pf_OUT Linear a b Ha Hb Ho). lia.
      + apply (fam_restrict_off _ _ _ _ d); [exact pf_Lh|exact pf_Lw| |].
        * intros a b Ha Hb. split.
          -- rewrite pf_EB, pf_EB1. apply clip_S_eqb; assumption.
          -- intros Hc1. apply Nat.eqb_eq in Hc1. rewrite pf_EC, Ewq, Edq, pf_EU by (try assumption; lia). reflexivity.
        * intros a b Ha Hb Ho. apply Nat.eqb_neq. pose proof (pf_OUT Linear a b Ha Hb Ho). lia.
  Qed.
End Prefix.
