(* CenterLin.v — the order-1 fractional shift of set_center (model/Center.v:
   lin2, separable two-tap linear interpolation of the zero-extended image)
   over R: total intensity is preserved and the first moments (hence the
   centroid) move by exactly the requested amount, provided the content keeps
   a one-pixel margin inside the sampled window. *)
From Coq Require Import List Arith Lia Bool ZArith QArith Qround Reals Lra ZifyBool ZifyNat.
From PA Require Import base.Arr base.Px model.Center proofs.OriginSums.
Import ListNotations.

Local Open Scope R_scope.

Notation imgR := (list (list R)).
Definition pxzR : imgR -> Z -> Z -> R := pxz 0.
Definition lin2R := lin2 0 1 Rplus Rminus Rmult.
Definition set_center_linR := set_center_lin 0 1 Rplus Rminus Rmult Q2R.

(* total intensity and first moments of an n x m image *)
Definition mass2 (n m : nat) (X : imgR) : R := zs (fun i => zs (fun j => pxzR X i j) 0 m) 0 n.
Definition mom0 (n m : nat) (X : imgR) : R := zs (fun i => IZR i * zs (fun j => pxzR X i j) 0 m) 0 n.
Definition mom1 (n m : nat) (X : imgR) : R := zs (fun i => zs (fun j => IZR j * pxzR X i j) 0 m) 0 n.

(* ---- one axis ------------------------------------------------------------------ *)
Lemma zs_two_windows' f a la b lb :
  (forall k, (k < a \/ a + Z.of_nat la <= k)%Z -> f k = 0) ->
  (forall k, (k < b \/ b + Z.of_nat lb <= k)%Z -> f k = 0) ->
  zs f a la = zs f b lb.
Proof.
  intros Ha Hb.
  set (u := Z.max a b). set (v := Z.min (a + Z.of_nat la) (b + Z.of_nat lb)).
  destruct (Z_le_gt_dec u v) as [Huv|Huv].
  - apply (zs_window2 f u v); try lia.
    intros k Hk. destruct (Z_lt_ge_dec k a); [apply Ha; lia|].
    destruct (Z_lt_ge_dec k b); [apply Hb; lia|].
    destruct (Z_lt_ge_dec k (a + Z.of_nat la)); [apply Hb; lia|apply Ha; lia].
  - rewrite (zs_zero f a la) by (intros k Hk; apply Hb; lia).
    rewrite (zs_zero f b lb) by (intros k Hk; apply Ha; lia). reflexivity.
Qed.

Section Lin1.
  Variable f : Z -> R.
  Variables (len len' : nat) (o : Z) (t : R).
  Hypothesis Hframe : forall k, (k < 0 \/ Z.of_nat len <= k)%Z -> f k = 0.
  Hypothesis Hmargin : forall k, (k < o + 1 \/ o + Z.of_nat len' <= k)%Z -> f k = 0.

  Let g (i : Z) : R := (1 - t) * f (i + o) + t * f (i + o + 1).

  Lemma win alpha : (alpha = o \/ alpha = o + 1)%Z -> forall h : Z -> R,
    (forall k, f k = 0 -> h k = 0) -> zs h alpha len' = zs h 0 len.
  Proof.
    intros Ha h Hh. apply zs_two_windows'.
    - intros k Hk. apply Hh. apply Hmargin. lia.
    - intros k Hk. apply Hh. apply Hframe. lia.
  Qed.

  Lemma lin1_mass : zs g 0 len' = zs f 0 len.
  Proof.
    unfold g. rewrite zs_plus, !zs_scal.
    rewrite (zs_shift f o 0 len').
    rewrite (zs_ext (fun k => f (k + o + 1)%Z) (fun k => f (k + (o + 1))%Z)) by (intros; f_equal; lia).
    rewrite (zs_shift f (o + 1) 0 len').
    rewrite (win (0 + o) ltac:(lia) f ltac:(auto)), (win (0 + (o + 1)) ltac:(lia) f ltac:(auto)). lra.
  Qed.

  Lemma lin1_moment :
    zs (fun i => IZR i * g i) 0 len' = zs (fun k => IZR k * f k) 0 len - (IZR o + t) * zs f 0 len.
  Proof.
    assert (Sh : forall alpha, (alpha = o \/ alpha = o + 1)%Z ->
              zs (fun i => IZR i * f (i + alpha)) 0 len' =
              zs (fun k => IZR k * f k) 0 len - IZR alpha * zs f 0 len).
    { intros alpha Ha.
      rewrite (zs_ext (fun i => IZR i * f (i + alpha)%Z)
                      (fun i => (fun k => (IZR k - IZR alpha) * f k) (i + alpha)%Z)).
      2:{ intros i _. cbv beta. rewrite plus_IZR. f_equal. lra. }
      rewrite (zs_shift (fun k => (IZR k - IZR alpha) * f k) alpha 0 len').
      rewrite (win (0 + alpha) ltac:(lia) (fun k => (IZR k - IZR alpha) * f k)) by (intros k Hk; rewrite Hk; lra).
      rewrite (zs_ext _ (fun k => IZR k * f k + (- IZR alpha) * f k)) by (intros; lra).
      rewrite zs_plus, zs_scal. lra. }
    unfold g.
    rewrite (zs_ext _ (fun i => (1 - t) * (IZR i * f (i + o)%Z) + t * (IZR i * f (i + (o + 1))%Z))).
    2:{ intros i _. replace (i + o + 1)%Z with (i + (o + 1))%Z by lia. lra. }
    rewrite zs_plus, !zs_scal. rewrite (Sh o) by lia. rewrite (Sh (o + 1)%Z) by lia.
    rewrite plus_IZR. lra.
  Qed.
End Lin1.

(* ---- images ---------------------------------------------------------------------- *)
Lemma nth_map_any (X Y : Type) (f : X -> Y) l i d d' :
  (i < length l)%nat -> nth i (map f l) d = f (nth i l d').
Proof.
  revert i; induction l as [|x l IH]; intros [|i] H; cbn [length map nth] in *; try lia; auto.
  apply IH. lia.
Qed.

Lemma px_tabulate (f : nat -> nat -> R) n' m' i j : (i < n')%nat -> (j < m')%nat ->
  px 0 (tabulate n' m' f) i j = f i j.
Proof.
  intros Hi Hj. unfold px, row, tabulate.
  rewrite (nth_map_any _ _ _ (seq 0 n') i [] 0%nat) by (rewrite seq_length; lia).
  rewrite seq_nth by lia. cbn [plus].
  rewrite (nth_map_any _ _ _ (seq 0 m') j 0 0%nat) by (rewrite seq_length; lia).
  rewrite seq_nth by lia. reflexivity.
Qed.

Lemma pxzR_out n m (X : imgR) i j : wf n m X ->
  (i < 0 \/ Z.of_nat n <= i \/ j < 0 \/ Z.of_nat m <= j)%Z -> pxzR X i j = 0.
Proof.
  intros Hwf H. unfold pxzR, pxz.
  destruct (Z.ltb_spec i 0); destruct (Z.ltb_spec j 0); cbn [orb]; try reflexivity.
  unfold px, row.
  destruct (Z_lt_ge_dec i (Z.of_nat n)) as [Hi|Hi].
  - apply nth_overflow.
    assert (L : length (row X (Z.to_nat i)) = m) by (apply (wf_row Hwf); lia).
    unfold row in L. rewrite L. lia.
  - rewrite (nth_overflow X) by (destruct Hwf; lia). destruct (Z.to_nat j); reflexivity.
Qed.

Section Lin2.
  Variables n m n' m' : nat.
  Variable data : imgR.
  Variables (off0 off1 : Z) (t0 t1 : R).
  Hypothesis Hwf : wf n m data.
  (* the content keeps a one-pixel margin inside the sampled window
     [off0, off0 + n') x [off1, off1 + m') *)
  Hypothesis Hmargin : forall i j,
    (i < off0 + 1 \/ off0 + Z.of_nat n' <= i \/ j < off1 + 1 \/ off1 + Z.of_nat m' <= j)%Z ->
    pxzR data i j = 0.

  Let D := pxzR data.
  Let out := lin2R n' m' off0 t0 off1 t1 data.
  Let L1 (x j : Z) : R := (1 - t1) * D x (j + off1) + t1 * D x (j + off1 + 1).
  Let rowsum (x : Z) : R := zs (fun j => D x j) 0 m.
  Let rowmom (x : Z) : R := zs (fun j => IZR j * D x j) 0 m.

  Lemma out_px i j : (0 <= i < Z.of_nat n')%Z -> (0 <= j < Z.of_nat m')%Z ->
    pxzR out i j = (1 - t0) * L1 (i + off0) j + t0 * L1 (i + off0 + 1) j.
  Proof.
    intros Hi Hj. unfold pxzR at 1, pxz.
    destruct (Z.ltb_spec i 0); [lia|]. destruct (Z.ltb_spec j 0); [lia|]. cbn [orb].
    unfold out, lin2R, lin2. rewrite px_tabulate by lia.
    rewrite !Z2Nat.id by lia. unfold L1, D, pxzR. reflexivity.
  Qed.

  Lemma L1_sum x : zs (fun j => L1 x j) 0 m' = rowsum x.
  Proof.
    unfold L1, rowsum. apply (lin1_mass (D x) m m' off1 t1).
    - intros k Hk. apply (pxzR_out n m data x k Hwf). lia.
    - intros k Hk. apply Hmargin. lia.
  Qed.

  Lemma L1_mom x : zs (fun j => IZR j * L1 x j) 0 m' = rowmom x - (IZR off1 + t1) * rowsum x.
  Proof.
    unfold L1, rowmom, rowsum. apply (lin1_moment (D x) m m' off1 t1).
    - intros k Hk. apply (pxzR_out n m data x k Hwf). lia.
    - intros k Hk. apply Hmargin. lia.
  Qed.

  Lemma rows_frame (h : Z -> Z -> R) x : (forall j, D x j = 0 -> h x j = 0) ->
    (x < 0 \/ Z.of_nat n <= x)%Z -> zs (fun j => h x j) 0 m = 0.
  Proof. intros Hh Hx. apply zs_zero. intros j _. apply Hh. apply (pxzR_out n m data x j Hwf). lia. Qed.

  Lemma rows_margin (h : Z -> Z -> R) x : (forall j, D x j = 0 -> h x j = 0) ->
    (x < off0 + 1 \/ off0 + Z.of_nat n' <= x)%Z -> zs (fun j => h x j) 0 m = 0.
  Proof. intros Hh Hx. apply zs_zero. intros j _. apply Hh. apply Hmargin. lia. Qed.

  Theorem lin2_mass : mass2 n' m' out = mass2 n m data.
  Proof.
    unfold mass2.
    rewrite (zs_ext _ (fun i => (1 - t0) * rowsum (i + off0) + t0 * rowsum (i + off0 + 1))).
    2:{ intros i Hi. rewrite (zs_ext _ (fun j => (1 - t0) * L1 (i + off0) j + t0 * L1 (i + off0 + 1) j))
          by (intros j Hj; apply out_px; lia).
        rewrite zs_plus, !zs_scal, !L1_sum. reflexivity. }
    apply (lin1_mass rowsum n n' off0 t0).
    - intros k Hk. apply (rows_frame (fun x j => D x j)); auto.
    - intros k Hk. apply (rows_margin (fun x j => D x j)); auto.
  Qed.

  Theorem lin2_mom0 : mom0 n' m' out = mom0 n m data - (IZR off0 + t0) * mass2 n m data.
  Proof.
    unfold mom0, mass2.
    rewrite (zs_ext _ (fun i => IZR i * ((1 - t0) * rowsum (i + off0) + t0 * rowsum (i + off0 + 1)))).
    2:{ intros i Hi. f_equal.
        rewrite (zs_ext _ (fun j => (1 - t0) * L1 (i + off0) j + t0 * L1 (i + off0 + 1) j))
          by (intros j Hj; apply out_px; lia).
        rewrite zs_plus, !zs_scal, !L1_sum. reflexivity. }
    apply (lin1_moment rowsum n n' off0 t0).
    - intros k Hk. apply (rows_frame (fun x j => D x j)); auto.
    - intros k Hk. apply (rows_margin (fun x j => D x j)); auto.
  Qed.

  Theorem lin2_mom1 : mom1 n' m' out = mom1 n m data - (IZR off1 + t1) * mass2 n m data.
  Proof.
    unfold mom1, mass2.
    set (B := fun x => rowmom x - (IZR off1 + t1) * rowsum x).
    rewrite (zs_ext _ (fun i => (1 - t0) * B (i + off0)%Z + t0 * B (i + off0 + 1)%Z)).
    2:{ intros i Hi.
        rewrite (zs_ext _ (fun j => (1 - t0) * (IZR j * L1 (i + off0) j) + t0 * (IZR j * L1 (i + off0 + 1) j))).
        2:{ intros j Hj. rewrite out_px by lia. ring. }
        rewrite zs_plus, !zs_scal, !L1_mom. reflexivity. }
    rewrite (lin1_mass B n n' off0 t0).
    - unfold B. rewrite (zs_ext _ (fun x => rowmom x + (- (IZR off1 + t1)) * rowsum x)) by (intros; lra).
      rewrite zs_plus, zs_scal. unfold rowmom, rowsum, D. lra.
    - intros k Hk. unfold B, rowmom, rowsum.
      rewrite (rows_frame (fun x j => IZR j * D x j)) by (auto; intros j E; rewrite E; lra).
      rewrite (rows_frame (fun x j => D x j)) by auto. lra.
    - intros k Hk. unfold B, rowmom, rowsum.
      rewrite (rows_margin (fun x j => IZR j * D x j)) by (auto; intros j E; rewrite E; lra).
      rewrite (rows_margin (fun x j => D x j)) by auto. lra.
  Qed.
End Lin2.

(* ---- set_center(order=1, crop='maintain_size') with a fractional origin ------------ *)
Lemma Q2R_frac0 s : Qfloor s = 0%Z -> Q2R (qfrac s) = Q2R s.
Proof.
  intros H. unfold qfrac. rewrite H. rewrite Qreals.Q2R_minus.
  unfold Q2R at 2. cbn. lra.
Qed.

Theorem shift1_maintain_size n m (data : imgR) (i0 i1 : Z) (s0 s1 : Q) :
  wf n m data -> (0 < n)%nat ->
  Qfloor s0 = 0%Z -> Qfloor s1 = 0%Z ->
  (* the content keeps a one-pixel margin after the shift *)
  (forall i j,
     (i < i0 - Z.of_nat (n / 2) + 1 \/ i0 - Z.of_nat (n / 2) + Z.of_nat n <= i \/
      j < i1 - Z.of_nat (m / 2) + 1 \/ i1 - Z.of_nat (m / 2) + Z.of_nat m <= j)%Z -> pxzR data i j = 0) ->
  exists out,
    set_center_linR data (Some (i0, s0)) (Some (i1, s1)) MaintainSize = Ok out /\
    mass2 n m out = mass2 n m data /\
    mom0 n m out = mom0 n m data - (IZR i0 + Q2R s0 - IZR (Z.of_nat (n / 2))) * mass2 n m data /\
    mom1 n m out = mom1 n m data - (IZR i1 + Q2R s1 - IZR (Z.of_nat (m / 2))) * mass2 n m data.
Proof.
  intros Hwf Hn F0 F1 Hmargin.
  unfold set_center_linR, set_center_lin.
  rewrite (wf_nrows Hwf), (wf_ncols Hwf Hn). rewrite F0, F1, !Q2R_frac0 by assumption.
  eexists. split; [reflexivity|].
  fold (lin2R n m (i0 - Z.of_nat (n / 2) + 0) (Q2R s0) (i1 - Z.of_nat (m / 2) + 0) (Q2R s1) data).
  assert (M : forall i j,
             (i < i0 - Z.of_nat (n / 2) + 0 + 1 \/ i0 - Z.of_nat (n / 2) + 0 + Z.of_nat n <= i \/
              j < i1 - Z.of_nat (m / 2) + 0 + 1 \/ i1 - Z.of_nat (m / 2) + 0 + Z.of_nat m <= j)%Z ->
             pxzR data i j = 0) by (intros i j H; apply Hmargin; lia).
  rewrite (lin2_mass n m n m data _ _ _ _ Hwf M), (lin2_mom0 n m n m data _ _ _ _ Hwf M),
    (lin2_mom1 n m n m data _ _ _ _ Hwf M).
  rewrite !plus_IZR, !minus_IZR. split; [reflexivity|]. split; f_equal; lra.
Qed.

(* the same in terms of the centroid: it lands on the centre pixel plus the
   original centroid-to-origin offset *)
Corollary shift1_centroid n m (data out : imgR) (i0 : Z) (s0 : Q) :
  mass2 n m data <> 0 -> mass2 n m out = mass2 n m data ->
  mom0 n m out = mom0 n m data - (IZR i0 + Q2R s0 - IZR (Z.of_nat (n / 2))) * mass2 n m data ->
  mom0 n m out / mass2 n m out - IZR (Z.of_nat (n / 2)) = mom0 n m data / mass2 n m data - (IZR i0 + Q2R s0).
Proof. intros Hm E1 E2. rewrite E1, E2. field. exact Hm. Qed.
