(* OnionBordasProofs.v — the onion-peeling loop of abel/onion_bordas.py
   (model/OnionBordas.v), over the real numbers, for ARBITRARY tables val1,
   val2 and any image width:
     * linear in the image row, for any real a, b,
     * the image transform is a row transform applied to each row, and a
       row's output does not depend on the other rows nor -- when val2 does
       not depend on its row index, as checked on the running implementation
       -- on the row's position or the image height,
     * the result scales with 1/dr. *)
From Coq Require Import List Arith Reals Lra Lia.
From PA Require Import model.OnionBordas proofs.HansenLawProofs proofs.DrSitesProofs.
Import ListNotations.
Open Scope R_scope.

Section Tables.
Variable val1 : nat -> nat -> R.
Variable val2 : nat -> nat -> R.

Definition updR := upd R Rmult Rminus val1.
Definition peelR := peel R 1 Rmult Rminus Rdiv val1 val2.
Definition ob_rowR := ob_row R 0 1 2 Rmult Rminus Rdiv val1 val2.
Definition ob_rowsR := ob_rows R 0 1 2 Rmult Rminus Rdiv val1 val2.
Definition ob_imageR := ob_image R 0 1 2 Rmult Rminus Rdiv val1 val2.

Section Comb.
Variables a b : R.

Lemma upd_length c idist t : length (updR c idist t) = length t.
Proof. unfold updR; induction t; simpl; auto. Qed.

Lemma upd_comb c1 c2 idist t1 t2 : length t1 = length t2 ->
  updR (a * c1 + b * c2) idist (comb a b t1 t2) = comb a b (updR c1 idist t1) (updR c2 idist t2).
Proof.
  unfold updR.
  revert t2; induction t1 as [|x t1 IH]; intros [|y t2] H; simpl in *; try discriminate; auto.
  assert (L : length t1 = length t2) by lia.
  rewrite comb_length by assumption. rewrite <- L.
  f_equal; [lra|]. apply IH; assumption.
Qed.

Lemma peel_length rv n : forall l1 l2, length l1 = length l2 ->
  length (peelR rv n l1) = length (peelR rv n l2).
Proof.
  unfold peelR.
  induction n as [|n IH]; intros [|x l1] [|y l2] H; simpl in *; try discriminate; auto.
  f_equal. apply IH. fold updR. rewrite !upd_length. lia.
Qed.

Lemma peel_comb rv n : forall l1 l2, length l1 = length l2 ->
  peelR rv n (comb a b l1 l2) = comb a b (peelR rv n l1) (peelR rv n l2).
Proof.
  unfold peelR.
  induction n as [|n IH]; intros [|x l1] [|y l2] H; simpl in *; try discriminate; auto.
  f_equal; [unfold Rdiv; lra|].
  fold updR.
  replace ((a * x + b * y) * (1 / val1 (S n) (S n)))
    with (a * (x * (1 / val1 (S n) (S n))) + b * (y * (1 / val1 (S n) (S n)))) by lra.
  rewrite upd_comb by lia.
  apply IH. rewrite !upd_length. lia.
Qed.

Lemma map_div_comb c l1 l2 : length l1 = length l2 ->
  map (fun v => v / c) (comb a b l1 l2) = comb a b (map (fun v => v / c) l1) (map (fun v => v / c) l2).
Proof.
  revert l2; induction l1 as [|x l1 IH]; intros [|y l2] H; simpl in *; try discriminate; auto.
  f_equal; [unfold Rdiv; lra|]. apply IH; lia.
Qed.

(* C04 for onion_bordas: a*X + b*Y maps to a*T(X) + b*T(Y), any real a, b *)
Theorem onion_bordas_row_linear rv dr l1 l2 : length l1 = length l2 ->
  ob_rowR rv dr (comb a b l1 l2) = comb a b (ob_rowR rv dr l1) (ob_rowR rv dr l2).
Proof.
  intros H. unfold ob_rowR, ob_row. fold peelR.
  rewrite comb_length by assumption. rewrite <- H.
  rewrite <- comb_rev by assumption.
  assert (Lr : length (rev l1) = length (rev l2)) by (rewrite !rev_length; assumption).
  rewrite peel_comb by assumption.
  set (p1 := peelR rv (length l1 - 1) (rev l1)).
  set (p2 := peelR rv (length l1 - 1) (rev l2)).
  assert (Lp : length p1 = length p2) by (apply peel_length; assumption).
  rewrite comb_last by assumption.
  assert (E : comb a b p1 p2 ++ [a * last p1 0 + b * last p2 0] = comb a b (p1 ++ [last p1 0]) (p2 ++ [last p2 0])).
  { rewrite comb_app by assumption. reflexivity. }
  rewrite E.
  assert (La : length (p1 ++ [last p1 0]) = length (p2 ++ [last p2 0])) by (rewrite !app_length; simpl; lia).
  rewrite <- comb_rev by assumption.
  apply map_div_comb. rewrite !rev_length. assumption.
Qed.

End Comb.

Lemma ob_rows_linear a b dr h : forall ri X Y, length X = length Y ->
  Forall2 (fun r s => length r = length s) X Y ->
  ob_rowsR h ri dr (icomb a b X Y) = icomb a b (ob_rowsR h ri dr X) (ob_rowsR h ri dr Y).
Proof.
  unfold ob_rowsR, icomb.
  intros ri X; revert ri; induction X as [|r X IH]; intros ri [|s Y] HL HF; simpl in *; try discriminate; auto.
  inversion HF; subst.
  f_equal.
  - fold ob_rowR. apply onion_bordas_row_linear. assumption.
  - apply IH; [lia|assumption].
Qed.

Theorem onion_bordas_linear a b dr h w X Y : wfR h w X -> wfR h w Y ->
  ob_imageR dr (icomb a b X Y) = icomb a b (ob_imageR dr X) (ob_imageR dr Y).
Proof.
  intros [HX FX] [HY FY]. unfold ob_imageR, ob_image. fold ob_rowsR.
  assert (HL : length X = length Y) by congruence.
  assert (Li : length (icomb a b X Y) = length X).
  { unfold icomb. rewrite map_length, combine_length. lia. }
  rewrite Li. rewrite <- HL.
  apply ob_rows_linear; [assumption|].
  clear Li. subst h. revert Y HY FY HL. induction X as [|r X IH]; intros [|s Y] HY FY HL; simpl in *; try discriminate; constructor.
  - inversion FX; inversion FY; subst; congruence.
  - inversion FX; inversion FY; subst. apply IH; auto.
Qed.

(* each output row depends on the same input row only *)
Lemma ob_rows_nth dr h : forall X ri i, (i < length X)%nat ->
  nth i (ob_rowsR h ri dr X) [] = ob_rowR (h - (ri + i) - 1) dr (nth i X []).
Proof.
  unfold ob_rowsR.
  induction X as [|r X IH]; intros ri i Hi; simpl in *; [lia|].
  destruct i as [|i].
  - rewrite Nat.add_0_r. reflexivity.
  - rewrite IH by lia. do 2 f_equal. lia.
Qed.

Theorem onion_bordas_rowwise dr X i : (i < length X)%nat ->
  nth i (ob_imageR dr X) [] = ob_rowR (length X - i - 1) dr (nth i X []).
Proof. intros Hi. unfold ob_imageR, ob_image. fold ob_rowsR. rewrite ob_rows_nth by assumption. reflexivity. Qed.

End Tables.

(* when val2 does not depend on its second (row) index -- true of _init_abel, and checked on the tables of
   the running implementation in every correspondence case -- the row operator is the same for every row
   position and image height *)
Lemma peel_rv_indep val1 val2 (Hc : forall i j j', val2 i j = val2 i j') rv rv' n :
  forall l, peelR val1 val2 rv n l = peelR val1 val2 rv' n l.
Proof.
  unfold peelR. induction n as [|n IH]; intros [|x l]; simpl; auto.
  rewrite (Hc (S n) rv rv'). f_equal. apply IH.
Qed.

Theorem onion_bordas_row_of_any_image val1 val2 (Hc : forall i j j', val2 i j = val2 i j') dr X Y i j :
  (i < length X)%nat -> (j < length Y)%nat -> nth i X [] = nth j Y [] ->
  nth i (ob_imageR val1 val2 dr X) [] = nth j (ob_imageR val1 val2 dr Y) [].
Proof.
  intros Hi Hj E. rewrite !onion_bordas_rowwise by assumption. rewrite E.
  unfold ob_rowR, ob_row. fold (peelR val1 val2).
  rewrite (peel_rv_indep val1 val2 Hc (length X - i - 1) (length Y - j - 1)). reflexivity.
Qed.

(* inverse transform at pixel size dr = (transform at pixel size 1) / dr *)
Theorem onion_bordas_dr val1 val2 rv dr l : dr <> 0 ->
  ob_rowR val1 val2 rv dr l = scal (/ dr) (ob_rowR val1 val2 rv 1 l).
Proof.
  intros Hd. unfold ob_rowR, ob_row, scal. rewrite map_map. apply map_ext.
  intros v. unfold Rdiv. field. assumption.
Qed.

(* the model's only use of dr is the expression GENERATED from onion_bordas.py (gen/DrSites.v: ob_scale) *)
Lemma onion_bordas_scale_tied val1 val2 rv dr l :
  ob_rowR val1 val2 rv dr l =
  map (g_ob_scale dr) (rev (peelR val1 val2 rv (length l - 1) (rev l) ++
                            [last (peelR val1 val2 rv (length l - 1) (rev l)) 0])).
Proof. reflexivity. Qed.

Example onion_bordas_hypotheses_satisfiable :
  wfR 2 3 [[1; -2; 3]; [0; 5; -1]] /\ (forall i j j' : nat, (fun i _ => / INR (S i)) i j = (fun i _ => / INR (S i)) i j').
Proof. split; [split; [reflexivity|repeat constructor]|reflexivity]. Qed.

(* the model is not degenerate: a width-3 row with the tables val1[i,j] = i+j+1, val2 = 1, worked by hand
   (peel: 3/5, then rest = [-2/5; -4/5] and -2/15; last column duplicated; flipped; halved) *)
Example onion_bordas_model_nontrivial :
  ob_rowR (fun i j => INR i + INR j + 1) (fun _ _ => 1) 0 1 [1; 2; 3] = [-1/15; -1/15; 3/10].
Proof.
  unfold ob_rowR, ob_row. cbn [length rev app Nat.sub peel upd last map].
  cbn [INR]. repeat (f_equal; try (field; lra)); try lra.
Qed.
