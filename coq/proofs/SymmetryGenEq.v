(* SymmetryGenEq.v — the definitions regenerated from abel/tools/symmetry.py
   (coq/gen/SymmetryGen.v, produced by tools/translate/symmetry_src.py on every
   run) are equal to the hand-written model the theorems are stated about.
   If the source changes so that this no longer holds, this file stops
   compiling: a broken proof obligation. *)
From Coq Require Import List Arith Bool ZArith.
From PA Require Import base.Arr model.Symmetry gen.SymmetryGen.
Import ListNotations.

Lemma get_gen_eq (A : Type) (zero : A) (add : A -> A -> A) (divn : A -> nat -> A)
      (IM : list (list A)) (reorient : bool) (a : axis) (u : mask) (meth : smethod) :
  @get_quadrants_gen A zero add divn IM reorient a u meth = get_quadrants zero add divn IM reorient a u meth.
Proof.
  unfold get_quadrants_gen, get_quadrants, rejects, both_axes, is_fourier, is_average, ceil2.
  destruct meth, reorient, (ax_tuple a), (ax_has 0 a), (ax_has 1 a);
    repeat match goal with |- context [if ?c then _ else _] => destruct c end; reflexivity.
Qed.

Lemma put_gen_eq (A : Type) (Q : quads A) (n m : nat) (a : axis) :
  @put_quadrants_gen A Q n m a = put_quadrants Q n m a.
Proof.
  unfold put_quadrants_gen, put_quadrants. destruct Q as [[[Q0 Q1] Q2] Q3].
  destruct (ax_has 0 a), (ax_has 1 a), (Nat.eqb (n mod 2) 1), (Nat.eqb (m mod 2) 1); reflexivity.
Qed.
