(* proofs/C09Daun3.v — daun degree 3: the generated Hermite value / derivative
   projections daun_p3, daun_q3 are the Abel transforms of herm_p, herm_q.
   (The clamped-spline combination of both, solve_banded in _bs_daun, is not
   modelled: it is covered by the correspondence and the quadrature sweep.) *)
From Coq Require Import Reals ZArith Bool Lra Lia Psatz.
From Coquelicot Require Import Coquelicot.
From PA Require Import model.Abel proofs.AbelLemmas proofs.C09Daun proofs.C09Daun2 gen.FormulasBasis.
Open Scope R_scope.

(* int rho^3 dy = (y rho^3 + 3 x^2 int rho dy) / 4 *)
Definition Ch (x y : R) : R :=
  (y * (sqrt (x * x + y * y) * sqrt (x * x + y * y) * sqrt (x * x + y * y)) + 3 * (x * x) * Gh x y) / 4.

Lemma Ch_derive x y : 0 < x ->
  is_derive (Ch x) y (sqrt (x * x + y * y) * sqrt (x * x + y * y) * sqrt (x * x + y * y)).
Proof.
  intros Hx. unfold Ch, Gh.
  pose proof (hyp_pos x y Hx) as Hs. pose proof (y_plus_hyp_pos x y Hx) as Hp.
  pose proof (hyp_sq x y) as Hq.
  assert (Hsq : 0 < x * x + y * y) by (rewrite <- Hq; apply Rmult_lt_0_compat; auto).
  auto_derive.
  - repeat split; auto.
  - set (s := sqrt (x * x + y * y)) in *.
    field_simplify_eq; [ring [Hq] | repeat split; lra].
Qed.

Lemma hyp3_continuous x y :
  continuous (fun y => sqrt (x * x + y * y) * sqrt (x * x + y * y) * sqrt (x * x + y * y)) y.
Proof.
  apply (continuous_mult (fun y => sqrt (x * x + y * y) * sqrt (x * x + y * y)) (fun y => sqrt (x * x + y * y))).
  - apply (continuous_mult (fun y => sqrt (x * x + y * y)) (fun y => sqrt (x * x + y * y))); apply hyp_continuous.
  - apply hyp_continuous.
Qed.

Lemma Ch0 y : 0 <= y -> Ch 0 y = y * y * y * y / 4.
Proof. intros; unfold Ch. rewrite Gh0 by auto. rewrite hyp0 by auto. field. Qed.

Lemma RInt_hyp3 x a b : 0 <= x -> 0 <= a -> a <= b ->
  is_RInt (fun y => sqrt (x * x + y * y) * sqrt (x * x + y * y) * sqrt (x * x + y * y)) a b (Ch x b - Ch x a).
Proof.
  intros Hx Ha Hab. destruct (Rle_lt_or_eq_dec 0 x Hx) as [H|H].
  - apply (is_RInt_derive (Ch x)).
    + intros y _. apply Ch_derive; auto.
    + intros y _. apply hyp3_continuous.
  - subst x. rewrite !Ch0 by lra.
    apply (is_RInt_ext (fun y => y * y * y)).
    + intros y Hy. rewrite Rmin_left, Rmax_right in Hy by lra. rewrite hyp0; lra.
    + apply (is_RInt_derive (fun y => y * y * y * y / 4) (fun y => y * y * y)).
      * intros y _. auto_derive; auto. field.
      * intros y _. apply continuity_pt_filterlim. reg.
Qed.

(* a piece on which the integrand is a cubic polynomial of rho *)
Lemma is_RInt_cubic_piece (f : R -> R) x a b al be ga de : 0 <= x -> 0 <= a -> a <= b ->
  (forall y, a < y < b ->
     f y = al + be * sqrt (x * x + y * y) + ga * (sqrt (x * x + y * y) * sqrt (x * x + y * y))
           + de * (sqrt (x * x + y * y) * sqrt (x * x + y * y) * sqrt (x * x + y * y))) ->
  is_RInt f a b ((b - a) * al + be * (Gh x b - Gh x a) + ga * (Kh x b - Kh x a) + de * (Ch x b - Ch x a)).
Proof.
  intros Hx Ha Hab H.
  apply (is_RInt_ext (fun y => (al + be * sqrt (x * x + y * y) + ga * (sqrt (x * x + y * y) * sqrt (x * x + y * y)))
                               + de * (sqrt (x * x + y * y) * sqrt (x * x + y * y) * sqrt (x * x + y * y)))).
  - intros y Hy. rewrite Rmin_left, Rmax_right in Hy by lra. symmetry; auto.
  - apply (is_RInt_plus (fun y => al + be * sqrt (x * x + y * y) + ga * (sqrt (x * x + y * y) * sqrt (x * x + y * y)))
                        (fun y => de * (sqrt (x * x + y * y) * sqrt (x * x + y * y) * sqrt (x * x + y * y)))).
    + apply is_RInt_quad_piece; auto.
    + apply (is_RInt_scal (fun y => sqrt (x * x + y * y) * sqrt (x * x + y * y) * sqrt (x * x + y * y)) a b de).
      apply RInt_hyp3; auto.
Qed.

(* the primitive the code calls P(R, a, b, c, d) (daun.py degree 3), extended to
   Rc <= x by its limit value *)
Definition Pt3 (Rc a b c d x : R) : R :=
  if Rlt_dec x Rc
  then sqrt (Rc ^ 2 - x ^ 2) * (a * 2 + (b + (c * 2 / 3 + d * Rc / 2) * Rc) * Rc + (d * 3 / 4 * Rc + c * 4 / 3) * x ^ 2)
       + (b + d * 3 / 4 * x ^ 2) * x ^ 2 * ln (sqrt (Rc ^ 2 - x ^ 2) + Rc)
  else (b + d * 3 / 4 * x ^ 2) * x ^ 2 * ln x.

Lemma Pt3_eq x Rc a b c d : 0 <= x ->
  2 * (a * ylos x Rc + b * Gh x (ylos x Rc) + c * Kh x (ylos x Rc) + d * Ch x (ylos x Rc)) = Pt3 Rc a b c d x.
Proof.
  intros Hx. unfold Pt3, Ch, Gh, Kh. rewrite hyp_at_ylos by auto.
  destruct (Rlt_dec x Rc) as [L|L].
  - pose proof (ylos_sq x Rc Hx) as Hq. rewrite Rmax_left in Hq by lra.
    rewrite Rmax_left by lra. rewrite <- ylos_pow by lra.
    remember (ylos x Rc) as Y.
    assert (E : Y * Y * Y = Y * (Rc * Rc - x * x)) by (rewrite <- Hq; ring).
    rewrite E. field.
  - rewrite ylos_below by lra. rewrite Rmax_right by lra. rewrite Rplus_0_l. field.
Qed.

Definition cubic (a b c d s : R) : R := a + b * s + c * (s * s) + d * (s * s * s).

Definition two_cubic_value (x cc a1 b1 c1 d1 a2 b2 c2 d2 : R) : R :=
  ((ylos x (cc - 1) - 0) * 0
   + ((ylos x cc - ylos x (cc - 1)) * a1 + b1 * (Gh x (ylos x cc) - Gh x (ylos x (cc - 1)))
      + c1 * (Kh x (ylos x cc) - Kh x (ylos x (cc - 1))) + d1 * (Ch x (ylos x cc) - Ch x (ylos x (cc - 1)))))
  + ((ylos x (cc + 1) - ylos x cc) * a2 + b2 * (Gh x (ylos x (cc + 1)) - Gh x (ylos x cc))
     + c2 * (Kh x (ylos x (cc + 1)) - Kh x (ylos x cc)) + d2 * (Ch x (ylos x (cc + 1)) - Ch x (ylos x cc))).

(* a function made of two cubic pieces on [c-1,c] and [c,c+1], zero outside *)
Lemma two_cubic_is_RInt (f : R -> R) cc x a1 b1 c1 d1 a2 b2 c2 d2 : 0 <= x -> 0 <= cc ->
  (forall s, s <= cc - 1 -> f s = 0) ->
  (forall s, cc - 1 <= s <= cc -> f s = cubic a1 b1 c1 d1 s) ->
  (forall s, cc <= s <= cc + 1 -> f s = cubic a2 b2 c2 d2 s) ->
  is_RInt (fun y => f (sqrt (x * x + y * y))) 0 (ylos x (cc + 1)) (two_cubic_value x cc a1 b1 c1 d1 a2 b2 c2 d2).
Proof.
  intros Hx Hc Hz Hlo Hup. unfold two_cubic_value.
  pose proof (ylos_nonneg x (cc - 1)) as H0.
  pose proof (ylos_mono x (cc - 1) cc Hx ltac:(lra)) as H1.
  pose proof (ylos_mono x cc (cc + 1) Hx ltac:(lra)) as H2.
  apply (is_RInt_Chasles_R _ 0 (ylos x cc) (ylos x (cc + 1))).
  apply (is_RInt_Chasles_R _ 0 (ylos x (cc - 1)) (ylos x cc)).
  - apply is_RInt_const_ext; [lra|]. intros y Hy. apply Hz.
    assert (sqrt (x * x + y * y) < cc - 1) by (apply hyp_lt_ylos; lra). lra.
  - apply is_RInt_cubic_piece; try lra. intros y Hy. rewrite Hlo; [reflexivity|].
    assert (sqrt (x * x + y * y) < cc) by (apply hyp_lt_ylos; lra).
    assert (Rmax (cc - 1) x < sqrt (x * x + y * y)) by (apply hyp_gt_ylos; lra).
    pose proof (Rmax_l (cc - 1) x). lra.
  - apply is_RInt_cubic_piece; try lra. intros y Hy. rewrite Hup; [reflexivity|].
    assert (sqrt (x * x + y * y) < cc + 1) by (apply hyp_lt_ylos; lra).
    assert (Rmax cc x < sqrt (x * x + y * y)) by (apply hyp_gt_ylos; lra).
    pose proof (Rmax_l cc x). lra.
Qed.

Lemma Abel_two_cubic (f : R -> R) cc x a1 b1 c1 d1 a2 b2 c2 d2 : 0 <= x -> 0 <= cc ->
  (forall s, s <= cc - 1 -> f s = 0) ->
  (forall s, cc - 1 <= s <= cc -> f s = cubic a1 b1 c1 d1 s) ->
  (forall s, cc <= s <= cc + 1 -> f s = cubic a2 b2 c2 d2 s) ->
  Abel f (cc + 1) x =
    Pt3 (cc + 1) a2 b2 c2 d2 x + Pt3 cc (a1 - a2) (b1 - b2) (c1 - c2) (d1 - d2) x - Pt3 (cc - 1) a1 b1 c1 d1 x.
Proof.
  intros Hx Hc Hz Hlo Hup. unfold Abel. rewrite abel_upper by lra.
  rewrite <- !Pt3_eq by auto.
  rewrite (is_RInt_unique _ _ _ _ (two_cubic_is_RInt f cc x a1 b1 c1 d1 a2 b2 c2 d2 Hx Hc Hz Hlo Hup)).
  unfold two_cubic_value. ring.
Qed.

(* the Hermite pieces as cubic polynomials of the radius *)
Lemma herm_p_below c s : s <= c - 1 -> herm_p c s = 0.
Proof. intros; unfold herm_p. rewrite Rabs_left1 by lra. rewrite pos_nonpos by lra. ring. Qed.
Lemma herm_p_lo c s : c - 1 <= s <= c ->
  herm_p c s = cubic (c ^ 2 * (2 * c - 3) + 1) (-6 * c * (c - 1)) (3 * (2 * c - 1)) (-2) s.
Proof. intros; unfold herm_p, cubic. rewrite Rabs_left1 by lra. rewrite pos_nonneg by lra. ring. Qed.
Lemma herm_p_up c s : c <= s <= c + 1 ->
  herm_p c s = cubic (- c ^ 2 * (2 * c + 3) + 1) (6 * c * (c + 1)) (-3 * (2 * c + 1)) 2 s.
Proof. intros; unfold herm_p, cubic. rewrite Rabs_pos_eq by lra. rewrite pos_nonneg by lra. ring. Qed.

Lemma herm_q_below c s : s <= c - 1 -> herm_q c s = 0.
Proof. intros; unfold herm_q. rewrite Rabs_left1 by lra. rewrite pos_nonpos by lra. ring. Qed.
Lemma herm_q_lo c s : c - 1 <= s <= c ->
  herm_q c s = cubic (- c * (c * (c - 2) + 1)) (c * (3 * c - 4) + 1) (-3 * c + 2) 1 s.
Proof. intros; unfold herm_q, cubic. rewrite Rabs_left1 by lra. rewrite pos_nonneg by lra. ring. Qed.
Lemma herm_q_up c s : c <= s <= c + 1 ->
  herm_q c s = cubic (- c * (c * (c + 2) + 1)) (c * (3 * c + 4) + 1) (-3 * c - 2) 1 s.
Proof. intros; unfold herm_q, cubic. rewrite Rabs_pos_eq by lra. rewrite pos_nonneg by lra. ring. Qed.

Lemma Abel_herm_p x c : 0 <= x -> 0 <= c ->
  Abel (herm_p c) (c + 1) x =
    Pt3 (c + 1) (- c ^ 2 * (2 * c + 3) + 1) (6 * c * (c + 1)) (-3 * (2 * c + 1)) 2 x
  + Pt3 c (4 * c ^ 3) (-12 * c ^ 2) (12 * c) (-4) x
  - Pt3 (c - 1) (c ^ 2 * (2 * c - 3) + 1) (-6 * c * (c - 1)) (3 * (2 * c - 1)) (-2) x.
Proof.
  intros Hx Hc.
  rewrite (Abel_two_cubic (herm_p c) c x _ _ _ _ _ _ _ _ Hx Hc (herm_p_below c) (herm_p_lo c) (herm_p_up c)).
  f_equal. f_equal. f_equal; ring.
Qed.

Lemma Abel_herm_q x c : 0 <= x -> 0 <= c ->
  Abel (herm_q c) (c + 1) x =
    Pt3 (c + 1) (- c * (c * (c + 2) + 1)) (c * (3 * c + 4) + 1) (-3 * c - 2) 1 x
  + Pt3 c (4 * c ^ 2) (-8 * c) 4 0 x
  - Pt3 (c - 1) (- c * (c * (c - 2) + 1)) (c * (3 * c - 4) + 1) (-3 * c + 2) 1 x.
Proof.
  intros Hx Hc.
  rewrite (Abel_two_cubic (herm_q c) c x _ _ _ _ _ _ _ _ Hx Hc (herm_q_below c) (herm_q_lo c) (herm_q_up c)).
  f_equal. f_equal. f_equal; ring.
Qed.

Lemma Pt3_above x Rc a b c d : x < Rc ->
  Pt3 Rc a b c d x =
    sqrt (Rc ^ 2 - x ^ 2) * (a * 2 + (b + (c * 2 / 3 + d * Rc / 2) * Rc) * Rc + (d * 3 / 4 * Rc + c * 4 / 3) * x ^ 2)
    + (b + d * 3 / 4 * x ^ 2) * x ^ 2 * ln (sqrt (Rc ^ 2 - x ^ 2) + Rc).
Proof. intros; unfold Pt3. destruct (Rlt_dec x Rc); [reflexivity|lra]. Qed.
Lemma Pt3_below x Rc a b c d : Rc <= x -> Pt3 Rc a b c d x = (b + d * 3 / 4 * x ^ 2) * x ^ 2 * ln x.
Proof. intros; unfold Pt3. destruct (Rlt_dec x Rc); [lra|reflexivity]. Qed.

Ltac pt3_close j :=
  repeat (first [rewrite Pt3_above by lra | rewrite Pt3_below by lra]);
  first [ field
        | (assert (E : IZR j = 0) by lra); rewrite E; field
        | (assert (E : IZR j - 1 = 0) by lra); rewrite E; field ].

Lemma daun3p_entry (i j : Z) : (0 <= i)%Z -> (0 <= j)%Z ->
  daun_p3 j i = Abel (herm_p (IZR j)) (IZR j + 1) (IZR i).
Proof.
  intros Hi Hj.
  assert (Hx : 0 <= IZR i) by (apply IZR_le; lia).
  assert (Hc : 0 <= IZR j) by (apply IZR_le; lia).
  rewrite Abel_herm_p by assumption.
  unfold daun_p3.
  destruct (Z_lt_le_dec i (j - 1)) as [A|A]; [|destruct (Z.eq_dec i (j - 1)) as [B|B];
     [|destruct (Z.eq_dec i j) as [C|C]]].
  - zconds; z2r; pt3_close j.
  - subst i. zconds; z2r; pt3_close j.
  - subst i. zconds; z2r; pt3_close j.
  - zconds; z2r; pt3_close j.
Qed.

Lemma daun3q_entry (i j : Z) : (0 <= i)%Z -> (0 <= j)%Z ->
  daun_q3 j i = Abel (herm_q (IZR j)) (IZR j + 1) (IZR i).
Proof.
  intros Hi Hj.
  assert (Hx : 0 <= IZR i) by (apply IZR_le; lia).
  assert (Hc : 0 <= IZR j) by (apply IZR_le; lia).
  rewrite Abel_herm_q by assumption.
  unfold daun_q3.
  destruct (Z_lt_le_dec i (j - 1)) as [A|A]; [|destruct (Z.eq_dec i (j - 1)) as [B|B];
     [|destruct (Z.eq_dec i j) as [C|C]]].
  - zconds; z2r; pt3_close j.
  - subst i. zconds; z2r; pt3_close j.
  - subst i. zconds; z2r; pt3_close j.
  - zconds; z2r; pt3_close j.
Qed.

(* is_RInt forms (for linear combinations, proofs/ExactOnSpan.v) *)
Lemma herm_p_is_RInt x c : 0 <= x -> 0 <= c -> exists V,
  is_RInt (fun y => herm_p c (sqrt (x * x + y * y))) 0 (ylos x (c + 1)) V.
Proof.
  intros Hx Hc. eexists. apply (two_cubic_is_RInt (herm_p c) c x _ _ _ _ _ _ _ _ Hx Hc (herm_p_below c) (herm_p_lo c) (herm_p_up c)).
Qed.
Lemma herm_q_is_RInt x c : 0 <= x -> 0 <= c -> exists V,
  is_RInt (fun y => herm_q c (sqrt (x * x + y * y))) 0 (ylos x (c + 1)) V.
Proof.
  intros Hx Hc. eexists. apply (two_cubic_is_RInt (herm_q c) c x _ _ _ _ _ _ _ _ Hx Hc (herm_q_below c) (herm_q_lo c) (herm_q_up c)).
Qed.
Lemma herm_p_beyond c s : c + 1 <= s -> herm_p c s = 0.
Proof. intros; unfold herm_p. rewrite Rabs_pos_eq by lra. rewrite pos_nonpos by lra. ring. Qed.
Lemma herm_q_beyond c s : c + 1 <= s -> herm_q c s = 0.
Proof. intros; unfold herm_q. rewrite Rabs_pos_eq by lra. rewrite pos_nonpos by lra. ring. Qed.
