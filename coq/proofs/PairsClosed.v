(* PairsClosed.v — closed form of the Abel transform of one or two polynomial
   pieces in terms of end-point values (from the C10 line-of-sight theorem), and
   the pair theorems for the translated Chan-Hieftje profiles 1, 2, 3, 5, 7
   (gen/FormulasPairs.v): projection = Abel(source) for every r in range. *)
From Coq Require Import Reals List Arith Bool ZArith QArith Qreals Lia Lra Psatz.
From Coquelicot Require Import Coquelicot.
From PA Require Import model.Poly model.AbelPoly proofs.AbelPolyAlg proofs.AbelPolyInt proofs.PolyTop proofs.PolyPiecewise gen.FormulasPairs.
Import ListNotations.
Open Scope R_scope.

(* closed form of the Abel transform of one polynomial piece, in terms of the
   end-point values only *)
Fixpoint PB (c : list R) (k0 : nat) (x y r : R) : R :=
  match c with [] => 0 | a :: c' => a * BB k0 x y r + PB c' (S k0) x y r end.

Lemma PA_PB : forall c k0 x y, PA c k0 x y = PB c k0 x y (rr x y).
Proof. induction c; intros; simpl; auto. rewrite IHc. reflexivity. Qed.

Lemma rr_ylim : forall x rm, 0 <= x -> 0 <= rm -> rr x (ylim rm x) = Rmax rm x.
Proof. intros. apply rr_lo; auto. Qed.

Section Piece.
Variables (F : R -> R) (c : list R) (rmin rmax Rm x : R).
Hypothesis Hx : 0 <= x.
Hypothesis Hr : 0 <= rmin /\ rmin <= rmax /\ rmax <= Rm.
Hypothesis Fin : forall r, rmin < r < rmax -> F r = pevalR c r.
Hypothesis Flo : forall r, 0 <= r < rmin -> F r = 0.
Hypothesis Fhi : forall r, rmax < r < Rm -> F r = 0.

Theorem piece_closed :
  Abel F Rm x = 2 * (PB c 0 x (ylim rmax x) (Rmax rmax x) - PB c 0 x (ylim rmin x) (Rmax rmin x)).
Proof.
  rewrite (los_Abel F c rmin rmax Rm x Hx Hr Fin Flo Fhi).
  rewrite !PA_PB, !rr_ylim by lra. reflexivity.
Qed.

Lemma piece_ex_RInt : ex_RInt (los F x) 0 (sqrt (Rm * Rm - x * x)).
Proof. eexists. apply (los_RInt F c rmin rmax Rm x Hx Hr Fin Flo Fhi). Qed.
End Piece.

Lemma ylim_0 : forall x, ylim 0 x = 0.
Proof. intros. unfold ylim. apply sqrt_neg_0. nra. Qed.

Lemma ln_quot : forall a b, 0 < a -> 0 < b -> ln (a / b) = ln a - ln b.
Proof. intros. apply ln_div; auto. Qed.

Lemma a1_pos : forall x, 0 <= x < 1 -> 0 < sqrt (1 * 1 - x * x).
Proof. intros. apply sqrt_lt_R0. nra. Qed.

(* ---- profile 5: constant ---- *)
Theorem profile5_pair : forall x, 0 <= x < 1 -> prof5_proj x = Abel prof5_source 1 x.
Proof.
  intros x Hx. rewrite (piece_closed prof5_source [1] 0 1 1 x); try lra.
  - rewrite ylim_0, Rmax_left by lra. unfold prof5_proj, ylim. cbn [PB BB]. ring.
  - intros. unfold prof5_source, pevalR. cbn [peval]. ring.
  - intros. lra.
  - intros. lra.
Qed.

(* ---- profile 2: 1 - 3 r^2 + 2 r^3 ---- *)
Theorem profile2_pair : forall x, 0 < x < 1 -> prof2_proj x = Abel prof2_source 1 x.
Proof.
  intros x Hx. rewrite (piece_closed prof2_source [1; 0; -3; 2] 0 1 1 x); try lra.
  - rewrite ylim_0, Rmax_left, Rmax_right by lra. unfold prof2_proj, ylim.
    pose proof (a1_pos x ltac:(lra)) as Ha.
    set (a1 := sqrt (1 * 1 - x * x)) in *.
    rewrite ln_quot by lra.
    cbn [PB BB Nat.add]. simpl INR. rewrite (Rplus_comm 1 a1), Rplus_0_l. field.
  - intros. unfold prof2_source, pevalR. cbn [peval]. ring.
  - intros. lra.
  - intros. lra.
Qed.

(* ---- profile 7: (1 + 10 r^2 - 23 r^4 + 12 r^6)/2 ---- *)
Theorem profile7_pair : forall x, 0 <= x < 1 -> prof7_proj x = Abel prof7_source 1 x.
Proof.
  intros x Hx. rewrite (piece_closed prof7_source [1/2; 0; 5; 0; -23/2; 0; 6] 0 1 1 x); try lra.
  - rewrite ylim_0, Rmax_left by lra. unfold prof7_proj, ylim.
    set (a1 := sqrt (1 * 1 - x * x)) in *.
    cbn [PB BB Nat.add]. simpl INR. field.
  - intros. unfold prof7_source, pevalR. cbn [peval]. field.
  - intros. lra.
  - intros. lra.
Qed.

Lemma Abel_ext : forall F G Rm x, (forall r, F r = G r) -> Abel F Rm x = Abel G Rm x.
Proof. intros. unfold Abel. f_equal. apply RInt_ext. intros. apply H. Qed.

Section TwoPieces.
Variables (F : R -> R) (c1 c2 : list R) (b x : R).
Hypothesis Hb : 0 < b < 1.
Hypothesis Hx : 0 <= x.
Hypothesis F1 : forall r, 0 < r < b -> F r = pevalR c1 r.
Hypothesis F2 : forall r, b < r < 1 -> F r = pevalR c2 r.

Let G1 (r : R) : R := if Rlt_dec r b then F r else 0.
Let G2 (r : R) : R := if Rlt_dec r b then 0 else F r.

Theorem two_piece_closed :
  Abel F 1 x =
  2 * (PB c1 0 x (ylim b x) (Rmax b x) - PB c1 0 x (ylim 0 x) (Rmax 0 x)) +
  2 * (PB c2 0 x (ylim 1 x) (Rmax 1 x) - PB c2 0 x (ylim b x) (Rmax b x)).
Proof.
  assert (A1 : forall r, 0 < r < b -> G1 r = pevalR c1 r).
  { intros. unfold G1. destruct (Rlt_dec r b); [auto | lra]. }
  assert (B1 : forall r, 0 <= r < 0 -> G1 r = 0) by (intros; lra).
  assert (C1 : forall r, b < r < 1 -> G1 r = 0).
  { intros. unfold G1. destruct (Rlt_dec r b); [lra | auto]. }
  assert (A2 : forall r, b < r < 1 -> G2 r = pevalR c2 r).
  { intros. unfold G2. destruct (Rlt_dec r b); [lra | auto]. }
  assert (B2 : forall r, 0 <= r < b -> G2 r = 0).
  { intros. unfold G2. destruct (Rlt_dec r b); [auto | lra]. }
  assert (C2 : forall r, 1 < r < 1 -> G2 r = 0) by (intros; lra).
  rewrite (Abel_ext F (fun r => G1 r + G2 r)).
  2:{ intros. unfold G1, G2. destruct (Rlt_dec r b); ring. }
  rewrite Abel_plus.
  - rewrite (piece_closed G1 c1 0 b 1 x Hx ltac:(lra) A1 B1 C1).
    rewrite (piece_closed G2 c2 b 1 1 x Hx ltac:(lra) A2 B2 C2). reflexivity.
  - apply (piece_ex_RInt G1 c1 0 b 1 x Hx ltac:(lra) A1 B1 C1).
  - apply (piece_ex_RInt G2 c2 b 1 1 x Hx ltac:(lra) A2 B2 C2).
Qed.
End TwoPieces.

Lemma ylim_above : forall b x, 0 <= b <= x -> ylim b x = 0.
Proof. intros. unfold ylim. apply sqrt_neg_0. nra. Qed.

Lemma ab_pos : forall b x, 0 <= x < b -> 0 < sqrt (b * b - x * x).
Proof. intros. apply sqrt_lt_R0. nra. Qed.

(* ---- profile 3: 1 - 2 r^2 on [0, 1/2], 2 (1 - r)^2 on (1/2, 1] ---- *)
Lemma prof3_src1 : forall r, 0 < r < 1 / 2 -> prof3_source r = pevalR [1; 0; -2] r.
Proof.
  intros. unfold prof3_source, prof3_brk. destruct (Rle_dec r (1 / 2)); [|lra].
  unfold prof3_source_l, pevalR. cbn [peval]. ring.
Qed.
Lemma prof3_src2 : forall r, 1 / 2 < r < 1 -> prof3_source r = pevalR [2; -4; 2] r.
Proof.
  intros. unfold prof3_source, prof3_brk. destruct (Rle_dec r (1 / 2)); [lra|].
  unfold prof3_source_r, pevalR. cbn [peval]. ring.
Qed.

Theorem profile3_pair : forall x, 0 < x < 1 -> prof3_proj x = Abel prof3_source 1 x.
Proof.
  intros x Hx.
  rewrite (two_piece_closed prof3_source [1; 0; -2] [2; -4; 2] (1 / 2) x ltac:(lra) ltac:(lra) prof3_src1 prof3_src2).
  rewrite ylim_0, (Rmax_right 0 x), (Rmax_left 1 x) by lra.
  pose proof (a1_pos x ltac:(lra)) as Ha.
  unfold prof3_proj, prof3_brk. destruct (Rle_dec x (1 / 2)) as [Hl|Hl].
  - rewrite (Rmax_left (1 / 2) x) by lra. unfold prof3_proj_l, ylim.
    assert (Hb : 0 <= sqrt (1 / 2 * (1 / 2) - x * x)) by apply sqrt_pos.
    set (a1 := sqrt (1 * 1 - x * x)) in *. set (a5 := sqrt (1 / 2 * (1 / 2) - x * x)) in *.
    rewrite ln_quot by lra.
    cbn [PB BB Nat.add]. simpl INR.
    rewrite (Rplus_comm 1 a1), (Rplus_comm (1 / 2) a5). field.
  - rewrite (ylim_above (1 / 2) x), (Rmax_right (1 / 2) x) by lra. unfold prof3_proj_r, ylim.
    set (a1 := sqrt (1 * 1 - x * x)) in *.
    rewrite ln_quot by lra.
    cbn [PB BB Nat.add]. simpl INR.
    rewrite (Rplus_comm 1 a1), Rplus_0_l. field.
Qed.

(* ---- profile 1: 3/4 + 12 r^2 - 32 r^3 on (0, 1/4], (16/27)(1 + 6r - 15r^2 + 8r^3) on (1/4, 1] ---- *)
Lemma prof1_src1 : forall r, 0 < r < 1 / 4 -> prof1_source r = pevalR [3 / 4; 0; 12; -32] r.
Proof.
  intros. unfold prof1_source, prof1_brk. destruct (Rle_dec r (1 / 4)); [|lra].
  unfold prof1_source_l, pevalR. cbn [peval]. ring.
Qed.
Lemma prof1_src2 : forall r, 1 / 4 < r < 1 ->
  prof1_source r = pevalR [16 / 27; 16 / 27 * 6; - (16 / 27 * 15); 16 / 27 * 8] r.
Proof.
  intros. unfold prof1_source, prof1_brk. destruct (Rle_dec r (1 / 4)); [lra|].
  unfold prof1_source_r, pevalR. cbn [peval]. field.
Qed.

Theorem profile1_pair : forall x, 0 < x < 1 -> prof1_proj x = Abel prof1_source 1 x.
Proof.
  intros x Hx.
  rewrite (two_piece_closed prof1_source _ _ (1 / 4) x ltac:(lra) ltac:(lra) prof1_src1 prof1_src2).
  rewrite ylim_0, (Rmax_right 0 x), (Rmax_left 1 x) by lra.
  pose proof (a1_pos x ltac:(lra)) as Ha.
  unfold prof1_proj, prof1_brk. destruct (Rle_dec x (1 / 4)) as [Hl|Hl].
  - rewrite (Rmax_left (1 / 4) x) by lra. unfold prof1_proj_l, ylim.
    assert (Hb : 0 <= sqrt (1 / 4 * (1 / 4) - x * x)) by apply sqrt_pos.
    set (a1 := sqrt (1 * 1 - x * x)) in *. set (a4 := sqrt (1 / 4 * (1 / 4) - x * x)) in *.
    rewrite !ln_quot by lra.
    cbn [PB BB Nat.add]. simpl INR.
    rewrite (Rplus_comm 1 a1), (Rplus_comm (1 / 4) a4), Rplus_0_l. field.
  - rewrite (ylim_above (1 / 4) x), (Rmax_right (1 / 4) x) by lra. unfold prof1_proj_r, ylim.
    set (a1 := sqrt (1 * 1 - x * x)) in *.
    rewrite ln_quot by lra.
    cbn [PB BB Nat.add]. simpl INR.
    rewrite (Rplus_comm 1 a1), Rplus_0_l. field.
Qed.
