(* C11Instances.v — per-instance machine-checked goals of C11 (Interval's
   `integral`), kept out of props/C11.v (see proofs/C10Instances.v). *)
From Coq Require Import Reals.
From Coquelicot Require Import Coquelicot.
From Interval Require Import Tactic.
From PA Require Import gen.FormulasPairs gen.Profile6Inst.
Open Scope R_scope.

(* profile 6 (not a polynomial): at r = 1/10, 2/5, 7/10, 9/10,
   |2 int_0^Y' source(sqrt(r^2+y^2)) dy - projection(r)| <= 1e-9, the integral
   truncated at radius 199/200 (the tail, < exp(-120), is not covered) *)
Theorem C11_profile6_pair_instances_partial : P6_all.
Proof. exact P6_all_ok. Qed.
Print Assumptions C11_profile6_pair_instances_partial.

(* 2 int_0^6 exp(-t^2) dt encloses sqrt(pi) (the tail beyond 6 is < 1e-16; the
   identity of the improper Gaussian integral with sqrt(pi) is trusted) *)
Theorem C11_gauss_integral_enclosure :
  Rabs (2 * RInt (fun t => exp (- (t * t))) 0 6 - sqrt PI) <= 1 / 1000000000000.
Proof. integral with (i_prec 60, i_fuel 400, i_degree 12). Qed.
Print Assumptions C11_gauss_integral_enclosure.
