(* CenterImage.v — shapes produced by the trimming step of center_image
   (center.py:137-162, model ci_trim): odd width for odd_size, square for
   square, for every input shape. *)
From Coq Require Import List Arith Lia Bool ZArith ZifyBool ZifyNat.
From PA Require Import base.Arr base.Px model.Center.
Import ListNotations.

Ltac Zify.zify_post_hook ::= Z.to_euclidean_division_equations.
Set Implicit Arguments.
Local Open Scope nat_scope.

(* length of a[s:e] on an axis of length n *)
Definition slen (n : nat) (s e : Z) : nat := snd (slice_bounds n s e).

Lemma even_mod2 n : Nat.even n = (n mod 2 =? 0).
Proof.
  destruct (Nat.even n) eqn:E.
  - apply Nat.even_spec in E. destruct E as [k ->]. symmetry. apply Nat.eqb_eq. lia.
  - assert (O : Nat.odd n = true) by (unfold Nat.odd; rewrite E; reflexivity).
    apply Nat.odd_spec in O. destruct O as [k ->]. symmetry. apply Nat.eqb_neq. lia.
Qed.

Section Slices.
  Variable X : Type.

  Lemma norm_idx_le n k : norm_idx n k <= n.
  Proof. unfold norm_idx. destruct (Z.ltb_spec k 0); lia. Qed.

  Lemma pyslice_length (l : list X) s e : length (pyslice s e l) = slen (length l) s e.
  Proof.
    unfold pyslice, slen, slice_bounds. cbn [snd].
    rewrite firstn_length, skipn_length.
    pose proof (norm_idx_le (length l) s). pose proof (norm_idx_le (length l) e). lia.
  Qed.

  Lemma pyslice_incl (l : list X) s e x : In x (pyslice s e l) -> In x l.
  Proof.
    unfold pyslice, slice_bounds. intros H.
    set (a := norm_idx (length l) s) in *. set (k := norm_idx (length l) e - a) in *.
    rewrite <- (firstn_skipn a l). apply in_or_app; right.
    rewrite <- (firstn_skipn k (skipn a l)). apply in_or_app; left. exact H.
  Qed.
End Slices.

Section Trim.
  Variable A : Type.
  Notation img := (list (list A)).

  Lemma wf_pyslice_rows n m (IM : img) s e : wf n m IM -> wf (slen n s e) m (pyslice s e IM).
  Proof.
    intros [H1 H2]. split.
    - rewrite pyslice_length, H1. reflexivity.
    - apply Forall_forall. intros r Hr. apply pyslice_incl in Hr.
      rewrite Forall_forall in H2. apply H2. exact Hr.
  Qed.

  Lemma wf_pyslice_cols n m (IM : img) s e : wf n m IM -> wf n (slen m s e) (map (pyslice s e) IM).
  Proof.
    intros H. apply wf_map with (m:=m); [|exact H].
    intros r Hr. rewrite pyslice_length, Hr. reflexivity.
  Qed.

  (* shape after trimming, following the statements of ci_trim *)
  Definition ci_shape (odd_size square : bool) (rows cols : nat) : nat * nat :=
    let cols1 := if odd_size && Nat.even cols then slen cols 0 (-1) else cols in
    if square && negb (Nat.eqb rows cols1) then
      if cols1 <? rows then
        let diff := rows - cols1 in
        let trim := diff / 2 in
        let rows1 := if 0 <? trim then slen rows (Z.of_nat trim) (- Z.of_nat trim) else rows in
        (if Nat.eqb (diff mod 2) 1 then slen rows1 0 (-1) else rows1, cols1)
      else
        let rows1 := if odd_size && Nat.even rows then slen rows 0 (-1) else rows in
        let rowsv := if odd_size && Nat.even rows then rows - 1 else rows in
        let xs := Z.of_nat ((cols1 - rowsv) / 2) in
        (rows1, slen cols1 xs (xs + Z.of_nat rowsv))
    else (rows, cols1).

  Lemma ncols_wf n m (IM : img) : wf n m IM -> 0 < n -> ncols IM = m.
  Proof. apply wf_ncols. Qed.

  Lemma ci_trim_wf odd_size square n m (IM : img) :
    wf n m IM -> 0 < n ->
    wf (fst (ci_shape odd_size square n m)) (snd (ci_shape odd_size square n m))
       (ci_trim odd_size square IM).
  Proof.
    intros Hwf Hn. unfold ci_trim, ci_shape. cbv zeta.
    rewrite (wf_ncols Hwf Hn).
    set (c1 := odd_size && Nat.even m).
    set (IM1 := if c1 then map (pyslice 0 (-1)) IM else IM).
    set (m1 := if c1 then slen m 0 (-1) else m).
    assert (W1 : wf n m1 IM1).
    { unfold IM1, m1. destruct c1; [apply wf_pyslice_cols|]; exact Hwf. }
    rewrite (wf_nrows W1), (wf_ncols W1 Hn).
    destruct (square && negb (n =? m1)); [|exact W1].
    destruct (m1 <? n).
    - set (trim := (n - m1) / 2).
      set (IM2 := if 0 <? trim then pyslice (Z.of_nat trim) (- Z.of_nat trim) IM1 else IM1).
      set (n2 := if 0 <? trim then slen n (Z.of_nat trim) (- Z.of_nat trim) else n).
      assert (W2 : wf n2 m1 IM2).
      { unfold IM2, n2. destruct (0 <? trim); [apply wf_pyslice_rows|]; exact W1. }
      destruct ((n - m1) mod 2 =? 1); cbn [fst snd]; [apply wf_pyslice_rows|]; exact W2.
    - set (c2 := odd_size && Nat.even n).
      destruct c2; cbn [fst snd].
      + apply wf_pyslice_cols. apply wf_pyslice_rows. exact W1.
      + apply wf_pyslice_cols. exact W1.
  Qed.

  Lemma slen_droplast n : slen n 0 (-1) = n - 1.
  Proof. unfold slen, slice_bounds, norm_idx. cbn [snd]. cbn [Z.ltb Z.compare]. lia. Qed.

  Lemma slen_sym n t : slen n (Z.of_nat t) (- Z.of_nat t) = if t =? 0 then 0 else (n - t) - Nat.min n t.
  Proof.
    unfold slen, slice_bounds, norm_idx. cbn [snd].
    destruct (Nat.eqb_spec t 0) as [->|Ht].
    - cbn. lia.
    - destruct (Z.ltb_spec (Z.of_nat t) 0); destruct (Z.ltb_spec (- Z.of_nat t) 0); lia.
  Qed.

  Lemma slen_block n x r : slen n (Z.of_nat x) (Z.of_nat x + Z.of_nat r) = Nat.min n (x + r) - Nat.min n x.
  Proof.
    unfold slen, slice_bounds, norm_idx. cbn [snd].
    destruct (Z.ltb_spec (Z.of_nat x) 0); destruct (Z.ltb_spec (Z.of_nat x + Z.of_nat r) 0); lia.
  Qed.

  Ltac shape_tac :=
    unfold ci_shape; cbn [andb negb]; rewrite ?even_mod2, ?slen_droplast;
    repeat match goal with
           | |- context [if ?a <? ?b then _ else _] => destruct (Nat.ltb_spec a b)
           | |- context [if ?a =? ?b then _ else _] => destruct (Nat.eqb_spec a b)
           | |- context [negb (?a =? ?b)] => destruct (Nat.eqb_spec a b)
           end; cbn [fst snd andb negb]; rewrite ?slen_droplast, ?slen_sym, ?slen_block;
    repeat match goal with
           | |- context [if ?a =? ?b then _ else _] => destruct (Nat.eqb_spec a b)
           end; cbn [fst snd]; try lia.

  (* odd_size: the width is odd, whatever square, for every shape *)
  Lemma ci_shape_odd square n m : 0 < n -> 0 < m ->
    snd (ci_shape true square n m) mod 2 = 1 /\ 0 < fst (ci_shape true square n m).
  Proof. intros Hn Hm. destruct square; shape_tac. Qed.

  (* square: a square image for every shape and both values of odd_size *)
  Lemma ci_shape_square odd_size n m : 0 < n -> 0 < m ->
    fst (ci_shape odd_size true n m) = snd (ci_shape odd_size true n m) /\
    0 < fst (ci_shape odd_size true n m).
  Proof. intros Hn Hm. destruct odd_size; shape_tac. Qed.
End Trim.

(* the two shapes on which the code before commit 8e8ce4b returned (4, 0) and
   (3, 4) *)
Lemma ci_trim_fixed_examples :
  ci_trim false true (repeat [1; 2; 3; 4; 5] 4) = repeat [1; 2; 3; 4] 4 /\
  ci_trim false true (repeat [1; 2; 3; 4; 5; 6] 3) = repeat [2; 3; 4] 3.
Proof. split; reflexivity. Qed.
