(* DirGuardsEq.v — the direction guards extracted from the current source
   (coq/gen/DirGuards.v, by tools/translate/dir_guards.py on every run) are what
   model/Dispatch.v assumes: a request raises on direction grounds exactly when
   the (method, direction) pair is not implemented. *)
From Coq Require Import Bool.
From PA Require Import model.Dispatch gen.DirGuards.

Lemma fn_dir_guards_eq : forall m d, fn_dir_raises m d = negb (implemented m d).
Proof. intros [] []; reflexivity. Qed.

Lemma tr_dir_guards_eq : forall m d, tr_dir_raises m d = negb (implemented m d).
Proof. intros [] []; reflexivity. Qed.

(* ... and the model's outcome on a fine shape without option deviations agrees *)
Lemma model_dir_guards : forall v m d,
  outcome_of {| r_via := v; r_meth := m; r_dir := d; r_shape := Fine; r_opt := NoOpt |} =
  if (match v with Fn => fn_dir_raises m d | Tr => tr_dir_raises m d end) then Raise else Performs m d.
Proof. intros [] [] []; reflexivity. Qed.

(* ---- shape guards ---------------------------------------------------------
   fn_shape_raises / tr_shape_raises are the `if <test on rows, cols>: raise`
   statements of the transform functions and of Transform._verify_some_inputs,
   evaluated by the translator on the dimensions of every shape class. *)
Definition is_raise (o : outcome) : bool := match o with Raise => true | _ => false end.

(* on every shape class that is part of the request space for the method, the
   function raises on shape grounds exactly when the model says so *)
Lemma fn_shape_guards_eq : forall m sh,
  shape_applies Fn m sh = true ->
  fn_shape_raises m sh = is_raise (fn_outcome m Inverse sh NoOpt).
Proof. intros [] []; cbn; intros H; try reflexivity; discriminate H. Qed.

(* Transform rejects 1-D data and images of at most two rows before anything
   else, for every method and direction, and no other shape class *)
Lemma tr_shape_guards_eq : forall sh,
  tr_shape_raises sh = match sh with OneD | TwoRows => true | _ => false end.
Proof. intros []; reflexivity. Qed.

Lemma model_tr_shape_guards : forall m d o sh,
  tr_shape_raises sh = true -> tr_outcome m d sh o = Raise.
Proof. intros m d o []; cbn; intros H; try discriminate H; reflexivity. Qed.

(* a shape that passes Transform's own guard is judged by the function's guard *)
Lemma model_tr_then_fn_shape : forall m sh,
  shape_applies Tr m sh = true -> tr_shape_raises sh = false ->
  is_raise (tr_outcome m Inverse sh NoOpt) = is_raise (fn_outcome m Inverse sh NoOpt).
Proof. intros [] []; cbn; intros H1 H2; try reflexivity; try discriminate H1; discriminate H2. Qed.
