(* DirGuardsEq.v — the direction guards extracted from the current source
   (coq/gen/DirGuards.v, by tools/translate/dir_guards.py on every run) are what
   model/Dispatch.v assumes: a request raises on direction grounds exactly when
   the (method, direction) pair is not implemented. *)
From Coq Require Import Bool.
From PA Require Import model.Dispatch gen.DirGuards.

Lemma fn_dir_guards_eq : forall m d, fn_dir_raises m d = negb (implemented m d).
Proof. intros [] []; reflexivity. Qed.

Lemma tr_dir_guards_eq : forall m d, tr_dir_raises m d = negb (implemented m d).
Proof. intros [] []; reflexivity. Qed.

(* ... and the model's outcome on a fine shape without option deviations agrees *)
Lemma model_dir_guards : forall v m d,
  outcome_of {| r_via := v; r_meth := m; r_dir := d; r_shape := Fine; r_opt := NoOpt |} =
  if (match v with Fn => fn_dir_raises m d | Tr => tr_dir_raises m d end) then Raise else Performs m d.
Proof. intros [] [] []; reflexivity. Qed.
