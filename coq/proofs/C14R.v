(* C14R.v — statements of property C14 assembled from the lemmas of
   DistrGeomProofs.v, DistrFitProofs.v, VmiInvProofs.v. *)
From Coq Require Import List Arith Lia Bool ZArith Reals Lra.
From PA Require Import base.Arr base.Px base.MatL model.DistrGeom gen.VmiInv model.DistrFit
  proofs.VmiInvProofs proofs.DistrGeomProofs proofs.DistrFitProofs.
Import ListNotations.
Open Scope nat_scope.

(* whenever _precalc accepts its arguments and the origin is a pixel of the
   image, the geometry is quad_geom of the resolved origin and rmax *)
Lemma precalc_inside h w o rm order odd g :
  precalc h w o rm order odd = POk g ->
  exists row col rmax, row < h /\ col < w /\
    resolve_origin h w o = Some (Z.of_nat row, Z.of_nat col) /\
    g = quad_geom h w row col rmax (resolve_odd order odd) (nterms order odd).
Proof.
  unfold precalc. destruct (resolve_origin h w o) as [[r c]|]; [|discriminate].
  destruct ((r <? 0)%Z || (zn h <=? r)%Z || (c <? 0)%Z || (zn w <=? c)%Z) eqn:E; [discriminate|].
  destruct (resolve_rmax _ _ _ _ rm) as [k|]; [|discriminate].
  destruct (k <? 0)%Z eqn:Ek; [discriminate|].
  intros H. injection H as <-.
  apply orb_false_elim in E. destruct E as [E E4]. apply orb_false_elim in E. destruct E as [E E3].
  apply orb_false_elim in E. destruct E as [E1 E2]. unfold zn in *.
  exists (Z.to_nat r), (Z.to_nat c), (Z.to_nat k).
  apply Z.ltb_ge in E1, E3. apply Z.leb_gt in E2, E4.
  split; [lia|]. split; [lia|]. split; [|reflexivity].
  rewrite !Z2Nat.id by lia. reflexivity.
Qed.

Open Scope R_scope.

Definition fold_spec_even_R := fold_spec_even R 0 Rplus Rplus_0_l Rplus_0_r.
Definition fold_spec_odd_R := fold_spec_odd R 0 Rplus Rplus_0_l Rplus_0_r.
Definition wf_fold_image_R := wf_fold_image R 0 Rplus Rplus_0_l Rplus_0_r.

(* hypotheses of the pixel-level theorem are satisfiable: two pixels with
   different cos^2, unit weights, data 1 + 2x *)
Example exact_example :
  Forall (exact_px 1 2 0) [(1, 0, 1); (1, 1, 3)] /\ hdet 2 [(1, 0, 1); (1, 1, 3)] <> 0.
Proof.
  split.
  - repeat constructor; unfold exact_px; lra.
  - unfold hdet, det2m, det2. rewrite !momentR_cons.
    unfold momentR, moment. cbn [map]. rewrite sumR_nil. cbn [pow]. lra.
Qed.

(* ---- anisotropy parameter -------------------------------------------------------------- *)
(* I(theta) = A [1 + beta P2(cos theta)], sampled at abscissae x_k = cos(theta_k):
   the least-squares objective of the fit over (A', beta') *)
Definition P2 (x : R) : R := (3 * x * x - 1) / 2.
Definition pad (A beta x : R) : R := A * (1 + beta * P2 x).
Fixpoint sse (A beta A' beta' : R) (xs : list R) : R :=
  match xs with
  | [] => 0
  | x :: xs' => (pad A beta x - pad A' beta' x) ^ 2 + sse A beta A' beta' xs'
  end.

Lemma sse_nonneg A b A' b' xs : 0 <= sse A b A' b' xs.
Proof. induction xs as [|x xs IH]; cbn [sse]; [lra|]. pose proof (pow2_ge_0 (pad A b x - pad A' b' x)). lra. Qed.

Lemma sse_true A b xs : sse A b A b xs = 0.
Proof. induction xs as [|x xs IH]; cbn [sse]; [reflexivity|]. rewrite IH. ring. Qed.

Lemma sse_zero_in A b A' b' xs x : sse A b A' b' xs = 0 -> In x xs -> pad A b x = pad A' b' x.
Proof.
  induction xs as [|y xs IH]; cbn [sse In]; [tauto|]. intros H [->|Hx].
  - pose proof (sse_nonneg A b A' b' xs). pose proof (pow2_ge_0 (pad A b x - pad A' b' x)).
    assert (E : (pad A b x - pad A' b' x) ^ 2 = 0) by lra.
    cbn [pow] in E. rewrite Rmult_1_r in E. apply Rmult_integral in E. lra.
  - apply IH; [|exact Hx]. pose proof (sse_nonneg A b A' b' xs).
    pose proof (pow2_ge_0 (pad A b y - pad A' b' y)). lra.
Qed.

(* noiseless data on a grid with two different cos^2: the true (A, beta) is the
   unique global minimiser of the least-squares objective *)
Theorem beta_fit_unique A b xs x1 x2 :
  A <> 0 -> In x1 xs -> In x2 xs -> x1 * x1 <> x2 * x2 ->
  (forall A' b', sse A b A b xs <= sse A b A' b' xs) /\
  (forall A' b', sse A b A' b' xs <= sse A b A b xs -> A' = A /\ b' = b).
Proof.
  intros HA H1 H2 Hx. split.
  - intros A' b'. rewrite sse_true. apply sse_nonneg.
  - intros A' b' Hle. rewrite sse_true in Hle.
    assert (Z : sse A b A' b' xs = 0) by (pose proof (sse_nonneg A b A' b' xs); lra).
    pose proof (sse_zero_in _ _ _ _ _ _ Z H1) as E1. pose proof (sse_zero_in _ _ _ _ _ _ Z H2) as E2.
    unfold pad, P2 in E1, E2.
    assert (D : (A * b - A' * b') * (x1 * x1 - x2 * x2) = 0) by nra.
    apply Rmult_integral in D. destruct D as [D|D]; [|lra].
    assert (EA : A' = A) by nra. split; [exact EA|].
    subst A'. apply Rmult_eq_reg_l with (r := A); [lra|exact HA].
Qed.
