(* proofs/C09Dasch.v — the generated operator entries of abel/dasch.py
   (gen/FormulasBasis.v: two_point_D, three_point_D and the formulas J, I0,
   I0diag, I1, I1diag) equal the inverse-Abel integral of the method's
   interpolant of the unit data vector e_j, for every row i >= 1. *)
From Coq Require Import Reals ZArith Bool Lra Lia Psatz.
From Coquelicot Require Import Coquelicot.
From PA Require Import model.Abel proofs.AbelLemmas proofs.C09Daun gen.FormulasBasis.
Open Scope R_scope.

Lemma Lh_ylos x Rc : 0 < x -> x <= Rc -> Lh x (ylos x Rc) = ln (sqrt (Rc ^ 2 - x ^ 2) + Rc).
Proof.
  intros Hx H. unfold Lh. rewrite hyp_at_ylos by lra. rewrite Rmax_left by lra.
  rewrite ylos_pow by lra. reflexivity.
Qed.

Lemma Lh_0 x : 0 < x -> Lh x 0 = ln x.
Proof.
  intros Hx. unfold Lh. replace (x * x + 0 * 0) with (x * x) by ring.
  rewrite sqrt_square by lra. f_equal; ring.
Qed.

Lemma sqrt_plus_pos u c : 0 < c -> 0 < sqrt u + c.
Proof. intros; pose proof (sqrt_pos u); lra. Qed.

(* ---- inverse Abel transform of the two interpolants --------------------- *)
Lemma InvAbel_dhat x c : 0 < x -> 0 <= c ->
  InvAbel (dhat c) (c + 1) x =
  - / PI * ((Lh x (ylos x c) - Lh x (ylos x (c - 1))) - (Lh x (ylos x (c + 1)) - Lh x (ylos x c))).
Proof.
  intros Hx Hc. unfold InvAbel. rewrite abel_upper by lra. f_equal.
  pose proof (ylos_nonneg x (c - 1)) as H0.
  pose proof (ylos_mono x (c - 1) c ltac:(lra) ltac:(lra)) as H1.
  pose proof (ylos_mono x c (c + 1) ltac:(lra) ltac:(lra)) as H2.
  apply is_RInt_unique.
  replace (Lh x (ylos x c) - Lh x (ylos x (c - 1)) - (Lh x (ylos x (c + 1)) - Lh x (ylos x c)))
    with (((ylos x (c - 1) - 0) * 0
           + (1 * (Lh x (ylos x c) - Lh x (ylos x (c - 1))) + (ylos x c - ylos x (c - 1)) * 0))
          + ((-1) * (Lh x (ylos x (c + 1)) - Lh x (ylos x c)) + (ylos x (c + 1) - ylos x c) * 0)) by ring.
  apply (is_RInt_Chasles_R _ 0 (ylos x c) (ylos x (c + 1))).
  apply (is_RInt_Chasles_R _ 0 (ylos x (c - 1)) (ylos x c)).
  - apply is_RInt_const_ext; [lra|]. intros y Hy.
    assert (sqrt (x * x + y * y) < c - 1) by (apply hyp_lt_ylos; lra).
    unfold dhat. destruct (Rlt_dec (sqrt (x * x + y * y)) (c - 1)); [|lra]. unfold Rdiv; ring.
  - apply is_RInt_lin_over_piece; try lra. intros y Hy.
    assert (sqrt (x * x + y * y) < c) by (apply hyp_lt_ylos; lra).
    assert (Rmax (c - 1) x < sqrt (x * x + y * y)) by (apply hyp_gt_ylos; lra).
    pose proof (Rmax_l (c - 1) x).
    unfold dhat. destruct (Rlt_dec (sqrt (x * x + y * y)) (c - 1)); [lra|].
    destruct (Rlt_dec (sqrt (x * x + y * y)) c); [|lra]. f_equal; ring.
  - apply is_RInt_lin_over_piece; try lra. intros y Hy.
    assert (sqrt (x * x + y * y) < c + 1) by (apply hyp_lt_ylos; lra).
    assert (Rmax c x < sqrt (x * x + y * y)) by (apply hyp_gt_ylos; lra).
    pose proof (Rmax_l c x).
    unfold dhat. destruct (Rlt_dec (sqrt (x * x + y * y)) (c - 1)); [lra|].
    destruct (Rlt_dec (sqrt (x * x + y * y)) c); [lra|].
    destruct (Rlt_dec (sqrt (x * x + y * y)) (c + 1)); [|lra]. f_equal; ring.
Qed.

(* ---- two_point ---------------------------------------------------------- *)
Lemma J_Lh x c : 0 < x -> x <= c ->
  two_point_J x c = (Lh x (ylos x (c + 1)) - Lh x (ylos x c)) / PI.
Proof.
  intros Hx H. unfold two_point_J. rewrite 2!Lh_ylos by lra.
  replace (sqrt ((c + 1) ^ 2 - x ^ 2) + c + 1) with (sqrt ((c + 1) ^ 2 - x ^ 2) + (c + 1)) by ring.
  rewrite ln_div; [reflexivity| |]; apply sqrt_plus_pos; lra.
Qed.

Lemma two_point_entry (cols i j : Z) : (1 <= i < cols)%Z -> (0 <= j < cols)%Z ->
  two_point_D cols i j = InvAbel (dhat (IZR j)) (IZR j + 1) (IZR i).
Proof.
  intros Hi Hj.
  assert (Hx : 0 < IZR i) by (apply IZR_lt; lia).
  assert (Hc : 0 <= IZR j) by (apply IZR_le; lia).
  rewrite InvAbel_dhat by assumption.
  unfold two_point_D.
  destruct (Z_lt_le_dec j i) as [A|A]; [|destruct (Z.eq_dec i j) as [B|B]].
  - (* j < i : zero *) zconds; z2r;
    rewrite !ylos_below by lra; ring.
  - (* j = i *) subst j. zconds; z2r;
    rewrite J_Lh by lra; rewrite (ylos_below _ (IZR i - 1)), (ylos_below _ (IZR i)) by lra; field; apply PI_neq0.
  - (* j > i *) zconds; z2r;
    rewrite 2!J_Lh by lra; replace (IZR j - 1 + 1) with (IZR j) by ring; field; apply PI_neq0.
Qed.

(* ---- three_point -------------------------------------------------------- *)
Lemma InvAbel_dpar x c : 0 < x -> 0 <= c ->
  InvAbel (dpar c) (c + 3 / 2) x =
  - / PI *
  ((((ylos x (c - 3 / 2) - 0) * 0
     + ((3 / 2 - c) * (Lh x (ylos x (c - 1 / 2)) - Lh x (ylos x (c - 3 / 2)))
        + (ylos x (c - 1 / 2) - ylos x (c - 3 / 2)) * 1))
    + ((2 * c) * (Lh x (ylos x (c + 1 / 2)) - Lh x (ylos x (c - 1 / 2)))
       + (ylos x (c + 1 / 2) - ylos x (c - 1 / 2)) * (-2)))
   + ((- c - 3 / 2) * (Lh x (ylos x (c + 3 / 2)) - Lh x (ylos x (c + 1 / 2)))
      + (ylos x (c + 3 / 2) - ylos x (c + 1 / 2)) * 1)).
Proof.
  intros Hx Hc. unfold InvAbel. rewrite abel_upper by lra. f_equal.
  pose proof (ylos_nonneg x (c - 3 / 2)) as H0.
  pose proof (ylos_mono x (c - 3 / 2) (c - 1 / 2) ltac:(lra) ltac:(lra)) as H1.
  pose proof (ylos_mono x (c - 1 / 2) (c + 1 / 2) ltac:(lra) ltac:(lra)) as H2.
  pose proof (ylos_mono x (c + 1 / 2) (c + 3 / 2) ltac:(lra) ltac:(lra)) as H3.
  apply is_RInt_unique.
  apply (is_RInt_Chasles_R _ 0 (ylos x (c + 1 / 2)) (ylos x (c + 3 / 2))).
  apply (is_RInt_Chasles_R _ 0 (ylos x (c - 1 / 2)) (ylos x (c + 1 / 2))).
  apply (is_RInt_Chasles_R _ 0 (ylos x (c - 3 / 2)) (ylos x (c - 1 / 2))).
  - apply is_RInt_const_ext; [lra|]. intros y Hy.
    assert (sqrt (x * x + y * y) < c - 3 / 2) by (apply hyp_lt_ylos; lra).
    unfold dpar. destruct (Rlt_dec (sqrt (x * x + y * y)) (c - 3 / 2)); [|lra]. unfold Rdiv; ring.
  - apply is_RInt_lin_over_piece; try lra. intros y Hy.
    assert (sqrt (x * x + y * y) < c - 1 / 2) by (apply hyp_lt_ylos; lra).
    assert (Rmax (c - 3 / 2) x < sqrt (x * x + y * y)) by (apply hyp_gt_ylos; lra).
    pose proof (Rmax_l (c - 3 / 2) x).
    unfold dpar. destruct (Rlt_dec (sqrt (x * x + y * y)) (c - 3 / 2)); [lra|].
    destruct (Rlt_dec (sqrt (x * x + y * y)) (c - 1 / 2)); [|lra]. f_equal; ring.
  - apply is_RInt_lin_over_piece; try lra. intros y Hy.
    assert (sqrt (x * x + y * y) < c + 1 / 2) by (apply hyp_lt_ylos; lra).
    assert (Rmax (c - 1 / 2) x < sqrt (x * x + y * y)) by (apply hyp_gt_ylos; lra).
    pose proof (Rmax_l (c - 1 / 2) x).
    unfold dpar. destruct (Rlt_dec (sqrt (x * x + y * y)) (c - 3 / 2)); [lra|].
    destruct (Rlt_dec (sqrt (x * x + y * y)) (c - 1 / 2)); [lra|].
    destruct (Rlt_dec (sqrt (x * x + y * y)) (c + 1 / 2)); [|lra]. f_equal; ring.
  - apply is_RInt_lin_over_piece; try lra. intros y Hy.
    assert (sqrt (x * x + y * y) < c + 3 / 2) by (apply hyp_lt_ylos; lra).
    assert (Rmax (c + 1 / 2) x < sqrt (x * x + y * y)) by (apply hyp_gt_ylos; lra).
    pose proof (Rmax_l (c + 1 / 2) x).
    unfold dpar. destruct (Rlt_dec (sqrt (x * x + y * y)) (c - 3 / 2)); [lra|].
    destruct (Rlt_dec (sqrt (x * x + y * y)) (c - 1 / 2)); [lra|].
    destruct (Rlt_dec (sqrt (x * x + y * y)) (c + 1 / 2)); [lra|].
    destruct (Rlt_dec (sqrt (x * x + y * y)) (c + 3 / 2)); [|lra]. f_equal; ring.
Qed.

Lemma I0_eq x c a b : 0 < x -> a = c - 1 / 2 -> b = c + 1 / 2 -> x <= a ->
  three_point_I0 x c = (Lh x (ylos x b) - Lh x (ylos x a)) / (2 * PI).
Proof.
  intros Hx Ha Hb H. subst a b. unfold three_point_I0.
  rewrite 2!Lh_ylos by lra. rewrite sqrt_onion_p, sqrt_onion_m.
  set (u := sqrt ((c + 1 / 2) ^ 2 - x ^ 2)). set (v := sqrt ((c - 1 / 2) ^ 2 - x ^ 2)).
  assert (0 <= u) by apply sqrt_pos. assert (0 <= v) by apply sqrt_pos.
  replace ((2 * u + 2 * c + 1) / (2 * v + 2 * c - 1)) with ((u + (c + 1 / 2)) / (v + (c - 1 / 2)))
    by (field; lra).
  rewrite ln_div by lra. reflexivity.
Qed.

Lemma I0diag_eq x c b : 0 < x -> c = x -> b = c + 1 / 2 ->
  three_point_I0diag x c = (Lh x (ylos x b) - Lh x 0) / (2 * PI).
Proof.
  intros Hx Hc Hb. subst c b. unfold three_point_I0diag.
  rewrite Lh_ylos by lra. rewrite Lh_0 by lra. rewrite sqrt_onion_p.
  set (u := sqrt ((x + 1 / 2) ^ 2 - x ^ 2)). assert (0 <= u) by apply sqrt_pos.
  replace ((2 * u + 2 * x + 1) / (2 * x)) with ((u + (x + 1 / 2)) / x) by (field; lra).
  rewrite ln_div by lra. reflexivity.
Qed.

Lemma I1_eq x c a b : 0 < x -> a = c - 1 / 2 -> b = c + 1 / 2 -> x <= a ->
  three_point_I1 x c = (2 * ylos x b - 2 * ylos x a) / (2 * PI)
                       - 2 * c * ((Lh x (ylos x b) - Lh x (ylos x a)) / (2 * PI)).
Proof.
  intros Hx Ha Hb H. unfold three_point_I1. rewrite (I0_eq x c a b) by assumption.
  subst a b. rewrite sqrt_onion_p, sqrt_onion_m. rewrite 2!ylos_pow by lra. reflexivity.
Qed.

Lemma I1diag_eq x c b : 0 < x -> c = x -> b = c + 1 / 2 ->
  three_point_I1diag x c = (2 * ylos x b) / (2 * PI) - 2 * c * ((Lh x (ylos x b) - Lh x 0) / (2 * PI)).
Proof.
  intros Hx Hc Hb. unfold three_point_I1diag. rewrite (I0diag_eq x c b) by assumption.
  subst c b. rewrite sqrt_onion_p. rewrite ylos_pow by lra. reflexivity.
Qed.

Ltac tp_rw x :=
  repeat match goal with
  | |- context [three_point_I0 x ?c] => rewrite (I0_eq x c (c - 1 / 2) (c + 1 / 2)) by lra
  | |- context [three_point_I1 x ?c] => rewrite (I1_eq x c (c - 1 / 2) (c + 1 / 2)) by lra
  | |- context [three_point_I0diag x ?c] => rewrite (I0diag_eq x c (c + 1 / 2)) by lra
  | |- context [three_point_I1diag x ?c] => rewrite (I1diag_eq x c (c + 1 / 2)) by lra
  end.

Ltac canon c :=
  try replace (c + 1 - 1 / 2) with (c + 1 / 2) by lra;
  try replace (c + 1 + 1 / 2) with (c + 3 / 2) by lra;
  try replace (c - 1 - 1 / 2) with (c - 3 / 2) by lra;
  try replace (c - 1 + 1 / 2) with (c - 1 / 2) by lra.

Ltac vanish x c :=
  rewrite ?(ylos_below x (c - 3 / 2)), ?(ylos_below x (c - 1 / 2)), ?(ylos_below x (c + 1 / 2)),
          ?(ylos_below x (c + 3 / 2)) by lra.

Ltac gen_atoms :=
  repeat match goal with |- context [Lh ?a ?b] => generalize (Lh a b); intro end;
  repeat match goal with |- context [ylos ?a ?b] => generalize (ylos a b); intro end.

Lemma three_point_entry (cols i j : Z) : (1 <= i < cols)%Z -> (0 <= j < cols)%Z ->
  three_point_D cols i j = InvAbel (dpar (IZR j)) (IZR j + 3 / 2) (IZR i).
Proof.
  intros Hi Hj.
  assert (Hx : 0 < IZR i) by (apply IZR_lt; lia).
  assert (Hc : 0 <= IZR j) by (apply IZR_le; lia).
  rewrite InvAbel_dpar by assumption.
  unfold three_point_D.
  destruct (Z_lt_le_dec (i + 1) j) as [A|A];
    [|destruct (Z.eq_dec j (i + 1)) as [B|B];
      [|destruct (Z.eq_dec j i) as [C|C]; [|destruct (Z.eq_dec j (i - 1)) as [E|E]]]].
  - (* j >= i+2 *)
    zconds; z2r; tp_rw (IZR i); canon (IZR j); gen_atoms; field; apply PI_neq0.
  - (* j = i+1 *)
    assert (Ec : IZR j = IZR i + 1) by (rewrite B, plus_IZR; reflexivity).
    zconds; z2r; tp_rw (IZR i); canon (IZR j); vanish (IZR i) (IZR j); gen_atoms; field; apply PI_neq0.
  - (* j = i *)
    assert (Ec : IZR j = IZR i) by (rewrite C; reflexivity).
    zconds; z2r; tp_rw (IZR i); canon (IZR j); vanish (IZR i) (IZR j); gen_atoms; field; apply PI_neq0.
  - (* j = i-1 *)
    assert (Ec : IZR j = IZR i - 1) by (rewrite E, minus_IZR; reflexivity).
    zconds; z2r; tp_rw (IZR i); canon (IZR j); vanish (IZR i) (IZR j); gen_atoms; field; apply PI_neq0.
  - (* j <= i-2 *)
    assert (Ec : IZR j <= IZR i - 2) by (rewrite <- minus_IZR; apply IZR_le; lia).
    zconds; z2r; vanish (IZR i) (IZR j); gen_atoms; field; apply PI_neq0.
Qed.
