(* RbasexProofs.v — index algebra of the output side of rbasex_transform
   (model/RbasexOut.v): what every `out` value returns in terms of the base
   image B built by _image, and the synthesis formula of _image. *)
From Coq Require Import List Arith Lia Bool ZArith.
From Coq Require Import ZifyBool ZifyNat.
From PA Require Import base.Arr base.Px base.MatL model.DistrGeom model.DistrFit model.Symmetry
  model.RbasexOut proofs.DistrGeomProofs.
Import ListNotations.
Open Scope nat_scope.

Section Assemble.
  Variable A : Type.
  Variable zero : A.
  Notation img := (list (list A)).
  Notation px := (px zero).

  (* ---- rows of lists ------------------------------------------------------------ *)
  Lemma wf_tl_rev h w (B : img) : wf h w B -> wf h (w - 1) (map (fun r => rev (tl r)) B).
  Proof.
    intros HB. apply wf_map with (m := w); [|exact HB].
    intros r Hr. rewrite rev_length. destruct r; cbn in *; lia.
  Qed.

  Lemma px_tl_rev h w (B : img) i j : wf h w B -> i < h -> j < w - 1 ->
    px (map (fun r => rev (tl r)) B) i j = px B i (w - 1 - j).
  Proof.
    intros HB Hi Hj. unfold Px.px. assert (HL : length B = h) by (destruct HB; assumption).
    rewrite row_map by lia. pose proof (wf_row HB Hi) as Hrow.
    destruct (row B i) as [|x r] eqn:E; cbn [length] in Hrow; [lia|]. cbn [tl].
    rewrite nth_rev' by lia. replace (w - 1 - j) with (S (length r - 1 - j)) by lia. reflexivity.
  Qed.

  (* hstack((B[:, :0:-1], B)) *)
  Lemma mirror_left_spec h w (B : img) : wf h w B -> 1 <= w ->
    wf h (2 * w - 1) (mirror_left B) /\
    forall i j, i < h -> j < 2 * w - 1 -> px (mirror_left B) i j = px B i (dist j (w - 1)).
  Proof.
    intros HB Hw. pose proof (wf_tl_rev h w B HB) as HL. split.
    - eapply wf_hcat; [exact HL|exact HB|lia].
    - intros i j Hi Hj. unfold mirror_left. erewrite (px_hcat zero); [|exact HL|exact HB|exact Hi].
      unfold dist. destruct (Nat.ltb_spec j (w - 1)); destruct (Nat.leb_spec j (w - 1)); try lia.
      + rewrite (px_tl_rev h w B) by (try assumption; lia). reflexivity.
      + f_equal; lia.
      + f_equal; lia.
  Qed.

  (* put_image_quadrants((R, R, R, R), (2h-1, 2w-1)) with R = B[::-1] *)
  Definition unfold4 (h w : nat) (B : img) : img :=
    put_quadrants (rev B, rev B, rev B, rev B) (2 * h - 1) (2 * w - 1) ax_None.

  Lemma unfold4_spec h w (B : img) : wf h w B -> 1 <= h -> 1 <= w ->
    wf (2 * h - 1) (2 * w - 1) (unfold4 h w B) /\
    forall i j, i < 2 * h - 1 -> j < 2 * w - 1 ->
      px (unfold4 h w B) i j = px B (dist i (h - 1)) (dist j (w - 1)).
  Proof.
    intros HB Hh Hw. unfold unfold4, put_quadrants.
    change (ax_has 0 ax_None) with false. change (ax_has 1 ax_None) with false. cbn iota.
    replace ((2 * h - 1) mod 2 =? 1) with true by lia. replace ((2 * w - 1) mod 2 =? 1) with true by lia.
    set (R := rev B).
    assert (HR : wf h w R) by (apply wf_rev; exact HB).
    assert (PR : forall i j, i < h -> px R i j = px B (h - 1 - i) j)
      by (intros; apply (px_flipud zero (n:=h) (m:=w)); assumption).
    set (Q0 := rows_droplast 1 R). set (Q1 := cols_dropfirst 1 (rows_droplast 1 R)).
    set (Q2 := cols_dropfirst 1 R).
    assert (H0 : wf (h - 1) w Q0) by (eapply wf_rows_droplast; [exact HR|reflexivity]).
    assert (H1 : wf (h - 1) (w - 1) Q1) by (eapply wf_cols_dropfirst; [exact H0|reflexivity]).
    assert (H2 : wf h (w - 1) Q2) by (eapply wf_cols_dropfirst; [exact HR|reflexivity]).
    assert (HT : wf (h - 1) (2 * w - 1) (hcat (fliplr Q1) Q0))
      by (eapply wf_hcat; [exact (wf_fliplr H1)|exact H0|lia]).
    assert (HBm : wf h (2 * w - 1) (hcat (fliplr Q2) R))
      by (eapply wf_hcat; [exact (wf_fliplr H2)|exact HR|lia]).
    split.
    - eapply wf_vcat; [exact HT|exact (wf_flipud HBm)|lia].
    - intros i j Hi Hj. erewrite (px_vcat zero); [|exact HT]. unfold dist.
      destruct (Nat.ltb_spec i (h - 1)) as [Hi1|Hi1].
      + (* top *)
        erewrite (px_hcat zero); [|exact (wf_fliplr H1)|exact H0|lia].
        destruct (Nat.ltb_spec j (w - 1)) as [Hj1|Hj1].
        * erewrite (px_fliplr zero); [|exact H1|lia|lia]. unfold Q1.
          erewrite (px_cols_dropfirst zero); [|exact H0|lia]. unfold Q0.
          erewrite (px_rows_droplast zero); [|exact HR|lia]. rewrite PR by lia.
          destruct (Nat.leb_spec i (h - 1)); destruct (Nat.leb_spec j (w - 1)); try lia.
          f_equal; lia.
        * unfold Q0. erewrite (px_rows_droplast zero); [|exact HR|lia]. rewrite PR by lia.
          destruct (Nat.leb_spec i (h - 1)); destruct (Nat.leb_spec j (w - 1)); try lia; f_equal; lia.
      + (* bottom *)
        erewrite (px_flipud zero); [|exact HBm|lia].
        erewrite (px_hcat zero); [|exact (wf_fliplr H2)|exact HR|lia].
        destruct (Nat.ltb_spec j (w - 1)) as [Hj1|Hj1].
        * erewrite (px_fliplr zero); [|exact H2|lia|lia]. unfold Q2.
          erewrite (px_cols_dropfirst zero); [|exact HR|lia]. rewrite PR by lia.
          destruct (Nat.leb_spec i (h - 1)); destruct (Nat.leb_spec j (w - 1)); try lia; f_equal; lia.
        * rewrite PR by lia.
          destruct (Nat.leb_spec i (h - 1)); destruct (Nat.leb_spec j (w - 1)); try lia; f_equal; lia.
  Qed.

  (* X[r0:r0+H, c0:c0+W] *)
  Lemma crop_spec n m r0 c0 H W (X : img) : wf n m X -> r0 + H <= n -> c0 + W <= m ->
    wf H W (crop r0 c0 H W X) /\
    forall i j, i < H -> j < W -> px (crop r0 c0 H W X) i j = px X (r0 + i) (c0 + j).
  Proof.
    intros HX Hr Hc. unfold crop.
    assert (H1 : wf (n - r0) m (skipn r0 X)) by (apply wf_skipn; exact HX).
    assert (H2 : wf H m (firstn H (skipn r0 X))).
    { replace H with (Nat.min H (n - r0)) at 1 by lia. apply wf_firstn; exact H1. }
    split.
    - apply wf_map with (m := m); [|exact H2]. intros r Hr'. rewrite firstn_length, skipn_length. lia.
    - intros i j Hi Hj. unfold Px.px. assert (HL : length (firstn H (skipn r0 X)) = H) by (destruct H2; assumption).
      rewrite row_map by lia. rewrite row_firstn by lia. rewrite row_skipn.
      rewrite nth_firstn' by lia. rewrite nth_skipn'. reflexivity.
  Qed.
End Assemble.

Section QG.
  Variables (h w row col rmax : nat) (odd : bool) (N : nat).
  Let g := quad_geom h w row col rmax odd N.
  Lemma qg_VER : g_VER g = max row (h - 1 - row).
  Proof. unfold g, quad_geom. destruct (negb odd && _ && _); [reflexivity|]. destruct (odd && _); reflexivity. Qed.
  Lemma qg_HOR : g_HOR g = max col (w - 1 - col).
  Proof. unfold g, quad_geom. destruct (negb odd && _ && _); [reflexivity|]. destruct (odd && _); reflexivity. Qed.
End QG.

Lemma dist_shift a b c : c <= b -> dist (b - c + a) b = dist a c.
Proof. intros H. unfold dist. destruct (Nat.leb_spec (b - c + a) b); destruct (Nat.leb_spec a c); lia. Qed.

Section OutTheorems.
  Variable A : Type.
  Variable zero : A.
  Notation img := (list (list A)).
  Notation px := (px zero).
  Variables (h w row col rmax N : nat).
  Hypothesis Hrow : row < h.
  Hypothesis Hcol : col < w.
  Definition gq (odd : bool) : geom := quad_geom h w row col rmax odd N.

  (* the base image returned by _image has the requested size *)
  Definition base_wf (odd : bool) (out : outv) (B : img) : Prop :=
    wf (fst (fst (out_dims out (gq odd)))) (snd (fst (out_dims out (gq odd)))) B.

  Ltac fields := unfold gq; rewrite ?qg_odd, ?qg_h, ?qg_w, ?qg_row, ?qg_col, ?qg_rmax, ?qg_VER, ?qg_HOR.

  (* out='same': the input's shape, pixel (i, j) is the base image at the
     offset of (i, j) from the origin *)
  Theorem out_same_shape_origin odd (B : img) : base_wf odd OSame B ->
    wf h w (assemble OSame (gq odd) B) /\
    forall i j, i < h -> j < w ->
      px (assemble OSame (gq odd) B) i j = px B (if odd then i else dist i row) (dist j col).
  Proof.
    unfold base_wf, assemble, out_dims. fields. cbn [fst snd]. destruct odd; intros HB.
    - destruct (mirror_left_spec A zero h (max col (w - 1 - col) + 1) B HB) as [W P]; [lia|].
      destruct (crop_spec A zero h (2 * (max col (w - 1 - col) + 1) - 1)
                          0 (max col (w - 1 - col) - col) h w _ W) as [W' P']; try lia.
      split; [exact W'|]. intros i j Hi Hj. rewrite P' by assumption. rewrite P by lia.
      f_equal. replace (max col (w - 1 - col) + 1 - 1) with (max col (w - 1 - col)) by lia.
      apply dist_shift. lia.
    - destruct (unfold4_spec A zero (max row (h - 1 - row) + 1) (max col (w - 1 - col) + 1) B HB)
        as [W P]; [lia|lia|]. fold (unfold4 A (max row (h - 1 - row) + 1) (max col (w - 1 - col) + 1) B).
      destruct (crop_spec A zero (2 * (max row (h - 1 - row) + 1) - 1) (2 * (max col (w - 1 - col) + 1) - 1)
                          (max row (h - 1 - row) - row) (max col (w - 1 - col) - col) h w _ W) as [W' P']; try lia.
      split; [exact W'|]. intros i j Hi Hj. rewrite P' by assumption. rewrite P by lia.
      replace (max row (h - 1 - row) + 1 - 1) with (max row (h - 1 - row)) by lia.
      replace (max col (w - 1 - col) + 1 - 1) with (max col (w - 1 - col)) by lia.
      f_equal; apply dist_shift; lia.
  Qed.

  (* out='full': the centred (2 rmax + 1)-square *)
  Theorem out_full_shape odd (B : img) : base_wf odd OFull B ->
    wf (2 * rmax + 1) (2 * rmax + 1) (assemble OFull (gq odd) B) /\
    forall i j, i < 2 * rmax + 1 -> j < 2 * rmax + 1 ->
      px (assemble OFull (gq odd) B) i j = px B (if odd then i else dist i rmax) (dist j rmax).
  Proof.
    unfold base_wf, assemble, out_dims. fields. cbn [fst snd]. destruct odd; intros HB.
    - destruct (mirror_left_spec A zero (2 * rmax + 1) (rmax + 1) B HB) as [W P]; [lia|].
      replace (2 * (rmax + 1) - 1) with (2 * rmax + 1) in * by lia.
      split; [exact W|]. intros i j Hi Hj. rewrite P by lia.
      replace (rmax + 1 - 1) with rmax by lia. reflexivity.
    - destruct (unfold4_spec A zero (rmax + 1) (rmax + 1) B HB) as [W P]; [lia|lia|].
      fold (unfold4 A (rmax + 1) (rmax + 1) B).
      replace (2 * (rmax + 1) - 1) with (2 * rmax + 1) in * by lia.
      split; [exact W|]. intros i j Hi Hj. rewrite P by lia.
      replace (rmax + 1 - 1) with rmax by lia. reflexivity.
  Qed.

  (* out='full-unique' is the unique part of 'full': its upper right quadrant
     (right half for odd orders) *)
  Theorem full_unique_is_part odd (B : img) : base_wf odd OFull B ->
    let Hh := if odd then 2 * rmax + 1 else rmax + 1 in
    wf Hh (rmax + 1) (assemble OFullUnique (gq odd) B) /\
    forall a b, a < Hh -> b < rmax + 1 ->
      px (assemble OFullUnique (gq odd) B) a b = px (assemble OFull (gq odd) B) a (rmax + b).
  Proof.
    intros HB. destruct (out_full_shape odd B HB) as [WF PF]. cbv zeta.
    assert (EU : assemble OFullUnique (gq odd) B = if odd then B else rev B).
    { unfold assemble, out_dims. fields. cbn [fst snd]. destruct odd; reflexivity. }
    rewrite EU. clear EU.
    assert (HB' : wf (if odd then 2 * rmax + 1 else rmax + 1) (rmax + 1) B).
    { generalize HB. unfold base_wf, out_dims. fields. cbn [fst snd]. destruct odd; trivial. }
    clear HB WF. revert HB' PF. generalize (assemble OFull (gq odd) B). intros F.
    destruct odd; intros HB PF.
    - split; [exact HB|]. intros a b Ha Hb. rewrite (PF a (rmax + b)) by lia. f_equal. unfold dist.
      destruct (Nat.leb_spec (rmax + b) rmax); lia.
    - split; [apply wf_rev; exact HB|]. intros a b Ha Hb. rewrite (PF a (rmax + b)) by lia.
      change (rev B) with (flipud B). erewrite (px_flipud zero); [|exact HB|lia]. f_equal; unfold dist.
      + destruct (Nat.leb_spec a rmax); lia.
      + destruct (Nat.leb_spec (rmax + b) rmax); lia.
  Qed.

  (* out='unfold' is the mirror-unfolding of the quadrant (half) 'fold' *)
  Theorem unfold_is_mirror odd (B : img) : base_wf odd OFold B ->
    let Qh := g_Qh (gq odd) in let Qw := g_Qw (gq odd) in
    let Uh := if odd then Qh else 2 * Qh - 1 in
    1 <= Qh -> 1 <= Qw ->
    wf Uh (2 * Qw - 1) (assemble OUnfold (gq odd) B) /\
    forall i j, i < Uh -> j < 2 * Qw - 1 ->
      px (assemble OUnfold (gq odd) B) i j =
      px (assemble OFold (gq odd) B) (if odd then i else Qh - 1 - dist i (Qh - 1)) (dist j (Qw - 1)).
  Proof.
    unfold base_wf, assemble, out_dims. cbn [fst snd]. cbv zeta.
    replace (g_odd (gq odd)) with odd by (unfold gq; rewrite qg_odd; reflexivity).
    generalize (g_Qh (gq odd)) (g_Qw (gq odd)). intros Qh Qw.
    destruct odd; intros HB H1 H2.
    - destruct (mirror_left_spec A zero Qh Qw B HB) as [W P]; [lia|].
      split; [exact W|]. intros i j Hi Hj. apply P; lia.
    - destruct (unfold4_spec A zero Qh Qw B HB) as [W P]; [lia|lia|].
      fold (unfold4 A Qh Qw B).
      split; [exact W|]. intros i j Hi Hj. rewrite P by lia.
      assert (Hd : dist i (Qh - 1) <= Qh - 1)
        by (unfold dist; destruct (Nat.leb_spec i (Qh - 1)); lia).
      change (rev B) with (flipud B). erewrite (px_flipud zero); [|exact HB|lia]. f_equal. lia.
  Qed.

  (* out='fold' is the unique part of 'unfold' *)
  Theorem fold_is_part_of_unfold odd (B : img) : base_wf odd OFold B ->
    let Qh := g_Qh (gq odd) in let Qw := g_Qw (gq odd) in
    1 <= Qh -> 1 <= Qw ->
    wf Qh Qw (assemble OFold (gq odd) B) /\
    forall a b, a < Qh -> b < Qw ->
      px (assemble OFold (gq odd) B) a b = px (assemble OUnfold (gq odd) B) a (Qw - 1 + b).
  Proof.
    intros HB Qh Qw H1 H2. destruct (unfold_is_mirror odd B HB H1 H2) as [WU PU].
    fold Qh Qw in PU.
    assert (WFo : wf Qh Qw (assemble OFold (gq odd) B)).
    { generalize HB. unfold base_wf, assemble, out_dims. cbn [fst snd].
      replace (g_odd (gq odd)) with odd by (unfold gq; rewrite qg_odd; reflexivity).
      fold Qh Qw. destruct odd; intros HB'; [exact HB'|apply wf_rev; exact HB']. }
    split; [exact WFo|]. intros a b Ha Hb.
    assert (D1 : dist (Qw - 1 + b) (Qw - 1) = b) by (unfold dist; destruct (Nat.leb_spec (Qw - 1 + b) (Qw - 1)); lia).
    assert (D2 : dist a (Qh - 1) = Qh - 1 - a) by (unfold dist; destruct (Nat.leb_spec a (Qh - 1)); lia).
    rewrite PU; [|destruct odd; lia|lia]. rewrite D1.
    destruct odd; [reflexivity|]. rewrite D2. f_equal. lia.
  Qed.
End OutTheorems.
