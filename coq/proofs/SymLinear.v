(* SymLinear.v — symmetrisation (model/Symmetry.v, the C06 model of
   abel/tools/symmetry.py; 'average' method, all quadrants used) is a linear
   map of the image, over the real numbers, every shape. *)
From Coq Require Import List Arith Lia Bool ZArith Reals Lra.
From PA Require Import base.Arr base.Px model.Symmetry proofs.C06R.
Import ListNotations.
Local Open Scope R_scope.

(* a*X + b*Y, pixel by pixel *)
Definition ilin (a b : R) (X Y : list (list R)) : list (list R) :=
  imap2 (fun u v => a * u + b * v) X Y.

Lemma mean_lr_linear n m a b (X Y : list (list R)) : wf n m X -> wf n m Y ->
  imdiv Rdivn 2 (imadd Rplus (ilin a b X Y) (fliplr (ilin a b X Y))) =
  ilin a b (imdiv Rdivn 2 (imadd Rplus X (fliplr X))) (imdiv Rdivn 2 (imadd Rplus Y (fliplr Y))).
Proof.
  intros HX HY.
  assert (HL : wf n m (ilin a b X Y)) by (apply wf_imap2; assumption).
  assert (W : forall Z, wf n m Z -> wf n m (imdiv Rdivn 2 (imadd Rplus Z (fliplr Z)))).
  { intros Z HZ. apply wf_imap. apply wf_imap2; [assumption|apply wf_fliplr; assumption]. }
  apply (@img_ext R 0 n m); [apply W; assumption | apply wf_imap2; apply W; assumption |].
  intros i j Hi Hj.
  unfold imdiv, imadd, ilin.
  rewrite (px_imap2 0 _ (W X HX) (W Y HY) Hi Hj).
  unfold imdiv, imadd.
  repeat (rewrite (@px_imap R 0 n m) by (try assumption; apply wf_imap2; try assumption; apply wf_fliplr; assumption)).
  repeat (rewrite (@px_imap2 R 0 n m) by (try assumption; try (apply wf_fliplr; assumption))).
  repeat (rewrite (@px_fliplr R 0 n m) by (try assumption; lia)).
  repeat (rewrite (@px_imap2 R 0 n m) by (try assumption; lia)).
  unfold Rdivn. simpl. lra.
Qed.

Lemma mean_ud_linear n m a b (X Y : list (list R)) : wf n m X -> wf n m Y ->
  imdiv Rdivn 2 (imadd Rplus (ilin a b X Y) (flipud (ilin a b X Y))) =
  ilin a b (imdiv Rdivn 2 (imadd Rplus X (flipud X))) (imdiv Rdivn 2 (imadd Rplus Y (flipud Y))).
Proof.
  intros HX HY.
  assert (HL : wf n m (ilin a b X Y)) by (apply wf_imap2; assumption).
  assert (W : forall Z, wf n m Z -> wf n m (imdiv Rdivn 2 (imadd Rplus Z (flipud Z)))).
  { intros Z HZ. apply wf_imap. apply wf_imap2; [assumption|apply wf_flipud; assumption]. }
  apply (@img_ext R 0 n m); [apply W; assumption | apply wf_imap2; apply W; assumption |].
  intros i j Hi Hj.
  unfold imdiv, imadd, ilin.
  rewrite (px_imap2 0 _ (W X HX) (W Y HY) Hi Hj).
  unfold imdiv, imadd.
  repeat (rewrite (@px_imap R 0 n m) by (try assumption; apply wf_imap2; try assumption; apply wf_flipud; assumption)).
  repeat (rewrite (@px_imap2 R 0 n m) by (try assumption; try (apply wf_flipud; assumption))).
  repeat (rewrite (@px_flipud R 0 n m) by (try assumption; lia)).
  repeat (rewrite (@px_imap2 R 0 n m) by (try assumption; lia)).
  unfold Rdivn. simpl. lra.
Qed.

(* symmetrize(a*X + b*Y) = a*symmetrize(X) + b*symmetrize(Y), any reals a, b *)
Theorem symmetrize_linear n m a b (X Y : list (list R)) :
  wf n m X -> wf n m Y -> (1 <= n)%nat -> (1 <= m)%nat ->
  (exists SX SY, symR ax_0 mask_all Average X = Ok SX /\ symR ax_0 mask_all Average Y = Ok SY /\
     symR ax_0 mask_all Average (ilin a b X Y) = Ok (ilin a b SX SY)) /\
  (exists SX SY, symR ax_1 mask_all Average X = Ok SX /\ symR ax_1 mask_all Average Y = Ok SY /\
     symR ax_1 mask_all Average (ilin a b X Y) = Ok (ilin a b SX SY)).
Proof.
  intros HX HY Hn Hm.
  assert (HL : wf n m (ilin a b X Y)) by (apply wf_imap2; assumption).
  destruct (R_sym_mean n m X HX Hn Hm) as [X0 X1].
  destruct (R_sym_mean n m Y HY Hn Hm) as [Y0 Y1].
  destruct (R_sym_mean n m _ HL Hn Hm) as [L0 L1].
  split.
  - eexists; eexists. split; [exact X0|]. split; [exact Y0|].
    rewrite L0. f_equal. apply (mean_lr_linear n m a b X Y HX HY).
  - eexists; eexists. split; [exact X1|]. split; [exact Y1|].
    rewrite L1. f_equal. apply (mean_ud_linear n m a b X Y HX HY).
Qed.
