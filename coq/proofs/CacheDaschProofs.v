(* Proofs about model/CacheDasch.v. *)
From Coq Require Import List Arith Bool Lia.
From PA Require Import base.Npy model.CacheCommon model.CacheDasch.
Import ListNotations.

(* ---- semantic reading ------------------------------------------------------ *)
Inductive tag := E (meth i j : nat) | EJunk.
Inductive sem := SMat (size : nat) (ent : nat -> nat -> tag) | SExc (c : nat).

(* operator entries depend on (method, i, j) only: d_gen does not appear *)
Definition den_d (d : dcont) : sem :=
  SMat (d_size d) (if d_junk d then (fun _ _ => EJunk) else E (d_meth d)).

Definition den_out (r : res dcont) : sem :=
  match r with Ret d => den_d d | Raise e => SExc (exc_code e) end.

Lemma crop_law : forall n N meth, n <= N -> den_d (crop n (ideal meth N)) = den_d (ideal meth n).
Proof.
  intros n N meth H. unfold crop, ideal, den_d. simpl.
  destruct (n <? N) eqn:E1; simpl; auto.
  apply Nat.ltb_ge in E1. assert (n = N) by lia. subst. reflexivity.
Qed.

Lemma d_eqv_parts : forall a b, d_eqv a b = true ->
  d_meth a = d_meth b /\ d_size a = d_size b /\ d_junk a = false /\ d_junk b = false.
Proof.
  intros a b H. unfold d_eqv in H.
  apply andb_true_iff in H. destruct H as [H H4].
  apply andb_true_iff in H. destruct H as [H H3].
  apply andb_true_iff in H. destruct H as [H1 H2].
  apply Nat.eqb_eq in H1. apply Nat.eqb_eq in H2.
  apply negb_true_iff in H3. apply negb_true_iff in H4. auto.
Qed.

Lemma d_eqv_sound : forall a b, d_eqv a b = true -> den_d a = den_d b.
Proof.
  intros a b H. destruct (d_eqv_parts _ _ H) as (H1 & H2 & H3 & H4).
  unfold den_d. rewrite H1, H2, H3, H4. reflexivity.
Qed.

Lemma out_eqv_sound : forall a b, out_eqv a b = true -> den_out a = den_out b.
Proof.
  intros [x|e1] [y|e2]; simpl; intros H; try discriminate.
  - apply d_eqv_sound; auto.
  - apply Nat.eqb_eq in H. rewrite H. reflexivity.
Qed.

(* ---- invariant ---------------------------------------------------------------- *)
Definition honest (d : disk fkey dcont) : Prop :=
  forall di k c, In (di, k, c) d ->
    match c with FGood x => x = ideal (fst k) (snd k) | FBad _ => True | FShape => True end.

(* the cached operator belongs to the cached method name *)
Definition Inv (s : st) : Prop :=
  match D s with
  | Some d => method s = Some (d_meth d) /\ d_junk d = false
  | None => True
  end /\ honest (dk s).

Lemma Inv_init : Inv init.
Proof. unfold Inv, init, honest; simpl. split; auto. intros ? ? ? []. Qed.

Lemma honest_filter : forall d f, honest d -> honest (filter f d).
Proof. unfold honest. intros d f H di k c Hin. apply filter_In in Hin. destruct Hin. eapply H; eauto. Qed.

Lemma honest_put : forall d di k c, honest d ->
  match c with FGood x => x = ideal (fst k) (snd k) | FBad _ => True | FShape => True end ->
  honest (put_file fkey_eqb di k c d).
Proof.
  unfold honest, put_file, remove_file. intros d di k c H Hc di' k' c' [Hin|Hin].
  - inversion Hin; subst. exact Hc.
  - apply filter_In in Hin. destruct Hin. eapply H; eauto.
Qed.

Lemma dcont_eqb_eq : forall a b, dcont_eqb a b = true -> a = b.
Proof.
  intros [d1 g1 s1 j1] [d2 g2 s2 j2]. unfold dcont_eqb. simpl. intros H.
  apply andb_true_iff in H. destruct H as [H H4].
  apply andb_true_iff in H. destruct H as [H H3].
  apply andb_true_iff in H. destruct H as [H1 H2].
  apply Nat.eqb_eq in H1. apply Nat.eqb_eq in H2. apply Nat.eqb_eq in H3. apply eqb_prop in H4.
  subst. reflexivity.
Qed.

Lemma fkey_eqb_eq : forall a b, fkey_eqb a b = true -> a = b.
Proof.
  intros [a1 a2] [b1 b2]. unfold fkey_eqb. simpl. intros H.
  apply andb_true_iff in H. destruct H as [H1 H2].
  apply Nat.eqb_eq in H1. apply Nat.eqb_eq in H2. subst. reflexivity.
Qed.

Lemma find_file_In : forall (d : disk fkey dcont) di k c,
  find_file fkey_eqb di k d = Some c -> In (di, k, c) d.
Proof.
  intros d di k c H. unfold find_file in H.
  destruct (filter (same_file fkey_eqb di k) d) as [|e l] eqn:E; [discriminate|].
  inversion H; subst. assert (Hin : In e (filter (same_file fkey_eqb di k) d)) by (rewrite E; left; auto).
  apply filter_In in Hin. destruct Hin as [Hin Hs]. unfold same_file in Hs.
  apply andb_true_iff in Hs. destruct Hs as [H1 H2]. apply Nat.eqb_eq in H1.
  destruct e as [[d' k'] c']. simpl in *. apply fkey_eqb_eq in H2. subst. auto.
Qed.

Lemma scan_spec : forall meth cols di order d sz c,
  scan meth cols di order d = Some (sz, c) ->
  cols <= sz /\ In (di, (meth, sz), c) d /\ c <> FShape.
Proof.
  induction order as [|x r IH]; simpl; intros d sz c H; [discriminate|].
  destruct (cols <=? x) eqn:E; [|eauto].
  destruct (find_file fkey_eqb di (meth, x) d) as [[y|e|]|] eqn:Ef; eauto;
    inversion H; subst; (split; [apply Nat.leb_le; auto|]);
    (split; [apply find_file_In; auto|discriminate]).
Qed.

Lemma crop_eqv : forall cols d meth, d_meth d = meth -> d_junk d = false -> cols <= d_size d ->
  d_eqv (crop cols d) (ideal meth cols) = true /\ d_size (crop cols d) = cols /\
  d_meth (crop cols d) = meth /\ d_junk (crop cols d) = false.
Proof.
  intros cols d meth Hm Hj Hs. unfold crop, d_eqv.
  destruct (cols <? d_size d) eqn:E; cbn [d_meth d_size d_junk d_gen ideal].
  - rewrite Hm, Hj, !Nat.eqb_refl. auto.
  - apply Nat.ltb_ge in E. assert (Hq : d_size d = cols) by lia.
    rewrite Hm, Hj, Hq, !Nat.eqb_refl. auto.
Qed.

Lemma fresh_expected : forall meth cols bd order,
  match bd with BPath d => dir_writable d = true | _ => True end ->
  fresh (Call meth cols bd order) = Ret (ideal meth cols).
Proof.
  intros meth cols bd order Hw. unfold fresh, step_call.
  destruct bd as [| |d]; [| |rewrite Hw]; cbn -[Nat.ltb]; rewrite Nat.ltb_irrefl; reflexivity.
Qed.

(* ---- one step ------------------------------------------------------------------ *)
Lemma step_good : forall s o s' r,
  Inv s -> hazard s o = false -> step s o = (s', r) ->
  Inv s' /\
  (is_call o = true ->
     out_eqv r (fresh o) = true \/
     exists e di k pe, r = Raise e /\ In (di, k, FBad pe) (dk s)).
Proof.
  intros s o s' r HI Hz Hs. pose proof HI as [HI0 Hh].
  destruct o as [meth cols bd order| |meth bd|bd|d k c|d k].
  - cbn [step hazard] in *.
    assert (Hbd : match bd with BPath d => dir_writable d = true | _ => True end).
    { destruct bd; auto. unfold uses_bad_dir in Hz. simpl in Hz. apply negb_false_iff in Hz. auto. }
    rewrite fresh_expected by exact Hbd.
    unfold step_call in Hs.
    destruct (mem_hit s meth cols) as [d|] eqn:Eh.
    + (* memory hit *)
      unfold mem_hit in Eh. destruct (D s) as [d0|] eqn:ED; [|discriminate].
      destruct (method s) as [m|] eqn:EM; [|discriminate].
      destruct ((cols <=? d_size d0) && (m =? meth)) eqn:Ec; [|discriminate].
      inversion Eh; subst d0. apply andb_true_iff in Ec. destruct Ec as [E1 E2].
      apply Nat.leb_le in E1. apply Nat.eqb_eq in E2. subst m.
      destruct HI0 as [Hm Hj]. injection Hm as Hm'.
      destruct (crop_eqv cols d meth (eq_sym Hm') Hj E1) as (C1 & C2 & C3 & C4).
      rewrite C2, Nat.ltb_irrefl in Hs. inversion Hs; subst. split.
      * unfold Inv, mk. cbn [D method dk]. rewrite C3, C4. auto.
      * intros _. left. exact C1.
    + destruct (resolve (gdir s) bd) as [g dir] eqn:Er.
      unfold uses_bad_dir in Hz. rewrite Er in Hz. cbn [snd] in Hz.
      set (lf := match dir with None => None | Some di => scan meth cols di order (dk s) end) in *.
      assert (Hlf : forall sz c, lf = Some (sz, c) ->
                cols <= sz /\ (exists di, In (di, (meth, sz), c) (dk s)) /\ c <> FShape).
      { intros sz c. unfold lf. destruct dir as [di|]; [|discriminate].
        intros E. destruct (scan_spec _ _ _ _ _ _ _ E) as (A & B & C). split; auto. split; eauto. }
      destruct lf as [[sz c]|] eqn:Elf.
      * destruct (Hlf sz c eq_refl) as (Hsz & [di Hin] & Hns). pose proof (Hh _ _ _ Hin) as Hc.
        destruct c as [d|pe|]; [| |congruence].
        -- cbn [fst snd] in Hc. subst d.
           destruct (crop_eqv cols (ideal meth sz) meth eq_refl eq_refl Hsz) as (C1 & C2 & C3 & C4).
           rewrite C2, Nat.ltb_irrefl in Hs. inversion Hs; subst. split.
           ++ unfold Inv, mk. cbn [D method dk]. rewrite C3, C4. auto.
           ++ intros _. left. exact C1.
        -- inversion Hs; subst. split.
           ++ exact HI.
           ++ intros _. right. exists (load_exc pe), di, (meth, sz), pe. auto.
      * (* generate *)
        assert (Hgen : forall d', honest d' -> Inv (mk (Some (ideal meth cols)) (Some meth) 3 g d')).
        { intros d' Hd'. unfold Inv, mk. cbn. auto. }
        assert (Heq : d_eqv (ideal meth cols) (ideal meth cols) = true).
        { unfold d_eqv. cbn. rewrite !Nat.eqb_refl. reflexivity. }
        destruct dir as [di|].
        -- apply negb_false_iff in Hz. rewrite Hz in Hs. cbn [d_size ideal] in Hs.
           rewrite Nat.ltb_irrefl in Hs. inversion Hs; subst. split.
           ++ apply Hgen. apply honest_put; auto.
           ++ intros _. left. exact Heq.
        -- cbn [d_size ideal] in Hs. rewrite Nat.ltb_irrefl in Hs. inversion Hs; subst. split.
           ++ apply Hgen; auto.
           ++ intros _. left. exact Heq.
  - inversion Hs; subst. split; [|discriminate]. unfold Inv, mk. cbn. auto.
  - cbn [step] in Hs. destruct (resolve (gdir s) bd) as [g dir].
    destruct dir as [di|]; inversion Hs; subst; (split; [|discriminate]);
      unfold Inv, mk; cbn [D method dk]; split; auto. apply honest_filter; auto.
  - inversion Hs; subst. split; [|discriminate]. exact HI.
  - inversion Hs; subst. split; [|discriminate].
    unfold Inv, mk. cbn [D method dk]. split; auto.
    apply honest_put; auto. cbn [hazard] in Hz.
    destruct c as [x|e|]; auto.
    apply negb_false_iff in Hz. apply dcont_eqb_eq in Hz. auto.
  - inversion Hs; subst. split; [|discriminate].
    unfold Inv, mk. cbn [D method dk]. split; auto. apply honest_filter; auto.
Qed.

(* ---- no damaged file --------------------------------------------------------------- *)
Definition clean (s : st) : Prop := forall di k c, In (di, k, c) (dk s) -> forall pe, c <> FBad pe.

Lemma step_dk : forall s o s' r, step s o = (s', r) ->
  forall di k c, In (di, k, c) (dk s') ->
    In (di, k, c) (dk s) \/ (exists x, c = FGood x) \/ (exists d0 k0, o = Seed d0 k0 c).
Proof.
  intros s o s' r Hs di k c Hin. destruct o as [meth cols bd order| |meth bd|bd|d k0 c0|d k0].
  - cbn [step] in Hs. unfold step_call in Hs. revert Hs.
    repeat match goal with
           | |- context [if ?c then _ else _] => destruct c
           | |- context [match ?x with _ => _ end] => destruct x
           end; intros E; inversion E; subst; cbn [dk mk] in Hin;
      first [ left; exact Hin
            | destruct Hin as [Hi|Hi];
              [inversion Hi; subst; right; left; eauto
              |apply filter_In in Hi; destruct Hi; left; assumption] ].
  - inversion Hs; subst. auto.
  - cbn [step] in Hs. destruct (resolve (gdir s) bd) as [g dir].
    destruct dir; inversion Hs; subst; cbn [dk mk] in Hin; auto.
    apply filter_In in Hin. destruct Hin; auto.
  - inversion Hs; subst. auto.
  - inversion Hs; subst. cbn [dk mk] in Hin. destruct Hin as [Hi|Hi].
    + inversion Hi; subst. right. right. eauto.
    + apply filter_In in Hi. destruct Hi; auto.
  - inversion Hs; subst. cbn [dk mk] in Hin. apply filter_In in Hin. destruct Hin; auto.
Qed.

Lemma step_clean : forall s o s' r, clean s -> damage o = false -> hazard s o = false ->
  step s o = (s', r) -> clean s'.
Proof.
  intros s o s' r Hc Hd Hz Hs di k c Hin pe.
  destruct (step_dk _ _ _ _ Hs _ _ _ Hin) as [H|[[x ->]|(d0 & k0 & ->)]]; [eauto|discriminate|].
  cbn [damage] in Hd. destruct c; try discriminate.
Qed.

(* ---- the theorems --------------------------------------------------------------------- *)
Lemma history_independent_from : forall ops s,
  Inv s -> clean s -> no_hazard s ops = true -> no_damage ops = true -> all_agree s ops = true.
Proof.
  induction ops as [|o ops IH]; intros s HI Hc Hz Hd; [reflexivity|].
  cbn [no_hazard no_damage all_agree] in *.
  apply andb_true_iff in Hz. destruct Hz as [Hz1 Hz2]. apply negb_true_iff in Hz1.
  apply andb_true_iff in Hd. destruct Hd as [Hd1 Hd2]. apply negb_true_iff in Hd1.
  destruct (step s o) as [s' r] eqn:Es. cbn [fst] in Hz2.
  destruct (step_good _ _ _ _ HI Hz1 Es) as [HI' Hr].
  pose proof (step_clean _ _ _ _ Hc Hd1 Hz1 Es) as Hc'.
  apply andb_true_iff. split; [|apply IH; auto].
  destruct (is_call o) eqn:Eo; [|reflexivity].
  destruct (Hr eq_refl) as [Hok|(e & di & k & pe & _ & Hin)]; [exact Hok|].
  exfalso. exact (Hc _ _ _ Hin pe eq_refl).
Qed.

(* C07 for the three Dasch methods *)
Theorem history_independent : forall ops,
  no_hazard init ops = true -> no_damage ops = true -> all_agree init ops = true.
Proof.
  intros. apply history_independent_from; auto.
  - apply Inv_init.
  - intros di k c [].
Qed.

Lemma fault_safe_from : forall ops s,
  Inv s -> no_hazard s ops = true -> all_safe s ops = true.
Proof.
  induction ops as [|o ops IH]; intros s HI Hz; [reflexivity|].
  cbn [no_hazard all_safe] in *.
  apply andb_true_iff in Hz. destruct Hz as [Hz1 Hz2]. apply negb_true_iff in Hz1.
  destruct (step s o) as [s' r] eqn:Es. cbn [fst] in Hz2.
  destruct (step_good _ _ _ _ HI Hz1 Es) as [HI' Hr].
  apply andb_true_iff. split; [|apply IH; auto].
  destruct (is_call o) eqn:Eo; [|reflexivity].
  destruct (Hr eq_refl) as [Hok|(e & di & k & pe & -> & Hin)].
  - rewrite Hok. reflexivity.
  - apply orb_true_iff. right. destruct e; reflexivity.
Qed.

(* C08: with damaged / wrong-shape files anywhere in the history every call
   returns the fresh result or raises — also after a raising call *)
Theorem fault_safe : forall ops, no_hazard init ops = true -> all_safe init ops = true.
Proof. intros. apply fault_safe_from; auto. apply Inv_init. Qed.

(* the formerly failing history (fixed in 0e05e8d): after the damaged file made
   a call raise and was removed, the next call is fresh *)
Definition poison_hist : list op :=
  [Call 0 10 BNone []; Seed 1 (1, 5) (FBad PEOF); Call 1 5 (BPath 1) [5]; Remove 1 (1, 5)].
Definition poison_call : op := Call 1 5 (BPath 1) [].
Example failed_load_harmless :
  res_code (snd (step (run init [Call 0 10 BNone []; Seed 1 (1, 5) (FBad PEOF)]) (Call 1 5 (BPath 1) [5]))) = exc_code EEOF /\
  out_eqv (last_result poison_hist poison_call) (fresh poison_call) = true.
Proof. split; vm_compute; reflexivity. Qed.

(* 7ce4ac5: a wrong-shape file is skipped *)
Example wrong_shape_skipped :
  out_eqv (last_result [Seed 1 (0, 14) FShape] (Call 0 6 (BPath 1) [14])) (fresh (Call 0 6 (BPath 1) [14])) = true.
Proof. vm_compute. reflexivity. Qed.
