(* MxAlgebra.v — lemmas about the matrix expressions generated from the
   PyAbel sources (coq/gen/MatrixExpr.v): round trips (C03), row-wise
   linearity and dr scaling (C04), option equivalences (C17).
   Any field F, any sizes. *)
From mathcomp Require Import all_ssreflect all_algebra.
From PA Require Import base.MxNp gen.MatrixExpr.
Set Implicit Arguments.
Unset Strict Implicit.
Unset Printing Implicit Defensive.
Import GRing.Theory.
Local Open Scope ring_scope.

Section Tri.
Variable F : fieldType.

Lemma lower_part_trig n (A : 'M[F]_n) : is_trig_mx A -> lower_part A = A.
Proof.
move=> /is_trig_mxP tA; apply/matrixP=> i j; rewrite mxE.
by case: leqP => // ij; rewrite tA.
Qed.

Lemma upper_part_trT n (A : 'M[F]_n) : is_trig_mx A -> upper_part A^T = A^T.
Proof.
move=> /is_trig_mxP tA; apply/matrixP=> i j; rewrite !mxE.
by case: leqP => // ij; rewrite tA.
Qed.

(* a (lower) triangular matrix with non-zero diagonal is invertible *)
Lemma unit_of_triangular n (A : 'M[F]_n) :
  is_trig_mx A -> (forall i, A i i != 0) -> A \in unitmx.
Proof.
move=> tA dA; rewrite unitmxE det_trig // unitfE.
by apply/prodf_neq0 => i _; apply: dA.
Qed.

Lemma unit_of_triangularT n (A : 'M[F]_n) :
  is_trig_mx A -> (forall i, A i i != 0) -> A^T \in unitmx.
Proof. by move=> tA dA; rewrite unitmx_tr; apply: unit_of_triangular. Qed.

(* converse: needed to show that the hypotheses cannot be weakened *)
Lemma triangular_unit_diag n (A : 'M[F]_n) :
  is_trig_mx A -> A \in unitmx -> forall i, A i i != 0.
Proof.
move=> tA; rewrite unitmxE det_trig // unitfE => /prodf_neq0 H i; exact: H.
Qed.

Lemma solve_upper_spec n m (B : 'M[F]_n) (Y : 'M[F]_(n, m)) :
  is_trig_mx B -> solve_triangular false B^T Y = invmx B^T *m Y.
Proof. by move=> tB; rewrite /solve_triangular upper_part_trT. Qed.

Lemma solve_lower_spec n m (P : 'M[F]_n) (Y : 'M[F]_(n, m)) :
  is_trig_mx P -> solve_triangular true P Y = invmx P *m Y.
Proof. by move=> tP; rewrite /solve_triangular lower_part_trig. Qed.

Lemma trmx_invT n (A : 'M[F]_n) : (invmx A^T)^T = invmx A.
Proof. by rewrite trmx_inv trmxK. Qed.

End Tri.

(* ------------------------------------------------------------------------ *)
(* generic row-wise linear operators (C04)                                    *)
(* ------------------------------------------------------------------------ *)
Section Rowwise.
Variable F : fieldType.

(* T X = X *m A for a data-independent A *)
Definition is_rowwise n m (T : forall h, 'M[F]_(h, n) -> 'M[F]_(h, m)) (A : 'M[F]_(n, m)) :=
  forall h (X : 'M[F]_(h, n)), T h X = X *m A.

Lemma rowwise_linear n m T (A : 'M[F]_(n, m)) : is_rowwise T A ->
  forall h (a b : F) (X Y : 'M[F]_(h, n)),
    T h (a *: X + b *: Y) = a *: T h X + b *: T h Y.
Proof. by move=> TA h a b X Y; rewrite !TA mulmxDl -!scalemxAl. Qed.

(* row i of the output is the transform of row i of the input alone *)
Lemma rowwise_row_independent n m T (A : 'M[F]_(n, m)) : is_rowwise T A ->
  forall h (X : 'M[F]_(h, n)) (i : 'I_h), row i (T h X) = T 1%N (row i X).
Proof. by move=> TA h X i; rewrite !TA row_mul. Qed.

(* consequently: two images agreeing in row i give the same output row i,
   whatever the other rows are and however many there are *)
Lemma rowwise_other_rows_irrelevant n m T (A : 'M[F]_(n, m)) : is_rowwise T A ->
  forall h h' (X : 'M[F]_(h, n)) (Y : 'M[F]_(h', n)) (i : 'I_h) (i' : 'I_h'),
    row i X = row i' Y -> row i (T h X) = row i' (T h' Y).
Proof. by move=> TA h h' X Y i i' e; rewrite !(rowwise_row_independent TA) e. Qed.

Lemma rowwise_scale n m T (A : 'M[F]_(n, m)) (c : F) : is_rowwise T A ->
  is_rowwise (fun h X => c *: T h X) (c *: A).
Proof. by move=> TA h X; rewrite TA scalemxAr. Qed.

End Rowwise.

(* ------------------------------------------------------------------------ *)
(* daun                                                                        *)
(* ------------------------------------------------------------------------ *)
Section Daun.
Variable F : fieldType.
Variables (n : nat).
Variable B : 'M[F]_n.

(* the operators as one matrix (no hypothesis): used for C04 *)
Definition daun_inv_tri_op : 'M[F]_n := (invmx (upper_part B^T))^T.

Lemma daun_inverse_tri_rowwise h (X : 'M[F]_(h, n)) :
  daun_inverse_deg0_none_dr1 B X = X *m daun_inv_tri_op.
Proof. by rewrite /daun_inverse_deg0_none_dr1 /solve_triangular trmx_mul trmxK. Qed.

Lemma daun_forward_rowwise h (X : 'M[F]_(h, n)) : daun_forward_deg0_none_dr1 B X = X *m B.
Proof. by []. Qed.

Lemma daun_inverse_deg3_rowwise h (X : 'M[F]_(h, n)) : daun_inverse_deg3_none_dr1 B X = X *m invmx B.
Proof. by []. Qed.

(* the triangular solve returns X * B^-1 when B is triangular *)
Lemma daun_inverse_tri_spec h (X : 'M[F]_(h, n)) : is_trig_mx B ->
  daun_inverse_deg0_none_dr1 B X = X *m invmx B.
Proof.
by move=> tB; rewrite /daun_inverse_deg0_none_dr1 solve_upper_spec // trmx_mul trmxK trmx_invT.
Qed.

Hypothesis uB : B \in unitmx.

Lemma daun_roundtrip_tri h (X : 'M[F]_(h, n)) : is_trig_mx B ->
  daun_inverse_deg0_none_dr1 B (daun_forward_deg0_none_dr1 B X) = X /\
  daun_forward_deg0_none_dr1 B (daun_inverse_deg0_none_dr1 B X) = X.
Proof.
move=> tB; rewrite !daun_inverse_tri_spec // /daun_forward_deg0_none_dr1.
by rewrite mulmxK // mulmxKV.
Qed.

Lemma daun_roundtrip_deg3 h (X : 'M[F]_(h, n)) :
  daun_inverse_deg3_none_dr1 B (daun_forward_deg3_none_dr1 B X) = X /\
  daun_forward_deg3_none_dr1 B (daun_inverse_deg3_none_dr1 B X) = X.
Proof.
by rewrite /daun_inverse_deg3_none_dr1 /daun_forward_deg3_none_dr1 mulmxK // mulmxKV.
Qed.

(* with a pixel size *)
Lemma daun_roundtrip_tri_dr h (X : 'M[F]_(h, n)) (dr : F) : is_trig_mx B -> dr != 0 ->
  daun_inverse_deg0_none_dr B dr (daun_forward_deg0_none_dr B dr X) = X /\
  daun_forward_deg0_none_dr B dr (daun_inverse_deg0_none_dr B dr X) = X.
Proof.
move=> tB dr0.
have E Y : daun_inverse_deg0_none_dr B dr Y = dr^-1 *: daun_inverse_deg0_none_dr1 B Y by [].
have E' Y : daun_forward_deg0_none_dr B dr Y = dr *: daun_forward_deg0_none_dr1 B Y by [].
rewrite !E !E' !daun_inverse_tri_spec // /daun_forward_deg0_none_dr1.
rewrite -scalemxAl scalerA mulVf // scale1r mulmxK //.
by rewrite -scalemxAl scalerA mulfV // scale1r mulmxKV.
Qed.

Lemma daun_roundtrip_deg3_dr h (X : 'M[F]_(h, n)) (dr : F) : dr != 0 ->
  daun_inverse_deg3_none_dr B dr (daun_forward_deg3_none_dr B dr X) = X /\
  daun_forward_deg3_none_dr B dr (daun_inverse_deg3_none_dr B dr X) = X.
Proof.
move=> dr0; rewrite /daun_inverse_deg3_none_dr /daun_forward_deg3_none_dr.
rewrite -scalemxAl scalerA mulVf // scale1r mulmxK //.
by rewrite -scalemxAl scalerA mulfV // scale1r mulmxKV.
Qed.

(* all degrees, both composition orders, any pixel size *)
Lemma daun_roundtrip_all h (X : 'M[F]_(h, n)) (dr : F) : dr != 0 ->
  (is_trig_mx B ->
   [/\ daun_inverse_deg0_none_dr B dr (daun_forward_deg0_none_dr B dr X) = X /\
       daun_forward_deg0_none_dr B dr (daun_inverse_deg0_none_dr B dr X) = X,
       daun_inverse_deg1_none_dr B dr (daun_forward_deg1_none_dr B dr X) = X /\
       daun_forward_deg1_none_dr B dr (daun_inverse_deg1_none_dr B dr X) = X &
       daun_inverse_deg2_none_dr B dr (daun_forward_deg2_none_dr B dr X) = X /\
       daun_forward_deg2_none_dr B dr (daun_inverse_deg2_none_dr B dr X) = X]) /\
  (daun_inverse_deg3_none_dr B dr (daun_forward_deg3_none_dr B dr X) = X /\
   daun_forward_deg3_none_dr B dr (daun_inverse_deg3_none_dr B dr X) = X).
Proof.
move=> dr0; split; last exact: daun_roundtrip_deg3_dr.
by move=> tB; split; exact: (daun_roundtrip_tri_dr X tB dr0).
Qed.

Lemma daun_roundtrip_all_dr1 h (X : 'M[F]_(h, n)) :
  (is_trig_mx B ->
   [/\ daun_inverse_deg0_none_dr1 B (daun_forward_deg0_none_dr1 B X) = X /\
       daun_forward_deg0_none_dr1 B (daun_inverse_deg0_none_dr1 B X) = X,
       daun_inverse_deg1_none_dr1 B (daun_forward_deg1_none_dr1 B X) = X /\
       daun_forward_deg1_none_dr1 B (daun_inverse_deg1_none_dr1 B X) = X &
       daun_inverse_deg2_none_dr1 B (daun_forward_deg2_none_dr1 B X) = X /\
       daun_forward_deg2_none_dr1 B (daun_inverse_deg2_none_dr1 B X) = X]) /\
  (daun_inverse_deg3_none_dr1 B (daun_forward_deg3_none_dr1 B X) = X /\
   daun_forward_deg3_none_dr1 B (daun_inverse_deg3_none_dr1 B X) = X).
Proof.
split; last exact: daun_roundtrip_deg3.
by move=> tB; split; exact: (daun_roundtrip_tri X tB).
Qed.

(* Tikhonov expression at strength zero is the plain inverse (any L) *)
Lemma tikhonov_zero (L : 'M[F]_n) : B^T *m invmx (B *m B^T + 0 *: L) = invmx B.
Proof.
rewrite scale0r addr0.
have uBT : B^T \in unitmx by rewrite unitmx_tr.
have uBB : B *m B^T \in unitmx by rewrite unitmx_mul uB uBT.
apply: (can_inj (mulKmx uB)).
by rewrite mulmxA mulmxV // mulmxV.
Qed.

Lemma tikhonov_zero_daun_diff (L : 'M[F]_n) : daun_tikhonov_diff B L 0 = invmx B.
Proof. exact: tikhonov_zero. Qed.

Lemma tikhonov_zero_daun_L2 : daun_tikhonov_L2 B 0 = invmx B.
Proof. exact: tikhonov_zero. Qed.

Lemma colsum_mul m (A : 'M[F]_(m, n)) (C : 'M[F]_n) : colsum A *m C = colsum (A *m C).
Proof.
apply/rowP=> j; rewrite !mxE.
transitivity (\sum_k \sum_i A i k * C k j).
  by apply: eq_bigr => k _; rewrite mxE big_distrl.
by rewrite exchange_big /=; apply: eq_bigr => i _; rewrite mxE.
Qed.

(* L2c: the correction divides by the column sums of B B^-1 = 1, i.e. by 1 *)
Lemma tikhonov_zero_daun_L2c : (0 < n)%N -> daun_tikhonov_L2c B 0 = invmx B.
Proof.
move=> n0; rewrite /daun_tikhonov_L2c !tikhonov_zero colsum_mul mulmxV //.
apply/matrixP=> i j; rewrite !mxE.
rewrite (bigD1 j) //= mxE eqxx big1 ?addr0 ?divr1 // => k kj.
by rewrite mxE (negbTE kj).
Qed.

(* the regularised transforms at strength 0 coincide with the unregularised one *)
Lemma daun_reg_zero_eq_none h (X : 'M[F]_(h, n)) (L : 'M[F]_n) : is_trig_mx B ->
  daun_inverse_deg0_diff_dr1 B L 0 X = daun_inverse_deg0_none_dr1 B X /\
  daun_inverse_deg0_L2_dr1 B 0 X = daun_inverse_deg0_none_dr1 B X /\
  daun_inverse_deg0_num_dr1 B L 0 X = daun_inverse_deg0_none_dr1 B X.
Proof.
move=> tB; rewrite daun_inverse_tri_spec //.
by rewrite /daun_inverse_deg0_diff_dr1 /daun_inverse_deg0_L2_dr1 /daun_inverse_deg0_num_dr1 !tikhonov_zero.
Qed.

Lemma daun_L2c_zero_eq_none h (X : 'M[F]_(h, n)) : is_trig_mx B -> (0 < n)%N ->
  daun_inverse_deg0_L2c_dr1 B 0 X = daun_inverse_deg0_none_dr1 B X.
Proof.
move=> tB n0; rewrite daun_inverse_tri_spec //.
have -> : daun_inverse_deg0_L2c_dr1 B 0 X = X *m daun_tikhonov_L2c B 0 by [].
by rewrite tikhonov_zero_daun_L2c.
Qed.

End Daun.

(* option parsing: every spelling of "no regularisation" takes the same path,
   for every degree (the generated terms are syntactically equal) *)
Section DaunDecisions.
Variable F : fieldType.
Variables (n h : nat).
Variables (B : 'M[F]_n) (X : 'M[F]_(h, n)) (dr : F).

Lemma daun_zero_strength_same_path :
  [/\ daun_inverse_deg0_int0_dr1 B X = daun_inverse_deg0_none_dr1 B X,
      daun_inverse_deg0_float0_dr1 B X = daun_inverse_deg0_none_dr1 B X,
      daun_inverse_deg0_diff0_dr1 B X = daun_inverse_deg0_none_dr1 B X,
      daun_inverse_deg0_L20_dr1 B X = daun_inverse_deg0_none_dr1 B X &
      daun_inverse_deg0_L2c0_dr1 B X = daun_inverse_deg0_none_dr1 B X] /\
  [/\ daun_inverse_deg1_int0_dr1 B X = daun_inverse_deg1_none_dr1 B X,
      daun_inverse_deg1_float0_dr1 B X = daun_inverse_deg1_none_dr1 B X,
      daun_inverse_deg1_diff0_dr1 B X = daun_inverse_deg1_none_dr1 B X,
      daun_inverse_deg1_L20_dr1 B X = daun_inverse_deg1_none_dr1 B X &
      daun_inverse_deg1_L2c0_dr1 B X = daun_inverse_deg1_none_dr1 B X] /\
  [/\ daun_inverse_deg2_int0_dr1 B X = daun_inverse_deg2_none_dr1 B X,
      daun_inverse_deg2_float0_dr1 B X = daun_inverse_deg2_none_dr1 B X,
      daun_inverse_deg2_diff0_dr1 B X = daun_inverse_deg2_none_dr1 B X,
      daun_inverse_deg2_L20_dr1 B X = daun_inverse_deg2_none_dr1 B X &
      daun_inverse_deg2_L2c0_dr1 B X = daun_inverse_deg2_none_dr1 B X] /\
  [/\ daun_inverse_deg3_int0_dr1 B X = daun_inverse_deg3_none_dr1 B X,
      daun_inverse_deg3_float0_dr1 B X = daun_inverse_deg3_none_dr1 B X,
      daun_inverse_deg3_diff0_dr1 B X = daun_inverse_deg3_none_dr1 B X,
      daun_inverse_deg3_L20_dr1 B X = daun_inverse_deg3_none_dr1 B X &
      daun_inverse_deg3_L2c0_dr1 B X = daun_inverse_deg3_none_dr1 B X].
Proof. by do !split. Qed.

(* degrees 1 and 2 take the same code path as degree 0 (triangular solve);
   the forward transform ignores reg *)
Lemma daun_degree_paths :
  [/\ daun_inverse_deg1_none_dr1 B X = daun_inverse_deg0_none_dr1 B X,
      daun_inverse_deg2_none_dr1 B X = daun_inverse_deg0_none_dr1 B X,
      daun_forward_deg1_none_dr1 B X = daun_forward_deg0_none_dr1 B X,
      daun_forward_deg2_none_dr1 B X = daun_forward_deg0_none_dr1 B X &
      daun_forward_deg3_none_dr1 B X = daun_forward_deg0_none_dr1 B X] /\
  [/\ daun_forward_deg0_diff_dr1 B X = daun_forward_deg0_none_dr1 B X,
      daun_inverse_deg1_none_dr B dr X = daun_inverse_deg0_none_dr B dr X,
      daun_inverse_deg2_none_dr B dr X = daun_inverse_deg0_none_dr B dr X,
      daun_forward_deg1_none_dr B dr X = daun_forward_deg0_none_dr B dr X &
      daun_forward_deg2_none_dr B dr X = daun_forward_deg0_none_dr B dr X].
Proof. by do !split. Qed.

(* dr Jacobian (daun.py `recon *= dr` / `recon /= dr`) *)
Lemma daun_dr :
  [/\ daun_forward_deg0_none_dr B dr X = dr *: daun_forward_deg0_none_dr1 B X,
      daun_forward_deg3_none_dr B dr X = dr *: daun_forward_deg3_none_dr1 B X,
      daun_inverse_deg0_none_dr B dr X = dr^-1 *: daun_inverse_deg0_none_dr1 B X &
      daun_inverse_deg3_none_dr B dr X = dr^-1 *: daun_inverse_deg3_none_dr1 B X].
Proof. by split. Qed.

Lemma daun_dr_reg (L : 'M[F]_n) (s : F) nnls :
  [/\ daun_inverse_deg0_diff_dr B L s dr X = dr^-1 *: daun_inverse_deg0_diff_dr1 B L s X,
      daun_inverse_deg0_L2_dr B s dr X = dr^-1 *: daun_inverse_deg0_L2_dr1 B s X,
      daun_inverse_deg0_L2c_dr B s dr X = dr^-1 *: daun_inverse_deg0_L2c_dr1 B s X &
      daun_inverse_deg0_nonneg_dr B nnls dr X = dr^-1 *: daun_inverse_deg0_nonneg_dr1 B nnls X].
Proof. by split. Qed.

(* regularised inverse transforms are row-wise matrix products too *)
Lemma daun_reg_rowwise (L : 'M[F]_n) (s : F) :
  [/\ daun_inverse_deg0_diff_dr1 B L s X = X *m daun_tikhonov_diff B L s,
      daun_inverse_deg0_L2_dr1 B s X = X *m daun_tikhonov_L2 B s &
      daun_inverse_deg0_L2c_dr1 B s X = X *m daun_tikhonov_L2c B s].
Proof. by split. Qed.

End DaunDecisions.

(* ------------------------------------------------------------------------ *)
(* basex                                                                       *)
(* ------------------------------------------------------------------------ *)
Section Basex.
Variable F : fieldType.
Variables (n : nat).
Variables M Mc : 'M[F]_n.

Lemma basex_matrix_is_get_A :
  basex_matrix_forward_dr1 M Mc = basex_A_forward_exact M Mc /\
  basex_matrix_inverse_dr1 M Mc = basex_A_inverse_exact M Mc.
Proof. by split. Qed.

Lemma basex_dr (dr : F) :
  basex_matrix_forward_dr M Mc dr = dr *: basex_matrix_forward_dr1 M Mc /\
  basex_matrix_inverse_dr M Mc dr = dr^-1 *: basex_matrix_inverse_dr1 M Mc.
Proof. by split. Qed.

Hypothesis uM : M \in unitmx.
Hypothesis uMc : Mc \in unitmx.

Lemma basex_A_fwd_inv :
  basex_A_forward_exact M Mc *m basex_A_inverse_exact M Mc = 1%:M /\
  basex_A_inverse_exact M Mc *m basex_A_forward_exact M Mc = 1%:M.
Proof.
have uMT : M^T \in unitmx by rewrite unitmx_tr.
have uMcT : Mc^T \in unitmx by rewrite unitmx_tr.
rewrite /basex_A_forward_exact /basex_A_inverse_exact; split.
  by rewrite mulmxA mulmxK // mulVmx.
by rewrite mulmxA mulmxK // mulVmx.
Qed.

Lemma basex_roundtrip h (X : 'M[F]_(h, n)) :
  basex_core (basex_matrix_inverse_dr1 M Mc) (basex_core (basex_matrix_forward_dr1 M Mc) X) = X /\
  basex_core (basex_matrix_forward_dr1 M Mc) (basex_core (basex_matrix_inverse_dr1 M Mc) X) = X.
Proof.
case: basex_A_fwd_inv => fi i_f.
case: basex_matrix_is_get_A => -> ->.
by rewrite /basex_core -(mulmxA X) fi -(mulmxA X) i_f !mulmx1.
Qed.

Lemma basex_roundtrip_dr h (X : 'M[F]_(h, n)) (dr : F) : dr != 0 ->
  basex_core (basex_matrix_inverse_dr M Mc dr) (basex_core (basex_matrix_forward_dr M Mc dr) X) = X /\
  basex_core (basex_matrix_forward_dr M Mc dr) (basex_core (basex_matrix_inverse_dr M Mc dr) X) = X.
Proof.
move=> dr0; case: basex_A_fwd_inv => fi i_f.
case: (basex_dr dr) => -> ->; case: basex_matrix_is_get_A => -> ->.
rewrite /basex_core -!mulmxA -!scalemxAl -!scalemxAr !scalerA fi i_f.
by rewrite mulVf // mulfV // !scale1r !mulmx1.
Qed.

End Basex.

(* the regularised branch of _get_A at reg = 0 is the exact branch (square bases) *)
Section BasexReg.
Variable F : fieldType.
Variables (n : nat).
Variables M Mc : 'M[F]_n.
Hypothesis uM : M \in unitmx.
Hypothesis uMc : Mc \in unitmx.

Lemma gram_inv (Bi : 'M[F]_n) : Bi \in unitmx -> Bi *m invmx (Bi^T *m Bi + 0%:M) = invmx Bi^T.
Proof.
move=> uBi; have uT : Bi^T \in unitmx by rewrite unitmx_tr.
have -> : (0 : F)%:M = 0 :> 'M[F]_n by apply/matrixP=> i j; rewrite !mxE mul0rn.
rewrite addr0.
have uG : Bi^T *m Bi \in unitmx by rewrite unitmx_mul uT uBi.
apply: (can_inj (mulKmx uT)).
by rewrite mulmxA mulmxV // mulmxV.
Qed.

Lemma basex_reg_zero :
  basex_A_forward_reg M Mc 0 = basex_A_forward_exact M Mc /\
  basex_A_inverse_reg M Mc 0 = basex_A_inverse_exact M Mc.
Proof.
by rewrite /basex_A_forward_reg /basex_A_inverse_reg !gram_inv.
Qed.

End BasexReg.

(* ------------------------------------------------------------------------ *)
(* rbasex                                                                      *)
(* ------------------------------------------------------------------------ *)
Section Rbasex.
Variable F : fieldType.
Variable Rmax : nat.
Variable P : 'M[F]_(Rmax.+1).

Lemma rbasex_apply_is_matrix (p : 'rV[F]_(Rmax.+1)) :
  [/\ rbasex_apply_forward_none P p = p *m (rbasex_matrix_forward_none P)^T,
      rbasex_apply_inverse_none P p = p *m (rbasex_matrix_inverse_none P)^T,
      (forall s, rbasex_apply_inverse_L2 P s p = p *m (rbasex_matrix_inverse_L2 P s)^T) &
      (forall G s, rbasex_apply_inverse_diff P G s p = p *m (rbasex_matrix_inverse_diff P G s)^T)].
Proof. by split. Qed.

Hypothesis tP : is_trig_mx P.

Lemma rbasex_inverse_matrix_spec : rbasex_matrix_inverse_none P = (invmx P)^T.
Proof. by rewrite /rbasex_matrix_inverse_none solve_lower_spec // mulmx1. Qed.

Hypothesis uP : P \in unitmx.

(* the matrices: forward P^T and inverse (P^-1)^T are mutual inverses *)
Lemma rbasex_matrices_inverse :
  rbasex_matrix_forward_none P *m rbasex_matrix_inverse_none P = 1%:M /\
  rbasex_matrix_inverse_none P *m rbasex_matrix_forward_none P = 1%:M.
Proof.
rewrite rbasex_inverse_matrix_spec /rbasex_matrix_forward_none -!trmx_mul.
by rewrite mulVmx // mulmxV // trmx1.
Qed.

Lemma rbasex_roundtrip (p : 'rV[F]_(Rmax.+1)) :
  rbasex_apply_inverse_none P (rbasex_apply_forward_none P p) = p /\
  rbasex_apply_forward_none P (rbasex_apply_inverse_none P p) = p.
Proof.
have Ef q : rbasex_apply_forward_none P q = q *m P.
  by rewrite /rbasex_apply_forward_none trmxK.
have Ei q : rbasex_apply_inverse_none P q = q *m invmx P.
  have -> : rbasex_apply_inverse_none P q = q *m (rbasex_matrix_inverse_none P)^T by [].
  by rewrite rbasex_inverse_matrix_spec trmxK.
by rewrite !Ef !Ei mulmxK // mulmxKV.
Qed.

Lemma rbasex_tikhonov_zero_L2 : rbasex_matrix_inverse_L2 P 0 = rbasex_matrix_inverse_none P.
Proof.
rewrite rbasex_inverse_matrix_spec /rbasex_matrix_inverse_L2 trmxK.
have -> : (0 : F)%:M = 0 :> 'M[F]_(Rmax.+1) by apply/matrixP=> i j; rewrite !mxE mul0rn.
rewrite addr0.
have uT : P^T \in unitmx by rewrite unitmx_tr.
have uG : P^T *m P \in unitmx by rewrite unitmx_mul uT uP.
rewrite trmx_inv; apply: (can_inj (mulKmx uT)).
by rewrite mulmxA mulmxV // mulmxV.
Qed.

Lemma rbasex_tikhonov_zero_diff (G : 'M[F]_(Rmax.+1)) :
  rbasex_matrix_inverse_diff P G 0 = rbasex_matrix_inverse_none P.
Proof.
rewrite rbasex_inverse_matrix_spec /rbasex_matrix_inverse_diff trmxK scale0r addr0.
have uT : P^T \in unitmx by rewrite unitmx_tr.
have uG : P^T *m P \in unitmx by rewrite unitmx_mul uT uP.
rewrite trmx_inv; apply: (can_inj (mulKmx uT)).
by rewrite mulmxA mulmxV // mulmxV.
Qed.

Lemma rbasex_apply_tikhonov_zero (G : 'M[F]_(Rmax.+1)) (p : 'rV[F]_(Rmax.+1)) :
  rbasex_apply_inverse_L2 P 0 p = rbasex_apply_inverse_none P p /\
  rbasex_apply_inverse_diff P G 0 p = rbasex_apply_inverse_none P p.
Proof.
case: (rbasex_apply_is_matrix p) => _ -> -> ->.
by rewrite rbasex_tikhonov_zero_L2 rbasex_tikhonov_zero_diff.
Qed.

End Rbasex.

(* ------------------------------------------------------------------------ *)
(* dasch, and daun default == onion_peeling                                    *)
(* ------------------------------------------------------------------------ *)
Section Dasch.
Variable F : fieldType.
Variables (n h : nat).

Lemma dasch_dr (D W : 'M[F]_n) (X : 'M[F]_(h, n)) (dr : F) :
  [/\ dasch_two_point_dr D dr X = dr^-1 *: dasch_two_point_dr1 D X,
      dasch_three_point_dr D dr X = dr^-1 *: dasch_three_point_dr1 D X &
      dasch_onion_peeling_dr W dr X = dr^-1 *: dasch_onion_peeling_dr1 W X].
Proof.
by rewrite /dasch_two_point_dr1 /dasch_three_point_dr1 /dasch_onion_peeling_dr1 invr1 !scale1r.
Qed.

Lemma dasch_rowwise (D W : 'M[F]_n) (X : 'M[F]_(h, n)) :
  [/\ dasch_two_point_dr1 D X = X *m D^T,
      dasch_three_point_dr1 D X = X *m D^T &
      dasch_onion_peeling_dr1 W X = X *m (invmx W)^T].
Proof.
by rewrite /dasch_two_point_dr1 /dasch_three_point_dr1 /dasch_onion_peeling_dr1 invr1 !scale1r.
Qed.

(* daun(reg=0.0, degree=0, dr=1.0, 'inverse') == onion_peeling whenever the
   onion-peeling weight matrix is the transpose of the degree-0 basis *)
Lemma daun_default_eq_onion_peeling (B W : 'M[F]_n) (X : 'M[F]_(h, n)) :
  is_trig_mx B -> W = B^T ->
  daun_inverse_deg0_float0_dr1 B X = dasch_onion_peeling_dr1 W X.
Proof.
move=> tB ->; case: (dasch_rowwise W B^T X) => _ _ ->.
have -> : daun_inverse_deg0_float0_dr1 B X = daun_inverse_deg0_none_dr1 B X by [].
by rewrite daun_inverse_tri_spec // trmx_invT.
Qed.

End Dasch.

(* ------------------------------------------------------------------------ *)
(* C04: every matrix-class method is  X |-> X *m A  with A independent of X    *)
(* ------------------------------------------------------------------------ *)
Section AllRowwise.
Variable F : fieldType.
Variable n : nat.

Lemma daun_all_rowwise (B L : 'M[F]_n) (s : F) :
  [/\ is_rowwise (fun h X => @daun_forward_deg0_none_dr1 F n h B X) B,
      is_rowwise (fun h X => @daun_forward_deg1_none_dr1 F n h B X) B,
      is_rowwise (fun h X => @daun_forward_deg2_none_dr1 F n h B X) B &
      is_rowwise (fun h X => @daun_forward_deg3_none_dr1 F n h B X) B] /\
  [/\ is_rowwise (fun h X => @daun_inverse_deg0_none_dr1 F n h B X) (daun_inv_tri_op B),
      is_rowwise (fun h X => @daun_inverse_deg1_none_dr1 F n h B X) (daun_inv_tri_op B),
      is_rowwise (fun h X => @daun_inverse_deg2_none_dr1 F n h B X) (daun_inv_tri_op B) &
      is_rowwise (fun h X => @daun_inverse_deg3_none_dr1 F n h B X) (invmx B)] /\
  [/\ is_rowwise (fun h X => @daun_inverse_deg0_diff_dr1 F n h B L s X) (daun_tikhonov_diff B L s),
      is_rowwise (fun h X => @daun_inverse_deg0_L2_dr1 F n h B s X) (daun_tikhonov_L2 B s),
      is_rowwise (fun h X => @daun_inverse_deg0_L2c_dr1 F n h B s X) (daun_tikhonov_L2c B s) &
      is_rowwise (fun h X => @daun_inverse_deg0_num_dr1 F n h B L s X) (daun_tikhonov_diff B L s)].
Proof.
do !split; move=> h X //; exact: daun_inverse_tri_rowwise.
Qed.

Lemma basex_dasch_rowwise (A D W : 'M[F]_n) :
  [/\ is_rowwise (fun h X => @basex_core F n h A X) A,
      is_rowwise (fun h X => @dasch_two_point_dr1 F n h D X) D^T,
      is_rowwise (fun h X => @dasch_three_point_dr1 F n h D X) D^T &
      is_rowwise (fun h X => @dasch_onion_peeling_dr1 F n h W X) (invmx W)^T].
Proof.
split; move=> h X //.
- by case: (dasch_rowwise D W X).
- by case: (dasch_rowwise D W X).
- by case: (dasch_rowwise D W X).
Qed.

End AllRowwise.

(* ------------------------------------------------------------------------ *)
(* single-row inputs (one-row 2-D array, 1-D profile) take the same            *)
(* expression as a row of a many-row image (C17: all input shapes)             *)
(* ------------------------------------------------------------------------ *)
Section SingleRow.
Variable F : fieldType.
Variable n : nat.

Lemma dasch_single_row (D W : 'M[F]_n) (dr : F) (x : 'rV[F]_n) :
  [/\ dasch_two_point_onerow_dr D dr x = dasch_two_point_dr D dr x,
      dasch_two_point_1d_dr D dr x = dasch_two_point_dr D dr x,
      dasch_three_point_onerow_dr D dr x = dasch_three_point_dr D dr x &
      dasch_three_point_1d_dr D dr x = dasch_three_point_dr D dr x] /\
  (dasch_onion_peeling_onerow_dr W dr x = dasch_onion_peeling_dr W dr x /\
   dasch_onion_peeling_1d_dr W dr x = dasch_onion_peeling_dr W dr x).
Proof. by do !split. Qed.

Lemma daun_single_row (B : 'M[F]_n) (dr : F) (x : 'rV[F]_n) :
  [/\ daun_forward_deg0_none_onerow_dr B dr x = daun_forward_deg0_none_dr B dr x,
      daun_forward_deg0_none_1d_dr B dr x = daun_forward_deg0_none_dr B dr x,
      daun_inverse_deg0_none_onerow_dr B dr x = daun_inverse_deg0_none_dr B dr x &
      daun_inverse_deg0_none_1d_dr B dr x = daun_inverse_deg0_none_dr B dr x] /\
  [/\ daun_forward_deg3_none_onerow_dr B dr x = daun_forward_deg3_none_dr B dr x,
      daun_forward_deg3_none_1d_dr B dr x = daun_forward_deg3_none_dr B dr x,
      daun_inverse_deg3_none_onerow_dr B dr x = daun_inverse_deg3_none_dr B dr x &
      daun_inverse_deg3_none_1d_dr B dr x = daun_inverse_deg3_none_dr B dr x].
Proof. by do !split. Qed.

(* a row of the many-row result is the single-row result of that row *)
Lemma dasch_row_of_image (D : 'M[F]_n) (dr : F) h (X : 'M[F]_(h, n)) (i : 'I_h) :
  row i (dasch_two_point_dr D dr X) = dasch_two_point_1d_dr D dr (row i X) /\
  row i (dasch_three_point_dr D dr X) = dasch_three_point_1d_dr D dr (row i X).
Proof.
by rewrite /dasch_two_point_dr /dasch_three_point_dr /dasch_two_point_1d_dr /dasch_three_point_1d_dr
           !linearZ /= !row_mul.
Qed.

(* daun default == onion_peeling on single-row inputs and with a pixel size *)
Lemma daun_default_eq_onion_peeling_shapes (B W : 'M[F]_n) (dr : F) (x : 'rV[F]_n) h (X : 'M[F]_(h, n)) :
  is_trig_mx B -> W = B^T ->
  [/\ daun_inverse_deg0_float0_dr B dr X = dasch_onion_peeling_dr W dr X,
      daun_inverse_deg0_none_1d_dr B dr x = dasch_onion_peeling_1d_dr W dr x &
      daun_inverse_deg0_none_onerow_dr B dr x = dasch_onion_peeling_onerow_dr W dr x].
Proof.
move=> tB eW.
have E h' (Y : 'M[F]_(h', n)) : daun_inverse_deg0_float0_dr B dr Y = dasch_onion_peeling_dr W dr Y.
  have -> : daun_inverse_deg0_float0_dr B dr Y = dr^-1 *: daun_inverse_deg0_float0_dr1 B Y by [].
  rewrite (daun_default_eq_onion_peeling Y tB eW).
  by rewrite /dasch_onion_peeling_dr1 /dasch_onion_peeling_dr invr1 scale1r.
by split; [exact: E | exact: (E 1%N x) | exact: (E 1%N x)].
Qed.

End SingleRow.

(* basex with the intensity correction: still one fixed matrix, scaled by dr *)
Section BasexCorrected.
Variable F : fieldType.
Variable n : nat.
Variables (M Mc : 'M[F]_n) (cor : 'rV[F]_n).

Lemma basex_corrected_dr (dr : F) :
  basex_matrix_forward_corr_dr M Mc cor dr = dr *: basex_matrix_forward_corr_dr1 M Mc cor /\
  basex_matrix_inverse_corr_dr M Mc cor dr = dr^-1 *: basex_matrix_inverse_corr_dr1 M Mc cor.
Proof. by split. Qed.

Lemma basex_corrected_is_colmul :
  basex_matrix_forward_corr_dr1 M Mc cor = colmul (basex_A_forward_exact M Mc) cor /\
  basex_matrix_inverse_corr_dr1 M Mc cor = colmul (basex_A_inverse_exact M Mc) cor.
Proof. by split. Qed.

End BasexCorrected.
