(* CenterGenEq.v — the trimming step of center_image regenerated from the
   current source (gen/CenterGen.v, tools/translate/center_src.py, Python
   integers as Z) is the hand-written model ci_trim (model/Center.v, naturals)
   the C12 theorems are about. *)
From Coq Require Import List Arith Lia Bool ZArith ZifyBool ZifyNat.
From PA Require Import base.Arr base.Px model.Center gen.CenterGen proofs.CenterImage.
Import ListNotations.
Ltac Zify.zify_post_hook ::= Z.to_euclidean_division_equations.

Lemma zeven_nat m : (Z.of_nat m mod 2 =? 0)%Z = Nat.even m.
Proof.
  rewrite even_mod2.
  destruct (Nat.eqb_spec (m mod 2) 0); destruct (Z.eqb_spec (Z.of_nat m mod 2) 0); lia.
Qed.

Lemma ncols_empty_rows (A : Type) (IM : list (list A)) : nrows IM = 0 -> ncols IM = 0.
Proof. destruct IM; [reflexivity|discriminate]. Qed.

Section Stage2.
  Variable A : Type.
  Variable IM1 : list (list A).
  Let n := nrows IM1.
  Let m := ncols IM1.

  (* rows > cols: remove (rows - cols) rows, half from each end, the odd one from the end *)
  Lemma rows_branch :
    m < n ->
    (if negb ((Z.of_nat n - Z.of_nat m) mod 2 =? 0)%Z
     then pyslice 0 (-1)
            (if (0 <? (Z.of_nat n - Z.of_nat m) / 2)%Z
             then pyslice ((Z.of_nat n - Z.of_nat m) / 2) (- ((Z.of_nat n - Z.of_nat m) / 2)) IM1 else IM1)
     else if (0 <? (Z.of_nat n - Z.of_nat m) / 2)%Z
          then pyslice ((Z.of_nat n - Z.of_nat m) / 2) (- ((Z.of_nat n - Z.of_nat m) / 2)) IM1 else IM1) =
    (if (n - m) mod 2 =? 1
     then pyslice 0 (-1)
            (if 0 <? (n - m) / 2 then pyslice (Z.of_nat ((n - m) / 2)) (- Z.of_nat ((n - m) / 2)) IM1 else IM1)
     else if 0 <? (n - m) / 2 then pyslice (Z.of_nat ((n - m) / 2)) (- Z.of_nat ((n - m) / 2)) IM1 else IM1).
  Proof.
    intros H.
    replace ((Z.of_nat n - Z.of_nat m) / 2)%Z with (Z.of_nat ((n - m) / 2)) by lia.
    replace ((Z.of_nat n - Z.of_nat m) mod 2)%Z with (Z.of_nat ((n - m) mod 2)) by lia.
    destruct (Z.eqb_spec (Z.of_nat ((n - m) mod 2)) 0); destruct (Nat.eqb_spec ((n - m) mod 2) 1); try lia;
      destruct (Z.ltb_spec 0 (Z.of_nat ((n - m) / 2))); destruct (Nat.ltb_spec 0 ((n - m) / 2)); try lia;
      reflexivity.
  Qed.
End Stage2.

Theorem ci_trim_gen_eq (A : Type) odd_size square (IM : list (list A)) :
  ci_trim_gen A odd_size square IM = ci_trim odd_size square IM.
Proof.
  unfold ci_trim_gen, ci_trim, pyslice_o. cbv zeta.
  rewrite zeven_nat.
  change (fun l : list A => pyslice 0 (- (1)) l) with (@pyslice A 0 (-1)).
  set (IM1 := if odd_size && Nat.even (ncols IM) then map (pyslice 0 (-1)) IM else IM).
  destruct (odd_size && Nat.even (ncols IM)) eqn:C1; fold IM1;
    set (n := nrows IM1); set (m := ncols IM1);
    assert (Hn0 : n = 0 -> m = 0) by (apply ncols_empty_rows).
  all: destruct square; cbn [andb]; [|reflexivity].
  all: destruct (Z.eqb_spec (Z.of_nat n) (Z.of_nat m)); destruct (Nat.eqb_spec n m); try lia; cbn [negb];
         [reflexivity|].
  all: destruct (Z.ltb_spec (Z.of_nat m) (Z.of_nat n)); destruct (Nat.ltb_spec m n); try lia.
  1,3: apply rows_branch; assumption.
  all: rewrite zeven_nat; destruct (odd_size && Nat.even n).
  all: try replace (Z.of_nat n - 1)%Z with (Z.of_nat (n - 1)) by lia.
  all: try replace ((Z.of_nat m - Z.of_nat (n - 1)) / 2)%Z with (Z.of_nat ((m - (n - 1)) / 2)) by lia.
  all: try replace ((Z.of_nat m - Z.of_nat n) / 2)%Z with (Z.of_nat ((m - n) / 2)) by lia.
  all: reflexivity.
Qed.
