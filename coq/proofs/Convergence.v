(* proofs/Convergence.v — quantitative convergence of the daun forward operators
   (degree 0 = onion-peeling basis, degree 1) for ALL sizes n, on top of
   proofs/ExactOnSpan.v:

     operator applied to the samples of f
        = exact projection of the interpolant g of f       (exact on span)
     |Abel g - Abel f|(x) <= 2 * ylos x R * sup|g - f|     (sup-norm bound of the
                                                            line integral)
     sup|g - f| <= L/2            piecewise constant, f L-Lipschitz
     sup|g - f| <= L2/4           piecewise linear,  f' L2-Lipschitz (two MVTs)

   Everything is in pixel units first (grid zc j = j, image radius zc n);
   the *_phys corollaries rescale to a pixel size h with abel_scaling. *)
From Coq Require Import Reals ZArith Bool Lra Lia Arith.
From Coquelicot Require Import Coquelicot.
From PA Require Import model.Abel proofs.AbelLemmas proofs.C09Daun gen.FormulasBasis proofs.ExactOnSpan.
From PA Require proofs.AbelPairsGauss.
Open Scope R_scope.

(* ---- small tools ------------------------------------------------------------ *)
Lemma sumn_Rabs_le n F G : (forall j, (j < n)%nat -> Rabs (F j) <= G j) ->
  Rabs (sumn n F) <= sumn n G.
Proof.
  induction n as [|n IH]; intros H; simpl.
  - rewrite Rabs_R0. lra.
  - eapply Rle_trans; [apply Rabs_triang|]. apply Rplus_le_compat; [apply IH; intros; apply H; lia|apply H; lia].
Qed.

Lemma sumn_minus n F G : sumn n (fun j => F j - G j) = sumn n F - sumn n G.
Proof. induction n as [|n IH]; simpl; [ring|]. rewrite IH. ring. Qed.

Lemma lipschitz_continuous (F : R -> R) L x : 0 <= L ->
  (forall r s, Rabs (F r - F s) <= L * Rabs (r - s)) -> continuous F x.
Proof.
  intros HL H. apply filterlim_locally. intros eps.
  assert (Hd : 0 < eps / (L + 1)) by (apply Rdiv_lt_0_compat; [apply cond_pos|lra]).
  exists (mkposreal _ Hd). intros y Hy. 
  change (Rabs (F y - F x) < eps). change (Rabs (y - x) < eps / (L + 1)) in Hy.
  eapply Rle_lt_trans; [apply H|].
  apply Rle_lt_trans with ((L + 1) * Rabs (y - x)).
  - pose proof (Rabs_pos (y - x)). nra.
  - apply Rlt_le_trans with ((L + 1) * (eps / (L + 1))).
    + apply Rmult_lt_compat_l; [lra|exact Hy].
    + right. field. lra.
Qed.

(* a function that is L-Lipschitz on the non-negative reals, read through Rabs,
   is L-Lipschitz everywhere; along the line of sight only radii >= 0 occur *)
Definition lipschitz_nonneg (f : R -> R) (L : R) : Prop :=
  forall r s, 0 <= r -> 0 <= s -> Rabs (f r - f s) <= L * Rabs (r - s).

Lemma los_continuous (f : R -> R) L x y : 0 <= L -> lipschitz_nonneg f L ->
  continuous (fun y => f (sqrt (x * x + y * y))) y.
Proof.
  intros HL Hf.
  assert (E : forall t, f (sqrt (x * x + t * t)) = (fun r => f (Rabs r)) (sqrt (x * x + t * t))).
  { intros t. cbv beta. rewrite Rabs_pos_eq; [reflexivity|apply sqrt_pos]. }
  apply (continuous_ext (fun t => (fun r => f (Rabs r)) (sqrt (x * x + t * t)))).
  { intros t. symmetry. apply E. }
  apply (continuous_comp (fun t => sqrt (x * x + t * t)) (fun r => f (Rabs r))).
  - apply hyp_continuous.
  - apply (lipschitz_continuous (fun r => f (Rabs r)) L); [exact HL|].
    intros r s. eapply Rle_trans; [apply Hf; apply Rabs_pos|].
    apply Rmult_le_compat_l; [exact HL|]. apply Rabs_triang_inv2.
Qed.

Lemma los_ex_RInt (f : R -> R) L x a b : 0 <= L -> lipschitz_nonneg f L ->
  ex_RInt (fun y => f (sqrt (x * x + y * y))) a b.
Proof.
  intros HL Hf. apply (ex_RInt_continuous (fun y => f (sqrt (x * x + y * y)))).
  intros z _. apply (los_continuous f L); assumption.
Qed.

(* sup-norm bound of the line integral *)
Lemma abel_diff_bound (g f : R -> R) Rm x Ig M : 0 <= x -> 0 <= Rm ->
  is_RInt (fun y => g (sqrt (x * x + y * y))) 0 (ylos x Rm) Ig ->
  ex_RInt (fun y => f (sqrt (x * x + y * y))) 0 (ylos x Rm) ->
  (forall r, 0 <= r -> Rabs (g r - f r) <= M) ->
  Rabs (2 * Ig - Abel f Rm x) <= 2 * ylos x Rm * M.
Proof.
  intros Hx HR Hg Hf Hb. unfold Abel. rewrite abel_upper by assumption.
  set (Y := ylos x Rm) in *. assert (HY : 0 <= Y) by apply ylos_nonneg.
  pose proof (is_RInt_minus _ _ _ _ _ _ Hg (RInt_correct _ _ _ Hf)) as Hd.
  pose proof (abs_RInt_le_const (fun y => minus (g (sqrt (x * x + y * y))) (f (sqrt (x * x + y * y)))) 0 Y M HY
                (ex_intro _ _ Hd)) as HB.
  pose proof (is_RInt_unique _ _ _ _ Hd) as HU.
  assert (HB' : Rabs (Ig - RInt (fun y => f (sqrt (x * x + y * y))) 0 Y) <= (Y - 0) * M).
  { change (Ig - RInt (fun y => f (sqrt (x * x + y * y))) 0 Y)
      with (minus Ig (RInt (fun y => f (sqrt (x * x + y * y))) 0 Y)).
    rewrite <- HU. apply HB. intros t _. apply Hb. apply sqrt_pos. }
  replace (2 * Ig - 2 * RInt (fun y => f (sqrt (x * x + y * y))) 0 Y)
    with (2 * (Ig - RInt (fun y => f (sqrt (x * x + y * y))) 0 Y)) by ring.
  rewrite Rabs_mult. rewrite (Rabs_pos_eq 2) by lra. lra.
Qed.

(* ---- degree 0: the piecewise-constant interpolant --------------------------- *)
Lemma rect_before c s : s < c - 1 / 2 -> rect c s = 0.
Proof. intros H. unfold rect. destruct (Rle_dec (c - 1 / 2) s); [lra|reflexivity]. Qed.
Lemma rect_in c s : c - 1 / 2 <= s < c + 1 / 2 -> rect c s = 1.
Proof.
  intros H. unfold rect. destruct (Rle_dec (c - 1 / 2) s); [|lra].
  destruct (Rlt_dec s (c + 1 / 2)); [reflexivity|lra].
Qed.

Lemma zc_S j : zc (S j) = zc j + 1.
Proof. unfold zc. rewrite Nat2Z.inj_succ, succ_IZR. reflexivity. Qed.
Lemma zc_le j k : (j <= k)%nat -> zc j <= zc k.
Proof. intros. unfold zc. apply IZR_le. lia. Qed.
Lemma zc_lt1 j k : (j < k)%nat -> zc j + 1 <= zc k.
Proof. apply zc_lt. Qed.

(* value of the interpolant in the cell of pixel j0 *)
Lemma span0_cell c n j0 r : zc j0 - 1 / 2 <= r < zc j0 + 1 / 2 ->
  span_daun0 c n r = if (j0 <? n)%nat then c j0 else 0.
Proof.
  intros Hr. unfold span_daun0, lin_comb. induction n as [|n IH]; simpl sumn.
  - reflexivity.
  - rewrite IH. destruct (Nat.ltb_spec j0 n) as [H|H]; destruct (Nat.ltb_spec j0 (S n)) as [H'|H']; try lia.
    + rewrite rect_before; [ring|]. pose proof (zc_lt1 j0 n H). lra.
    + assert (j0 = n) by lia. subst. rewrite rect_in by lra. ring.
    + rewrite rect_beyond; [ring|]. pose proof (zc_lt1 n j0 ltac:(lia)). lra.
Qed.

Lemma span0_beyond c n r : zc n - 1 / 2 <= r -> span_daun0 c n r = 0.
Proof.
  intros Hr. unfold span_daun0, lin_comb. induction n as [|n IH]; simpl sumn; [reflexivity|].
  rewrite zc_S in Hr. rewrite IH by lra. rewrite rect_beyond by lra. ring.
Qed.

(* every radius below the outer edge lies in the cell of some pixel *)
Lemma cell_exists n r : 0 <= r < zc n - 1 / 2 ->
  exists j0, (j0 < n)%nat /\ zc j0 - 1 / 2 <= r < zc j0 + 1 / 2.
Proof.
  intros [H0 H1]. destruct (archimed (r - 1 / 2)) as [A1 A2].
  set (k := up (r - 1 / 2)) in *.
  assert (Hk : (0 <= k)%Z).
  { apply Z.lt_pred_le. apply lt_IZR. simpl. lra. }
  exists (Z.to_nat k). unfold zc in *. rewrite Z2Nat.id by assumption. split.
  - apply Nat2Z.inj_lt. rewrite Z2Nat.id by assumption. apply lt_IZR. lra.
  - lra.
Qed.

Lemma span0_error (f : R -> R) L eps n r : 0 <= L -> 0 <= eps -> lipschitz_nonneg f L ->
  (forall s, zc n - 1 / 2 <= s -> Rabs (f s) <= eps) -> 0 <= r ->
  Rabs (span_daun0 (fun j => f (zc j)) n r - f r) <= L / 2 + eps.
Proof.
  intros HL He Hf Hz Hr. destruct (Rlt_le_dec r (zc n - 1 / 2)) as [H|H].
  - destruct (cell_exists n r (conj Hr H)) as [j0 [Hj Hc]].
    rewrite (span0_cell _ n j0 r Hc). destruct (Nat.ltb_spec j0 n); [|lia].
    eapply Rle_trans; [apply Hf; [apply zc_nonneg|exact Hr]|].
    assert (Rabs (zc j0 - r) <= 1 / 2) by (apply Rabs_le; lra). nra.
  - rewrite span0_beyond by assumption. replace (0 - f r) with (- f r) by ring.
    rewrite Rabs_Ropp. specialize (Hz r H). lra.
Qed.

(* the interpolant is integrable along the line of sight, with the value the
   generated matrix of abel/daun.py computes *)
Lemma span0_is_RInt n c x : 0 <= x ->
  is_RInt (fun y => span_daun0 c n (sqrt (x * x + y * y))) 0 (ylos x (zc n))
          (sumn n (fun j => c j * (ylos x (zc j + 1 / 2) - ylos x (zc j - 1 / 2)))).
Proof.
  intros Hx. unfold span_daun0. apply lin_comb_is_RInt. intros j Hj.
  apply (los_extend (rect (zc j)) x (zc j + 1 / 2) (zc n)); [assumption| | |].
  - pose proof (zc_lt1 j n Hj). lra.
  - intros s Hs. apply rect_beyond; assumption.
  - apply rect_is_RInt; [assumption|apply zc_nonneg].
Qed.

Lemma daun_p0_value (j : nat) (i : Z) : (0 <= i)%Z ->
  daun_p0 (Z.of_nat j) i = 2 * (ylos (IZR i) (zc j + 1 / 2) - ylos (IZR i) (zc j - 1 / 2)).
Proof.
  intros Hi. rewrite daun0_entry by lia. fold (zc j). apply Abel_rect; [apply IZR_le; lia|apply zc_nonneg].
Qed.

(* THEOREM (degree 0, pixel units): for every size n, every f that is L-Lipschitz
   on the non-negative reals and at most eps in modulus beyond the outer edge,
   and every pixel i: the forward matrix applied to the samples of f differs
   from the true projection by at most (L + 2 eps) times the half chord. *)
Theorem forward_daun0_error (n : nat) (f : R -> R) (L eps : R) (i : Z) :
  0 <= L -> 0 <= eps -> lipschitz_nonneg f L ->
  (forall s, zc n - 1 / 2 <= s -> Rabs (f s) <= eps) -> (0 <= i)%Z ->
  Rabs (sumn n (fun j => f (zc j) * daun_p0 (Z.of_nat j) i) - Abel f (zc n) (IZR i))
    <= (L + 2 * eps) * ylos (IZR i) (zc n).
Proof.
  intros HL He Hf Hz Hi. assert (Hx : 0 <= IZR i) by (apply IZR_le; lia).
  rewrite (sumn_ext n _ (fun j => 2 * (f (zc j) * (ylos (IZR i) (zc j + 1 / 2) - ylos (IZR i) (zc j - 1 / 2))))).
  2:{ intros j Hj. rewrite daun_p0_value by assumption. ring. }
  rewrite sumn_scal_l.
  eapply Rle_trans.
  - apply (abel_diff_bound (span_daun0 (fun j => f (zc j)) n) f (zc n) (IZR i) _ (L / 2 + eps) Hx (zc_nonneg n)).
    + apply span0_is_RInt; assumption.
    + apply (los_ex_RInt f L); assumption.
    + intros r Hr. apply span0_error; assumption.
  - right. field.
Qed.

Lemma ylos_le_R x Rm : 0 <= x -> 0 <= Rm -> ylos x Rm <= Rm.
Proof.
  intros Hx HR. destruct (Rle_dec x Rm).
  - rewrite ylos_above by assumption. apply sqrt_sq_le; [apply sqrt_pos|assumption|].
    rewrite sqrt_sqrt by nra. nra.
  - rewrite ylos_below by lra. assumption.
Qed.

Corollary forward_daun0_lipschitz (n : nat) (f : R -> R) (L : R) (i : Z) :
  0 <= L -> lipschitz_nonneg f L -> (forall s, zc n - 1 / 2 <= s -> f s = 0) -> (0 <= i)%Z ->
  Rabs (sumn n (fun j => f (zc j) * daun_p0 (Z.of_nat j) i) - Abel f (zc n) (IZR i)) <= L * zc n.
Proof.
  intros HL Hf Hz Hi.
  eapply Rle_trans; [apply (forward_daun0_error n f L 0 i); try assumption; try lra|].
  - intros s Hs. rewrite Hz by assumption. rewrite Rabs_R0. lra.
  - replace (L + 2 * 0) with L by ring. apply Rmult_le_compat_l; [assumption|].
    apply ylos_le_R; [apply IZR_le; lia|apply zc_nonneg].
Qed.

(* ---- physical units: pixel size h ------------------------------------------- *)
Lemma Abel_ext (f g : R -> R) Rm x : (forall r, 0 <= r -> f r = g r) -> Abel f Rm x = Abel g Rm x.
Proof.
  intros H. unfold Abel. f_equal. apply RInt_ext. intros y _. apply H. apply sqrt_pos.
Qed.

Lemma Abel_scaling (f : R -> R) a Rm x : 0 < a ->
  ex_RInt (fun y => f (sqrt (x * x + y * y))) 0 (sqrt (Rm * Rm - x * x)) ->
  Abel (fun r => f (r / a)) (a * Rm) (a * x) = a * Abel f Rm x.
Proof. exact (PA.proofs.AbelPairsGauss.abel_scaling f a Rm x). Qed.

Lemma lipschitz_rescale (fp : R -> R) Lp h : 0 < h -> lipschitz_nonneg fp Lp ->
  lipschitz_nonneg (fun r => fp (r * h)) (Lp * h).
Proof.
  intros Hh H r s Hr Hs. eapply Rle_trans; [apply H; nra|].
  replace (r * h - s * h) with ((r - s) * h) by ring. rewrite Rabs_mult, (Rabs_pos_eq h) by lra. lra.
Qed.

(* THEOREM (degree 0, pixel size h, R = n h): the forward operator with dr = h
   (h times the pixel-unit matrix, abel/daun.py:148-150) applied to the samples
   fp(j h) is within  Lp * R * h  of the true projection at every pixel, for every
   n, every h > 0 and every Lp-Lipschitz profile that vanishes beyond (n-1/2) h. *)
Theorem forward_daun0_phys (n : nat) (fp : R -> R) (Lp h : R) (i : Z) :
  0 < h -> 0 <= Lp -> lipschitz_nonneg fp Lp ->
  (forall s, (zc n - 1 / 2) * h <= s -> fp s = 0) -> (0 <= i)%Z ->
  Rabs (h * sumn n (fun j => fp (zc j * h) * daun_p0 (Z.of_nat j) i) - Abel fp (zc n * h) (IZR i * h))
    <= Lp * (zc n * h) * h.
Proof.
  intros Hh HL Hf Hz Hi.
  set (f := fun r => fp (r * h)).
  assert (Hfl : lipschitz_nonneg f (Lp * h)) by (apply lipschitz_rescale; assumption).
  assert (HLh : 0 <= Lp * h) by nra.
  assert (HS : Abel fp (zc n * h) (IZR i * h) = h * Abel f (zc n) (IZR i)).
  { rewrite <- Abel_scaling; [|assumption|apply (los_ex_RInt f (Lp * h)); assumption].
    rewrite (Rmult_comm h (zc n)), (Rmult_comm h (IZR i)). apply Abel_ext.
    intros r Hr. unfold f. f_equal. field. lra. }
  rewrite HS. rewrite <- Rmult_minus_distr_l. rewrite Rabs_mult, (Rabs_pos_eq h) by lra.
  pose proof (forward_daun0_lipschitz n f (Lp * h) i HLh Hfl) as HB.
  assert (HB' : Rabs (sumn n (fun j => f (zc j) * daun_p0 (Z.of_nat j) i) - Abel f (zc n) (IZR i)) <= Lp * h * zc n).
  { apply HB; [|assumption]. intros s Hs. unfold f. apply Hz. nra. }
  unfold f in HB' at 1. nra.
Qed.

(* ---- inverse, degree 0 / onion peeling: conditional on the size of the inverse -- *)
(* If X is a left inverse of the forward matrix, the reconstruction from the exact
   projection of a Lipschitz profile misses the samples by at most the forward
   interpolation error times the column 1-norm of X.  (Whether that norm stays
   bounded as n grows is the ill-posedness of the Abel inversion; no claim.) *)
Theorem inverse_daun0_error_partial (n : nat) (f : R -> R) (L : R) (X : nat -> nat -> R) :
  0 <= L -> lipschitz_nonneg f L -> (forall s, zc n - 1 / 2 <= s -> f s = 0) ->
  (forall j k, (j < n)%nat -> (k < n)%nat ->
     sumn n (fun i => daun_p0 (Z.of_nat j) (Z.of_nat i) * X i k) = delta j k) ->
  forall k, (k < n)%nat ->
    Rabs (sumn n (fun i => Abel f (zc n) (zc i) * X i k) - f (zc k))
      <= L * zc n * sumn n (fun i => Rabs (X i k)).
Proof.
  intros HL Hf Hz HX k Hk.
  pose proof (exact_on_span_daun0 n (fun j => f (zc j)) X HX k Hk) as HE. cbv beta in HE.
  rewrite <- HE. rewrite <- sumn_minus. rewrite <- sumn_scal_l.
  apply sumn_Rabs_le. intros i Hi.
  replace (Abel f (zc n) (zc i) * X i k - Abel (span_daun0 (fun j => f (zc j)) n) (zc n) (zc i) * X i k)
    with (- (Abel (span_daun0 (fun j => f (zc j)) n) (zc n) (zc i) - Abel f (zc n) (zc i)) * X i k) by ring.
  rewrite Rabs_mult, Rabs_Ropp. apply Rmult_le_compat_r; [apply Rabs_pos|].
  change (zc i) with (IZR (Z.of_nat i)). rewrite forward_exact_on_span_daun0 by lia.
  apply forward_daun0_lipschitz; try assumption. lia.
Qed.

(* ---- degree 1: the piecewise-linear interpolant ------------------------------ *)
Definition lipschitz_all (g : R -> R) (L : R) : Prop :=
  forall r s, Rabs (g r - g s) <= L * Rabs (r - s).

Lemma derive_continuity_pt (f df : R -> R) x : (forall t, is_derive f t (df t)) -> continuity_pt f x.
Proof.
  intros H. apply continuity_pt_filterlim. apply (ex_derive_continuous f). exists (df x). apply H.
Qed.

(* linear interpolation error on a unit cell from two mean-value steps: 1/4 L2
   (the sharp constant is 1/8; 1/4 needs no second-order Rolle argument) *)
Lemma interp_error (f df : R -> R) L2 a x : 0 <= L2 ->
  (forall t, is_derive f t (df t)) -> lipschitz_all df L2 -> a <= x <= a + 1 ->
  Rabs (f a * (1 - (x - a)) + f (a + 1) * (x - a) - f x) <= L2 / 4.
Proof.
  intros HL Hd Hl Hx.
  destruct (MVT_gen f a x df) as [c1 [Hc1 E1]].
  { intros t _. apply Hd. } { intros t _. apply (derive_continuity_pt f df); assumption. }
  destruct (MVT_gen f x (a + 1) df) as [c2 [Hc2 E2]].
  { intros t _. apply Hd. } { intros t _. apply (derive_continuity_pt f df); assumption. }
  rewrite Rmin_left, Rmax_right in Hc1 by lra. rewrite Rmin_left, Rmax_right in Hc2 by lra.
  set (t := x - a) in *.
  replace (f a * (1 - t) + f (a + 1) * t - f x)
    with (t * (1 - t) * (df c2 - df c1)) by (unfold t in *; nra).
  assert (H0 : 0 <= t <= 1) by (unfold t; lra).
  rewrite Rabs_mult. rewrite (Rabs_pos_eq (t * (1 - t))) by nra.
  pose proof (Hl c2 c1) as HB. assert (Rabs (c2 - c1) <= 1) by (apply Rabs_le; lra).
  pose proof (Rabs_pos (df c2 - df c1)). pose proof (Rabs_pos (c2 - c1)).
  assert (t * (1 - t) <= 1 / 4).
  { pose proof (Rle_0_sqr (t - 1 / 2)) as Hs. unfold Rsqr in Hs. lra. }
  assert (Rabs (df c2 - df c1) <= L2) by nra. nra.
Qed.

Lemma span1_cell c n (j0 : nat) r : zc j0 <= r <= zc j0 + 1 ->
  span_daun1 c n r = (if (j0 <? n)%nat then c j0 * (1 - (r - zc j0)) else 0)
                     + (if (S j0 <? n)%nat then c (S j0) * (r - zc j0) else 0).
Proof.
  intros Hr. unfold span_daun1, lin_comb. induction n as [|n IH]; simpl sumn.
  - simpl. ring.
  - rewrite IH. clear IH.
    destruct (Nat.ltb_spec j0 n); destruct (Nat.ltb_spec j0 (S n)); try lia;
    destruct (Nat.ltb_spec (S j0) n); destruct (Nat.ltb_spec (S j0) (S n)); try lia.
    + rewrite tri_below; [ring|]. pose proof (zc_lt1 (S j0) n ltac:(lia)). rewrite zc_S in *. lra.
    + assert (n = S j0) by lia. subst n. rewrite tri_rise by (rewrite zc_S; lra). rewrite zc_S. ring.
    + assert (n = j0) by lia. subst n. rewrite tri_fall by lra. ring.
    + rewrite tri_above; [ring|]. pose proof (zc_lt1 n j0 ltac:(lia)). lra.
Qed.

Lemma floor_cell r : 0 <= r -> exists j0 : nat, zc j0 <= r <= zc j0 + 1.
Proof.
  intros Hr. destruct (archimed r) as [A1 A2]. set (k := up r) in *.
  assert (Hk : (0 <= k - 1)%Z).
  { apply Z.lt_pred_le. apply lt_IZR. rewrite minus_IZR. simpl. lra. }
  exists (Z.to_nat (k - 1)). unfold zc. rewrite Z2Nat.id by assumption. rewrite minus_IZR. lra.
Qed.

Lemma span1_error (f df : R -> R) L2 n r : 0 <= L2 ->
  (forall t, is_derive f t (df t)) -> lipschitz_all df L2 ->
  (forall s, zc n - 1 <= s -> f s = 0) -> 0 <= r ->
  Rabs (span_daun1 (fun j => f (zc j)) n r - f r) <= L2 / 4.
Proof.
  intros HL Hd Hl Hz Hr. destruct (floor_cell r Hr) as [j0 Hc].
  rewrite (span1_cell _ n j0 r Hc).
  destruct (Nat.ltb_spec (S j0) n) as [H1|H1].
  - destruct (Nat.ltb_spec j0 n); [|lia]. rewrite zc_S. apply (interp_error f df); assumption.
  - assert (Hfr : f r = 0).
    { apply Hz. destruct n as [|n]; [unfold zc at 1; simpl; lra|]. rewrite zc_S.
      pose proof (zc_le n j0 ltac:(lia)). lra. }
    rewrite Hfr. destruct (Nat.ltb_spec j0 n) as [H0|H0].
    + assert (n = S j0) by lia. subst n. rewrite (Hz (zc j0)) by (rewrite zc_S; lra).
      replace (0 * (1 - (r - zc j0)) + 0 - 0) with 0 by ring. rewrite Rabs_R0. lra.
    + replace (0 + 0 - 0) with 0 by ring. rewrite Rabs_R0. lra.
Qed.

Lemma span1_is_RInt n c x : 0 <= x ->
  is_RInt (fun y => span_daun1 c n (sqrt (x * x + y * y))) 0 (ylos x (zc n))
          (sumn n (fun j => c j * tri_RInt_value x (zc j))).
Proof.
  intros Hx. unfold span_daun1. apply lin_comb_is_RInt. intros j Hj.
  apply (los_extend (tri (zc j)) x (zc j + 1) (zc n)); [assumption| | |].
  - apply zc_lt1; assumption.
  - intros s Hs. apply tri_above; assumption.
  - apply tri_is_RInt; [assumption|apply zc_nonneg].
Qed.

Lemma daun_p1_value (j : nat) (i : Z) : (0 <= i)%Z ->
  daun_p1 (Z.of_nat j) i = 2 * tri_RInt_value (IZR i) (zc j).
Proof.
  intros Hi. assert (Hx : 0 <= IZR i) by (apply IZR_le; lia).
  rewrite daun1_entry by lia. fold (zc j). unfold Abel.
  rewrite abel_upper by (pose proof (zc_nonneg j); lra).
  f_equal. apply is_RInt_unique. apply tri_is_RInt; [assumption|apply zc_nonneg].
Qed.

(* THEOREM (degree 1, pixel units): second-order accuracy for every n *)
Theorem forward_daun1_error (n : nat) (f df : R -> R) (L2 : R) (i : Z) :
  0 <= L2 -> (forall t, is_derive f t (df t)) -> lipschitz_all df L2 ->
  (forall s, zc n - 1 <= s -> f s = 0) -> (0 <= i)%Z ->
  Rabs (sumn n (fun j => f (zc j) * daun_p1 (Z.of_nat j) i) - Abel f (zc n) (IZR i))
    <= L2 / 2 * ylos (IZR i) (zc n).
Proof.
  intros HL Hd Hl Hz Hi. assert (Hx : 0 <= IZR i) by (apply IZR_le; lia).
  rewrite (sumn_ext n _ (fun j => 2 * (f (zc j) * tri_RInt_value (IZR i) (zc j)))).
  2:{ intros j Hj. rewrite daun_p1_value by assumption. ring. }
  rewrite sumn_scal_l.
  eapply Rle_trans.
  - apply (abel_diff_bound (span_daun1 (fun j => f (zc j)) n) f (zc n) (IZR i) _ (L2 / 4) Hx (zc_nonneg n)).
    + apply span1_is_RInt; assumption.
    + apply (ex_RInt_continuous (fun y => f (sqrt (IZR i * IZR i + y * y)))). intros z _.
      apply (continuous_comp (fun y => sqrt (IZR i * IZR i + y * y)) f); [apply hyp_continuous|].
      apply (ex_derive_continuous f). exists (df (sqrt (IZR i * IZR i + z * z))). apply Hd.
    + intros r Hr. apply (span1_error f df); assumption.
  - right. field.
Qed.

Corollary forward_daun1_C2 (n : nat) (f df : R -> R) (L2 : R) (i : Z) :
  0 <= L2 -> (forall t, is_derive f t (df t)) -> lipschitz_all df L2 ->
  (forall s, zc n - 1 <= s -> f s = 0) -> (0 <= i)%Z ->
  Rabs (sumn n (fun j => f (zc j) * daun_p1 (Z.of_nat j) i) - Abel f (zc n) (IZR i)) <= L2 / 2 * zc n.
Proof.
  intros HL Hd Hl Hz Hi.
  eapply Rle_trans; [apply (forward_daun1_error n f df L2 i); assumption|].
  apply Rmult_le_compat_l; [lra|]. apply ylos_le_R; [apply IZR_le; lia|apply zc_nonneg].
Qed.

Lemma derive_rescale (fp dfp : R -> R) h t : (forall u, is_derive fp u (dfp u)) ->
  is_derive (fun r => fp (r * h)) t (h * dfp (t * h)).
Proof.
  intros H.
  evar_last. apply (is_derive_comp fp (fun r => r * h) t (dfp (t * h)) h).
  - apply H.
  - auto_derive; [exact I|ring].
  - unfold scal; simpl; unfold mult; simpl. ring.
Qed.

(* THEOREM (degree 1, pixel size h, R = n h): error <= L2p/2 * R * h^2 *)
Theorem forward_daun1_phys (n : nat) (fp dfp : R -> R) (L2p h : R) (i : Z) :
  0 < h -> 0 <= L2p -> (forall t, is_derive fp t (dfp t)) -> lipschitz_all dfp L2p ->
  (forall s, (zc n - 1) * h <= s -> fp s = 0) -> (0 <= i)%Z ->
  Rabs (h * sumn n (fun j => fp (zc j * h) * daun_p1 (Z.of_nat j) i) - Abel fp (zc n * h) (IZR i * h))
    <= L2p / 2 * (zc n * h) * (h * h).
Proof.
  intros Hh HL Hd Hl Hz Hi.
  set (f := fun r => fp (r * h)). set (df := fun r => h * dfp (r * h)).
  assert (Hfd : forall t, is_derive f t (df t)) by (intros t; apply derive_rescale; assumption).
  assert (Hfl : lipschitz_all df (L2p * (h * h))).
  { intros r s. unfold df. rewrite <- Rmult_minus_distr_l, Rabs_mult, (Rabs_pos_eq h) by lra.
    pose proof (Hl (r * h) (s * h)) as HB. replace (r * h - s * h) with ((r - s) * h) in HB by ring.
    rewrite Rabs_mult, (Rabs_pos_eq h) in HB by lra. pose proof (Rabs_pos (r - s)). nra. }
  assert (HLh : 0 <= L2p * (h * h)) by nra.
  assert (HS : Abel fp (zc n * h) (IZR i * h) = h * Abel f (zc n) (IZR i)).
  { rewrite <- Abel_scaling; [|assumption|].
    - rewrite (Rmult_comm h (zc n)), (Rmult_comm h (IZR i)). apply Abel_ext.
      intros r Hr. unfold f. f_equal. field. lra.
    - apply (ex_RInt_continuous (fun y => f (sqrt (IZR i * IZR i + y * y)))). intros z _.
      apply (continuous_comp (fun y => sqrt (IZR i * IZR i + y * y)) f); [apply hyp_continuous|].
      apply (ex_derive_continuous f). eexists. apply Hfd. }
  rewrite HS. rewrite <- Rmult_minus_distr_l. rewrite Rabs_mult, (Rabs_pos_eq h) by lra.
  assert (HB : Rabs (sumn n (fun j => f (zc j) * daun_p1 (Z.of_nat j) i) - Abel f (zc n) (IZR i))
               <= L2p * (h * h) / 2 * zc n).
  { apply (forward_daun1_C2 n f df); try assumption. intros s Hs. unfold f. apply Hz. nra. }
  unfold f in HB at 1. pose proof (zc_nonneg n). nra.
Qed.

(* onion peeling (abel/dasch.py: D = inv(W), result_k = sum_i D[k][i] data_i) *)
Theorem inverse_onion_peeling_error_partial (n : nat) (f : R -> R) (L : R) (D : nat -> nat -> R) :
  0 <= L -> lipschitz_nonneg f L -> (forall s, zc n - 1 / 2 <= s -> f s = 0) ->
  (forall k j, (k < n)%nat -> (j < n)%nat ->
     sumn n (fun i => D k i * onion_W (Z.of_nat n) (Z.of_nat i) (Z.of_nat j)) = delta j k) ->
  forall k, (k < n)%nat ->
    Rabs (sumn n (fun i => D k i * Abel f (zc n) (zc i)) - f (zc k))
      <= L * zc n * sumn n (fun i => Rabs (D k i)).
Proof.
  intros HL Hf Hz HD k Hk.
  rewrite (sumn_ext n _ (fun i => Abel f (zc n) (zc i) * D k i)) by (intros; ring).
  apply (inverse_daun0_error_partial n f L (fun i k => D k i)); try assumption.
  intros j k' Hj Hk'. rewrite <- (HD k' j Hk' Hj). apply sumn_ext. intros i Hi.
  rewrite onion_W_eq_daun0 by lia. ring.
Qed.

(* ---- the hypotheses are satisfiable ------------------------------------------ *)
Definition tent (r : R) : R := Rmax 0 (1 - r).

Lemma tent_lipschitz : lipschitz_nonneg tent 1.
Proof.
  intros r s _ _. unfold tent, Rmax.
  pose proof (Rle_abs (r - s)). pose proof (Rabs_maj2 (r - s)).
  destruct (Rle_dec 0 (1 - r)); destruct (Rle_dec 0 (1 - s)); apply Rabs_le; lra.
Qed.

Lemma tent_support : forall s, zc 2 - 1 / 2 <= s -> tent s = 0.
Proof.
  intros s Hs. unfold zc in Hs. simpl in Hs. unfold tent, Rmax. destruct (Rle_dec 0 (1 - s)); lra.
Qed.

Lemma zero_C2 : (forall t : R, is_derive (fun _ : R => 0) t ((fun _ => 0) t)) /\ lipschitz_all (fun _ => 0) 0.
Proof.
  split.
  - intros t. auto_derive; [exact I|ring].
  - intros r s. rewrite Rminus_diag_eq by reflexivity. rewrite Rabs_R0. lra.
Qed.
