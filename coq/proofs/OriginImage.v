(* OriginImage.v — the origin finders on images (model/Origin.v over R):
   point-symmetric images, whole-pixel translation, scaling, image_center,
   coordinates of axes that are not requested. *)
From Coq Require Import List Arith Lia Bool ZArith Reals Lra ZifyBool ZifyNat.
From PA Require Import base.Arr base.Px model.Origin proofs.OriginSums proofs.OriginProofs proofs.OriginConv.
Import ListNotations.

Local Open Scope R_scope.

Notation imgR := (list (list R)).

(* pixel of the zero-extended image *)
Definition pxz (IM : imgR) (i j : Z) : R :=
  if (i <? 0)%Z then 0 else pz (nth (Z.to_nat i) IM []) j.

(* IM is point-symmetric about (s0/2, s1/2), a point of the half-pixel grid *)
Definition psym (IM : imgR) (s0 s1 : Z) : Prop :=
  forall i j : Z, pxz IM i j = pxz IM (s0 - i) (s1 - j).

(* IM' is IM translated by (a, b) whole pixels (content stays in the frame) *)
Definition translated (IM IM' : imgR) (a b : Z) : Prop :=
  forall i j : Z, pxz IM' i j = pxz IM (i - a) (j - b).

Definition total (IM : imgR) : R := sumR (proj0R IM).

Lemma nth_map_gen (X Y : Type) (f : X -> Y) l i d d' :
  (i < length l)%nat -> nth i (map f l) d = f (nth i l d').
Proof.
  revert i; induction l as [|x l IH]; intros [|i] H; cbn [length map nth] in *; try lia; auto.
  apply IH. lia.
Qed.

Section Image.
  Variables n m : nat.
  Variable IM : imgR.
  Hypothesis Hwf : wf n m IM.

  Lemma pxz_out_rows i j : (i < 0 \/ Z.of_nat n <= i)%Z -> pxz IM i j = 0.
  Proof.
    intros H. unfold pxz. destruct (Z.ltb_spec i 0); [reflexivity|].
    rewrite nth_overflow by (destruct Hwf; lia). unfold pz. destruct (j <? 0)%Z; [reflexivity|].
    destruct (Z.to_nat j); reflexivity.
  Qed.

  Lemma row_len i : (0 <= i < Z.of_nat n)%Z -> length (nth (Z.to_nat i) IM []) = m.
  Proof. intros H. apply (wf_row Hwf). lia. Qed.

  Lemma pxz_out_cols i j : (j < 0 \/ Z.of_nat m <= j)%Z -> pxz IM i j = 0.
  Proof.
    intros H. destruct (Z_lt_ge_dec i 0); [apply pxz_out_rows; lia|].
    destruct (Z_lt_ge_dec i (Z.of_nat n)); [|apply pxz_out_rows; lia].
    unfold pxz. destruct (Z.ltb_spec i 0); [lia|]. apply pz_out. rewrite row_len by lia. exact H.
  Qed.

  Lemma length_proj0 : length (proj0R IM) = n.
  Proof. unfold proj0R, proj0. rewrite map_length. destruct Hwf; assumption. Qed.

  Lemma length_proj1 : (0 < n)%nat -> length (proj1R IM) = m.
  Proof. intros Hn. unfold proj1R, proj1. rewrite map_length, seq_length. apply (wf_ncols Hwf Hn). Qed.

  Lemma proj0_pz i : pz (proj0R IM) i = zs (fun j => pxz IM i j) 0 m.
  Proof.
    destruct (Z_lt_ge_dec i 0) as [Hi|Hi].
    { rewrite pz_out by lia. symmetry. apply zs_zero. intros; apply pxz_out_rows; lia. }
    destruct (Z_lt_ge_dec i (Z.of_nat n)) as [Hi2|Hi2].
    2:{ rewrite pz_out by (rewrite length_proj0; lia). symmetry. apply zs_zero. intros; apply pxz_out_rows; lia. }
    unfold pz at 1. destruct (Z.ltb_spec i 0); [lia|].
    unfold proj0R, proj0.
    rewrite (nth_map_gen _ _ _ IM (Z.to_nat i) 0 []) by (destruct Hwf; lia).
    fold (sumR (nth (Z.to_nat i) IM [])). rewrite sumR_zs. rewrite row_len by lia.
    apply zs_ext. intros j _. unfold pxz. destruct (Z.ltb_spec i 0); [lia|reflexivity].
  Qed.

  Lemma proj1_pz j : (0 < n)%nat -> pz (proj1R IM) j = zs (fun i => pxz IM i j) 0 n.
  Proof.
    intros Hn.
    destruct (Z_lt_ge_dec j 0) as [Hj|Hj].
    { rewrite pz_out by lia. symmetry. apply zs_zero. intros; apply pxz_out_cols; lia. }
    destruct (Z_lt_ge_dec j (Z.of_nat m)) as [Hj2|Hj2].
    2:{ rewrite pz_out by (rewrite length_proj1; lia). symmetry. apply zs_zero. intros; apply pxz_out_cols; lia. }
    unfold pz at 1. destruct (Z.ltb_spec j 0); [lia|].
    unfold proj1R, proj1. rewrite (wf_ncols Hwf Hn).
    rewrite (nth_map_gen _ _ _ (seq 0 m) (Z.to_nat j) 0 0%nat) by (rewrite seq_length; lia).
    rewrite seq_nth by lia. cbn [plus].
    fold (sumR (map (fun r => nth (Z.to_nat j) r 0) IM)). rewrite sumR_zs. rewrite map_length.
    replace (length IM) with n by (destruct Hwf; congruence).
    apply zs_ext. intros i Hi. unfold pxz. destruct (Z.ltb_spec i 0); [lia|].
    unfold pz at 1. destruct (Z.ltb_spec i 0); [lia|].
    rewrite (nth_map_gen _ _ _ IM (Z.to_nat i) 0 []) by (destruct Hwf; lia).
    unfold pz. destruct (Z.ltb_spec j 0); [lia|reflexivity].
  Qed.

  Lemma total_proj1 : (0 < n)%nat -> sumR (proj1R IM) = total IM.
  Proof.
    intros Hn. unfold total. rewrite !sumR_zs, length_proj0, length_proj1 by exact Hn.
    rewrite (zs_ext (pz (proj1R IM)) (fun j => zs (fun i => pxz IM i j) 0 n)) by (intros; apply proj1_pz; exact Hn).
    rewrite (zs_ext (pz (proj0R IM)) (fun i => zs (fun j => pxz IM i j) 0 m)) by (intros; apply proj0_pz).
    symmetry. apply zs_swap.
  Qed.

  (* projections of a point-symmetric image are symmetric *)
  Lemma proj0_sym s0 s1 : psym IM s0 s1 -> sym1 (proj0R IM) s0.
  Proof.
    intros H i. rewrite !proj0_pz.
    rewrite (zs_ext (fun j => pxz IM (s0 - i) j) (fun j => pxz IM i (s1 - j))).
    2:{ intros j _. rewrite (H i (s1 - j)%Z). f_equal. lia. }
    rewrite (zs_refl (fun j => pxz IM i j) s1 0 m).
    apply zs_two_windows.
    - intros j Hj. apply pxz_out_cols. lia.
    - intros j Hj. rewrite (H i j). apply pxz_out_cols. lia.
  Qed.

  Lemma proj1_sym s0 s1 : (0 < n)%nat -> psym IM s0 s1 -> sym1 (proj1R IM) s1.
  Proof.
    intros Hn H j. rewrite !proj1_pz by exact Hn.
    rewrite (zs_ext (fun i => pxz IM i (s1 - j)) (fun i => pxz IM (s0 - i) j)).
    2:{ intros i _. rewrite (H (s0 - i)%Z j). f_equal. lia. }
    rewrite (zs_refl (fun i => pxz IM i j) s0 0 n).
    apply zs_two_windows.
    - intros i Hi. apply pxz_out_rows. lia.
    - intros i Hi. rewrite (H i j). apply pxz_out_rows. lia.
  Qed.
End Image.

Lemma classic_list_zero p : (forall k, pz p k = 0) \/ (exists i, pz p i <> 0).
Proof.
  induction p as [|x t IH].
  - left. intros k. apply pz_out. cbn [length]. lia.
  - destruct (Req_EM_T x 0) as [Hx|Hx].
    + destruct IH as [Z|[i Hi]].
      * left. intros k. destruct (Z_lt_ge_dec k 0); [apply pz_out; lia|].
        destruct (Z.eq_dec k 0) as [->|Hk]; [rewrite pz_cons0; exact Hx|].
        rewrite pz_cons by lia. apply Z.
      * right. exists (i + 1)%Z.
        assert (0 <= i)%Z by (destruct (Z_lt_ge_dec i 0); [exfalso; apply Hi; apply pz_out; lia|lia]).
        rewrite pz_cons by lia. replace (i + 1 - 1)%Z with i by lia. exact Hi.
    + right. exists 0%Z. rewrite pz_cons0. exact Hx.
Qed.

Lemma nonzero_sum_witness p : sumR p <> 0 -> exists i, pz p i <> 0.
Proof.
  intros H. destruct (classic_list_zero p) as [Z|[i Hi]]; [|exists i; exact Hi].
  exfalso. apply H. rewrite sumR_zs. apply zs_zero. intros k _. apply Z.
Qed.
