(* PolyEvalTac.v — tactic used by the generated correspondence goals
   |model value - implementation value| <= tol for Polynomial(...).abel:
   the rational part of the model (poly_abel_dataQ) is computed by vm_compute
   (the equation is checked by the kernel through a VM cast), the remaining
   closed real expression (sqrt, ln of rationals) is enclosed by Interval. *)
From Coq Require Import Reals List ZArith QArith Qreals.
From Interval Require Import Tactic.
From PA Require Import model.Poly model.AbelPoly model.SPoly.

Ltac poly_vm :=
  unfold poly_abelQ_at;
  repeat match goal with
  | |- context [poly_abel_dataQ ?a ?b ?c ?d ?e ?f ?g ?h] =>
    let t := constr:(poly_abel_dataQ a b c d e f g h) in
    let v := eval vm_compute in t in
    let E := fresh in
    assert (E : t = v) by (vm_cast_no_check (eq_refl v)); rewrite E; clear E
  end;
  cbv [abel_of_opt abel_of_data d_al d_be d_ga d_zup d_bup d_zlo d_blo d_m d_bm d_rmax
       Q2R Qnum Qden].

Ltac evalQ := poly_vm; interval with (i_prec 80).

(* SPolynomial(...).abel at one pixel: per-column preparation and max(r, r_min) by vm_compute
   (VM cast), the remaining closed expression (sqrt, ln, atan of rationals) by Interval *)
Ltac vm_rw t :=
  let v := eval vm_compute in t in
  let E := fresh in assert (E : t = v) by (vm_cast_no_check (eq_refl v)); rewrite E; clear E.

Ltac sp_eval :=
  unfold sp_piece_abelQ_at, sp_abelQ_at;
  repeat match goal with |- context [Qltb ?a ?b] => vm_rw (Qltb a b) end;
  repeat match goal with |- context [sp_prepareQ ?a ?b ?c] => vm_rw (sp_prepareQ a b c) end;
  repeat match goal with |- context [Qmax ?a ?b] => vm_rw (Qmax a b) end;
  cbv -[Rplus Rmult Rminus Rdiv Ropp Rinv IZR sqrt ln atan Rabs Rle pow INR];
  interval with (i_prec 80).
