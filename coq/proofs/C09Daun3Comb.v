(* proofs/C09Daun3Comb.v — daun degree 3, Hermite form: for ANY slopes m_k the
   function  herm_p_j + sum_k m_k herm_q_k  (value 1 at knot j, slope m_k at knot
   k, C^1 piecewise cubic) has the Abel projection
       daun_p3 j i + sum_k m_k daun_q3 k i
   at every pixel.  _bs_daun builds its degree-3 rows in exactly this form,
   A[j] = p(j) + sum_k m^{(j)}_k q(k), with the slopes m^{(j)} from the banded
   solve (clamped spline); that the solve yields the spline slopes is linear
   algebra that is not modelled (checked numerically against
   scipy.interpolate.CubicSpline by the search).
   Also: the tridiagonal relation of the code IS the C^2 condition, stated on the
   second derivatives of the Hermite pieces at a knot. *)
From Coq Require Import Reals ZArith Bool Lra Lia.
From Coquelicot Require Import Coquelicot.
From PA Require Import model.Abel proofs.AbelLemmas proofs.C09Daun proofs.C09Daun2 proofs.C09Daun3
  proofs.ExactOnSpan gen.FormulasBasis.
Open Scope R_scope.

Definition hermite_comb (j : nat) (m : nat -> R) (n : nat) (r : R) : R :=
  herm_p (zc j) r + lin_comb (fun k => herm_q (zc k)) m n r.

Lemma Abel_from_is_RInt (f : R -> R) c x V : 0 <= x -> 0 <= c ->
  is_RInt (fun y => f (sqrt (x * x + y * y))) 0 (ylos x (c + 1)) V -> Abel f (c + 1) x = 2 * V.
Proof.
  intros Hx Hc H. unfold Abel. rewrite abel_upper by lra. f_equal. apply is_RInt_unique. exact H.
Qed.

Theorem daun3_hermite_combination (n j : nat) (m : nat -> R) (i : Z) : (0 <= i)%Z -> (j < n)%nat ->
  Abel (hermite_comb j m n) (zc n) (IZR i) =
  daun_p3 (Z.of_nat j) i + sumn n (fun k => m k * daun_q3 (Z.of_nat k) i).
Proof.
  intros Hi Hj. assert (Hx : 0 <= IZR i) by (apply IZR_le; lia).
  set (x := IZR i) in *.
  destruct (herm_p_is_RInt x (zc j) Hx (zc_nonneg j)) as [Vp HVp].
  set (Vq := fun k => RInt (fun y => herm_q (zc k) (sqrt (x * x + y * y))) 0 (ylos x (zc k + 1))).
  assert (HVq : forall k, is_RInt (fun y => herm_q (zc k) (sqrt (x * x + y * y))) 0 (ylos x (zc k + 1)) (Vq k)).
  { intros k. destruct (herm_q_is_RInt x (zc k) Hx (zc_nonneg k)) as [V HV].
    unfold Vq. rewrite (is_RInt_unique _ _ _ _ HV). exact HV. }
  rewrite daun3p_entry by lia. fold (zc j). fold x.
  rewrite (Abel_from_is_RInt (herm_p (zc j)) (zc j) x Vp Hx (zc_nonneg j) HVp).
  rewrite (sumn_ext n _ (fun k => m k * (2 * Vq k))).
  2:{ intros k Hk. f_equal. rewrite daun3q_entry by lia. fold (zc k). fold x.
      apply (Abel_from_is_RInt (herm_q (zc k)) (zc k) x (Vq k) Hx (zc_nonneg k) (HVq k)). }
  unfold Abel. rewrite abel_upper by (auto; apply zc_nonneg).
  unfold hermite_comb.
  rewrite (is_RInt_unique _ _ _ (Vp + sumn n (fun k => m k * Vq k))).
  - rewrite Rmult_plus_distr_l. f_equal. rewrite <- sumn_scal_l. apply sumn_ext. intros; ring.
  - apply (is_RInt_plus (fun y => herm_p (zc j) (sqrt (x * x + y * y)))
                        (fun y => lin_comb (fun k => herm_q (zc k)) m n (sqrt (x * x + y * y)))).
    + apply (los_extend (herm_p (zc j)) x (zc j + 1) (zc n) Vp Hx (zc_lt j n Hj)); [|exact HVp].
      intros s Hs. apply herm_p_beyond; assumption.
    + apply (lin_comb_is_RInt (fun k => herm_q (zc k)) m Vq n (fun y => sqrt (x * x + y * y)) (ylos x (zc n))).
      intros k Hk. apply (los_extend (herm_q (zc k)) x (zc k + 1) (zc n) (Vq k) Hx (zc_lt k n Hk)); [|apply HVq].
      intros s Hs. apply herm_q_beyond; assumption.
Qed.

(* second derivatives of the Hermite pieces at the knots (u = r - knot):
   p_up = 1 - 3u^2 + 2u^3, p_lo = 1 - 3u^2 - 2u^3, q_up = u - 2u^2 + u^3, q_lo = u + 2u^2 + u^3.
   For f = sum_j y_j p_j + m_j q_j the one-sided second derivatives at knot k are
     right: y_k p_up''(0) + m_k q_up''(0) + y_{k+1} p_lo''(-1) + m_{k+1} q_lo''(-1)
     left : y_k p_lo''(0) + m_k q_lo''(0) + y_{k-1} p_up''(1)  + m_{k-1} q_up''(1)
   and they agree iff m_{k-1} + 4 m_k + m_{k+1} = 3 (y_{k+1} - y_{k-1}) — the rows
   (1, 4, 1) and the right-hand side 3*B-differences of solve_banded in _bs_daun. *)
Definition p_up (u : R) := 1 - 3 * u ^ 2 + 2 * u ^ 3.
Definition p_lo (u : R) := 1 - 3 * u ^ 2 - 2 * u ^ 3.
Definition q_up (u : R) := u - 2 * u ^ 2 + u ^ 3.
Definition q_lo (u : R) := u + 2 * u ^ 2 + u ^ 3.

Lemma second_derivs :
  Derive_n p_up 2 0 = -6 /\ Derive_n p_up 2 1 = 6 /\ Derive_n p_lo 2 0 = -6 /\ Derive_n p_lo 2 (-1) = 6 /\
  Derive_n q_up 2 0 = -4 /\ Derive_n q_up 2 1 = 2 /\ Derive_n q_lo 2 0 = 4 /\ Derive_n q_lo 2 (-1) = -2.
Proof.
  assert (D2 : forall (f f1 : R -> R) (f2 x : R),
            (forall t, is_derive f t (f1 t)) -> is_derive f1 x f2 -> Derive_n f 2 x = f2).
  { intros f f1 f2 x H1 H2. simpl. rewrite (Derive_ext _ f1) by (intros t; apply is_derive_unique, H1).
    apply is_derive_unique, H2. }
  repeat split.
  - apply (D2 p_up (fun u => -6 * u + 6 * u ^ 2)); [intros t|]; unfold p_up; auto_derive; auto; ring.
  - apply (D2 p_up (fun u => -6 * u + 6 * u ^ 2)); [intros t|]; unfold p_up; auto_derive; auto; ring.
  - apply (D2 p_lo (fun u => -6 * u - 6 * u ^ 2)); [intros t|]; unfold p_lo; auto_derive; auto; ring.
  - apply (D2 p_lo (fun u => -6 * u - 6 * u ^ 2)); [intros t|]; unfold p_lo; auto_derive; auto; ring.
  - apply (D2 q_up (fun u => 1 - 4 * u + 3 * u ^ 2)); [intros t|]; unfold q_up; auto_derive; auto; ring.
  - apply (D2 q_up (fun u => 1 - 4 * u + 3 * u ^ 2)); [intros t|]; unfold q_up; auto_derive; auto; ring.
  - apply (D2 q_lo (fun u => 1 + 4 * u + 3 * u ^ 2)); [intros t|]; unfold q_lo; auto_derive; auto; ring.
  - apply (D2 q_lo (fun u => 1 + 4 * u + 3 * u ^ 2)); [intros t|]; unfold q_lo; auto_derive; auto; ring.
Qed.

Lemma spline_C2_iff_tridiagonal (ykm yk ykp mkm mk mkp : R) :
  yk * Derive_n p_up 2 0 + mk * Derive_n q_up 2 0 + ykp * Derive_n p_lo 2 (-1) + mkp * Derive_n q_lo 2 (-1)
  = yk * Derive_n p_lo 2 0 + mk * Derive_n q_lo 2 0 + ykm * Derive_n p_up 2 1 + mkm * Derive_n q_up 2 1
  <-> mkm + 4 * mk + mkp = 3 * (ykp - ykm).
Proof.
  destruct second_derivs as (E1 & E2 & E3 & E4 & E5 & E6 & E7 & E8).
  rewrite E1, E2, E3, E4, E5, E6, E7, E8. split; intros; lra.
Qed.

(* the pieces p_up ... are the Hermite functions of model/Abel.v *)
Lemma herm_pieces c r :
  (c <= r <= c + 1 -> herm_p c r = p_up (r - c) /\ herm_q c r = q_up (r - c)) /\
  (c - 1 <= r <= c -> herm_p c r = p_lo (r - c) /\ herm_q c r = q_lo (r - c)).
Proof.
  split; intros H; unfold herm_p, herm_q, p_up, p_lo, q_up, q_lo.
  - rewrite Rabs_pos_eq by lra. rewrite pos_nonneg by lra. split; ring.
  - rewrite Rabs_left1 by lra. rewrite pos_nonneg by lra. split; ring.
Qed.
