(* C06Q.v — facts about the executable (rational) instance of the Symmetry
   model: witnesses for the clauses that the modelled code violates. *)
From Coq Require Import List ZArith QArith Bool.
From PA Require Import base.Arr base.QClose model.Symmetry model.SymmetryQ.
Import ListNotations.
Local Open Scope Q_scope.

Definition symQ_differs (a : axis) (u : mask) (meth : smethod) (IM X : list (list Q)) : bool :=
  match symQ a u meth IM with
  | Ok S0 => negb (img_close S0 X)
  | ValueError => false
  end.

Definition symQ_twice_differs (a : axis) (u : mask) (meth : smethod) (IM : list (list Q)) : bool :=
  match symQ a u meth IM with
  | Ok S0 => symQ_differs a u meth S0 S0
  | ValueError => false
  end.

(* The Fourier branch mirrors about index 0 (periodically), not about the
   image centre: an image that is symmetric about its centre is changed ... *)
Lemma fourier_fix_refuted :
  exists IM : list (list Q),
    wf 1 3 IM /\ fliplr IM = IM /\ symQ_differs ax_0 mask_all Fourier IM IM = true.
Proof.
  exists [[1; 2; 1]]. split; [|split].
  - repeat constructor.
  - reflexivity.
  - vm_compute. reflexivity.
Qed.

(* ... and applying it twice does not give the same result as applying it once. *)
Lemma fourier_idem_refuted :
  exists IM : list (list Q), wf 1 3 IM /\ symQ_twice_differs ax_0 mask_all Fourier IM = true.
Proof.
  exists [[1; 2; 4]]. split.
  - repeat constructor.
  - vm_compute. reflexivity.
Qed.
