(* proofs/C09Basex.v — basex: the unprojected basis functions tabulated by
   _bs_basex (matrix Mc, generated basex_Mc0 / basex_Mck) equal the documented
   formula  rho_k(r) = (e/k^2)^(k^2) (r/sigma)^(2k^2) exp(-(r/sigma)^2),
   rho_0(r) = exp(-(r/sigma)^2), for every k >= 1, r > 0, sigma > 0.
   (The projected functions chi_k — log-gamma series — have no theorem.) *)
From Coq Require Import Reals Lra Lia Arith.
From PA Require Import model.Abel gen.FormulasBasis.
Open Scope R_scope.

Lemma exp_INR_mult n x : exp (INR n * x) = exp x ^ n.
Proof.
  induction n as [|n IH].
  - simpl. rewrite Rmult_0_l. apply exp_0.
  - rewrite S_INR. replace ((INR n + 1) * x) with (INR n * x + x) by ring.
    rewrite exp_plus, IH. simpl. ring.
Qed.

Definition rho_doc (k : nat) (sigma r : R) : R :=
  (exp 1 / INR (k * k)) ^ (k * k) * (r / sigma) ^ (2 * (k * k)) * exp (- ((r / sigma) * (r / sigma))).

Lemma basex_rho_formula (k : nat) (sigma r : R) : (1 <= k)%nat -> 0 < sigma -> 0 < r ->
  basex_Mck (INR k) sigma r = rho_doc k sigma r.
Proof.
  intros Hk Hs Hr. unfold basex_Mck, rho_doc.
  assert (Hu : 0 < r / sigma) by (apply Rdiv_lt_0_compat; lra).
  assert (HK : 0 < INR (k * k)) by (apply lt_0_INR; nia).
  rewrite <- mult_INR.
  set (K := (k * k)%nat) in *. set (u := r / sigma) in *.
  replace ((1 - ln (INR K)) * INR K + ln u * 2 * INR K - u * u)
    with (INR K * (1 - ln (INR K)) + (INR K * (2 * ln u) + - (u * u))) by ring.
  rewrite 2!exp_plus. rewrite 2!exp_INR_mult.
  rewrite Rmult_assoc. f_equal; [|f_equal].
  - f_equal. unfold Rminus. rewrite exp_plus, exp_Ropp, exp_ln by assumption. reflexivity.
  - rewrite pow_mult. f_equal.
    replace (2 * ln u) with (ln u + ln u) by ring. rewrite exp_plus, exp_ln by assumption. ring.
Qed.

Lemma basex_rho0_formula (sigma r : R) : basex_Mc0 sigma r = exp (- ((r / sigma) * (r / sigma))).
Proof. reflexivity. Qed.

(* the hand-written model/Abel.v basex_rho (used by earlier instance goals) is the generated formula *)
Lemma basex_rho_model (k sigma r : R) : basex_Mck k sigma r = basex_rho (k * k) sigma r.
Proof. unfold basex_Mck, basex_rho. f_equal. Qed.
