(* CenterPrep.v — origin preprocessing of set_center (center.py:243-267):
   integral origins, negative origins, rounding for order = 0; and the link
   between set_center and its whole-pixel core set_center_int. *)
From Coq Require Import List Arith Lia Bool ZArith QArith Qround Qabs Lqa ZifyBool ZifyNat.
From PA Require Import base.Arr base.Px model.Center.
Import ListNotations.

Set Implicit Arguments.
Local Open Scope nat_scope.

(* a negative whole-pixel origin counts from the end *)
Definition wrap (n : nat) (k : Z) : Z := if (k <? 0)%Z then (k + Z.of_nat n)%Z else k.

Definition whole_origin (n order : nat) (q : Q) : Z := fst (prep_axis n order q).

Definition is_integral (o : option Q) : Prop :=
  match o with None => True | Some q => exists k : Z, q = inject_Z k end.

Lemma qtrunc_int x : qtrunc (x # 1) = x.
Proof. unfold qtrunc. cbn [Qnum Qden]. apply Z.quot_1_r. Qed.

Lemma qsub_int x : ((x # 1) - inject_Z x)%Q = 0%Q.
Proof.
  unfold Qminus, Qplus, Qopp, inject_Z. cbn [Qnum Qden Pos.mul].
  f_equal. lia.
Qed.

Lemma qround_int x : qround_even (x # 1) = x.
Proof.
  unfold qround_even.
  assert (F : Qfloor (x # 1) = x) by (cbn [Qfloor]; apply Z.div_1_r).
  rewrite F. rewrite qsub_int. reflexivity.
Qed.

Lemma prep_axis_int n order k : prep_axis n order (inject_Z k) = (wrap n k, 0%Q).
Proof.
  unfold prep_axis, wrap.
  assert (E : (if Qle_bool 0 (inject_Z k) then inject_Z k else inject_Z k + inject_Z (Z.of_nat n))%Q
              = ((if (k <? 0)%Z then (k + Z.of_nat n)%Z else k) # 1)).
  { unfold Qle_bool, inject_Z, Qplus. cbn [Qnum Qden Pos.mul].
    destruct (Z.ltb_spec k 0); destruct (Z.leb_spec (0 * 1) (k * 1)); try lia; try reflexivity.
    f_equal. lia. }
  rewrite E. destruct order.
  - rewrite qround_int. reflexivity.
  - rewrite qtrunc_int.
    change (inject_Z (if (k <? 0)%Z then (k + Z.of_nat n)%Z else k))
      with ((if (k <? 0)%Z then (k + Z.of_nat n)%Z else k) # 1) at 1.
    replace (inject_Z (if (k <? 0)%Z then (k + Z.of_nat n)%Z else k))
      with (inject_Z (if (k <? 0)%Z then (k + Z.of_nat n)%Z else k)) by reflexivity.
    rewrite qsub_int. reflexivity.
Qed.

Lemma whole_origin_int n order k : whole_origin n order (inject_Z k) = wrap n k.
Proof. unfold whole_origin. rewrite prep_axis_int. reflexivity. Qed.

(* order = 0: the origin is rounded to the nearest pixel, ties to even
   (Python round), after the negative wrap *)
Lemma whole_origin_order0 n q :
  whole_origin n 0 q = qround_even (if Qle_bool 0 q then q else q + inject_Z (Z.of_nat n))%Q.
Proof. reflexivity. Qed.

(* Python round: the result is a nearest integer (ties go to the even one by
   definition of qround_even) *)
Lemma qround_even_near q : (Qabs (q - inject_Z (qround_even q)) <= 1 # 2)%Q.
Proof.
  unfold qround_even.
  pose proof (Qfloor_le q) as H1. pose proof (Qlt_floor q) as H2.
  rewrite inject_Z_plus in H2. change (inject_Z 1) with 1%Q in H2.
  set (f := Qfloor q) in *.
  apply Qabs_Qle_condition.
  destruct (Qcompare (q - inject_Z f)%Q (1 # 2)%Q) eqn:E.
  - apply Qeq_alt in E. destruct (Z.even f); [|rewrite inject_Z_plus; change (inject_Z 1) with 1%Q]; split; lra.
  - apply Qlt_alt in E. split; lra.
  - apply Qgt_alt in E. rewrite inject_Z_plus. change (inject_Z 1) with 1%Q. split; lra.
Qed.

Lemma negative_origin_prep n order k : (- Z.of_nat n <= k < 0)%Z ->
  prep_axis n order (inject_Z k) = prep_axis n order (inject_Z (k + Z.of_nat n)) /\
  whole_origin n order (inject_Z k) = (k + Z.of_nat n)%Z.
Proof.
  intros H. unfold whole_origin. rewrite !prep_axis_int. unfold wrap.
  destruct (Z.ltb_spec k 0); destruct (Z.ltb_spec (k + Z.of_nat n) 0); try lia. split; reflexivity.
Qed.

Section Link.
  Variable A : Type.
  Variables (zero one : A) (add sub mul : A -> A -> A) (ofQ : Q -> A).
  Notation img := (list (list A)).
  Notation set_center := (set_center zero one add sub mul ofQ).

  Definition of_opt (o : option img) : outcome img :=
    match o with Some x => Ok x | None => Raises end.

  Definition sel_origin (ax : bool) (n order : nat) (o : option Q) : option Z :=
    if ax then option_map (whole_origin n order) o else None.

  (* with order = 0, or with integral origin components on the centred axes
     (any order), set_center is the whole-pixel translation set_center_int
     applied to the preprocessed origin of the selected axes; the origin
     component of an axis that is not selected is not looked at *)
  Theorem set_center_whole_pixel (data : img) (or0 or1 : option Q) cr (ax0 ax1 : bool) order :
    order = 0 \/ (is_integral (if ax0 then or0 else @None Q) /\ is_integral (if ax1 then or1 else @None Q)) ->
    set_center data or0 or1 cr ax0 ax1 order =
    of_opt (set_center_int zero data (sel_origin ax0 (nrows data) order or0)
                           (sel_origin ax1 (ncols data) order or1) cr).
  Proof.
    intros H. unfold set_center, Center.set_center.
    assert (W : Nat.eqb order 0 ||
                (Qeq_bool match (if ax0 then option_map (prep_axis (nrows data) order) or0 else None) with
                          | Some (_, s) => s | None => 0%Q end 0 &&
                 Qeq_bool match (if ax1 then option_map (prep_axis (ncols data) order) or1 else None) with
                          | Some (_, s) => s | None => 0%Q end 0) = true).
    { destruct H as [->|[I0 I1]]; [reflexivity|]. apply orb_true_iff; right.
      apply andb_true_iff; split.
      - destruct ax0; [|reflexivity]. destruct or0 as [q|]; [|reflexivity]. destruct I0 as [k ->].
        cbn [option_map]. rewrite prep_axis_int. reflexivity.
      - destruct ax1; [|reflexivity]. destruct or1 as [q|]; [|reflexivity]. destruct I1 as [k ->].
        cbn [option_map]. rewrite prep_axis_int. reflexivity. }
    rewrite W. unfold of_opt, sel_origin, whole_origin.
    destruct or0, or1, ax0, ax1; reflexivity.
  Qed.

  (* the origin coordinate of an axis that is not in axes is ignored, whatever
     its value (fractional or not), for every order and crop mode *)
  Theorem unselected_origin_ignored (data : img) or0 or1 or0' or1' cr ax0 ax1 order :
    (ax0 = true -> or0 = or0') -> (ax1 = true -> or1 = or1') ->
    set_center data or0 or1 cr ax0 ax1 order = set_center data or0' or1' cr ax0 ax1 order.
  Proof.
    intros H0 H1. unfold set_center, Center.set_center.
    destruct ax0, ax1; try rewrite (H0 eq_refl); try rewrite (H1 eq_refl); reflexivity.
  Qed.

  (* negative origins count from the end: origin k and origin k + len give the
     same result, in every mode and for every order *)
  Theorem negative_origin_wrap0 (data : img) k or1 cr ax0 ax1 order :
    (- Z.of_nat (nrows data) <= k < 0)%Z ->
    set_center data (Some (inject_Z k)) or1 cr ax0 ax1 order =
    set_center data (Some (inject_Z (k + Z.of_nat (nrows data)))) or1 cr ax0 ax1 order.
  Proof.
    intros H. unfold set_center, Center.set_center. cbn [option_map].
    destruct (@negative_origin_prep _ order _ H) as [-> _]. reflexivity.
  Qed.

  Theorem negative_origin_wrap1 (data : img) k or0 cr ax0 ax1 order :
    (- Z.of_nat (ncols data) <= k < 0)%Z ->
    set_center data or0 (Some (inject_Z k)) cr ax0 ax1 order =
    set_center data or0 (Some (inject_Z (k + Z.of_nat (ncols data)))) cr ax0 ax1 order.
  Proof.
    intros H. unfold set_center, Center.set_center. cbn [option_map].
    destruct (@negative_origin_prep _ order _ H) as [-> _]. reflexivity.
  Qed.
End Link.
