(* C15Scale.v — multiplying the image by a constant c: the cos^n coefficients
   and the harmonics are multiplied by c, I(r) is multiplied by c and, for
   c <> 0, the anisotropy parameters beta_n = P_n / P_0 do not change (every
   window size; where P_0 = 0 they stay 0).  On the executable models
   model/DistrFit.v (R instance) and model/DistrRepr.v (R instance). *)
From Coq Require Import List Arith Lia Bool ZArith Reals Lra.
From PA Require Import base.Arr base.Px base.MatL model.DistrGeom gen.VmiInv model.DistrFit model.DistrRepr
  proofs.VmiInvProofs proofs.DistrGeomProofs proofs.DistrFitProofs proofs.C14R proofs.DistrReprProofs
  proofs.C15R proofs.C15Inv.
Import ListNotations.
Open Scope R_scope.

Definition vscale (c : R) (v : list R) : list R := map (Rmult c) v.
Definition mscaleR (c : R) (M : list (list R)) : list (list R) := map (vscale c) M.

(* ---- linear algebra on lists ------------------------------------------------------------- *)
Lemma nth_vscale c r j : nth j (vscale c r) 0 = c * nth j r 0.
Proof. revert j. induction r as [|x r IH]; intros [|j]; cbn; try ring; apply IH. Qed.

Lemma dot_sum u v : dot 0 Rplus Rmult u v = DistrFit.sum Rops (map (fun p => fst p * snd p) (combine u v)).
Proof. reflexivity. Qed.

Lemma combine_map_r {X Y Z : Type} (f : Y -> Z) (u : list X) v :
  combine u (map f v) = map (fun p => (fst p, f (snd p))) (combine u v).
Proof. revert v. induction u as [|x u IH]; intros [|y v]; cbn; try reflexivity. f_equal. apply IH. Qed.

Lemma dot_vscale c u v : dot 0 Rplus Rmult u (vscale c v) = c * dot 0 Rplus Rmult u v.
Proof.
  rewrite !dot_sum. unfold vscale. rewrite combine_map_r, map_map.
  apply sum_map_ext_scale. intros [a b] _. cbn [fst snd]. ring.
Qed.

Lemma matvec_vscale c M v : matvec 0 Rplus Rmult M (vscale c v) = vscale c (matvec 0 Rplus Rmult M v).
Proof. unfold matvec, vscale. rewrite map_map. apply map_ext. intros r. apply dot_vscale. Qed.

Lemma mcol_mscale c P j : mcol 0 (mscaleR c P) j = vscale c (mcol 0 P j).
Proof. unfold mcol, mscaleR, vscale. rewrite !map_map. apply map_ext. intros r. apply nth_vscale. Qed.

Lemma hd_mscale c P : hd [] (mscaleR c P) = vscale c (hd [] P).
Proof. destruct P; reflexivity. Qed.
Lemma tl_mscale c P : tl (mscaleR c P) = mscaleR c (tl P).
Proof. destruct P; reflexivity. Qed.

Lemma mmul_mscale (M P : list (list R)) c :
  mmul Rops M (mscaleR c P) = mscaleR c (mmul Rops M P).
Proof.
  unfold mmul, matmul, ncols. rewrite hd_mscale. unfold vscale at 1. rewrite map_length.
  cbn [Rops f0 fadd fmul].
  transitivity (map (vscale c) (map (fun r => map (fun j => dot 0 Rplus Rmult r (mcol 0 P j))
                                                  (seq 0 (length (hd [] P)))) M)); [|reflexivity].
  rewrite map_map. apply map_ext. intros r. unfold vscale at 1. rewrite map_map.
  apply map_ext. intros j. rewrite mcol_mscale. apply dot_vscale.
Qed.

(* ---- harmonics and Ibeta -------------------------------------------------------------------- *)
Theorem harmonics_scale order odd c (cn : list (list R)) :
  harmonicsR order odd (mscaleR c cn) = mscaleR c (harmonicsR order odd cn).
Proof. unfold harmonicsR, harmonics. apply mmul_mscale. Qed.

Lemma uniform_filter_vscale window c r :
  uniform_filter Rops IZR window (vscale c r) = vscale c (uniform_filter Rops IZR window r).
Proof.
  unfold uniform_filter.
  replace (length (vscale c r)) with (length r) by (unfold vscale; rewrite map_length; reflexivity).
  unfold vscale at 2. rewrite map_map. apply map_ext. intros i.
  cbn [Rops fdiv]. unfold Rdiv. rewrite <- Rmult_assoc. f_equal.
  unfold DistrRepr.sum. cbn [Rops f0 fadd].
  change (fold_left Rplus ?l 0) with (DistrFit.sum Rops l).
  apply sum_map_ext_scale. intros k _. apply nth_vscale.
Qed.

Lemma beta_row_scale c (row P0 : list R) : c <> 0 ->
  map (fun p => if Reqb (snd p) 0 then 0 else fst p / snd p) (combine (vscale c row) (vscale c P0))
  = map (fun p => if Reqb (snd p) 0 then 0 else fst p / snd p) (combine row P0).
Proof.
  intros Hc. revert P0. induction row as [|x row IH]; intros [|y P0]; cbn [vscale map combine]; try reflexivity.
  f_equal; [|apply IH]. cbn [fst snd]. unfold Reqb.
  destruct (Req_EM_T (c * y) 0) as [E|E]; destruct (Req_EM_T y 0) as [E'|E']; try reflexivity.
  - exfalso. apply Rmult_integral in E. tauto.
  - exfalso. apply E. rewrite E'. ring.
  - field. split; assumption.
Qed.

(* I(r) is multiplied by c, every beta_n is unchanged (any window) *)
Theorem Ibeta_scale order odd window rs c (cn : list (list R)) : c <> 0 ->
  IbetaR order odd window rs (mscaleR c cn)
  = match IbetaR order odd window rs cn with
    | Irow :: beta => vscale c Irow :: beta
    | [] => []
    end.
Proof.
  intros Hc. unfold IbetaR, Ibeta. fold (harmonicsR order odd (mscaleR c cn)). fold (harmonicsR order odd cn).
  rewrite harmonics_scale. set (harm := harmonicsR order odd cn). rewrite hd_mscale, tl_mscale.
  f_equal.
  - unfold vscale. rewrite combine_map_r, !map_map. apply map_ext. intros [r p]. cbn [fst snd Rops fmul]. ring.
  - destruct (1 <? window)%nat.
    + rewrite uniform_filter_vscale. unfold mscaleR. rewrite !map_map. apply map_ext. intros row.
      rewrite uniform_filter_vscale. cbn [Rops feqb f0 fdiv]. apply beta_row_scale. exact Hc.
    + unfold mscaleR. rewrite map_map. apply map_ext. intros row.
      cbn [Rops feqb f0 fdiv]. apply beta_row_scale. exact Hc.
Qed.

(* ---- the cos^n coefficients of a scaled image ------------------------------------------------ *)
Lemma coeffs_data_scale N px px' c :
  (forall n, momentR n px' = momentR n px) -> (forall n, dmomentR n px' = c * dmomentR n px) ->
  coeffsR N px' = option_map (vscale c) (coeffsR N px).
Proof.
  intros Hm Hd. unfold coeffsR, coeffs.
  assert (EC : convC Rops N px' = convC Rops N px).
  { unfold convC. fold momentR. destruct N as [|[|[|[|N]]]]; try reflexivity; rewrite !Hm; reflexivity. }
  rewrite EC. destruct (convC Rops N px) as [C|]; [|reflexivity]. cbn [option_map]. f_equal.
  fold dmomentR.
  replace (map (fun n => dmomentR n px') (seq 0 N)) with (vscale c (map (fun n => dmomentR n px) (seq 0 N))).
  - apply matvec_vscale.
  - unfold vscale. rewrite map_map. apply map_ext. intros n. symmetry. apply Hd.
Qed.

Lemma pixels_measure_data ms meth g wq dq dq' c k r :
  (forall w x q, ms (w, x, c * q) = k * ms (w, x, q)) ->
  (forall cc w x q, ms (cc * w, x, cc * (c * q)) = k * ms (cc * w, x, cc * q)) ->
  (forall a b, (a < g_Qh g)%nat -> (b < g_Qw g)%nat -> dq' a b = c * dq a b) ->
  S ms (pixels Rops sqrtR meth g wq dq' r) = k * S ms (pixels Rops sqrtR meth g wq dq r).
Proof.
  intros H1 H2 HQ. destruct meth.
  - rewrite !pixels_nearest_fam. apply fam_scale. intros a b Ha Hb. split; [reflexivity|].
    rewrite (HQ a b Ha Hb). apply H1.
  - rewrite !pixels_linear_fam, !S_app, Rmult_plus_distr_l.
    apply f_equal2; apply fam_scale; intros a b Ha Hb; (split; [reflexivity|]);
      rewrite (HQ a b Ha Hb); apply H2.
Qed.

Theorem image_scale_cos h w row col rmax odd N meth use_sin (W : option (list (list R))) (IM : list (list R)) c :
  (row < h)%nat -> (col < w)%nat -> wf h w IM -> (forall Wt, W = Some Wt -> wf h w Wt) ->
  let g := quad_geom h w row col rmax odd N in
  distr_cos Rops sqrtR meth g use_sin W (imap (Rmult c) IM)
  = map (option_map (vscale c)) (distr_cos Rops sqrtR meth g use_sin W IM).
Proof.
  intros Hr Hc HIM HW g. unfold distr_cos. cbv zeta. rewrite map_map. apply map_ext. intros r.
  set (wq := QW Rops sqrtR g use_sin W). set (dq := QD Rops sqrtR g use_sin W IM).
  set (dq' := QD Rops sqrtR g use_sin W (imap (Rmult c) IM)).
  assert (HIM' : wf h w (imap (Rmult c) IM)) by (apply wf_imap; exact HIM).
  assert (PI : forall i j, (i < h)%nat -> (j < w)%nat -> px 0 (imap (Rmult c) IM) i j = c * px 0 IM i j)
    by (intros; apply (px_imap 0 (n:=h) (m:=w)); assumption).
  assert (Edq : forall a b, (a < g_Qh g)%nat -> (b < g_Qw g)%nat -> dq' a b = c * dq a b).
  { intros a b Ha Hb. unfold dq', dq, QD. cbv beta zeta. cbn [Rops f0 fadd fmul].
    assert (F : px 0 (fold_image 0 Rplus g match W with Some Wt => imul Rops Wt (imap (Rmult c) IM) | None => imap (Rmult c) IM end) a b
                = c * px 0 (fold_image 0 Rplus g match W with Some Wt => imul Rops Wt IM | None => IM end) a b).
    { pose proof (fold_scale h w row col rmax odd N
                    match W with Some Wt => imul Rops Wt IM | None => IM end
                    match W with Some Wt => imul Rops Wt (imap (Rmult c) IM) | None => imap (Rmult c) IM end c a b Hr Hc) as E.
      cbv zeta in E. fold g in E. apply E; try assumption.
      intros i j Hi Hj. destruct W as [Wt|].
      - rewrite !(px_imul h w) by (try assumption; apply HW; reflexivity). rewrite PI by assumption. ring.
      - apply PI; assumption. }
    rewrite F. destruct use_sin; ring. }
  apply coeffs_data_scale.
  - intros n. rewrite !momentR_S.
    rewrite (pixels_measure_data (mu n) meth g wq dq dq' c 1 r); [ring| | |exact Edq]; intros; unfold mu; ring.
  - intros n. rewrite !dmomentR_S.
    apply (pixels_measure_data (nu n) meth g wq dq dq' c c r); [| |exact Edq]; intros; unfold nu; ring.
Qed.
