(* DistrGeomProofs.v — what the Python slices built by Distributions._precalc
   select, and the folding specification: every quadrant pixel is the sum of
   the (at most four / two) image pixels at the same |row - origin row|,
   |column - origin column| (signed row offset for odd orders), and every
   image pixel inside the radial window is used exactly once. *)
From Coq Require Import List Arith Lia Bool ZArith.
From Coq Require Import ZifyBool ZifyNat.
From PA Require Import base.Arr base.Px model.DistrGeom.
Import ListNotations.
Open Scope nat_scope.

Ltac Zify.zify_post_hook ::= Z.to_euclidean_division_equations.

Lemma nth_map_gen {X Y : Type} (f : X -> Y) (l : list X) i d d0 :
  i < length l -> nth i (map f l) d = f (nth i l d0).
Proof.
  revert i; induction l as [|x l IH]; intros [|i] H; simpl in *; try lia; auto. apply IH; lia.
Qed.

(* ---- tab ------------------------------------------------------------------ *)
Section TabLemmas.
  Variable A : Type.
  Variable zero : A.

  Lemma wf_tab n m (f : nat -> nat -> A) : wf n m (tab n m f).
  Proof.
    unfold tab. split.
    - rewrite map_length, seq_length. reflexivity.
    - apply Forall_forall. intros r Hr. apply in_map_iff in Hr. destruct Hr as [i [<- _]].
      rewrite map_length, seq_length. reflexivity.
  Qed.

  Lemma px_tab n m (f : nat -> nat -> A) i j : i < n -> j < m -> px zero (tab n m f) i j = f i j.
  Proof.
    intros Hi Hj. unfold px, row, tab.
    rewrite (fun f l i d => @nth_map_gen _ _ f l i d 0) by (rewrite seq_length; exact Hi).
    rewrite (fun f l i d => @nth_map_gen _ _ f l i d 0) by (rewrite seq_length; exact Hj).
    rewrite !seq_nth by assumption. reflexivity.
  Qed.

  Lemma px_map_map (IM : list (list A)) (ri ci : list nat) a b :
    a < length ri -> b < length ci ->
    px zero (map (fun i => map (fun j => px zero IM i j) ci) ri) a b = px zero IM (nth a ri 0) (nth b ci 0).
  Proof.
    intros Ha Hb. unfold px at 1, row.
    rewrite (fun f l i d => @nth_map_gen _ _ f l i d 0) by exact Ha.
    rewrite (fun f l i d => @nth_map_gen _ _ f l i d 0) by exact Hb. reflexivity.
  Qed.

  Lemma wf_map_map (IM : list (list A)) (ri ci : list nat) :
    wf (length ri) (length ci) (map (fun i => map (fun j => px zero IM i j) ci) ri).
  Proof.
    split. - apply map_length.
    - apply Forall_forall. intros r Hr. apply in_map_iff in Hr. destruct Hr as [i [<- _]].
      apply map_length.
  Qed.
End TabLemmas.

(* ---- slices ----------------------------------------------------------------- *)
Lemma map_seq_shift {Y : Type} (f : nat -> Y) s n :
  map f (seq s n) = map (fun k => f (s + k)) (seq 0 n).
Proof.
  revert s. induction n as [|n IH]; intros s; [reflexivity|].
  cbn [seq map]. rewrite Nat.add_0_r. f_equal.
  rewrite IH. rewrite <- seq_shift, map_map. apply map_ext. intros k. f_equal. lia.
Qed.

(* a[s:e] with 0 <= s <= e <= len *)
Lemma slice_idx_fwd s e len : s <= e -> e <= len ->
  slice_idx (Sl (zn s) (zn e) 1) len = seq s (e - s).
Proof.
  intros H1 H2. unfold slice_idx, norm_idx, slice_cnt, zn. cbn [s_start s_stop s_step].
  change (0 <? 1)%Z with true. cbn iota.
  replace (Z.of_nat s <? 0)%Z with false by lia. replace (Z.of_nat e <? 0)%Z with false by lia.
  replace (Z.min (Z.of_nat s) (Z.of_nat len)) with (Z.of_nat s) by lia.
  replace (Z.min (Z.of_nat e) (Z.of_nat len)) with (Z.of_nat e) by lia.
  destruct (Z.ltb_spec (Z.of_nat s) (Z.of_nat e)) as [Hlt|Hge].
  - rewrite Z.div_1_r. replace (Z.to_nat (Z.of_nat e - Z.of_nat s - 1 + 1)) with (e - s) by lia.
    transitivity (map (fun k : nat => k) (seq s (e - s))); [|apply map_id].
    rewrite (map_seq_shift (fun k : nat => k)). apply map_ext. intros k. lia.
  - replace (e - s) with 0 by lia. reflexivity.
Qed.

(* a[s:e:-1] given through negative (from-the-end) bounds:
   start = -1 - u, stop = -1 - v with u <= v <= len, u < len:
   indices len-1-u, len-2-u, ..., len-v *)
Lemma slice_idx_bwd u v len : u <= v -> v <= len ->
  slice_idx (Sl (-1 - zn u) (-1 - zn v) (-1)) len = map (fun k => len - 1 - u - k) (seq 0 (v - u)).
Proof.
  intros H1 H2. unfold slice_idx, norm_idx, slice_cnt, zn. cbn [s_start s_stop s_step].
  change (0 <? -1)%Z with false. change (-1 <? 0)%Z with true. cbn iota.
  replace (-1 - Z.of_nat u <? 0)%Z with true by lia. replace (-1 - Z.of_nat v <? 0)%Z with true by lia.
  replace (Z.max (-1 - Z.of_nat u + Z.of_nat len) (-1)) with (Z.of_nat len - 1 - Z.of_nat u)%Z by lia.
  replace (Z.max (-1 - Z.of_nat v + Z.of_nat len) (-1)) with (Z.of_nat len - 1 - Z.of_nat v)%Z by lia.
  destruct (Z.ltb_spec (Z.of_nat len - 1 - Z.of_nat v) (Z.of_nat len - 1 - Z.of_nat u)) as [Hlt|Hge].
  - change (- -1)%Z with 1%Z. rewrite Z.div_1_r.
    replace (Z.to_nat (Z.of_nat len - 1 - Z.of_nat u - (Z.of_nat len - 1 - Z.of_nat v) - 1 + 1)) with (v - u) by lia.
    apply map_ext_in. intros k Hk. apply in_seq in Hk. lia.
  - replace (v - u) with 0 by lia. reflexivity.
Qed.

Lemma pos_seq a s n : pos a (seq s n) = if (s <=? a) && (a <? s + n) then Some (a - s) else None.
Proof.
  revert s. induction n as [|n IH]; intros s.
  - cbn [seq pos]. destruct ((s <=? a) && (a <? s + 0)) eqn:E; [lia | reflexivity].
  - cbn [seq pos]. destruct (Nat.eqb_spec s a) as [->|Hne].
    + replace ((a <=? a) && (a <? a + S n)) with true by lia. f_equal. lia.
    + rewrite IH. destruct ((S s <=? a) && (a <? S s + n)) eqn:E.
      * replace ((s <=? a) && (a <? s + S n)) with true by lia. cbn. f_equal. lia.
      * replace ((s <=? a) && (a <? s + S n)) with false by lia. reflexivity.
Qed.

Lemma nth_seq_lt s n k : k < n -> nth k (seq s n) 0 = s + k.
Proof. intros. apply seq_nth. assumption. Qed.

Lemma nth_map_seq (f : nat -> nat) n k : k < n -> nth k (map f (seq 0 n)) 0 = f k.
Proof.
  intros H. rewrite (fun f l i d => @nth_map_gen _ _ f l i d 0) by (rewrite seq_length; exact H).
  rewrite seq_nth by exact H. reflexivity.
Qed.

(* ---- fields of quad_geom that do not depend on the branch taken ---------------- *)
Section QuadGeomFields.
  Variables (h w row col rmax : nat) (odd : bool) (N : nat).
  Let g := quad_geom h w row col rmax odd N.
  Ltac qg := unfold g, quad_geom;
             destruct (negb odd && _ && _); [reflexivity|]; destruct (odd && _); reflexivity.
  Lemma qg_h : g_h g = h. Proof. qg. Qed.
  Lemma qg_w : g_w g = w. Proof. qg. Qed.
  Lemma qg_row : g_row g = row. Proof. qg. Qed.
  Lemma qg_col : g_col g = col. Proof. qg. Qed.
  Lemma qg_rmax : g_rmax g = rmax. Proof. qg. Qed.
  Lemma qg_odd : g_odd g = odd. Proof. qg. Qed.
  Lemma qg_N : g_N g = N. Proof. qg. Qed.
  Lemma qg_y0 : g_y0 g = if odd then min row rmax else 0. Proof. qg. Qed.
  Lemma qg_Qh : g_Qh g = if odd then min row rmax + 1 + min (h - 1 - row) rmax
                          else min (max row (h - 1 - row)) rmax + 1. Proof. qg. Qed.
  Lemma qg_Qw : g_Qw g = min (max col (w - 1 - col)) rmax + 1. Proof. qg. Qed.
End QuadGeomFields.

(* ---- the two kinds of (source, destination) slice pairs ------------------------ *)
Section Regions.
  Variable A : Type.
  Variable zero : A.
  Variable add : A -> A -> A.
  Hypothesis add_0_l : forall x, add zero x = x.
  Hypothesis add_0_r : forall x, add x zero = x.
  Notation img := (list (list A)).

  (* one axis of a region, positive side: destination index a <-> source pivot + a *)
  Lemma axis_pos pivot pivot_ size a :
    let sd := mk_slices pivot pivot_ size true in
    a < size ->
    match pos a (slice_idx (snd sd) size) with
    | Some k => pivot + a < pivot + pivot_ + 1 /\ nth k (slice_idx (fst sd) (pivot + pivot_ + 1)) 0 = pivot + a
    | None => ~ (pivot + a < pivot + pivot_ + 1)
    end.
  Proof.
    intros sd Ha. unfold sd, mk_slices. cbn [fst snd].
    set (n := min (pivot_ + 1) size).
    change 0%Z with (zn 0). rewrite slice_idx_fwd by lia. rewrite slice_idx_fwd by lia.
    rewrite pos_seq. rewrite Nat.sub_0_r.
    destruct ((0 <=? a) && (a <? 0 + n)) eqn:E.
    - split; [lia|]. rewrite nth_seq_lt by lia. lia.
    - lia.
  Qed.

  (* negative side: destination index a (>= 1) <-> source pivot - a *)
  Lemma axis_neg pivot pivot_ size a :
    let sd := mk_slices pivot pivot_ size false in
    a < size ->
    match pos a (slice_idx (snd sd) size) with
    | Some k => 1 <= a /\ a <= pivot /\ nth k (slice_idx (fst sd) (pivot + pivot_ + 1)) 0 = pivot - a
    | None => ~ (1 <= a /\ a <= pivot)
    end.
  Proof.
    intros sd Ha. unfold sd, mk_slices. cbn [fst snd].
    set (n := min (pivot + 1) size).
    change 1%Z with (zn 1). rewrite slice_idx_fwd by lia.
    rewrite slice_idx_bwd by lia. rewrite pos_seq.
    destruct ((1 <=? a) && (a <? 1 + (n - 1))) eqn:E.
    - split; [lia|]. split; [lia|]. rewrite nth_map_seq by lia. lia.
    - lia.
  Qed.

  Lemma mk_slices_len pivot pivot_ size p : 1 <= size ->
    let sd := mk_slices pivot pivot_ size p in
    length (slice_idx (fst sd) (pivot + pivot_ + 1)) = length (slice_idx (snd sd) size).
  Proof.
    intros Hs. destruct p; unfold mk_slices; cbn [fst snd].
    - change 0%Z with (zn 0). rewrite !slice_idx_fwd by lia. rewrite !seq_length. lia.
    - change 1%Z with (zn 1). rewrite slice_idx_fwd by lia. rewrite slice_idx_bwd by lia.
      rewrite map_length, !seq_length. lia.
  Qed.

  (* ---- the specification --------------------------------------------------- *)
  Definition gpix (IM : img) (c1 c2 : bool) (i j : nat) : A :=
    if c1 && c2 then px zero IM i j else zero.

  (* even orders: rows and columns folded *)
  Definition spec_even (h w row col : nat) (IM : img) (a b : nat) : A :=
    let nr := (1 <=? a) && (a <=? row) in let pr := row + a <? h in
    let nc := (1 <=? b) && (b <=? col) in let pc := col + b <? w in
    add (add (add (add zero (gpix IM nr nc (row - a) (col - b))) (gpix IM nr pc (row - a) (col + b)))
             (gpix IM pr nc (row + a) (col - b)))
        (gpix IM pr pc (row + a) (col + b)).

  (* odd orders: only columns folded; quadrant row a is image row row - y0 + a *)
  Definition spec_odd (w row col y0 : nat) (IM : img) (a b : nat) : A :=
    let nc := (1 <=? b) && (b <=? col) in let pc := col + b <? w in
    add (add zero (gpix IM true nc (row - y0 + a) (col - b))) (gpix IM true pc (row - y0 + a) (col + b)).

  Lemma contrib_axes (g : geom) (IM : img) row row_ col col_ pr pc a b :
    g_h g = row + row_ + 1 -> g_w g = col + col_ + 1 -> a < g_Qh g -> b < g_Qw g ->
    contrib zero g IM (zip_region (mk_slices row row_ (g_Qh g) pr)
                                  (mk_slices col col_ (g_Qw g) pc)) a b =
    gpix IM (if pr then row + a <? row + row_ + 1 else (1 <=? a) && (a <=? row))
            (if pc then col + b <? col + col_ + 1 else (1 <=? b) && (b <=? col))
            (if pr then row + a else row - a) (if pc then col + b else col - b).
  Proof.
    intros Hh Hw Ha Hb.
    unfold contrib, zip_region. cbn [fst snd]. rewrite Hh, Hw.
    destruct pr, pc.
    - pose proof (axis_pos row row_ (g_Qh g) a Ha) as P1.
      pose proof (axis_pos col col_ (g_Qw g) b Hb) as P2. cbv zeta in P1, P2.
      destruct (pos a _) as [k|]; destruct (pos b _) as [l|]; unfold gpix.
      + destruct P1 as [P1 ->]. destruct P2 as [P2 ->].
        replace (row + a <? row + row_ + 1) with true by lia.
        replace (col + b <? col + col_ + 1) with true by lia. reflexivity.
      + replace (col + b <? col + col_ + 1) with false by lia. rewrite andb_false_r. reflexivity.
      + replace (row + a <? row + row_ + 1) with false by lia. reflexivity.
      + replace (row + a <? row + row_ + 1) with false by lia. reflexivity.
    - pose proof (axis_pos row row_ (g_Qh g) a Ha) as P1.
      pose proof (axis_neg col col_ (g_Qw g) b Hb) as P2. cbv zeta in P1, P2.
      destruct (pos a _) as [k|]; destruct (pos b _) as [l|]; unfold gpix.
      + destruct P1 as [P1 ->]. destruct P2 as [P2 [P3 ->]].
        replace (row + a <? row + row_ + 1) with true by lia.
        replace ((1 <=? b) && (b <=? col)) with true by lia. reflexivity.
      + replace ((1 <=? b) && (b <=? col)) with false by lia. rewrite andb_false_r. reflexivity.
      + replace (row + a <? row + row_ + 1) with false by lia. reflexivity.
      + replace (row + a <? row + row_ + 1) with false by lia. reflexivity.
    - pose proof (axis_neg row row_ (g_Qh g) a Ha) as P1.
      pose proof (axis_pos col col_ (g_Qw g) b Hb) as P2. cbv zeta in P1, P2.
      destruct (pos a _) as [k|]; destruct (pos b _) as [l|]; unfold gpix.
      + destruct P1 as [P1 [P1' ->]]. destruct P2 as [P2 ->].
        replace ((1 <=? a) && (a <=? row)) with true by lia.
        replace (col + b <? col + col_ + 1) with true by lia. reflexivity.
      + replace (col + b <? col + col_ + 1) with false by lia. rewrite andb_false_r. reflexivity.
      + replace ((1 <=? a) && (a <=? row)) with false by lia. reflexivity.
      + replace ((1 <=? a) && (a <=? row)) with false by lia. reflexivity.
    - pose proof (axis_neg row row_ (g_Qh g) a Ha) as P1.
      pose proof (axis_neg col col_ (g_Qw g) b Hb) as P2. cbv zeta in P1, P2.
      destruct (pos a _) as [k|]; destruct (pos b _) as [l|]; unfold gpix.
      + destruct P1 as [P1 [P1' ->]]. destruct P2 as [P2 [P2' ->]].
        replace ((1 <=? a) && (a <=? row)) with true by lia.
        replace ((1 <=? b) && (b <=? col)) with true by lia. reflexivity.
      + replace ((1 <=? b) && (b <=? col)) with false by lia. rewrite andb_false_r. reflexivity.
      + replace ((1 <=? a) && (a <=? row)) with false by lia. reflexivity.
      + replace ((1 <=? a) && (a <=? row)) with false by lia. reflexivity.
  Qed.

  (* ---- the branches of quad_geom ---------------------------------------------- *)
  Lemma regions_even h w row col rmax N :
    let g := quad_geom h w row col rmax false N in
    g_fold g = true ->
    g_regions g =
    [zip_region (mk_slices row (h - 1 - row) (g_Qh g) false) (mk_slices col (w - 1 - col) (g_Qw g) false);
     zip_region (mk_slices row (h - 1 - row) (g_Qh g) false) (mk_slices col (w - 1 - col) (g_Qw g) true);
     zip_region (mk_slices row (h - 1 - row) (g_Qh g) true) (mk_slices col (w - 1 - col) (g_Qw g) false);
     zip_region (mk_slices row (h - 1 - row) (g_Qh g) true) (mk_slices col (w - 1 - col) (g_Qw g) true)].
  Proof.
    intros g. unfold g, quad_geom.
    destruct (negb false && _ && _); [discriminate|]. cbn. reflexivity.
  Qed.

  Lemma flip_even h w row col rmax N :
    let g := quad_geom h w row col rmax false N in
    g_fold g = false ->
    (row = 0 \/ row = h - 1) /\ (col = 0 \/ col = w - 1) /\
    g_flip g = (if Nat.eqb row 0 then Sl 0 (zn (g_Qh g)) 1 else Sl (-1) (-1 - zn (g_Qh g)) (-1),
                if Nat.eqb col 0 then Sl 0 (zn (g_Qw g)) 1 else Sl (-1) (-1 - zn (g_Qw g)) (-1)).
  Proof.
    intros g. unfold g, quad_geom.
    destruct (negb false && (Nat.eqb row 0 || Nat.eqb row (h - 1)) && (Nat.eqb col 0 || Nat.eqb col (w - 1))) eqn:E.
    - intros _. cbn [g_flip g_Qh g_Qw]. split; [lia|]. split; [lia|]. reflexivity.
    - cbn. discriminate.
  Qed.

  Lemma regions_odd h w row col rmax N :
    let g := quad_geom h w row col rmax true N in
    let srow := (Sl (zn row - zn (min row rmax)) (zn row + 1 + zn (min (h - 1 - row) rmax)) 1,
                 Sl 0 (zn (g_Qh g)) 1) in
    g_fold g = true ->
    g_regions g = [zip_region srow (mk_slices col (w - 1 - col) (g_Qw g) false);
                   zip_region srow (mk_slices col (w - 1 - col) (g_Qw g) true)].
  Proof.
    intros g. unfold g, quad_geom. cbn [negb andb].
    destruct (Nat.eqb col 0 || Nat.eqb col (w - 1)); [discriminate|]. cbn. reflexivity.
  Qed.

  Lemma flip_odd h w row col rmax N :
    let g := quad_geom h w row col rmax true N in
    g_fold g = false ->
    (col = 0 \/ col = w - 1) /\
    g_flip g = (Sl (zn row - zn (g_y0 g)) (zn row - zn (g_y0 g) + zn (g_Qh g)) 1,
                if Nat.eqb col 0 then Sl 0 (zn (g_Qw g)) 1 else Sl (-1) (-1 - zn (g_Qw g)) (-1)).
  Proof.
    intros g. unfold g, quad_geom. cbn [negb andb].
    destruct (Nat.eqb col 0 || Nat.eqb col (w - 1)) eqn:E.
    - intros _. cbn [g_flip g_Qh g_Qw g_y0]. split; [lia|]. reflexivity.
    - cbn. discriminate.
  Qed.

  Lemma slice_idx_rev_full Q len a : Q <= len -> a < Q ->
    nth a (slice_idx (Sl (-1) (-1 - zn Q) (-1)) len) 0 = len - 1 - a /\
    length (slice_idx (Sl (-1) (-1 - zn Q) (-1)) len) = Q.
  Proof.
    intros H Ha.
    assert (E : Sl (-1) (-1 - zn Q) (-1) = Sl (-1 - zn 0) (-1 - zn Q) (-1)) by reflexivity.
    rewrite E. rewrite slice_idx_bwd by lia.
    rewrite map_length, seq_length, nth_map_seq by lia. lia.
  Qed.

  Lemma slice_idx_fwd0 Q len a : Q <= len -> a < Q ->
    nth a (slice_idx (Sl 0 (zn Q) 1) len) 0 = a /\ length (slice_idx (Sl 0 (zn Q) 1) len) = Q.
  Proof.
    intros H Ha. change 0%Z with (zn 0). rewrite slice_idx_fwd by lia.
    rewrite seq_length, nth_seq_lt by lia. lia.
  Qed.

  (* ---- fold_spec, even orders ---------------------------------------------------- *)
  Theorem fold_spec_even h w row col rmax N (IM : img) a b :
    row < h -> col < w ->
    let g := quad_geom h w row col rmax false N in
    a < g_Qh g -> b < g_Qw g ->
    px zero (fold_image zero add g IM) a b = spec_even h w row col IM a b.
  Proof.
    intros Hr Hc g Ha Hb.
    assert (Hh : g_h g = row + (h - 1 - row) + 1) by (unfold g; rewrite qg_h; lia).
    assert (Hw : g_w g = col + (w - 1 - col) + 1) by (unfold g; rewrite qg_w; lia).
    assert (HQh : g_Qh g <= h) by (unfold g; rewrite qg_Qh; lia).
    assert (HQw : g_Qw g <= w) by (unfold g; rewrite qg_Qw; lia).
    unfold fold_image. destruct (g_fold g) eqn:Hf.
    - rewrite px_tab by assumption.
      pose proof (regions_even h w row col rmax N) as HR. cbv zeta in HR. fold g in HR.
      rewrite (HR Hf). cbn [map fold_left].
      rewrite !(contrib_axes g IM row (h - 1 - row) col (w - 1 - col)) by assumption.
      unfold spec_even.
      replace (row + (h - 1 - row) + 1) with h by lia. replace (col + (w - 1 - col) + 1) with w by lia.
      reflexivity.
    - pose proof (flip_even h w row col rmax N) as HF. cbv zeta in HF. fold g in HF.
      destruct (HF Hf) as [Hrow [Hcol Hflip]]. rewrite Hflip. cbn [fst snd].
      assert (Hgh : g_h g = h) by (unfold g; apply qg_h).
      assert (Hgw : g_w g = w) by (unfold g; apply qg_w).
      rewrite Hgh, Hgw.
      assert (Ri : nth a (slice_idx (if Nat.eqb row 0 then Sl 0 (zn (g_Qh g)) 1
                                     else Sl (-1) (-1 - zn (g_Qh g)) (-1)) h) 0
                   = (if Nat.eqb row 0 then a else h - 1 - a) /\
                   length (slice_idx (if Nat.eqb row 0 then Sl 0 (zn (g_Qh g)) 1
                                      else Sl (-1) (-1 - zn (g_Qh g)) (-1)) h) = g_Qh g).
      { destruct (Nat.eqb row 0); [apply slice_idx_fwd0|apply slice_idx_rev_full]; assumption. }
      assert (Ci : nth b (slice_idx (if Nat.eqb col 0 then Sl 0 (zn (g_Qw g)) 1
                                     else Sl (-1) (-1 - zn (g_Qw g)) (-1)) w) 0
                   = (if Nat.eqb col 0 then b else w - 1 - b) /\
                   length (slice_idx (if Nat.eqb col 0 then Sl 0 (zn (g_Qw g)) 1
                                      else Sl (-1) (-1 - zn (g_Qw g)) (-1)) w) = g_Qw g).
      { destruct (Nat.eqb col 0); [apply slice_idx_fwd0|apply slice_idx_rev_full]; assumption. }
      destruct Ri as [Ri Rl]. destruct Ci as [Ci Cl].
      rewrite px_map_map by lia. rewrite Ri, Ci.
      unfold spec_even, gpix.
      destruct (Nat.eqb_spec row 0) as [R0|R0]; destruct (Nat.eqb_spec col 0) as [C0|C0].
      + replace ((1 <=? a) && (a <=? row)) with false by lia.
        replace ((1 <=? b) && (b <=? col)) with false by lia.
        replace (row + a <? h) with true by lia. replace (col + b <? w) with true by lia.
        cbn [andb]. rewrite !add_0_l. f_equal; lia.
      + replace ((1 <=? a) && (a <=? row)) with false by lia.
        replace (row + a <? h) with true by lia. cbn [andb]. rewrite !add_0_l.
        destruct (Nat.eqb_spec b 0) as [B0|B0].
        * replace ((1 <=? b) && (b <=? col)) with false by lia. replace (col + b <? w) with true by lia.
          rewrite add_0_l. f_equal; lia.
        * replace ((1 <=? b) && (b <=? col)) with true by lia. replace (col + b <? w) with false by lia.
          rewrite add_0_r. f_equal; lia.
      + replace ((1 <=? b) && (b <=? col)) with false by lia.
        replace (col + b <? w) with true by lia. rewrite !andb_false_r, !andb_true_r. rewrite !add_0_l.
        destruct (Nat.eqb_spec a 0) as [A0|A0].
        * replace ((1 <=? a) && (a <=? row)) with false by lia. replace (row + a <? h) with true by lia.
          rewrite !add_0_l. f_equal; lia.
        * replace ((1 <=? a) && (a <=? row)) with true by lia. replace (row + a <? h) with false by lia.
          rewrite !add_0_r. f_equal; lia.
      + destruct (Nat.eqb_spec a 0) as [A0|A0]; destruct (Nat.eqb_spec b 0) as [B0|B0].
        * replace ((1 <=? a) && (a <=? row)) with false by lia. replace (row + a <? h) with true by lia.
          replace ((1 <=? b) && (b <=? col)) with false by lia. replace (col + b <? w) with true by lia.
          cbn [andb]. rewrite !add_0_l. f_equal; lia.
        * replace ((1 <=? a) && (a <=? row)) with false by lia. replace (row + a <? h) with true by lia.
          replace ((1 <=? b) && (b <=? col)) with true by lia. replace (col + b <? w) with false by lia.
          cbn [andb]. rewrite !add_0_l, !add_0_r. f_equal; lia.
        * replace ((1 <=? a) && (a <=? row)) with true by lia. replace (row + a <? h) with false by lia.
          replace ((1 <=? b) && (b <=? col)) with false by lia. replace (col + b <? w) with true by lia.
          cbn [andb]. rewrite !add_0_l, !add_0_r. f_equal; lia.
        * replace ((1 <=? a) && (a <=? row)) with true by lia. replace (row + a <? h) with false by lia.
          replace ((1 <=? b) && (b <=? col)) with true by lia. replace (col + b <? w) with false by lia.
          cbn [andb]. rewrite !add_0_l, !add_0_r. f_equal; lia.
  Qed.

  (* ---- fold_spec, odd orders ----------------------------------------------------- *)
  Lemma contrib_odd (g : geom) (IM : img) row row_ rmax col col_ pc a b :
    g_h g = row + row_ + 1 -> g_w g = col + col_ + 1 ->
    g_Qh g = min row rmax + 1 + min row_ rmax ->
    a < g_Qh g -> b < g_Qw g ->
    contrib zero g IM
            (zip_region (Sl (zn row - zn (min row rmax)) (zn row + 1 + zn (min row_ rmax)) 1,
                         Sl 0 (zn (g_Qh g)) 1)
                        (mk_slices col col_ (g_Qw g) pc)) a b =
    gpix IM true (if pc then col + b <? col + col_ + 1 else (1 <=? b) && (b <=? col))
         (row - min row rmax + a) (if pc then col + b else col - b).
  Proof.
    intros Hh Hw HQ Ha Hb.
    unfold contrib, zip_region. cbn [fst snd]. rewrite Hh, Hw.
    replace (zn row - zn (min row rmax))%Z with (zn (row - min row rmax)) by (unfold zn; lia).
    replace (zn row + 1 + zn (min row_ rmax))%Z with (zn (row + 1 + min row_ rmax)) by (unfold zn; lia).
    change 0%Z with (zn 0). rewrite (slice_idx_fwd 0 (g_Qh g)) by lia.
    rewrite slice_idx_fwd by lia. rewrite pos_seq.
    replace ((0 <=? a) && (a <? 0 + (g_Qh g - 0))) with true by lia.
    rewrite nth_seq_lt by lia.
    destruct pc.
    - pose proof (axis_pos col col_ (g_Qw g) b Hb) as P2. cbv zeta in P2.
      destruct (pos b _) as [l|]; unfold gpix.
      + destruct P2 as [P2 ->]. replace (col + b <? col + col_ + 1) with true by lia.
        cbn [andb]. f_equal; lia.
      + replace (col + b <? col + col_ + 1) with false by lia. reflexivity.
    - pose proof (axis_neg col col_ (g_Qw g) b Hb) as P2. cbv zeta in P2.
      destruct (pos b _) as [l|]; unfold gpix.
      + destruct P2 as [P2 [P3 ->]]. replace ((1 <=? b) && (b <=? col)) with true by lia.
        cbn [andb]. f_equal; lia.
      + replace ((1 <=? b) && (b <=? col)) with false by lia. reflexivity.
  Qed.

  Theorem fold_spec_odd h w row col rmax N (IM : img) a b :
    row < h -> col < w ->
    let g := quad_geom h w row col rmax true N in
    a < g_Qh g -> b < g_Qw g ->
    px zero (fold_image zero add g IM) a b = spec_odd w row col (g_y0 g) IM a b.
  Proof.
    intros Hr Hc g Ha Hb.
    assert (Hh : g_h g = row + (h - 1 - row) + 1) by (unfold g; rewrite qg_h; lia).
    assert (Hw : g_w g = col + (w - 1 - col) + 1) by (unfold g; rewrite qg_w; lia).
    assert (HQ : g_Qh g = min row rmax + 1 + min (h - 1 - row) rmax) by (unfold g; apply qg_Qh).
    assert (Hy : g_y0 g = min row rmax) by (unfold g; apply qg_y0).
    assert (HQw : g_Qw g <= w) by (unfold g; rewrite qg_Qw; lia).
    unfold fold_image. destruct (g_fold g) eqn:Hf.
    - rewrite px_tab by assumption.
      pose proof (regions_odd h w row col rmax N) as HR. cbv zeta in HR. fold g in HR.
      rewrite (HR Hf). cbn [map fold_left].
      rewrite !(contrib_odd g IM row (h - 1 - row) rmax col (w - 1 - col)) by assumption.
      unfold spec_odd. rewrite Hy.
      replace (col + (w - 1 - col) + 1) with w by lia. reflexivity.
    - pose proof (flip_odd h w row col rmax N) as HF. cbv zeta in HF. fold g in HF.
      destruct (HF Hf) as [Hcol Hflip]. rewrite Hflip. cbn [fst snd].
      assert (Hgh : g_h g = h) by (unfold g; apply qg_h).
      assert (Hgw : g_w g = w) by (unfold g; apply qg_w).
      rewrite Hgh, Hgw, Hy.
      replace (zn row - zn (min row rmax))%Z with (zn (row - min row rmax)) by (unfold zn; lia).
      replace (zn (row - min row rmax) + zn (g_Qh g))%Z with (zn (row - min row rmax + g_Qh g)) by (unfold zn; lia).
      rewrite slice_idx_fwd by lia.
      assert (Ci : nth b (slice_idx (if Nat.eqb col 0 then Sl 0 (zn (g_Qw g)) 1
                                     else Sl (-1) (-1 - zn (g_Qw g)) (-1)) w) 0
                   = (if Nat.eqb col 0 then b else w - 1 - b) /\
                   length (slice_idx (if Nat.eqb col 0 then Sl 0 (zn (g_Qw g)) 1
                                      else Sl (-1) (-1 - zn (g_Qw g)) (-1)) w) = g_Qw g).
      { destruct (Nat.eqb col 0); [apply slice_idx_fwd0|apply slice_idx_rev_full]; assumption. }
      destruct Ci as [Ci Cl].
      rewrite px_map_map by (rewrite ?seq_length; lia). rewrite Ci, nth_seq_lt by lia.
      unfold spec_odd, gpix. cbn [andb].
      destruct (Nat.eqb_spec col 0) as [C0|C0].
      + replace ((1 <=? b) && (b <=? col)) with false by lia. replace (col + b <? w) with true by lia.
        rewrite !add_0_l. f_equal; lia.
      + destruct (Nat.eqb_spec b 0) as [B0|B0].
        * replace ((1 <=? b) && (b <=? col)) with false by lia. replace (col + b <? w) with true by lia.
          rewrite !add_0_l. f_equal; lia.
        * replace ((1 <=? b) && (b <=? col)) with true by lia. replace (col + b <? w) with false by lia.
          rewrite add_0_l, add_0_r. f_equal; lia.
  Qed.

  (* shape of the folded quadrant *)
  Lemma wf_fold_image h w row col rmax odd N (IM : img) :
    row < h -> col < w ->
    let g := quad_geom h w row col rmax odd N in
    wf (g_Qh g) (g_Qw g) (fold_image zero add g IM).
  Proof.
    intros Hr Hc g. unfold fold_image. destruct (g_fold g) eqn:Hf; [apply wf_tab|].
    assert (Hgh : g_h g = h) by (unfold g; apply qg_h).
    assert (Hgw : g_w g = w) by (unfold g; apply qg_w).
    assert (HQw : g_Qw g <= w) by (unfold g; rewrite qg_Qw; lia).
    assert (HQw1 : 1 <= g_Qw g) by (unfold g; rewrite qg_Qw; lia).
    assert (Cl : forall c, length (slice_idx (if Nat.eqb c 0 then Sl 0 (zn (g_Qw g)) 1
                                   else Sl (-1) (-1 - zn (g_Qw g)) (-1)) w) = g_Qw g).
    { intros c. destruct (Nat.eqb c 0);
        [apply (slice_idx_fwd0 (g_Qw g) w 0)|apply (slice_idx_rev_full (g_Qw g) w 0)]; lia. }
    destruct odd.
    - pose proof (flip_odd h w row col rmax N) as HF. cbv zeta in HF. fold g in HF.
      destruct (HF Hf) as [Hcol Hflip]. rewrite Hflip. cbn [fst snd]. rewrite Hgh, Hgw.
      assert (HQ : g_Qh g = min row rmax + 1 + min (h - 1 - row) rmax) by (unfold g; apply qg_Qh).
      assert (Hy : g_y0 g = min row rmax) by (unfold g; apply qg_y0).
      rewrite Hy.
      replace (zn row - zn (min row rmax))%Z with (zn (row - min row rmax)) by (unfold zn; lia).
      replace (zn (row - min row rmax) + zn (g_Qh g))%Z with (zn (row - min row rmax + g_Qh g)) by (unfold zn; lia).
      rewrite slice_idx_fwd by lia.
      replace (row - min row rmax + g_Qh g - (row - min row rmax)) with (g_Qh g) by lia.
      pose proof (wf_map_map A zero IM (seq (row - min row rmax) (g_Qh g))
                             (slice_idx (if Nat.eqb col 0 then Sl 0 (zn (g_Qw g)) 1
                                         else Sl (-1) (-1 - zn (g_Qw g)) (-1)) w)) as W.
      rewrite Cl, seq_length in W. exact W.
    - pose proof (flip_even h w row col rmax N) as HF. cbv zeta in HF. fold g in HF.
      destruct (HF Hf) as [Hrow [Hcol Hflip]]. rewrite Hflip. cbn [fst snd]. rewrite Hgh, Hgw.
      assert (HQh : g_Qh g <= h) by (unfold g; rewrite qg_Qh; lia).
      assert (HQh1 : 1 <= g_Qh g) by (unfold g; rewrite qg_Qh; lia).
      assert (Rl : length (slice_idx (if Nat.eqb row 0 then Sl 0 (zn (g_Qh g)) 1
                                      else Sl (-1) (-1 - zn (g_Qh g)) (-1)) h) = g_Qh g).
      { destruct (Nat.eqb row 0);
          [apply (slice_idx_fwd0 (g_Qh g) h 0)|apply (slice_idx_rev_full (g_Qh g) h 0)]; lia. }
      pose proof (wf_map_map A zero IM
                             (slice_idx (if Nat.eqb row 0 then Sl 0 (zn (g_Qh g)) 1
                                         else Sl (-1) (-1 - zn (g_Qh g)) (-1)) h)
                             (slice_idx (if Nat.eqb col 0 then Sl 0 (zn (g_Qw g)) 1
                                         else Sl (-1) (-1 - zn (g_Qw g)) (-1)) w)) as W.
      rewrite Cl, Rl in W. exact W.
  Qed.
End Regions.

(* ---- every image pixel of the window is used exactly once ------------------------ *)
(* the source pixel of each of the four guarded terms of spec_even *)
Definition src_even (h w row col : nat) (pr pc : bool) (a b : nat) : option (nat * nat) :=
  let gr := if pr then row + a <? h else (1 <=? a) && (a <=? row) in
  let gc := if pc then col + b <? w else (1 <=? b) && (b <=? col) in
  if gr && gc then Some (if pr then row + a else row - a, if pc then col + b else col - b) else None.

Theorem fold_once_even h w row col i j pr pc a b :
  row < h -> col < w -> i < h -> j < w ->
  (src_even h w row col pr pc a b = Some (i, j) <->
   a = dist i row /\ b = dist j col /\ pr = (row <=? i) /\ pc = (col <=? j)).
Proof.
  intros Hr Hc Hi Hj. unfold src_even, dist. split.
  - destruct pr, pc; cbv zeta;
      match goal with |- (if ?c then _ else _) = _ -> _ => destruct c eqn:E; [|discriminate] end;
      intros H; injection H as H1 H2;
      destruct (Nat.leb_spec i row); destruct (Nat.leb_spec j col);
      destruct (Nat.leb_spec row i); destruct (Nat.leb_spec col j); repeat split; try lia.
  - intros [-> [-> [-> ->]]]. cbv zeta.
    destruct (Nat.leb_spec row i); destruct (Nat.leb_spec col j);
    destruct (Nat.leb_spec i row); destruct (Nat.leb_spec j col); try lia;
      match goal with |- (if ?c then _ else _) = _ => replace c with true by lia end;
      f_equal; f_equal; lia.
Qed.

Definition src_odd (w row col y0 : nat) (pc : bool) (a b : nat) : option (nat * nat) :=
  let gc := if pc then col + b <? w else (1 <=? b) && (b <=? col) in
  if gc then Some (row - y0 + a, if pc then col + b else col - b) else None.

Theorem fold_once_odd w row col y0 i j pc a b :
  col < w -> j < w -> y0 <= row -> row - y0 <= i ->
  (src_odd w row col y0 pc a b = Some (i, j) <->
   a = i - (row - y0) /\ b = dist j col /\ pc = (col <=? j)).
Proof.
  intros Hc Hj Hy Hi. unfold src_odd, dist. split.
  - destruct pc; cbv zeta;
      match goal with |- (if ?c then _ else _) = _ -> _ => destruct c eqn:E; [|discriminate] end;
      intros H; injection H as H1 H2;
      destruct (Nat.leb_spec j col); destruct (Nat.leb_spec col j); repeat split; try lia.
  - intros [-> [-> ->]]. cbv zeta.
    destruct (Nat.leb_spec col j); destruct (Nat.leb_spec j col); try lia;
      match goal with |- (if ?c then _ else _) = _ => replace c with true by lia end;
      f_equal; f_equal; lia.
Qed.
